/-
  C20, getopts leg — helper lemmas (the property theorems are in `GetoptsTheorems.lean`).
  `W` is a structural walker (one argument at a time) used only in proofs: the index-driven loop
  around `next` computes it (`walkAll_eq_W`), and it does not see the difference between a vector and
  its separated spelling (`W_separate`).
-/
import YashModel.Args.Getopts
namespace YashModel.Args.Getopts

/-! ### a structural walker (one argument at a time), used only in proofs -/

abbrev EvV := Char × Option Str × Bool

def Ev.erase (e : Ev) : EvV := (e.var, e.optarg, e.diag)

/-- `reportOcc` without `$OPTIND` -/
def evOf (colon : Bool) (o : Occ) : EvV :=
  match o.error with
  | none => (o.option, o.argument, false)
  | some .unknownOption => if colon then ('?', some [o.option], false) else ('?', none, true)
  | some .missingArgument => if colon then (':', some [o.option], false) else ('?', none, true)

theorem erase_reportOcc (colon : Bool) (o : Occ) (p : Nat × Nat) : (reportOcc colon o p).erase = evOf colon o := by
  unfold reportOcc evOf Ev.erase
  cases o.error with
  | none => rfl
  | some e => cases e <;> cases colon <;> rfl

/-- the occurrence `classify` reports for letter `c` followed by `rem` in its group, `next` = the
    following command-line argument; and whether that argument was consumed -/
def occOf (spec : Str) (c : Char) (rem : Str) (next : Option Str) : Occ × Bool :=
  match judge spec c with
  | .unknown => (⟨c, none, some .unknownOption⟩, false)
  | .noArgument => (⟨c, none, none⟩, false)
  | .takesArgument =>
    if !rem.isEmpty then (⟨c, some rem, none⟩, false)
    else match next with
      | some a => (⟨c, some a, none⟩, true)
      | none => (⟨c, none, some .missingArgument⟩, false)

/-- does the walk of the group stop at `c` (its argument, if any, is the rest / the next argument)? -/
def stopsAt (spec : Str) (c : Char) : Bool := judge spec c == .takesArgument

/-- events of the letters of one group -/
def letters (spec : Str) (colon : Bool) (next : Option Str) : Str → List EvV × Bool
  | [] => ([], false)
  | c :: rem =>
    let (o, took) := occOf spec c rem next
    if stopsAt spec c then ([evOf colon o], took)
    else
      let (l, t) := letters spec colon next rem
      (evOf colon o :: l, t)

def prependE (l : List EvV) (r : List EvV × List Str) : List EvV × List Str := (l ++ r.1, r.2)

/-- the structural walker: events and remaining operands -/
def W (spec : Str) (colon : Bool) : List Str → List EvV × List Str
  | [] => ([], [])
  | a :: rest =>
    match a with
    | '-' :: c :: cs =>
      if (c :: cs) = ['-'] then ([], rest)
      else
        match letters spec colon rest.head? (c :: cs) with
        | (l, false) => prependE l (W spec colon rest)
        | (l, true) =>
          match rest with
          | [] => (l, [])
          | _ :: rest' => prependE l (W spec colon rest')
    | _ => ([], a :: rest)

theorem W_group (spec colon) (c : Char) (cs : Str) (rest : List Str) (h : (c :: cs) ≠ ['-']) :
    W spec colon (('-' :: c :: cs) :: rest) =
      prependE (letters spec colon rest.head? (c :: cs)).1
        (W spec colon (if (letters spec colon rest.head? (c :: cs)).2 then rest.tail else rest)) := by
  rw [W]
  simp only [h, if_false]
  cases hl : letters spec colon rest.head? (c :: cs) with
  | mk l t =>
    cases t with
    | false => simp
    | true =>
      cases rest with
      | nil => simp [W, prependE]
      | cons x rest' => simp


theorem classify_eq (spec : Str) (ai ci : Nat) (c : Char) (rem : Str) (following : List Str) :
    classify spec ai ci c rem following =
      if stopsAt spec c then
        ⟨some (occOf spec c rem following.head?).1, ai + 1 + (occOf spec c rem following.head?).2.toNat, 1⟩
      else if rem.isEmpty then ⟨some (occOf spec c rem following.head?).1, ai + 1, 1⟩
      else ⟨some (occOf spec c rem following.head?).1, ai, ci + 1⟩ := by
  unfold classify occOf stopsAt
  cases judge spec c <;> cases rem <;> cases following <;> simp

theorem next_at (spec : Str) (pre : List Str) (done : Str) (c : Char) (rem : Str) (following : List Str)
    (hne : done ++ c :: rem ≠ ['-']) :
    next (pre ++ ('-' :: (done ++ c :: rem)) :: following) spec (pre.length + 1) (done.length + 1) =
      classify spec (pre.length + 1) (done.length + 1) c rem following := by
  unfold next
  simp [hne]

def eraseR (r : List Ev × Option Nat) : List EvV × Option Nat := (r.1.map Ev.erase, r.2)

theorem walk_succ_some (spec : Str) (args : List Str) (fuel ai ci : Nat) (o : Occ) (na nc : Nat)
    (h : next args spec ai ci = ⟨some o, na, nc⟩) :
    eraseR (walk spec args (fuel + 1) ai ci) =
      (evOf (isColon spec) o :: (eraseR (walk spec args fuel na nc)).1, (eraseR (walk spec args fuel na nc)).2) := by
  simp only [walk, h, eraseR, List.map_cons, erase_reportOcc]

theorem walk_succ_none (spec : Str) (args : List Str) (fuel ai ci : Nat) (na nc : Nat)
    (h : next args spec ai ci = ⟨none, na, nc⟩) :
    eraseR (walk spec args (fuel + 1) ai ci) = ([], some na) := by
  simp only [walk, h, eraseR, List.map_nil]

theorem letters_cons (spec : Str) (colon : Bool) (next : Option Str) (c : Char) (rem : Str) :
    letters spec colon next (c :: rem) =
      if stopsAt spec c then ([evOf colon (occOf spec c rem next).1], (occOf spec c rem next).2)
      else (evOf colon (occOf spec c rem next).1 :: (letters spec colon next rem).1, (letters spec colon next rem).2) := by
  rw [letters]

theorem walk_group (spec : Str) (pre following : List Str) :
    ∀ (rem done : Str) (c : Char) (k : Nat), done ++ c :: rem ≠ ['-'] →
      eraseR (walk spec (pre ++ ('-' :: (done ++ c :: rem)) :: following)
          (k + (letters spec (isColon spec) following.head? (c :: rem)).1.length) (pre.length + 1) (done.length + 1)) =
        ((letters spec (isColon spec) following.head? (c :: rem)).1 ++
          (eraseR (walk spec (pre ++ ('-' :: (done ++ c :: rem)) :: following) k
            (pre.length + 2 + (letters spec (isColon spec) following.head? (c :: rem)).2.toNat) 1)).1,
         (eraseR (walk spec (pre ++ ('-' :: (done ++ c :: rem)) :: following) k
            (pre.length + 2 + (letters spec (isColon spec) following.head? (c :: rem)).2.toNat) 1)).2) := by
  intro rem
  induction rem with
  | nil =>
    intro done c k hne
    have hn := next_at spec pre done c [] following hne
    rw [classify_eq] at hn
    rw [letters_cons]
    by_cases hs : stopsAt spec c = true
    · simp only [hs, if_true] at hn ⊢
      have e : pre.length + 1 + 1 + (occOf spec c [] following.head?).2.toNat =
          pre.length + 2 + (occOf spec c [] following.head?).2.toNat := by omega
      rw [e] at hn
      simp only [List.length_singleton]
      rw [walk_succ_some _ _ _ _ _ _ _ _ hn]
      simp
    · simp only [hs] at hn ⊢
      simp only [Bool.false_eq_true, if_false, List.isEmpty_nil, if_true] at hn ⊢
      simp only [letters, List.length_singleton, Bool.toNat_false, Nat.add_zero]
      rw [walk_succ_some _ _ _ _ _ _ _ _ hn]
      simp
  | cons r0 rem' ih =>
    intro done c k hne
    have hn := next_at spec pre done c (r0 :: rem') following hne
    rw [classify_eq] at hn
    rw [letters_cons]
    by_cases hs : stopsAt spec c = true
    · simp only [hs, if_true] at hn ⊢
      have e : pre.length + 1 + 1 + (occOf spec c (r0 :: rem') following.head?).2.toNat =
          pre.length + 2 + (occOf spec c (r0 :: rem') following.head?).2.toNat := by omega
      rw [e] at hn
      simp only [List.length_singleton]
      rw [walk_succ_some _ _ _ _ _ _ _ _ hn]
      simp
    · simp only [hs] at hn ⊢
      simp only [Bool.false_eq_true, if_false, List.isEmpty_cons] at hn ⊢
      simp only [List.length_cons]
      rw [← Nat.add_assoc, walk_succ_some _ _ _ _ _ _ _ _ hn]
      have e1 : done ++ c :: r0 :: rem' = (done ++ [c]) ++ r0 :: rem' := by simp
      have e2 : done.length + 1 = (done ++ [c]).length := by simp
      have := ih (done ++ [c]) r0 k (by rw [← e1]; exact hne)
      rw [← e1, ← e2] at this
      rw [this]
      simp

theorem occOf_none (spec : Str) (c : Char) (rem : Str) : (occOf spec c rem none).2 = false := by
  unfold occOf
  cases judge spec c <;> simp
  split <;> rfl

theorem letters_none (spec : Str) (colon : Bool) (cs : Str) : (letters spec colon none cs).2 = false := by
  induction cs with
  | nil => rfl
  | cons c rem ih =>
    rw [letters_cons]
    split
    · exact occOf_none spec c rem
    · exact ih

theorem next_operand (spec : Str) (pre : List Str) (a : Str) (rest : List Str)
    (h : ∀ cs, a ≠ '-' :: cs) :
    next (pre ++ a :: rest) spec (pre.length + 1) 1 = ⟨none, pre.length + 1, 1⟩ := by
  unfold next
  simp only [Nat.add_sub_cancel, List.drop_left']
  rfl

theorem W_operand (spec : Str) (colon : Bool) (a : Str) (rest : List Str)
    (h : ∀ c cs, a ≠ '-' :: c :: cs) : W spec colon (a :: rest) = ([], a :: rest) := by
  unfold W
  split
  · rename_i c cs; exact absurd rfl (h c cs)
  · rfl

theorem walk_vector (spec : Str) : ∀ (n : Nat) (rest pre : List Str) (k : Nat), rest.length ≤ n →
    ∃ f, eraseR (walk spec (pre ++ rest) (k + (W spec (isColon spec) rest).1.length + 1) (pre.length + 1) 1) =
          ((W spec (isColon spec) rest).1, some f) ∧
        (pre ++ rest).drop (f - 1) = (W spec (isColon spec) rest).2 := by
  intro n
  induction n with
  | zero =>
    intro rest pre k hl
    have : rest = [] := List.eq_nil_of_length_eq_zero (Nat.le_zero.mp hl)
    subst this
    refine ⟨pre.length + 1, ?_, by simp [W]⟩
    exact walk_succ_none _ _ _ _ _ _ 1 (by simp [next, nonOption])
  | succ n ih =>
    intro rest pre k hl
    cases rest with
    | nil =>
      refine ⟨pre.length + 1, ?_, by simp [W]⟩
      exact walk_succ_none _ _ _ _ _ _ 1 (by simp [next, nonOption])
    | cons a rest' =>
      have operand : (∀ cs, a ≠ '-' :: cs) ∨ a = ['-'] →
          ∃ f, eraseR (walk spec (pre ++ a :: rest') (k + (W spec (isColon spec) (a :: rest')).1.length + 1) (pre.length + 1) 1) =
              ((W spec (isColon spec) (a :: rest')).1, some f) ∧
            (pre ++ a :: rest').drop (f - 1) = (W spec (isColon spec) (a :: rest')).2 := by
        intro hop
        have hw : W spec (isColon spec) (a :: rest') = ([], a :: rest') := by
          apply W_operand
          rcases hop with hop | rfl
          · intro c cs; exact hop (c :: cs)
          · intro c cs h; cases h
        refine ⟨pre.length + 1, ?_, by simp [hw]⟩
        rw [hw]
        rcases hop with hop | rfl
        · exact walk_succ_none _ _ _ _ _ _ 1 (next_operand spec pre a rest' hop)
        · exact walk_succ_none _ _ _ _ _ _ 1 (by simp [next, nonOption])
      cases a with
      | nil => exact operand (Or.inl (by intro cs h; cases h))
      | cons c0 t =>
        by_cases h0 : c0 = '-'
        · subst h0
          cases t with
          | nil => exact operand (Or.inr rfl)
          | cons c cs =>
            by_cases hdd : (c :: cs) = ['-']
            · refine ⟨pre.length + 2, ?_, by simp [W, hdd]⟩
              simp only [W, hdd, if_true]
              exact walk_succ_none _ _ _ _ _ _ 1 (by simp [next, nonOption])
            · rw [W_group spec _ c cs rest' hdd]
              simp only [prependE]
              have hg := walk_group spec pre rest' cs [] c
                (k + (W spec (isColon spec) (if (letters spec (isColon spec) rest'.head? (c :: cs)).2 then rest'.tail else rest')).1.length + 1)
                (by simpa using hdd)
              simp only [List.nil_append, List.length_nil, Nat.zero_add] at hg
              have efuel : k + ((letters spec (isColon spec) rest'.head? (c :: cs)).1 ++
                    (W spec (isColon spec) (if (letters spec (isColon spec) rest'.head? (c :: cs)).2 then rest'.tail else rest')).1).length + 1 =
                  k + (W spec (isColon spec) (if (letters spec (isColon spec) rest'.head? (c :: cs)).2 then rest'.tail else rest')).1.length + 1 +
                    (letters spec (isColon spec) rest'.head? (c :: cs)).1.length := by
                simp only [List.length_append]; omega
              rw [efuel, hg]
              cases ht : (letters spec (isColon spec) rest'.head? (c :: cs)).2 with
              | false =>
                simp only [Bool.false_eq_true, if_false, Bool.toNat_false, Nat.add_zero]
                obtain ⟨f, h1, h2⟩ := ih rest' (pre ++ ['-' :: c :: cs]) k (by simp at hl; omega)
                have e1 : pre ++ ['-' :: c :: cs] ++ rest' = pre ++ ('-' :: c :: cs) :: rest' := by simp
                have e2 : (pre ++ ['-' :: c :: cs]).length + 1 = pre.length + 2 := by simp
                rw [e1, e2] at h1
                rw [e1] at h2
                exact ⟨f, by rw [h1], h2⟩
              | true =>
                match rest', ht with
                | [], ht =>
                  rw [List.head?_nil, letters_none] at ht; cases ht
                | x :: rest'', ht =>
                  simp only [if_true, List.tail_cons, Bool.toNat_true]
                  obtain ⟨f, h1, h2⟩ := ih rest'' (pre ++ ['-' :: c :: cs, x]) k (by simp at hl; omega)
                  have e1 : pre ++ ['-' :: c :: cs, x] ++ rest'' = pre ++ ('-' :: c :: cs) :: x :: rest'' := by simp
                  have e2 : (pre ++ ['-' :: c :: cs, x]).length + 1 = pre.length + 2 + 1 := by simp
                  rw [e1, e2] at h1
                  rw [e1] at h2
                  exact ⟨f, by rw [h1], h2⟩

        · exact operand (Or.inl (by intro cs h; cases h; exact h0 rfl))

theorem letters_length (spec : Str) (colon : Bool) (next : Option Str) (cs : Str) :
    (letters spec colon next cs).1.length ≤ cs.length := by
  induction cs with
  | nil => simp [letters]
  | cons c rem ih =>
    rw [letters_cons]
    split
    · simp
    · simp only [List.length_cons]; omega

def sizeOf' (l : List Str) : Nat := (l.map (·.length + 1)).sum

theorem W_length (spec : Str) (colon : Bool) : ∀ (n : Nat) (l : List Str), l.length ≤ n →
    (W spec colon l).1.length ≤ sizeOf' l := by
  intro n
  induction n with
  | zero =>
    intro l hl
    have : l = [] := List.eq_nil_of_length_eq_zero (Nat.le_zero.mp hl)
    subst this; simp [W]
  | succ n ih =>
    intro l hl
    cases l with
    | nil => simp [W]
    | cons a rest =>
      by_cases hg : ∃ c cs, a = '-' :: c :: cs ∧ (c :: cs) ≠ ['-']
      · obtain ⟨c, cs, rfl, hdd⟩ := hg
        rw [W_group spec colon c cs rest hdd]
        simp only [prependE, List.length_append, sizeOf', List.map_cons, List.sum_cons, List.length_cons]
        have h1 := letters_length spec colon rest.head? (c :: cs)
        have h2 : (W spec colon (if (letters spec colon rest.head? (c :: cs)).2 then rest.tail else rest)).1.length
            ≤ sizeOf' rest := by
          split
          · cases rest with
            | nil => simp [W]
            | cons x rest' =>
              have := ih rest' (by simp at hl; omega)
              simp only [List.tail_cons, sizeOf', List.map_cons, List.sum_cons] at this ⊢
              omega
          · exact ih rest (by simp at hl; omega)
        simp only [sizeOf', List.length_cons] at h1 h2
        omega
      · have : (W spec colon (a :: rest)).1 = [] := by
          unfold W
          split
          · rename_i c cs
            split
            · rfl
            · rename_i hdd; exact absurd ⟨c, cs, rfl, hdd⟩ hg
          · rfl
        simp [this]

theorem walkAll_eq_W (spec : Str) (args : List Str) :
    obsOf args (walkAll spec args) = ((W spec (isColon spec) args).1, some (W spec (isColon spec) args).2) := by
  have hlen := W_length spec (isColon spec) args.length args (Nat.le_refl _)
  have hf : fuelFor args = (fuelFor args - ((W spec (isColon spec) args).1.length + 1)) +
      (W spec (isColon spec) args).1.length + 1 := by
    unfold fuelFor; unfold sizeOf' at hlen; omega
  obtain ⟨f, h1, h2⟩ := walk_vector spec args.length args [] _ (Nat.le_refl _)
  simp only [List.nil_append, List.length_nil, Nat.zero_add] at h1 h2
  unfold walkAll
  rw [hf]
  unfold obsOf
  unfold eraseR at h1
  have e1 := congrArg Prod.fst h1
  have e2 := congrArg Prod.snd h1
  simp only at e1 e2
  rw [e2]
  simp only [Option.map_some, h2]
  congr 1

/-! ### the separated spelling walks the same -/

theorem occOf_nonstop (spec : Str) (c : Char) (rem rem' : Str) (next next' : Option Str)
    (h : stopsAt spec c = false) : occOf spec c rem next = occOf spec c rem' next' := by
  unfold stopsAt at h
  unfold occOf
  cases hj : judge spec c <;> simp_all

theorem splitGroup_cons (spec : Str) (c : Char) (rem : Str) :
    splitGroup spec (c :: rem) =
      if stopsAt spec c then (if rem.isEmpty then ([['-', c]], true) else ([['-', c], rem], false))
      else (['-', c] :: (splitGroup spec rem).1, (splitGroup spec rem).2) := by
  rw [splitGroup]
  unfold stopsAt
  cases judge spec c <;> simp

/-- without a pending option-argument the group's events do not depend on what follows -/
theorem letters_not_pending (spec : Str) (colon : Bool) (n1 n2 : Option Str) (cs : Str)
    (h : (splitGroup spec cs).2 = false) :
    letters spec colon n1 cs = letters spec colon n2 cs ∧ (letters spec colon n1 cs).2 = false := by
  induction cs with
  | nil => exact ⟨rfl, rfl⟩
  | cons c rem ih =>
    rw [splitGroup_cons] at h
    rw [letters_cons, letters_cons]
    by_cases hs : stopsAt spec c = true
    · simp only [hs, if_true] at h ⊢
      cases rem with
      | nil => simp at h
      | cons r0 rem' => simp [stopsAt] at hs ⊢; simp [occOf, hs]
    · simp only [hs] at h ⊢
      have hs' : stopsAt spec c = false := by simpa using hs
      obtain ⟨h1, h2⟩ := ih h
      rw [occOf_nonstop spec c rem rem n1 n2 hs', h1]
      exact ⟨rfl, by rw [← h1]; exact h2⟩

/-- with a pending option-argument the next argument is taken -/
theorem letters_pending (spec : Str) (colon : Bool) (x : Str) (cs : Str)
    (h : (splitGroup spec cs).2 = true) : (letters spec colon (some x) cs).2 = true := by
  induction cs with
  | nil => simp [splitGroup] at h
  | cons c rem ih =>
    rw [splitGroup_cons] at h
    rw [letters_cons]
    by_cases hs : stopsAt spec c = true
    · simp only [hs, if_true] at h ⊢
      cases rem with
      | nil => simp [stopsAt] at hs ⊢; simp [occOf, hs]
      | cons r0 rem' => simp at h
    · simp only [hs] at h ⊢
      exact ih h

theorem W_parts (spec : Str) (colon : Bool) : ∀ (cs : Str) (tail : List Str), '-' ∉ cs →
    W spec colon ((splitGroup spec cs).1 ++ tail) =
      prependE (letters spec colon tail.head? cs).1
        (W spec colon (if (letters spec colon tail.head? cs).2 then tail.tail else tail)) := by
  intro cs
  induction cs with
  | nil => intro tail _; simp [splitGroup, letters, prependE]
  | cons c rem ih =>
    intro tail hd
    have hc : c ≠ '-' := fun h => hd (by simp [h])
    have hrem : '-' ∉ rem := fun h => hd (by simp [h])
    have hdd : [c] ≠ ['-'] := by intro h; cases h; exact hc rfl
    rw [splitGroup_cons, letters_cons]
    by_cases hs : stopsAt spec c = true
    · have hj : judge spec c = .takesArgument := by simpa [stopsAt] using hs
      simp only [hs, if_true]
      cases rem with
      | nil =>
        simp only [List.isEmpty_nil, if_true, List.singleton_append]
        rw [W_group spec colon c [] tail hdd, letters_cons]
        simp only [hs, if_true]
      | cons r0 rem' =>
        simp only [List.isEmpty_cons, Bool.false_eq_true, if_false, List.cons_append, List.nil_append]
        rw [W_group spec colon c [] _ hdd, letters_cons]
        simp only [hs, if_true, List.head?_cons, List.tail_cons]
        simp [occOf, hj]
    · have hs' : stopsAt spec c = false := by simpa using hs
      simp only [hs', Bool.false_eq_true, if_false, List.cons_append]
      rw [W_group spec colon c [] _ hdd, letters_cons]
      simp only [hs', Bool.false_eq_true, if_false, letters, ih tail hrem, prependE]
      rw [occOf_nonstop spec c [] rem _ tail.head? hs']
      simp

/-- the argument(s) `separate` writes for one group -/
def groupParts (spec : Str) (c : Char) (cs : Str) : List Str :=
  if (c :: cs).contains '-' then ['-' :: c :: cs] else (splitGroup spec (c :: cs)).1

theorem separate_group (spec : Str) (c : Char) (cs : Str) (rest : List Str) (hdd : (c :: cs) ≠ ['-']) :
    separate spec (('-' :: c :: cs) :: rest) =
      groupParts spec c cs ++
        (if (splitGroup spec (c :: cs)).2 then
          (match rest with
           | [] => []
           | x :: rest' => x :: separate spec rest')
         else separate spec rest) := by
  rw [separate]
  simp only [hdd, if_false, groupParts]
  by_cases hc : (c :: cs).contains '-' = true
  · simp only [hc, if_true]
    cases (splitGroup spec (c :: cs)).2 with
    | false => simp
    | true => cases rest <;> simp
  · simp only [hc]
    cases hp : (splitGroup spec (c :: cs)).2 with
    | false => simp [hp]
    | true => cases rest <;> simp [hp]

theorem W_groupParts (spec : Str) (colon : Bool) (c : Char) (cs : Str) (tail : List Str)
    (hdd : (c :: cs) ≠ ['-']) :
    W spec colon (groupParts spec c cs ++ tail) =
      prependE (letters spec colon tail.head? (c :: cs)).1
        (W spec colon (if (letters spec colon tail.head? (c :: cs)).2 then tail.tail else tail)) := by
  unfold groupParts
  by_cases hc : (c :: cs).contains '-' = true
  · simp only [hc, if_true, List.singleton_append]
    exact W_group spec colon c cs tail hdd
  · simp only [hc]
    exact W_parts spec colon (c :: cs) tail (by simpa using hc)

theorem W_separate (spec : Str) (colon : Bool) : ∀ (n : Nat) (l : List Str), l.length ≤ n →
    W spec colon (separate spec l) = W spec colon l := by
  intro n
  induction n with
  | zero =>
    intro l hl
    have : l = [] := List.eq_nil_of_length_eq_zero (Nat.le_zero.mp hl)
    subst this; rfl
  | succ n ih =>
    intro l hl
    cases l with
    | nil => rfl
    | cons a rest =>
      by_cases hg : ∃ c cs, a = '-' :: c :: cs ∧ (c :: cs) ≠ ['-']
      · obtain ⟨c, cs, rfl, hdd⟩ := hg
        rw [separate_group spec c cs rest hdd, W_groupParts spec colon c cs _ hdd, W_group spec colon c cs rest hdd]
        cases hp : (splitGroup spec (c :: cs)).2 with
        | true =>
          cases rest with
          | nil => simp [letters_none]
          | cons x rest' =>
            have ht := letters_pending spec colon x (c :: cs) hp
            simp only [if_true, List.head?_cons, ht, List.tail_cons]
            rw [ih rest' (by simp at hl; omega)]
        | false =>
          obtain ⟨h1, h2⟩ := letters_not_pending spec colon (separate spec rest).head? rest.head? (c :: cs) hp
          obtain ⟨_, h3⟩ := letters_not_pending spec colon rest.head? rest.head? (c :: cs) hp
          simp only [Bool.false_eq_true, if_false, h1, h3]
          rw [ih rest (by simp at hl; omega)]
      · have : separate spec (a :: rest) = a :: rest := by
          unfold separate
          split
          · rename_i c cs
            split
            · rfl
            · rename_i hdd; exact absurd ⟨c, cs, rfl, hdd⟩ hg
          · rfl
        rw [this]

/-- the Impl loop on the separated spelling and on the vector itself observe the same -/
theorem walk_separate (spec : Str) (args : List Str) :
    obsOf (separate spec args) (walkAll spec (separate spec args)) = obsOf args (walkAll spec args) := by
  rw [walkAll_eq_W, walkAll_eq_W, W_separate spec (isColon spec) args.length args (Nat.le_refl _)]
/-! ### `separate` really separates -/

/-- `judge spec c = takesArgument` -/
def takesArgB (spec : Str) (c : Char) : Bool := judge spec c == .takesArgument

/-- Is every group in option position a single letter (or a group with the letter `-`, which cannot be
    split), each option-argument an argument of its own?  This is what "fully separated" means. -/
def isSeparated (spec : Str) : List Str → Bool
  | [] => true
  | a :: rest =>
    match a with
    | '-' :: c :: cs =>
      if (c :: cs) = ['-'] then true
      else if (c :: cs).contains '-' then
        (if (splitGroup spec (c :: cs)).2 then
          (match rest with
           | [] => true
           | _ :: rest' => isSeparated spec rest')
         else isSeparated spec rest)
      else if cs.isEmpty then
        (if takesArgB spec c then
          (match rest with
           | [] => true
           | _ :: rest' => isSeparated spec rest')
         else isSeparated spec rest)
      else false
    | _ => true

/-- after one group: skip the option-argument if one is pending -/
def afterGroup (spec : Str) (pending : Bool) (tail : List Str) : Bool :=
  if pending then
    (match tail with
     | [] => true
     | _ :: t' => isSeparated spec t')
  else isSeparated spec tail

theorem isSeparated_single (spec : Str) (c : Char) (rest : List Str) (hc : c ≠ '-') :
    isSeparated spec (['-', c] :: rest) = afterGroup spec (takesArgB spec c) rest := by
  have h1 : ([c] : Str) ≠ ['-'] := by intro h; cases h; exact hc rfl
  have h2 : ([c] : Str).contains '-' = false := by simp; exact fun h => hc h.symm
  conv => lhs; unfold isSeparated
  simp only [h1, if_false, h2, Bool.false_eq_true, List.isEmpty_nil, if_true, afterGroup]

theorem splitGroup_parts_separated (spec : Str) : ∀ (cs : Str) (tail : List Str), '-' ∉ cs →
    isSeparated spec ((splitGroup spec cs).1 ++ tail) = afterGroup spec (splitGroup spec cs).2 tail := by
  intro cs
  induction cs with
  | nil => intro tail _; simp [splitGroup, afterGroup]
  | cons c cs ih =>
    intro tail hd
    have hc : c ≠ '-' := fun h => hd (by simp [h])
    have hcs : '-' ∉ cs := fun h => hd (by simp [h])
    rw [splitGroup_cons]
    by_cases hs : stopsAt spec c = true
    · have ht : takesArgB spec c = true := by simpa [stopsAt, takesArgB] using hs
      simp only [hs, if_true]
      cases cs with
      | nil =>
        simp only [List.isEmpty_nil, if_true, List.singleton_append]
        rw [isSeparated_single spec c tail hc, ht]
      | cons r0 cs' =>
        simp only [List.isEmpty_cons, Bool.false_eq_true, if_false, List.cons_append, List.nil_append]
        rw [isSeparated_single spec c _ hc, ht]
        simp [afterGroup]
    · have hs' : stopsAt spec c = false := by simpa using hs
      have ht : takesArgB spec c = false := by simpa [stopsAt, takesArgB] using hs'
      simp only [hs', Bool.false_eq_true, if_false, List.cons_append]
      rw [isSeparated_single spec c _ hc, ht]
      simp only [afterGroup, Bool.false_eq_true, if_false]
      rw [ih tail hcs]; rfl

theorem separate_isSeparated (spec : Str) : ∀ (n : Nat) (args : List Str), args.length ≤ n →
    isSeparated spec (separate spec args) = true := by
  intro n
  induction n with
  | zero =>
    intro args hl
    have : args = [] := List.eq_nil_of_length_eq_zero (Nat.le_zero.mp hl)
    subst this; rfl
  | succ n ih =>
    intro args hl
    cases args with
    | nil => rfl
    | cons a rest =>
      by_cases hg : ∃ c cs, a = '-' :: c :: cs ∧ (c :: cs) ≠ ['-']
      · obtain ⟨c, cs, rfl, hdd⟩ := hg
        rw [separate_group spec c cs rest hdd]
        -- what follows a group, whatever is written for the group itself
        have key : ∀ tail, isSeparated spec (groupParts spec c cs ++ tail) =
            afterGroup spec (splitGroup spec (c :: cs)).2 tail := by
          intro tail
          unfold groupParts
          by_cases hk : (c :: cs).contains '-' = true
          · simp only [hk, if_true, List.singleton_append]
            conv => lhs; unfold isSeparated
            simp only [hdd, if_false, hk, if_true, afterGroup]
          · simp only [hk]
            exact splitGroup_parts_separated spec (c :: cs) tail (by simpa using hk)
        rw [key]
        cases hp : (splitGroup spec (c :: cs)).2 with
        | true =>
          cases rest with
          | nil => rfl
          | cons x rest' =>
            simp only [if_true, afterGroup]
            exact ih rest' (by simp at hl; omega)
        | false =>
          simp only [Bool.false_eq_true, if_false, afterGroup]
          exact ih rest (by simp at hl; omega)
      · have : separate spec (a :: rest) = a :: rest := by
          unfold separate
          split
          · rename_i c cs
            split
            · rfl
            · rename_i hdd; exact absurd ⟨c, cs, rfl, hdd⟩ hg
          · rfl
        rw [this]
        unfold isSeparated
        split
        · rename_i c cs
          by_cases hdd : (c :: cs) = ['-']
          · simp [hdd]
          · exact absurd ⟨c, cs, rfl, hdd⟩ hg
        · rfl

end YashModel.Args.Getopts
