/-
  Impl model of `yash-builtin/src/common/syntax.rs`
  (`OptionSpec`, `Mode`, `parse_short_options`, `OptionSpec::long_match`, `long_match`,
  `parse_long_option`, `parse_arguments`).

  Import-free and executable.  Conventions:
  * a Rust `String`/`&str` is a `List Char` (`Str`).  The code only uses byte offsets that it
    obtained from `char_indices`/`find`, so every slice is at a character boundary; `len() == 0`
    and `long.len() == name.len()` (after `starts_with`) are the same on characters and on bytes.
    The one place where the byte length is observable is `OptionSpelling::Short(index)`, which is
    modelled with `Char.utf8Size`.
  * `Field.origin` / `OptionOccurrence.location` and the `Field` carried by every `ParseError`
    are dropped (results are compared modulo location); the error keeps its class, the option
    character and the spec(s) it names.
  * the `Peekable` argument iterator is the remaining list; a function that may call
    `arguments.next()` once receives the peeked head (`next : Option Str`) and reports whether it
    took it (`took : Bool`).
  * `&'a OptionSpec` is the spec value itself.
-/
namespace YashModel.Args

abbrev Str := List Char

/-- `OptionSpec` (`argument: OptionArgumentSpec` is `takesArg`: `Required` = true, `None` = false) -/
structure OptionSpec where
  short : Option Char := none
  long : Option Str := none
  takesArg : Bool := false
  extension : Bool := false
  deriving DecidableEq, Repr, Inhabited

/-- `Mode` -/
structure Mode where
  longOptionNames : Bool
  extensionOptions : Bool
  optionArgumentsInSameField : Bool
  deriving DecidableEq, Repr, Inhabited

/-- `Mode::default()` (what `Mode::with_env` gives under the `portable` shell option) -/
def Mode.portable : Mode := ⟨false, false, false⟩
/-- `Mode::with_extensions()` -/
def Mode.withExtensions : Mode := ⟨true, true, true⟩

/-- `OptionSpelling` (`Implied` is never produced by the parser) -/
inductive Spelling where
  | short (index : Nat)
  | long
  deriving DecidableEq, Repr, Inhabited

/-- `OptionOccurrence` without `location` -/
structure Occurrence where
  spec : OptionSpec
  spelling : Spelling
  argument : Option Str
  deriving DecidableEq, Repr, Inhabited

/-- `ParseError` without the `Field` -/
inductive ParseError where
  | unknownShort (c : Char)
  | unknownLong
  | nonPortableShort (c : Char) (spec : OptionSpec)
  | nonPortableLong (spec : OptionSpec)
  | ambiguousLong (specs : List OptionSpec)
  | missingArgument (spec : OptionSpec)
  | unseparatedArgument (spec : OptionSpec)
  | unexpectedArgument (spec : OptionSpec)
  deriving DecidableEq, Repr, Inhabited

/-- `starts_with_single_hyphen`: `-` followed by a character other than `-` -/
def startsWithSingleHyphen : Str → Bool
  | '-' :: c :: _ => c != '-'
  | _ => false

/-- `starts_with_double_hyphen`: `--` followed by at least one character -/
def startsWithDoubleHyphen : Str → Bool
  | '-' :: '-' :: _ :: _ => true
  | _ => false

/-- `option_specs.iter().find(|spec| spec.get_short() == Some(c))` -/
def findShort (specs : List OptionSpec) (c : Char) : Option OptionSpec :=
  specs.find? (fun s => s.short == some c)

/-- adds an occurrence in front of a successful result of the rest of the `while let` loop -/
def consOcc (o : Occurrence) : Except ParseError (List Occurrence × Bool) → Except ParseError (List Occurrence × Bool)
  | .ok (os, took) => .ok (o :: os, took)
  | .error e => .error e

/-- The `while let Some((index, c)) = chars.next()` loop of `parse_short_options` on the characters
    after the hyphen.  `next` is the peeked following argument; the Boolean of the result says
    whether it was consumed as the option-argument.  (The occurrences the Rust loop has already
    pushed when it fails are discarded with the `?` in `parse_arguments`.) -/
def shortLoop (specs : List OptionSpec) (mode : Mode) (next : Option Str) :
    Nat → Str → Except ParseError (List Occurrence × Bool)
  | _, [] => .ok ([], false)
  | idx, c :: rest =>
    match findShort specs c with
    | none => .error (.unknownShort c)
    | some spec =>
      if spec.extension && !mode.extensionOptions then .error (.nonPortableShort c spec)
      else if !spec.takesArg then
        consOcc ⟨spec, .short idx, none⟩ (shortLoop specs mode next (idx + c.utf8Size) rest)
      else if rest.isEmpty then
        match next with
        | none => .error (.missingArgument spec)
        | some a => .ok ([⟨spec, .short idx, some a⟩], true)
      else if !mode.optionArgumentsInSameField then .error (.unseparatedArgument spec)
      else .ok ([⟨spec, .short idx, some rest⟩], false)

inductive LongMatch where
  | no | part | exact
  deriving DecidableEq, Repr

/-- `OptionSpec::long_match` -/
def OptionSpec.longMatch (s : OptionSpec) (name : Str) : LongMatch :=
  match s.long with
  | some long =>
    if name.isPrefixOf long then
      (if long.length == name.length then .exact else .part)
    else .no
  | none => .no

/-- the `for spec in option_specs` loop of `long_match` with its `matches` vector -/
def longMatchGo (name : Str) : List OptionSpec → List OptionSpec → Except (List OptionSpec) OptionSpec
  | [], acc => match acc with
    | [s] => .ok s
    | _ => .error acc
  | s :: rest, acc =>
    match s.longMatch name with
    | .no => longMatchGo name rest acc
    | .part => longMatchGo name rest (acc ++ [s])
    | .exact => .ok s

/-- `long_match` -/
def longMatch (specs : List OptionSpec) (name : Str) : Except (List OptionSpec) OptionSpec :=
  longMatchGo name specs []

def isEq (c : Char) : Bool := c == '='
def notEq (c : Char) : Bool := c != '='

/-- `parse_long_option` on a field that `starts_with_double_hyphen`.
    `name = field[2..index of first '=']`; `tl` is empty when there is no `=`, otherwise `=` followed
    by the attached argument. -/
def parseLong (specs : List OptionSpec) (mode : Mode) (field : Str) (next : Option Str) :
    Except ParseError (Occurrence × Bool) :=
  let body := field.drop 2
  let name := body.takeWhile notEq
  let tl := body.dropWhile notEq
  match longMatch specs name with
  | .error ms => .error (if ms.isEmpty then .unknownLong else .ambiguousLong ms)
  | .ok spec =>
    if !(mode.longOptionNames && (mode.extensionOptions || !spec.extension)) then
      .error (.nonPortableLong spec)
    else if !spec.takesArg then
      (if tl.isEmpty then .ok (⟨spec, .long, none⟩, false) else .error (.unexpectedArgument spec))
    else if tl.isEmpty then
      match next with
      | none => .error (.missingArgument spec)
      | some a => .ok (⟨spec, .long, some a⟩, true)
    else .ok (⟨spec, .long, some (tl.drop 1)⟩, false)

/-- what one iteration of the `loop` in `parse_arguments` does with the head argument -/
inductive Step where
  /-- neither parser consumed anything: `break` -/
  | stop
  /-- option occurrences; `took` = the following argument was consumed as an option-argument -/
  | opts (os : List Occurrence) (took : Bool)
  | fail (e : ParseError)
  deriving Repr

def Step.ofShort : Except ParseError (List Occurrence × Bool) → Step
  | .error e => .fail e
  | .ok (os, took) => .opts os took

def Step.ofLong : Except ParseError (Occurrence × Bool) → Step
  | .error e => .fail e
  | .ok (o, took) => .opts [o] took

/-- one iteration: `parse_short_options`, else `parse_long_option`, else `break` -/
def step (specs : List OptionSpec) (mode : Mode) (a : Str) (next : Option Str) : Step :=
  if startsWithSingleHyphen a then
    Step.ofShort (shortLoop specs mode next 1 (a.drop 1))
  else if startsWithDoubleHyphen a then
    Step.ofLong (parseLong specs mode a next)
  else .stop

abbrev Parsed := Except ParseError (List Occurrence × List Str)

def prepend (os : List Occurrence) : Parsed → Parsed
  | .ok (os', rem) => .ok (os ++ os', rem)
  | .error e => .error e

/-- The `loop { … }` of `parse_arguments`: option occurrences and the arguments that remain at
    `break`. -/
def optLoop (specs : List OptionSpec) (mode : Mode) : List Str → Parsed
  | [] => .ok ([], [])
  | a :: rest =>
    match step specs mode a rest.head? with
    | .fail e => .error e
    | .stop => .ok ([], a :: rest)
    | .opts os false => prepend os (optLoop specs mode rest)
    | .opts os true =>
      match rest with
      | [] => .ok (os, [])   -- unreachable: `took` implies that there was a following argument
      | _ :: rest' => prepend os (optLoop specs mode rest')

def dashdash : Str := ['-', '-']

/-- `arguments.next_if(|argument| argument.value == "--")` -/
def skipSeparator : List Str → List Str
  | [] => []
  | a :: rest => if a = dashdash then rest else a :: rest

/-- what follows the loop: drop one `--`, the rest are the operands -/
def finish : Parsed → Parsed
  | .ok (os, rem) => .ok (os, skipSeparator rem)
  | .error e => .error e

/-- `parse_arguments` -/
def parseArguments (specs : List OptionSpec) (mode : Mode) (args : List Str) : Parsed :=
  finish (optLoop specs mode args)

/-! Results modulo spelling (and location, which the model does not have). -/

abbrev View := Except ParseError (List (OptionSpec × Option Str) × List Str)

def Occurrence.view (o : Occurrence) : OptionSpec × Option Str := (o.spec, o.argument)

def Parsed.view : Parsed → View
  | .ok (os, ops) => .ok (os.map Occurrence.view, ops)
  | .error e => .error e

end YashModel.Args
