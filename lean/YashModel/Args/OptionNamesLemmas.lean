/-
  C20 — lemmas about option-name resolution (`OptionNames.lean`); property theorems: `OptionNamesTheorems.lean`.
-/
import YashModel.Args.OptionNames
import YashModel.Generated.OptionNames
namespace YashModel.Args.OptionNames

theorem upper_bounds (c : Char) (h : isAsciiUpper c = true) : 65 ≤ c.toNat ∧ c.toNat ≤ 90 := by
  simp only [isAsciiUpper, Bool.and_eq_true, decide_eq_true_eq] at h
  have h1 : 'A'.val ≤ c.val := h.1
  have h2 : c.val ≤ 'Z'.val := h.2
  constructor
  · exact h1
  · exact h2

theorem ascii_upper_facts : ∀ n, n < 91 → 65 ≤ n →
    (Char.ofNat n).toNat < 128 ∧ isAsciiAlnum (Char.ofNat n) = true ∧
    (lowerAscii (Char.ofNat n)).toNat < 128 ∧ isAsciiAlnum (lowerAscii (Char.ofNat n)) = true ∧
    isAsciiUpper (lowerAscii (Char.ofNat n)) = false := by decide

theorem upper_facts (extra : List (Char × Bool)) (c : Char) (h : isAsciiUpper c = true) :
    isAlnum extra c = true ∧ isAlnum extra (lowerAscii c) = true ∧ isAsciiUpper (lowerAscii c) = false := by
  obtain ⟨h1, h2⟩ := upper_bounds c h
  have hc : c = Char.ofNat c.toNat := (Char.ofNat_toNat c).symm
  obtain ⟨f1, f2, f3, f4, f5⟩ := ascii_upper_facts c.toNat (by omega) h1
  rw [← hc] at f1 f2 f3 f4 f5
  refine ⟨?_, ?_, f5⟩
  · unfold isAlnum; rw [if_pos f1]; exact f2
  · unfold isAlnum; rw [if_pos f3]; exact f4

theorem lowerAscii_id (c : Char) (h : isAsciiUpper c = false) : lowerAscii c = c := by
  unfold lowerAscii; simp [h]

/-- the fast path of `canonicalize` agrees with the slow one: `canonicalize` *is* "keep the alphanumerics,
    fold ASCII case" -/
theorem canonicalize_eq_strip (extra : List (Char × Bool)) (name : Str) : canonicalize extra name = strip extra name := by
  unfold canonicalize
  split
  · rename_i h
    unfold strip
    induction name with
    | nil => rfl
    | cons c rest ih =>
      simp only [List.all_cons, Bool.and_eq_true] at h
      obtain ⟨⟨ha, hu⟩, hr⟩ := h
      have hu' : isAsciiUpper c = false := by simpa using hu
      simp only [List.filter_cons, ha, if_true, List.map_cons, lowerAscii_id c hu']
      rw [← ih hr]
  · rfl

theorem strip_append (extra : List (Char × Bool)) (a b : Str) : strip extra (a ++ b) = strip extra a ++ strip extra b := by
  simp [strip, List.filter_append]

/-- inserting a character that is not alphanumeric (ASCII or not: `-`, `_`, blank, `–`, `·` …) anywhere
    does not change the canonical name -/
theorem strip_insert_ignorable (extra : List (Char × Bool)) (pre post : Str) (c : Char) (h : isAlnum extra c = false) :
    strip extra (pre ++ c :: post) = strip extra (pre ++ post) := by
  rw [strip_append, strip_append]
  congr 1
  simp [strip, List.filter_cons, h]

/-- writing an ASCII letter in upper case does not change the canonical name -/
theorem strip_ascii_case (extra : List (Char × Bool)) (pre post : Str) (c : Char) (h : isAsciiUpper c = true) :
    strip extra (pre ++ c :: post) = strip extra (pre ++ lowerAscii c :: post) := by
  obtain ⟨h1, h2, h3⟩ := upper_facts extra c h
  rw [strip_append, strip_append]
  congr 1
  simp [strip, List.filter_cons, h1, h2, lowerAscii_id _ h3]

theorem mem_strip (extra : List (Char × Bool)) (name : Str) (c : Char) (hc : c ∈ name)
    (ha : isAlnum extra c = true) (hu : isAsciiUpper c = false) : c ∈ strip extra name := by
  unfold strip
  rw [List.mem_map]
  exact ⟨c, by simp [hc, ha], lowerAscii_id c hu⟩

theorem fromStr_foreign (table : List Str) (name : Str) (c : Char) (hc : c ∈ name) (ht : ∀ t ∈ table, c ∉ t) :
    fromStr table name = .noSuch := by
  unfold fromStr
  have h1 : table.contains name = false := by
    cases h : table.contains name with
    | false => rfl
    | true => exact absurd hc (ht name (by simpa using h))
  rw [h1]
  have h2 : table.filter (fun t => name.isPrefixOf t) = [] := by
    apply List.filter_eq_nil_iff.mpr
    intro t hmem hp
    have := (List.isPrefixOf_iff_prefix.mp hp).subset hc
    exact ht t hmem this
  simp [h2]

/-- a (canonical) name containing a character that occurs in no option name never matches — neither as it
    is nor with a `no` prefix removed -/
theorem parseLong_foreign (table : List Str) (name : Str) (c : Char) (hc : c ∈ name) (ht : ∀ t ∈ table, c ∉ t)
    (hn : c ≠ 'n') (ho : c ≠ 'o') : parseLong table name = .noSuch := by
  unfold parseLong
  have hp : name.isPrefixOf ['n', 'o'] = false := by
    cases h : name.isPrefixOf ['n', 'o'] with
    | false => rfl
    | true =>
      have := (List.isPrefixOf_iff_prefix.mp h).subset hc
      simp at this
      rcases this with h | h
      · exact absurd h hn
      · exact absurd h ho
  rw [hp]
  simp only [Bool.false_eq_true, if_false, fromStr_foreign table name c hc ht]
  cases hs : stripNo name with
  | none => rfl
  | some rest =>
    have hrest : c ∈ rest := by
      unfold stripNo at hs
      split at hs
      · rename_i r
        cases hs
        simp at hc
        rcases hc with h | h | h
        · exact absurd h hn
        · exact absurd h ho
        · exact h
      · cases hs
    simp only [fromStr_foreign table rest c hrest ht]

/-- every option name of the shell is written in lower-case ASCII letters (checked on the generated table) -/
theorem optionNames_ascii :
    (Generated.OptionNames.optionNames.all fun t => t.all fun c => 'a' ≤ c && c ≤ 'z') = true := by decide

/-- ★ a raw name with a non-ASCII alphanumeric character (é, ß, Ａ, ٣ …) names no option, however it is
    spelled otherwise (case, hyphens, underscores, blanks …): `errexité`, `err-exité`, `ERREXITé`, `x-é` are
    all unknown -/
theorem non_ascii_name_unknown (extra : List (Char × Bool)) (raw : Str) (c : Char) (hc : c ∈ raw)
    (hna : 128 ≤ c.toNat) (ha : isAlnum extra c = true) :
    resolve Generated.OptionNames.optionNames extra raw = .noSuch := by
  unfold resolve
  rw [canonicalize_eq_strip]
  have hu : isAsciiUpper c = false := by
    cases h : isAsciiUpper c with
    | false => rfl
    | true => have := (upper_bounds c h).2; omega
  have hmem := mem_strip extra raw c hc ha hu
  have hlow : ∀ d : Char, ('a' ≤ d && d ≤ 'z') = true → d.toNat ≤ 122 := by
    intro d hd
    simp only [Bool.and_eq_true, decide_eq_true_eq] at hd
    exact hd.2
  have ht : ∀ t ∈ Generated.OptionNames.optionNames, c ∉ t := by
    intro t hmt hct
    have := List.all_eq_true.mp optionNames_ascii t hmt
    have := hlow c (List.all_eq_true.mp this c hct)
    omega
  apply parseLong_foreign _ _ c hmem ht
  · intro h; subst h; simp at hna
  · intro h; subst h; simp at hna
end YashModel.Args.OptionNames
