/-
  C20 — lemmas: an error of `parse_arguments` comes from exactly one defective argument behind a prefix
  of accepted options (`step_fail_iff`, `optLoop_error_localised`).  Property theorem: `Theorems.lean`.
-/
import YashModel.Args.CanonLemmas
namespace YashModel.Args
open Spec

/-! ### where an error comes from -/

/-- The defect of one argument in option position, if it has one (`next` = the argument behind it):
    the error the reference parser's `cluster` / `longOpt` finds in it, or a missing option-argument. -/
def tokenDefect (specs : List OptionSpec) (mode : Mode) (a : Str) (next : Option Str) : Option ParseError :=
  let ofResult (R : Except ParseError (List Spec.Opt × Option OptionSpec)) : Option ParseError :=
    match R with
    | .error e => some e
    | .ok (_, some s) => if next.isNone then some (.missingArgument s) else none
    | .ok (_, none) => none
  match argKind a with
  | .stop => none
  | .long body => ofResult (Spec.longOpt specs mode body)
  | .cluster cs => ofResult (Spec.cluster specs mode cs)

theorem viewS_error {x : Except ParseError (List Occurrence × Bool)} {e : ParseError} (h : viewS x = .error e) :
    x = .error e := by
  cases x with
  | error e' => simpa [viewS] using h
  | ok q => cases q; simp [viewS] at h

theorem viewL_error {x : Except ParseError (Occurrence × Bool)} {e : ParseError} (h : viewL x = .error e) :
    x = .error e := by
  cases x with
  | error e' => simpa [viewL] using h
  | ok q => cases q; simp [viewL] at h

theorem resolveP_error (R) (next : Option Str) (e : ParseError) :
    resolveP R next = .error e ↔
      (match R with
       | .error e' => some e'
       | .ok (_, some s) => if next.isNone then some (.missingArgument s) else none
       | .ok (_, none) => none) = some e := by
  cases R with
  | error e' => simp [resolveP]
  | ok q =>
    obtain ⟨os, p⟩ := q
    cases p with
    | none => simp [resolveP]
    | some s => cases next <;> simp [resolveP]

/-- the Impl's step fails with `e` exactly when the token has the defect `e` -/
theorem step_fail_iff (specs : List OptionSpec) (mode : Mode) (a : Str) (next : Option Str) (e : ParseError) :
    step specs mode a next = .fail e ↔ tokenDefect specs mode a next = some e := by
  unfold tokenDefect
  cases hk : argKind a with
  | stop =>
    have h1 : startsWithSingleHyphen a = false ∧ startsWithDoubleHyphen a = false := by
      unfold argKind at hk
      split at hk
      · rename_i c cs
        split at hk
        · rename_i hc
          split at hk
          · rename_i he; subst hc
            have : cs = [] := by simpa using he
            subst this; exact ⟨rfl, rfl⟩
          · cases hk
        · cases hk
      · rename_i hno
        constructor
        · unfold startsWithSingleHyphen; split
          · rename_i c t; exact absurd rfl (hno c t)
          · rfl
        · unfold startsWithDoubleHyphen; split
          · rename_i c t; exact absurd rfl (hno '-' (c :: t))
          · rfl
    rw [step_stop _ _ _ _ h1.1 h1.2]; simp
  | long body =>
    obtain ⟨c, b, rfl, rfl⟩ := argKind_long a body hk
    rw [step_long _ _ _ _ (by simp [startsWithSingleHyphen]) rfl]
    simp only []
    rw [← resolveP_error, ← longOpt_parseLong]
    constructor
    · intro h
      cases hp : parseLong specs mode ('-' :: '-' :: c :: b) next with
      | error e' => rw [hp] at h; simp [Step.ofLong] at h; simp [viewL, h]
      | ok q => rw [hp] at h; cases q; simp [Step.ofLong] at h
    · intro h
      rw [viewL_error h]; rfl
  | cluster cs =>
    obtain ⟨c, cs', rfl, rfl, hc⟩ := argKind_cluster a cs hk
    rw [step_short _ _ _ _ (by simp [startsWithSingleHyphen, hc])]
    simp only [List.drop_succ_cons, List.drop_zero]
    rw [← resolveP_error, ← cluster_shortLoop specs mode next (c :: cs') 1]
    constructor
    · intro h
      cases hp : shortLoop specs mode next 1 (c :: cs') with
      | error e' => rw [hp] at h; simp [Step.ofShort] at h; simp [viewS, h]
      | ok q => rw [hp] at h; cases q; simp [Step.ofShort] at h
    · intro h
      rw [viewS_error h]; rfl

theorem consOcc_ok (o : Occurrence) (x) (os : List Occurrence) (t : Bool) (h : consOcc o x = .ok (os, t)) :
    ∃ os', x = .ok (os', t) ∧ os = o :: os' := by
  cases x with
  | error e => simp [consOcc] at h
  | ok q => obtain ⟨os', t'⟩ := q; simp [consOcc] at h; exact ⟨os', by rw [h.2], h.1.symm⟩

theorem shortLoop_notook (specs : List OptionSpec) (mode : Mode) (n1 n2 : Option Str) :
    ∀ (cs : Str) (i : Nat) (os : List Occurrence),
      shortLoop specs mode n1 i cs = .ok (os, false) → shortLoop specs mode n2 i cs = .ok (os, false) := by
  intro cs
  induction cs with
  | nil => intro i os h; simpa [shortLoop] using h
  | cons c rest ih =>
    intro i os h
    simp only [shortLoop] at h ⊢
    cases hf : findShort specs c with
    | none => simp [hf] at h
    | some s =>
      simp only [hf] at h ⊢
      split at h
      · cases h
      · rename_i h1
        simp only [h1]
        split at h
        · rename_i h2
          simp only [h2]
          obtain ⟨os', hx, rfl⟩ := consOcc_ok _ _ _ _ h
          rw [ih _ _ hx]; rfl
        · rename_i h2
          simp only [h2]
          split at h
          · rename_i h3
            cases n1 <;> simp at h
          · rename_i h3
            simp only [h3]
            exact h

theorem parseLong_notook (specs : List OptionSpec) (mode : Mode) (a : Str) (n1 n2 : Option Str) (o : Occurrence)
    (h : parseLong specs mode a n1 = .ok (o, false)) : parseLong specs mode a n2 = .ok (o, false) := by
  simp only [parseLong] at h ⊢
  cases hm : longMatch specs (List.takeWhile notEq (List.drop 2 a)) with
  | error ms => simp [hm] at h
  | ok s =>
    simp only [hm] at h ⊢
    by_cases hb : (!(mode.longOptionNames && (mode.extensionOptions || !s.extension))) = true
    · rw [if_pos hb] at h; cases h
    · rw [if_neg hb] at h ⊢
      by_cases ha : (!s.takesArg) = true
      · rw [if_pos ha] at h ⊢; exact h
      · rw [if_neg ha] at h ⊢
        by_cases ht : (List.dropWhile notEq (List.drop 2 a)).isEmpty = true
        · rw [if_pos ht] at h; cases n1 <;> simp at h
        · rw [if_neg ht] at h ⊢; exact h

theorem step_notook (specs : List OptionSpec) (mode : Mode) (a : Str) (n1 n2 : Option Str) (os : List Occurrence)
    (h : step specs mode a n1 = .opts os false) : step specs mode a n2 = .opts os false := by
  by_cases h1 : startsWithSingleHyphen a = true
  · rw [step_short _ _ _ _ h1] at h ⊢
    cases hs : shortLoop specs mode n1 1 (a.drop 1) with
    | error e => rw [hs] at h; simp [Step.ofShort] at h
    | ok q =>
      obtain ⟨os', t⟩ := q
      rw [hs] at h; simp [Step.ofShort] at h
      obtain ⟨rfl, rfl⟩ := h
      rw [shortLoop_notook specs mode n1 n2 _ _ _ hs]; rfl
  · have h1' : startsWithSingleHyphen a = false := by simpa using h1
    by_cases h2 : startsWithDoubleHyphen a = true
    · rw [step_long _ _ _ _ h1' h2] at h ⊢
      cases hs : parseLong specs mode a n1 with
      | error e => rw [hs] at h; simp [Step.ofLong] at h
      | ok q =>
        obtain ⟨o, t⟩ := q
        rw [hs] at h; simp [Step.ofLong] at h
        obtain ⟨rfl, rfl⟩ := h
        rw [parseLong_notook specs mode a n1 n2 o hs]; rfl
    · rw [step_stop _ _ _ _ h1' (by simpa using h2)] at h; cases h

theorem prepend_error_iff (os : List Occurrence) (r : Parsed) (e : ParseError) :
    prepend os r = .error e ↔ r = .error e := by
  cases r with
  | error e' => simp [prepend]
  | ok q => cases q; simp [prepend]

/-- an error of the loop comes from one defective argument behind a prefix of accepted options -/
theorem optLoop_error_localised (specs : List OptionSpec) (mode : Mode) : ∀ (n : Nat) (args : List Str) (e : ParseError),
    args.length ≤ n → optLoop specs mode args = .error e →
    ∃ pre a r os, args = pre ++ a :: r ∧ optLoop specs mode pre = .ok (os, []) ∧
      tokenDefect specs mode a r.head? = some e := by
  intro n
  induction n with
  | zero =>
    intro args e hl h
    have : args = [] := List.eq_nil_of_length_eq_zero (Nat.le_zero.mp hl)
    subst this; simp [optLoop] at h
  | succ n ih =>
    intro args e hl h
    cases args with
    | nil => simp [optLoop] at h
    | cons a rest =>
      rw [optLoop_cons] at h
      cases hs : step specs mode a rest.head? with
      | fail e' =>
        rw [hs] at h
        simp at h; subst h
        exact ⟨[], a, rest, [], rfl, rfl, (step_fail_iff specs mode a rest.head? e').mp hs⟩
      | stop => rw [hs] at h; cases h
      | opts os1 took =>
        rw [hs] at h
        simp only [] at h
        rw [prepend_error_iff] at h
        cases took with
        | false =>
          simp only [Bool.false_eq_true, if_false] at h
          obtain ⟨pre', a', r', os', hsplit, hpre, hdef⟩ := ih rest e (by simp at hl; omega) h
          refine ⟨a :: pre', a', r', os1 ++ os', by rw [hsplit]; rfl, ?_, hdef⟩
          rw [optLoop_cons, step_notook specs mode a rest.head? pre'.head? os1 hs]
          simp [hpre, prepend]
        | true =>
          cases rest with
          | nil => simp [optLoop] at h
          | cons x rest' =>
            simp only [if_true, List.tail_cons] at h
            obtain ⟨pre', a', r', os', hsplit, hpre, hdef⟩ := ih rest' e (by simp at hl; omega) h
            refine ⟨a :: x :: pre', a', r', os1 ++ os', by rw [hsplit]; rfl, ?_, hdef⟩
            rw [optLoop_cons]
            simp only [List.head?_cons] at hs ⊢
            rw [hs]
            simp [hpre, prepend]
end YashModel.Args
