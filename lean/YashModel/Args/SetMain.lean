/-
  C20 — Impl model of what the `set` built-in does with its parse result:
  `yash-builtin/src/set.rs` `main` and `modify` (the part that touches the option set and the positional
  parameters), on top of the model of `set/syntax.rs` `parse` (`Bespoke.setParse`).

  Import-free and executable.  The shell environment is reduced to what `set` reads and writes:
  the state of every option (`env.options`, listed in `Option::iter()` order) and the positional
  parameters.  Not modelled: the job-control re-initialisation after a change of `monitor`
  (`update_internal_dispositions_for_stoppers`, `ensure_foreground` — errors ignored by the code), the
  variable listing of `set` without arguments (its text depends on the variables; only "something is
  printed" is kept), the text of the diagnostic (`report_error`: its presence and the exit status
  `ExitStatus::ERROR` = 2 are kept).

  The finite tables of `yash_env::option` the parser asks for (`parse_short`, `is_modifiable`,
  `portable_short_name`, `portable_long_name`) are re-extracted from yash-env/src/option.rs on every
  run (`Generated/OptionNames.lean`); `tableNames` packs them into the `Names` parameter of the parser
  models, so that only the long-name resolution stays a parameter here (it is modelled in
  `Args/OptionNames.lean` and filled in by the driver).
-/
import YashModel.Args.Bespoke
import YashModel.Generated.OptionNames
namespace YashModel.Args.Bespoke

/-! ## the tables of yash_env::option as a `Names` value -/

/-- per-option information from the generated tables -/
def tableInfo (unmod : List Str) (ps : List (Str × Char × Bool)) (pl : List (Str × Str × Bool)) (o : Str) : OptInfo :=
  { modifiable := !unmod.contains o
    portShort := (ps.find? (fun e => e.1 == o)).map (·.2)
    portLong := (pl.find? (fun e => e.1 == o)).map (·.2) }

/-- `Names` from the generated tables of yash-env/src/option.rs; `long` = the long-name answers -/
def tableNames (long : List (Str × LongRes)) : Names where
  short := Generated.OptionNames.shortNames
  long := long
  info := Generated.OptionNames.optionNames.map fun o =>
    (o, tableInfo Generated.OptionNames.unmodifiable Generated.OptionNames.portableShort
      Generated.OptionNames.portableLong o)

/-! ## `set.rs` -/

/-- `env.options`: option (by long name) and its state, one entry per option in `Option::iter()` order -/
abbrev OptStates := List (Str × Bool)

/-- `OptionSet::get` -/
def getOpt (s : OptStates) (o : Str) : Bool :=
  match s.find? (fun e => e.1 == o) with
  | some e => e.2
  | none => false

/-- `OptionSet::set` -/
def setOpt (s : OptStates) (o : Str) (st : Bool) : OptStates :=
  if s.any (fun e => e.1 == o) then s.map fun e => if e.1 == o then (e.1, st) else e
  else s ++ [(o, st)]

/-- the part of `Env` the built-in reads and writes -/
structure SetEnv where
  options : OptStates
  params : List Str
  deriving DecidableEq, Repr

/-- the `for (option, state) in options { env.options.set(option, state) }` loop of `modify` -/
def applyOptions (s : OptStates) : List (Str × Bool) → OptStates
  | [] => s
  | (o, st) :: rest => applyOptions (setOpt s o st) rest

/-- `modify`: the options in order, then the positional parameters if any were given -/
def modify (env : SetEnv) (os : List (Str × Bool)) (ps : Option (List Str)) : SetEnv :=
  { options := applyOptions env.options os
    params := match ps with | some l => l | none => env.params }

/-- what reaches standard output -/
inductive SetOut where
  | nothing
  /-- `set` without arguments: the variables (text not modelled) -/
  | variables
  | text (s : Str)
  deriving DecidableEq, Repr

/-- what an invocation leaves behind: environment, exit status, whether a diagnostic was printed, output -/
structure SetResult where
  env : SetEnv
  status : Nat
  diag : Bool
  out : SetOut
  deriving DecidableEq, Repr

def padTo (n : Nat) (s : Str) : Str := s ++ List.replicate (n - s.length) ' '

def stateWord (b : Bool) : Str := if b then ['o', 'n'] else ['o', 'f', 'f']

/-- `Command::PrintOptionsHumanReadable`: `{option:16} {state}` per option -/
def printHuman (s : OptStates) : Str :=
  s.flatMap fun e => padTo 16 e.1 ++ ' ' :: stateWord e.2 ++ ['\n']

/-- `Command::PrintOptionsMachineReadable`: `set +o portable` first, every other option (commented out
    when not modifiable), `set -o portable` last if it is on -/
def printMachine (nm : Names) (s : OptStates) : Str :=
  "set +o ".toList ++ portableOpt ++ ['\n'] ++
  ((s.filter fun e => e.1 != portableOpt).flatMap fun e =>
    (if (nm.infoOf e.1).modifiable then [] else ['#']) ++ "set ".toList ++ [if e.2 then '-' else '+'] ++
      'o' :: ' ' :: e.1 ++ ['\n']) ++
  (if getOpt s portableOpt then "set -o ".toList ++ portableOpt ++ ['\n'] else [])

/-- `set::main` -/
def setMain (nm : Names) (env : SetEnv) (args : List Str) : SetResult :=
  match setParse nm (getOpt env.options portableOpt) args with
  | .ok .printVariables => { env := env, status := 0, diag := false, out := .variables }
  | .ok .printHuman => { env := env, status := 0, diag := false, out := .text (printHuman env.options) }
  | .ok .printMachine => { env := env, status := 0, diag := false, out := .text (printMachine nm env.options) }
  | .ok (.modify os ps) => { env := modify env os ps, status := 0, diag := false, out := .nothing }
  | .error _ => { env := env, status := 2, diag := true, out := .nothing }

end YashModel.Args.Bespoke
