/-
  C20 — what a built-in's `syntax.rs` does AFTER `parse_arguments`, transcribed for four built-ins the audit classifies
  as "common parser":

    yash-builtin/src/cd/syntax.rs `parse`       (`-e` needs `-P`, at most one operand, no empty operand)
    yash-builtin/src/pwd/syntax.rs `parse`      (no operand; the last of `-L` / `-P` wins)
    yash-builtin/src/unset/syntax.rs `parse`    (`-f` and `-v` exclude each other; under `portable` a name is required)
    yash-builtin/src/unalias/syntax.rs `parse`  (`-a` xor operands, one of them required)

  Each reads the occurrences only through `spec.get_short()` (never the spelling: `spelling_readers_audited`), so it is
  transcribed as a function of the VIEW of the parse (spec + argument per occurrence, operands).  `Mode::with_env(env)`
  is `Mode.portable` when the `portable` option is on, `Mode.withExtensions` otherwise.  Locations are dropped: an
  error keeps its class (and the operands it names).  The tables are the re-extracted ones.  Import-free, executable.
-/
import YashModel.Args.Model
import YashModel.Generated.ArgSpecs
namespace YashModel.Args.Post
open YashModel.Args

abbrev Occs := List (OptionSpec × Option Str)

def ofRow (r : Option Char × Option (List Char) × Bool × Bool) : OptionSpec :=
  { short := r.1, long := r.2.1, takesArg := r.2.2.1, extension := r.2.2.2 }

def cdSpecs : List OptionSpec := Generated.ArgSpecs.specs_cd.map ofRow
def pwdSpecs : List OptionSpec := Generated.ArgSpecs.specs_pwd.map ofRow
def unsetSpecs : List OptionSpec := Generated.ArgSpecs.specs_unset.map ofRow
def unaliasSpecs : List OptionSpec := Generated.ArgSpecs.specs_unalias.map ofRow

/-- `Mode::with_env` -/
def modeOf (portable : Bool) : Mode := if portable then Mode.portable else Mode.withExtensions

def hasShort (c : Char) (o : OptionSpec × Option Str) : Bool := o.1.short == some c

/-! ## cd -/

structure CdCmd where
  physical : Bool
  ensurePwd : Bool
  operand : Option Str
  deriving DecidableEq, Repr

inductive CdErr where
  | common (e : ParseError)
  | ensurePwdNotPhysical
  | emptyOperand
  | unexpectedOperands (ops : List Str)
  deriving DecidableEq, Repr

/-- the `for option in options` loop: (an `-e` was seen, the mode = the last of `-L` / `-P`) -/
def cdScan : Occs → Bool × Bool → Bool × Bool
  | [], st => st
  | o :: os, (e, phys) =>
    if hasShort 'e' o then cdScan os (true, phys)
    else if hasShort 'L' o then cdScan os (e, false)
    else if hasShort 'P' o then cdScan os (e, true)
    else cdScan os (e, phys)

def cdPost (v : Occs × List Str) : Except CdErr CdCmd :=
  let (e, phys) := cdScan v.1 (false, false)
  if e ∧ !phys then .error .ensurePwdNotPhysical
  else
    match v.2 with
    | [] => .ok ⟨phys, e, none⟩
    | op :: more =>
      if !more.isEmpty then .error (.unexpectedOperands more)
      else if op.isEmpty then .error .emptyOperand
      else .ok ⟨phys, e, some op⟩

def cdParse (portable : Bool) (args : List Str) : Except CdErr CdCmd :=
  match (parseArguments cdSpecs (modeOf portable) args).view with
  | .error e => .error (.common e)
  | .ok v => cdPost v

/-! ## pwd -/

inductive PwdErr where
  | common (e : ParseError)
  | unexpectedOperands (ops : List Str)
  deriving DecidableEq, Repr

/-- `Ok(physical)` -/
def pwdPost (v : Occs × List Str) : Except PwdErr Bool :=
  if !v.2.isEmpty then .error (.unexpectedOperands v.2)
  else match v.1.getLast? with
    | some o => .ok (hasShort 'P' o)
    | none => .ok false

def pwdParse (portable : Bool) (args : List Str) : Except PwdErr Bool :=
  match (parseArguments pwdSpecs (modeOf portable) args).view with
  | .error e => .error (.common e)
  | .ok v => pwdPost v

/-! ## unset -/

inductive UnsetErr where
  | common (e : ParseError)
  | conflictingOption
  | missingOperand
  deriving DecidableEq, Repr

/-- `Command { mode, names }` (`functions` = `Mode::Functions`) -/
structure UnsetCmd where
  functions : Bool
  names : List Str
  deriving DecidableEq, Repr

def unsetPost (portable : Bool) (v : Occs × List Str) : Except UnsetErr UnsetCmd :=
  let f := v.1.any (hasShort 'f')
  let vv := v.1.any (hasShort 'v')
  if f ∧ vv then .error .conflictingOption
  else if v.2.isEmpty ∧ portable then .error .missingOperand
  else .ok ⟨f, v.2⟩

def unsetParse (portable : Bool) (args : List Str) : Except UnsetErr UnsetCmd :=
  match (parseArguments unsetSpecs (modeOf portable) args).view with
  | .error e => .error (.common e)
  | .ok v => unsetPost portable v

/-! ## unalias -/

inductive UnaliasErr where
  | common (e : ParseError)
  | conflictingOptionAndOperand
  | missingArgument
  deriving DecidableEq, Repr

inductive UnaliasCmd where
  | remove (names : List Str)
  | removeAll
  deriving DecidableEq, Repr

def unaliasPost (v : Occs × List Str) : Except UnaliasErr UnaliasCmd :=
  match v.1.getLast?, v.2.isEmpty with
  | none, true => .error .missingArgument
  | none, false => .ok (.remove v.2)
  | some _, true => .ok .removeAll
  | some _, false => .error .conflictingOptionAndOperand

def unaliasParse (portable : Bool) (args : List Str) : Except UnaliasErr UnaliasCmd :=
  match (parseArguments unaliasSpecs (modeOf portable) args).view with
  | .error e => .error (.common e)
  | .ok v => unaliasPost v

end YashModel.Args.Post
