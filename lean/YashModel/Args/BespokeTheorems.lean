/-
  C20 — property theorems (and non-vacuity examples) ONLY, for the bespoke parsers.

  Clause of the property: "grouped short options mean the same as separate ones, an option-argument
  attached to its option or given as the next argument is the same, … a long option … Equivalent
  spellings of an invocation have identical output, exit status and effect".  `set`
  (yash-builtin/src/set/syntax.rs: `-o name`, `+o name`, `--name`, `++name`, `--`, `-`), the shell's own
  command line (yash-cli/src/startup/args.rs) and `kill` (yash-builtin/src/kill/syntax.rs: `-s SIG`, `-n NUM`,
  `-SIG`, `-l`, `-v`) have parsers of their own.
-/
import YashModel.Args.BespokeLemmas
namespace YashModel.Args.Bespoke

/-- ★ `set`: for every answer table of `yash_env::option` that never yields the `portable` option
    (under `portable` the attached and long forms are rejected by design) and every argument vector,
    the vector and its fully separated spelling — every cluster `-xyz` / `+xyz` split into single
    letters, `-oNAME` written `-o NAME`, `--NAME` written `-o NAME`, `++NAME` written `+o NAME` — parse
    to the same command: the same options with the same states in the same order, the same
    positional parameters, or the same error. -/
theorem set_separated_same (nm : Names) (h : NoPortable nm) (args : List Str) :
    setParse nm false (separateSO true args) = setParse nm false args :=
  setParse_separate nm h args

/-- two vectors with the same separated spelling parse alike (`-eu` / `-e -u` / `-ue`… are covered by
    instantiating this) -/
theorem set_same_separated_same_parse (nm : Names) (h : NoPortable nm) (a b : List Str)
    (hab : separateSO true a = separateSO true b) : setParse nm false a = setParse nm false b := by
  rw [← set_separated_same nm h a, ← set_separated_same nm h b, hab]

/-- ★ The shell's own command line (yash-cli/src/startup/args.rs): every cluster `-xyz` / `+xyz` of the
    arguments behind `argv[0]` may be written as single letters, and `-oNAME` as `-o NAME`, without
    changing the result of `parse` — the same `Run` (source, init files, options in order, `arg0`,
    positional parameters), `Help` / `Version`, or the same error.  (Long options are left alone: the
    command line has `--profile=…`, `--help`, … besides the shell options.) -/
theorem sh_separated_same (nm : Names) (h : NoPortable nm) (arg0 : Str) (args : List Str) :
    shParse nm (arg0 :: separateSO false args) = shParse nm (arg0 :: args) :=
  shParse_separate nm h arg0 args

/-- ★ `kill` (while `portable` is off): `-lv` ≡ `-l -v`; `-sX` ≡ `-s X` and `-nX` ≡ `-n X` whenever `X` is a
    signal specification; `-X` ≡ `-s X` whenever the whole `X` is one (`-INT`, `-9`, `-sigint`); for every
    `str2sig` table, every initial signal and every vector — the same `Send` / `Print` command or the
    same error. -/
theorem kill_separated_same (nm : Names) (sigterm : Int) (args : List Str) :
    killParse nm false sigterm (separateKill nm args) = killParse nm false sigterm args := by
  unfold killParse
  rw [killLoop_separate nm args.length args _ (Nat.le_refl _)]

/-- ★ The Spec function `separateSO` meets its description: in its output every cluster in option position
    is a single letter (or contains its own sign as a letter), `-o` / `+o` is followed by the name as an
    argument of its own, and (for `set`) no `--name` / `++name` is left — so `set_separated_same` and
    `sh_separated_same` compare a vector with a really separated spelling. -/
theorem separateSO_is_separated (long : Bool) (args : List Str) :
    isSeparatedSO long (separateSO long args) = true :=
  separateSO_isSeparated long args.length args (Nat.le_refl _)

/-- ★ The shell's command line: for the long options that take an argument (`--profile`, `--rcfile` and their
    abbreviations) `--name=ARG` means `--name ARG` **for every ARG** — empty, starting or ending with `=`,
    containing any number of `=`: the name ends at the FIRST `=` and everything behind it is the argument.
    At any point of the option loop (any `portable` state `p`, any `Run` built so far), for every rest. -/
theorem sh_long_eq_arg_anywhere (nm : Names) (p : Bool) (r : Run) (name arg : Str) (ctor : Str → ShLong) (rest : List Str)
    (hname : name ≠ []) (heq : '=' ∉ name) (hctor : nonShell name = some (true, ctor))
    (h1 : nm.parseLong (name ++ '=' :: arg) = .noSuch) (h2 : nm.parseLong name = .noSuch) :
    shLoop nm p r (('-' :: '-' :: (name ++ '=' :: arg)) :: rest) =
      shLoop nm p r (('-' :: '-' :: name) :: arg :: rest) :=
  shLoop_long_eq_arg nm p r name arg ctor rest hname heq hctor h1 h2

/-- ★ … and as the first argument of the whole command line -/
theorem sh_long_eq_arg (nm : Names) (arg0 name arg : Str) (ctor : Str → ShLong) (rest : List Str)
    (hname : name ≠ []) (heq : '=' ∉ name) (hctor : nonShell name = some (true, ctor))
    (h1 : nm.parseLong (name ++ '=' :: arg) = .noSuch) (h2 : nm.parseLong name = .noSuch) :
    shParse nm (arg0 :: ('-' :: '-' :: (name ++ '=' :: arg)) :: rest) =
      shParse nm (arg0 :: ('-' :: '-' :: name) :: arg :: rest) := by
  simp only [shParse]
  rw [shLoop_long_eq_arg nm false _ name arg ctor rest hname heq hctor h1 h2]

/-! ## non-vacuity -/

/-- the answers of yash_env::option for `e`, `u`, `errexit`, `nounset`, `err` -/
def exNames : Names where
  short := [('e', "errexit".toList, true), ('u', "unset".toList, false)]
  long := [("errexit".toList, .ok "errexit".toList true), ("nounset".toList, .ok "unset".toList false),
    ("err".toList, .ok "errexit".toList true), ("no".toList, .ambiguous)]

theorem exNames_noPortable : NoPortable exNames := noPortable_of_table exNames (by decide)

/-- `set -eu X` ≡ `set -e -u X`; `set -euo nounset` hmm: `-eo errexit`, `--err`, `+o nounset` -/
example : separateSO true [['-','e','u'], ['X']] = [['-','e'], ['-','u'], ['X']] := rfl
example : setParse exNames false [['-','e','u'], ['X']] = setParse exNames false [['-','e'], ['-','u'], ['X']] :=
  set_same_separated_same_parse exNames exNames_noPortable _ _ rfl
example : setParse exNames false [['-','e','u'], ['X']] =
    .ok (.modify [("errexit".toList, true), ("unset".toList, false)] (some [['X']])) := by rfl
example : setParse exNames false ['-' :: 'e' :: 'o' :: "nounset".toList, ['-','-'], ['-','e']] =
    setParse exNames false [['-','e'], ['-','o'], "nounset".toList, ['-','-'], ['-','e']] :=
  set_same_separated_same_parse exNames exNames_noPortable _ _ (by decide)
example : setParse exNames false ['-' :: '-' :: "err".toList, '+' :: '+' :: "nounset".toList] =
    setParse exNames false [['-','o'], "err".toList, ['+','o'], "nounset".toList] :=
  set_same_separated_same_parse exNames exNames_noPortable _ _ (by decide)
example : setParse exNames false ['-' :: '-' :: "err".toList, '+' :: '+' :: "nounset".toList] =
    .ok (.modify [("errexit".toList, true), ("unset".toList, true)] none) := by rfl
/-- errors are the same too: unknown letter inside a cluster, ambiguous name -/
example : setParse exNames false [['-','e','Z','u']] = .error (.unknownShort 'Z') := by rfl
example : setParse exNames false [['-','e'], ['-','Z'], ['-','u']] = .error (.unknownShort 'Z') := by rfl
example : setParse exNames false [['-','-','n','o']] = .error .ambiguousLong := by rfl
/-- under `portable` the attached form is rejected (so the equivalence is not claimed there) -/
example : setParse { exNames with info := [("errexit".toList, { portLong := some ("errexit".toList, true) })] } true
    ['-' :: 'o' :: "errexit".toList] = .error .unseparated := by rfl

/-- command line: `sh -ec cmd` ≡ `sh -e -c cmd`; `-eoerrexit` ≡ `-e -o errexit`; `-eV` is `Version` either way -/
def exShNames : Names := { exNames with short := exNames.short ++ [('c', "cmdline".toList, true)] }
theorem exShNames_noPortable : NoPortable exShNames := noPortable_of_table exShNames (by decide)
example : separateSO false [['-','e','c'], ['x']] = [['-','e'], ['-','c'], ['x']] := rfl
example : shParse exShNames [['s','h'], ['-','e','c'], ['x'], ['y']] = shParse exShNames [['s','h'], ['-','e'], ['-','c'], ['x'], ['y']] :=
  sh_separated_same exShNames exShNames_noPortable ['s','h'] [['-','e','c'], ['x'], ['y']]
example : shParse exShNames [['s','h'], ['-','e','c'], ['x'], ['y']] =
    .ok (.run { source := .string ['x'], options := [("posixlycorrect".toList, true), ("errexit".toList, true), ("cmdline".toList, true)],
                arg0 := ['y'], params := [] }) := by rfl
example : shParse exShNames [['s','h'], ['-','e','V']] = .ok .version := by rfl
example : shParse exShNames [['s','h'], ['-','e'], ['-','V']] = .ok .version := by rfl

/-- kill: `-sINT 1` ≡ `-s INT 1`, `-INT 1` ≡ `-s INT 1`, `-lv` ≡ `-l -v`; `-stop` stays whole -/
def exSig : Names := { sig := [("INT".toList, 2), ("STOP".toList, 19)] }
example : separateKill exSig ['-' :: 's' :: "INT".toList, ['1']] = [['-','s'], "INT".toList, ['1']] := by simp +decide [separateKill]
example : separateKill exSig ['-' :: "int".toList, ['1']] = [['-','s'], "int".toList, ['1']] := by simp +decide [separateKill]
example : separateKill exSig [['-','l','v'], ['9']] = [['-','l'], ['-','v'], ['9']] := by simp +decide [separateKill]
example : separateKill exSig ['-' :: "stop".toList, ['1']] = ['-' :: "stop".toList, ['1']] := by simp +decide [separateKill]
example : killParse exSig false 15 ['-' :: 's' :: "INT".toList, ['1']] = .ok (.send 2 true [['1']]) := by rfl
example : killParse exSig false 15 [['-','s'], "INT".toList, ['1']] = .ok (.send 2 true [['1']]) := by rfl
example : killParse exSig false 15 ['-' :: "stop".toList, ['1']] = .ok (.send 19 true [['1']]) := by rfl
example : killParse exSig false 15 ['-' :: 's' :: "INT".toList, ['-','l']] = .error (.conflictingOptions 'l') := by rfl

example : isSeparatedSO true [['-','e','u'], ['-','-','e','r','r']] = false := by decide
example : isSeparatedSO true (separateSO true [['-','e','u','o','x'], ['-','-','e','r','r']]) = true := by decide

/-- `sh --rc=/etc/mode=login/rc=` ≡ `sh --rc /etc/mode=login/rc=`: the argument keeps all its `=` -/
example : shParse exShNames [['s','h'], '-' :: '-' :: "rc=/etc/mode=login/rc=".toList, ['x']] =
    shParse exShNames [['s','h'], ['-','-','r','c'], "/etc/mode=login/rc=".toList, ['x']] :=
  sh_long_eq_arg exShNames ['s','h'] ['r','c'] "/etc/mode=login/rc=".toList ShLong.rcfile [['x']] (by decide) (by decide)
    (by rfl) (by decide) (by decide)
example : shParse exShNames [['s','h'], '-' :: '-' :: "rc=/etc/mode=login/rc=".toList, ['x']] =
    .ok (.run { source := .file ['x'], rcfile := .file "/etc/mode=login/rc=".toList,
                options := [("posixlycorrect".toList, true)], arg0 := ['x'], params := [] }) := by rfl
example : shParse exShNames [['s','h'], '-' :: '-' :: "profile==".toList] =
    shParse exShNames [['s','h'], "--profile".toList, ['=']] :=
  sh_long_eq_arg exShNames ['s','h'] "profile".toList ['='] ShLong.profile [] (by decide) (by decide) (by rfl)
    (by decide) (by decide)

end YashModel.Args.Bespoke
