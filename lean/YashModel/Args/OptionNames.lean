/-
  C20 — Impl model of how a long option *name* is resolved (`yash-env/src/option.rs`:
  `canonicalize`, `impl FromStr for Option`, `parse_long`), used by `set -o NAME` / `-oNAME` /
  `--NAME` / `++NAME` and by the shell's own command line.  The option is identified by its table
  name (`Option::long_name`).  Import-free and executable.

  `char::is_alphanumeric` is Unicode-aware; the model has it exactly for ASCII and takes its value on
  the (few) non-ASCII characters of a case from the harness, which asks Rust's `char` directly (`extra`).
-/
namespace YashModel.Args.OptionNames

abbrev Str := List Char

def isAsciiUpper (c : Char) : Bool := 'A' ≤ c && c ≤ 'Z'
def isAsciiAlnum (c : Char) : Bool := ('a' ≤ c && c ≤ 'z') || isAsciiUpper c || ('0' ≤ c && c ≤ '9')

/-- `char::to_ascii_lowercase` -/
def lowerAscii (c : Char) : Char := if isAsciiUpper c then Char.ofNat (c.toNat + 32) else c

/-- `char::is_alphanumeric`: ASCII computed, non-ASCII looked up (absent = not alphanumeric) -/
def isAlnum (extra : List (Char × Bool)) (c : Char) : Bool :=
  if c.toNat < 128 then isAsciiAlnum c
  else match extra.find? (fun e => e.1 == c) with
    | some e => e.2
    | none => false

/-- the slow path of `canonicalize`: keep the alphanumerics, fold ASCII case -/
def strip (extra : List (Char × Bool)) (name : Str) : Str := (name.filter (isAlnum extra)).map lowerAscii

/-- `canonicalize`: a name that is already all alphanumeric without ASCII upper case is returned as it
    is (fast path), anything else goes through `strip` -/
def canonicalize (extra : List (Char × Bool)) (name : Str) : Str :=
  if name.all (fun c => isAlnum extra c && !isAsciiUpper c) then name else strip extra name

/-- `FromStrError` / the result of a look-up -/
inductive Found where
  | ok (option : Str)
  | noSuch
  | ambiguous
  deriving DecidableEq, Repr

/-- `impl FromStr for Option`: the exact name, else the unique name it abbreviates.  (The code
    binary-searches the sorted table and filters from the insertion point on; nothing before that
    point can start with `name`.) -/
def fromStr (table : List Str) (name : Str) : Found :=
  if table.contains name then .ok name
  else match table.filter (fun t => name.isPrefixOf t) with
    | [] => .noSuch
    | [t] => .ok t
    | _ => .ambiguous

/-- result of `parse_long`: the option and the state the name stands for (`no…` = off) -/
inductive Long where
  | ok (option : Str) (state : Bool)
  | noSuch
  | ambiguous
  deriving DecidableEq, Repr

def stripNo : Str → Option Str
  | 'n' :: 'o' :: rest => some rest
  | _ => none

/-- `parse_long` -/
def parseLong (table : List Str) (name : Str) : Long :=
  if name.isPrefixOf ['n', 'o'] then .ambiguous
  else
    let intact := fromStr table name
    let withoutNo := match stripNo name with
      | some rest => fromStr table rest
      | none => .noSuch
    match intact, withoutNo with
    | .ok o, .noSuch => .ok o true
    | .noSuch, .ok o => .ok o false
    | .ambiguous, _ => .ambiguous
    | _, .ambiguous => .ambiguous
    | _, _ => .noSuch

/-- what `set` and the command line compute for a raw name -/
def resolve (table : List Str) (extra : List (Char × Bool)) (raw : Str) : Long :=
  parseLong table (canonicalize extra raw)

end YashModel.Args.OptionNames
