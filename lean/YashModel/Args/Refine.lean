/-
  C20 — refinement lemmas: the Impl model (`Model.lean`) computes, modulo spelling, exactly what the
  reference parser (`Spec.lean`) computes; and laws of the reference parser proved on the Spec side.
  (Helper lemmas only; the property theorems are in `Theorems.lean`.)
-/
import YashModel.Args.Lemmas
namespace YashModel.Args
open Spec

/-! ### Impl refines Spec -/

theorem cons_eq_prependV (os : List VOpt) (v : View) : Spec.cons os v = prependV os v := by
  cases v with
  | error e => rfl
  | ok p => cases p; rfl

theorem finishV_prependV (os : List VOpt) (v : View) : finishV (prependV os v) = prependV os (finishV v) := by
  cases v with
  | error e => rfl
  | ok p => cases p; rfl

/-- what the Impl's cluster / long-option step delivers, given what the Spec's `cluster` / `longOpt`
    says and the peeked next argument -/
def resolveP (c : Except ParseError (List Spec.Opt × Option OptionSpec)) (next : Option Str) :
    Except ParseError (List VOpt × Bool) :=
  match c with
  | .error e => .error e
  | .ok (os, none) => .ok (os, false)
  | .ok (os, some s) =>
    match next with
    | none => .error (.missingArgument s)
    | some x => .ok (os ++ [(s, some x)], true)

theorem resolveP_cons (s : OptionSpec) (c) (next : Option Str) :
    resolveP (match c with
      | .ok (os, p) => .ok ((s, none) :: os, p)
      | .error e => .error e) next = consV (s, none) (resolveP c next) := by
  cases c with
  | error e => rfl
  | ok q =>
    obtain ⟨os, p⟩ := q
    cases p with
    | none => rfl
    | some s' => cases next <;> rfl

theorem cluster_shortLoop (specs : List OptionSpec) (mode : Mode) (next : Option Str) (chars : Str) (i : Nat) :
    viewS (shortLoop specs mode next i chars) = resolveP (Spec.cluster specs mode chars) next := by
  induction chars generalizing i with
  | nil => rfl
  | cons c cs ih =>
    simp only [shortLoop, Spec.cluster, findShort]
    cases hf : specs.find? (fun s => s.short == some c) with
    | none => rfl
    | some s =>
      simp only []
      by_cases hx : s.extension = true ∧ ¬ mode.extensionOptions = true
      · have hb : (s.extension && !mode.extensionOptions) = true := by simp [hx.1, hx.2]
        rw [if_pos hb, if_pos hx]; rfl
      · have hb : ¬ (s.extension && !mode.extensionOptions) = true := by
          intro h; apply hx; simpa using h
        rw [if_neg hb, if_neg hx]
        cases ha : s.takesArg with
        | false =>
          simp only [Bool.not_false, if_true, Bool.false_eq_true, if_false]
          rw [viewS_consOcc, ih]
          cases cluster specs mode cs with
          | error e => rfl
          | ok q =>
            obtain ⟨os, p⟩ := q
            cases p with
            | none => rfl
            | some s' => cases next <;> rfl
        | true =>
          cases cs with
          | nil => cases next <;> simp [viewS, resolveP, Occurrence.view]
          | cons d ds =>
            cases hs : mode.optionArgumentsInSameField <;> simp [viewS, resolveP, Occurrence.view]

theorem notEq_eq : ((fun c => decide (c ≠ '=')) : Char → Bool) = notEq := by
  funext c; by_cases h : c = '=' <;> simp [notEq, h]

theorem contains_eq_dropWhile (body : Str) : body.contains '=' = !(body.dropWhile notEq).isEmpty := by
  induction body with
  | nil => rfl
  | cons c b ih =>
    by_cases hc : c = '='
    · subst hc; simp [notEq]
    · have h1 : notEq c = true := by simp [notEq, hc]
      have h2 : ('=' == c) = false := by simp; exact fun h => hc h.symm
      simp only [List.contains_cons, List.dropWhile_cons, h1, if_true, h2, Bool.false_or]; exact ih

theorem longOpt_parseLong (specs : List OptionSpec) (mode : Mode) (body : Str) (next : Option Str) :
    viewL (parseLong specs mode ('-' :: '-' :: body) next) = resolveP (Spec.longOpt specs mode body) next := by
  simp only [parseLong, Spec.longOpt, List.drop_succ_cons, List.drop_zero, notEq_eq]
  rw [longMatch_eq_candidates', contains_eq_dropWhile]
  generalize Spec.candidates specs (List.takeWhile notEq body) = cands
  match cands with
  | [] => rfl
  | s1 :: s2 :: t => rfl
  | [s] =>
    simp only [Spec.longOne]
    by_cases hx : ¬ mode.longOptionNames = true ∨ (s.extension = true ∧ ¬ mode.extensionOptions = true)
    · have hb : (!(mode.longOptionNames && (mode.extensionOptions || !s.extension))) = true := by
        cases h1 : mode.longOptionNames <;> cases h2 : mode.extensionOptions <;> cases h3 : s.extension <;> simp_all
      rw [if_pos hb, if_pos hx]; rfl
    · have hb : ¬ (!(mode.longOptionNames && (mode.extensionOptions || !s.extension))) = true := by
        cases h1 : mode.longOptionNames <;> cases h2 : mode.extensionOptions <;> cases h3 : s.extension <;> simp_all
      rw [if_neg hb, if_neg hx]
      cases ha : s.takesArg <;> cases htl : List.dropWhile notEq body <;> cases next <;>
        simp [viewL, resolveP, Occurrence.view]

/-- the Spec's continuation after a cluster / long option -/
def contV (specs : List OptionSpec) (mode : Mode)
    (R : Except ParseError (List Spec.Opt × Option OptionSpec)) (rest : List Str) : View :=
  match R with
  | .ok (os, p) => Spec.cons os (Spec.run specs mode p rest)
  | .error e => .error e

theorem run_nil (specs mode) : Spec.run specs mode none [] = .ok ([], []) := by simp [Spec.run]
theorem run_pending_nil (specs mode) (s : OptionSpec) :
    Spec.run specs mode (some s) [] = .error (.missingArgument s) := by simp [Spec.run]
theorem run_pending_cons (specs mode) (s : OptionSpec) (a : Str) (rest : List Str) :
    Spec.run specs mode (some s) (a :: rest) = Spec.cons [(s, some a)] (Spec.run specs mode none rest) := by
  simp [Spec.run]
theorem run_dashdash (specs mode) (rest : List Str) :
    Spec.run specs mode none (['-', '-'] :: rest) = .ok ([], rest) := by simp [Spec.run]
theorem run_lone (specs mode) (rest : List Str) :
    Spec.run specs mode none (['-'] :: rest) = .ok ([], ['-'] :: rest) := by simp [Spec.run]
theorem run_long (specs mode) (c : Char) (body : Str) (rest : List Str) :
    Spec.run specs mode none (('-' :: '-' :: c :: body) :: rest) =
      contV specs mode (Spec.longOpt specs mode (c :: body)) rest := by
  simp only [Spec.run, contV]
  cases Spec.longOpt specs mode (c :: body) <;> rfl
theorem run_cluster (specs mode) (c : Char) (cs : Str) (rest : List Str) (hc : c ≠ '-') :
    Spec.run specs mode none (('-' :: c :: cs) :: rest) =
      contV specs mode (Spec.cluster specs mode (c :: cs)) rest := by
  unfold Spec.run contV
  split <;> simp_all
  rename_i h
  subst h
  cases Spec.cluster specs mode (c :: cs) <;> rfl
theorem run_operand_nil (specs mode) (rest : List Str) :
    Spec.run specs mode none ([] :: rest) = .ok ([], [] :: rest) := by simp [Spec.run]
theorem run_operand (specs mode) (c : Char) (t : Str) (rest : List Str) (hc : c ≠ '-') :
    Spec.run specs mode none ((c :: t) :: rest) = .ok ([], (c :: t) :: rest) := by
  unfold Spec.run
  split <;> simp_all

theorem refine_cont (specs : List OptionSpec) (mode : Mode)
    (R : Except ParseError (List Spec.Opt × Option OptionSpec)) (rest : List Str)
    (ih : ∀ l : List Str, l.length ≤ rest.length →
      finishV (optLoop specs mode l).view = Spec.run specs mode none l) :
    finishV (bindV specs mode (resolveP R rest.head?) rest) = contV specs mode R rest := by
  cases R with
  | error e => rfl
  | ok q =>
    obtain ⟨os, p⟩ := q
    cases p with
    | none =>
      simp only [resolveP, bindV, contV, Bool.false_eq_true, if_false, finishV_prependV,
        cons_eq_prependV, ih rest (Nat.le_refl _)]
    | some s =>
      cases rest with
      | nil => simp [resolveP, bindV, contV, run_pending_nil, Spec.cons, finishV]
      | cons x rest' =>
        simp only [resolveP, List.head?_cons, bindV, if_true, List.tail_cons, contV, finishV_prependV,
          run_pending_cons, cons_eq_prependV, prependV_prependV, ih rest' (by simp)]

theorem operand_case (specs : List OptionSpec) (mode : Mode) (a : Str) (rest : List Str)
    (h1 : startsWithSingleHyphen a = false) (h2 : startsWithDoubleHyphen a = false) (h3 : a ≠ dashdash) :
    finishV (optLoop specs mode (a :: rest)).view = .ok ([], a :: rest) := by
  rw [optLoop_cons, step_stop _ _ _ _ h1 h2]
  simp [Parsed.view, finishV, skipSeparator, h3]

theorem refine_aux (specs : List OptionSpec) (mode : Mode) : ∀ (n : Nat) (args : List Str),
    args.length ≤ n → finishV (optLoop specs mode args).view = Spec.run specs mode none args := by
  intro n
  induction n with
  | zero =>
    intro args hl
    have : args = [] := List.eq_nil_of_length_eq_zero (Nat.le_zero.mp hl)
    subst this
    simp [optLoop, Parsed.view, finishV, skipSeparator, run_nil]
  | succ n ih =>
    intro args hl
    cases args with
    | nil => simp [optLoop, Parsed.view, finishV, skipSeparator, run_nil]
    | cons a rest =>
      have ih' : ∀ l : List Str, l.length ≤ rest.length →
          finishV (optLoop specs mode l).view = Spec.run specs mode none l :=
        fun l h => ih l (by simp at hl; omega)
      match a with
      | [] => rw [run_operand_nil]; exact operand_case specs mode [] rest rfl rfl (by decide)
      | c0 :: t =>
        by_cases h0 : c0 = '-'
        · subst h0
          match t with
          | [] => rw [run_lone]; exact operand_case specs mode ['-'] rest rfl rfl (by decide)
          | c1 :: t1 =>
            by_cases h1 : c1 = '-'
            · subst h1
              match t1 with
              | [] =>
                rw [run_dashdash, optLoop_cons, step_stop _ _ _ _ rfl rfl]
                simp [Parsed.view, finishV, skipSeparator, dashdash]
              | c2 :: t2 =>
                rw [run_long, optLoop_long_view _ _ _ _ (by simp [startsWithSingleHyphen]) rfl,
                  longOpt_parseLong]
                exact refine_cont specs mode _ rest ih'
            · rw [run_cluster _ _ _ _ _ h1,
                optLoop_short_view _ _ _ _ (by simp [startsWithSingleHyphen, h1])]
              simp only [List.drop_succ_cons, List.drop_zero]
              rw [cluster_shortLoop]
              exact refine_cont specs mode _ rest ih'
        · rw [run_operand _ _ _ _ _ h0]
          apply operand_case
          · unfold startsWithSingleHyphen; split <;> simp_all
          · unfold startsWithDoubleHyphen; split <;> simp_all
          · intro h; simp [dashdash] at h; exact h0 h.1

/-- Impl refines Spec -/
theorem parseArguments_view_eq_spec (specs : List OptionSpec) (mode : Mode) (args : List Str) :
    (parseArguments specs mode args).view = Spec.parse specs mode args := by
  unfold parseArguments Spec.parse
  rw [view_finish]
  exact refine_aux specs mode args.length args (Nat.le_refl _)

/-! ### laws of the reference parser (Spec side) -/

/-- (Spec side) `pre` is transparent for the reference parser: it contributes exactly the options `vs`,
    and parsing then continues with whatever follows as if from the start (no pending argument, option
    parsing not ended). -/
def SpecOptionsOnly (specs : List OptionSpec) (mode : Mode) (pre : List Str) (vs : List VOpt) : Prop :=
  ∀ ys, Spec.run specs mode none (pre ++ ys) = Spec.cons vs (Spec.run specs mode none ys)

theorem run_eq_impl (specs : List OptionSpec) (mode : Mode) (l : List Str) :
    Spec.run specs mode none l = finishV (optLoop specs mode l).view :=
  (refine_aux specs mode l.length l (Nat.le_refl _)).symm

/-- the Impl-side hypothesis of the direct theorems implies the Spec-side one -/
theorem specOptionsOnly_of_impl (specs : List OptionSpec) (mode : Mode) (pre : List Str)
    (os : List Occurrence) (h : optLoop specs mode pre = .ok (os, [])) :
    SpecOptionsOnly specs mode pre (os.map Occurrence.view) := by
  intro ys
  rw [run_eq_impl, run_eq_impl, optLoop_append specs mode pre ys os h, view_prepend, finishV_prependV,
    cons_eq_prependV]

theorem spec_dashdash_ends (specs : List OptionSpec) (mode : Mode) (pre : List Str) (vs : List VOpt)
    (xs : List Str) (h : SpecOptionsOnly specs mode pre vs) :
    Spec.parse specs mode (pre ++ dashdash :: xs) = .ok (vs, xs) := by
  unfold Spec.parse
  rw [h, dashdash, run_dashdash]
  simp [Spec.cons]

def consC (s : OptionSpec) :
    Except ParseError (List Spec.Opt × Option OptionSpec) → Except ParseError (List Spec.Opt × Option OptionSpec)
  | .ok (os, p) => .ok ((s, none) :: os, p)
  | .error e => .error e

theorem cluster_flag (specs : List OptionSpec) (mode : Mode) (a : Char) (cs : Str) (s : OptionSpec)
    (hf : specs.find? (fun s => s.short == some a) = some s) (ha : s.takesArg = false) :
    Spec.cluster specs mode (a :: cs) =
      if s.extension = true ∧ ¬ mode.extensionOptions = true then .error (.nonPortableShort a s)
      else consC s (Spec.cluster specs mode cs) := by
  rw [Spec.cluster]
  simp only [hf, ha]
  split
  · rfl
  · simp only [Bool.false_eq_true, if_false]
    cases Spec.cluster specs mode cs with
    | error e => rfl
    | ok q => cases q; rfl

theorem spec_group_eq_separate (specs : List OptionSpec) (mode : Mode) (a : Char) (s : OptionSpec)
    (cs : Str) (r : List Str) (hf : findShort specs a = some s) (ha : s.takesArg = false) (hd : a ≠ '-')
    (hc : ∃ c0 cs', cs = c0 :: cs' ∧ c0 ≠ '-') :
    Spec.parse specs mode (('-' :: a :: cs) :: r) = Spec.parse specs mode (['-', a] :: ('-' :: cs) :: r) := by
  obtain ⟨c0, cs', rfl, hc0⟩ := hc
  have hf' : specs.find? (fun s => s.short == some a) = some s := hf
  unfold Spec.parse
  rw [run_cluster _ _ _ _ _ hd, run_cluster _ _ _ _ _ hd, cluster_flag specs mode a _ s hf' ha,
    cluster_flag specs mode a [] s hf' ha]
  by_cases hx : s.extension = true ∧ ¬ mode.extensionOptions = true
  · rw [if_pos hx, if_pos hx]; rfl
  · rw [if_neg hx, if_neg hx]
    have e0 : Spec.cluster specs mode [] = .ok ([], none) := by simp [Spec.cluster]
    rw [e0]
    simp only [consC, contV]
    rw [run_cluster _ _ _ _ _ hc0]
    cases Spec.cluster specs mode (c0 :: cs') with
    | error e => rfl
    | ok q =>
      obtain ⟨os, p⟩ := q
      simp only [contV, cons_eq_prependV, prependV_prependV]; rfl

def longSpecResult (mode : Mode) (cands : List OptionSpec) (t : Str) :
    Except ParseError (List Spec.Opt × Option OptionSpec) :=
  match cands with
  | [] => .error .unknownLong
  | [s] => Spec.longOne mode s (!t.isEmpty) (t.drop 1)
  | ss => .error (.ambiguousLong ss)

theorem longOpt_split (specs : List OptionSpec) (mode : Mode) (n t : Str) (hn : '=' ∉ n)
    (ht : t = [] ∨ t.head? = some '=') :
    Spec.longOpt specs mode (n ++ t) = longSpecResult mode (Spec.candidates specs n) t := by
  obtain ⟨h1, h2⟩ := takeWhile_notEq_append n t hn ht
  simp only [Spec.longOpt, notEq_eq, h1, h2, contains_eq_dropWhile, longSpecResult]
  rfl

theorem spec_long_eq_arg (specs : List OptionSpec) (mode : Mode) (l x : Str) (r : List Str)
    (hl : l ≠ []) (heq : '=' ∉ l) (ha : ∀ s, Spec.candidates specs l = [s] → s.takesArg = true) :
    Spec.parse specs mode (('-' :: '-' :: (l ++ '=' :: x)) :: r) =
      Spec.parse specs mode (('-' :: '-' :: l) :: x :: r) := by
  match l, hl with
  | c :: l', _ =>
    unfold Spec.parse
    have e1 : c :: l' ++ '=' :: x = c :: (l' ++ '=' :: x) := rfl
    rw [e1, run_long, run_long, ← e1, longOpt_split specs mode (c :: l') ('=' :: x) heq (Or.inr rfl)]
    have e2 : c :: l' = (c :: l') ++ [] := by simp
    rw [e2, longOpt_split specs mode (c :: l') [] heq (Or.inl rfl), ← e2]
    match hc : Spec.candidates specs (c :: l') with
    | [] => rfl
    | _ :: _ :: _ => rfl
    | [s] =>
      have hs := ha s hc
      simp only [longSpecResult, Spec.longOne, hs]
      by_cases hx : ¬ mode.longOptionNames = true ∨ (s.extension = true ∧ ¬ mode.extensionOptions = true)
      · rw [if_pos hx, if_pos hx]; rfl
      · rw [if_neg hx, if_neg hx]
        simp [contV, run_pending_cons, cons_eq_prependV]

theorem spec_first_operand_ends (specs : List OptionSpec) (mode : Mode) (pre : List Str) (vs : List VOpt)
    (x : Str) (xs : List Str) (h : SpecOptionsOnly specs mode pre vs) (hx : IsOperand x) :
    Spec.parse specs mode (pre ++ x :: xs) = .ok (vs, x :: xs) := by
  unfold Spec.parse
  have hrun : Spec.run specs mode none (x :: xs) = .ok ([], x :: xs) := by
    rcases hx with hx | rfl
    · match x, hx with
      | [], _ => exact run_operand_nil ..
      | c :: t, hx => exact run_operand _ _ _ _ _ (fun h => hx (by simp [h]))
    · exact run_lone ..
  rw [h, hrun]
  simp [Spec.cons]

end YashModel.Args
