/-
  C20 — Spec for the argument syntax of the `typeset` family (documented in docs/src/builtins/typeset.md:
  options `-f -g -p -r -x -X`, each with a long name; `+r` / `+x` (`++readonly` / `++export`) cancel an
  attribute; long names may be abbreviated to an unambiguous prefix; `--` ends the options).

  Every option has a one-letter spelling and none takes an argument, so an invocation has a *canonical
  spelling*: one argument `-c` / `+c` per option.  `canon` rewrites a vector into it (a group is split into its
  letters; a long option that denotes exactly one option becomes that option's letter; `--`, the first
  operand and what follows are untouched; an argument the parser would reject is kept as it is).  `read` is a
  reference reader that only understands canonical vectors.  The property says `parse (canon v) = parse v`
  and `parse v = read (canon v)` — proved in TypesetTheorems.lean, evaluated by the driver on every case.
-/
import YashModel.Args.Typeset
namespace YashModel.Args.Typeset

def signChar (negate : Bool) : Char := if negate then '+' else '-'

/-- how the syntax classifies one argument in option position, by its first two characters only -/
inductive Shape where
  | operand
  | separator
  | long (negate : Bool) (name : Str)
  | group (negate : Bool) (letters : Str)
  deriving DecidableEq, Repr

def shape (a : Str) : Shape :=
  match a with
  | c0 :: c1 :: cs =>
    if c0 = '-' then
      (if c1 = '-' then (if cs = [] then .separator else .long false cs) else .group false (c1 :: cs))
    else if c0 = '+' then
      (if c1 = '+' then .long true cs else .group true (c1 :: cs))
    else .operand
  | _ => .operand

/-- the option a letter denotes, if it may be used with this sign -/
def letterOk (specs : List TSpec) (negate : Bool) (c : Char) : Bool :=
  match findShort specs c with
  | none => false
  | some s => !(negate && s.attr.isNone)

/-- the one option the (possibly abbreviated) long name denotes, if it may be used with this sign -/
def denotes (specs : List TSpec) (negate : Bool) (name : Str) : Option TSpec :=
  match longCandidates specs name with
  | [s] => if negate && s.attr.isNone then none else some s
  | _ => none

/-- the occurrence a letter stands for -/
def letterOcc (specs : List TSpec) (negate : Bool) (c : Char) : Occ :=
  { spec := (findShort specs c).getD { short := c, long := [], attr := none }, state := !negate }

/-- the first defect among the letters of a group: a letter that is no option, or one that cannot be cancelled -/
def letterDefect (specs : List TSpec) (negate : Bool) (c : Char) : Option PErr :=
  match findShort specs c with
  | none => some (.unknownShort c)
  | some s => if negate && s.attr.isNone then some (.uncancelableShort c) else none

/-- the defect of a long option: its name denotes nothing / more than one option, it cancels an option that is no
    attribute, or long options are off (in this order) -/
def longDefect (specs : List TSpec) (longNames negate : Bool) (name : Str) : Option PErr :=
  match longCandidates specs name with
  | [] => some .unknownLong
  | [s] => if negate && s.attr.isNone then some .uncancelableLong else if !longNames then some .nonPortableLong else none
  | _ => some .ambiguousLong

/-- what is wrong with one argument in option position, if anything -/
def argDefect (specs : List TSpec) (longNames : Bool) (a : Str) : Option PErr :=
  match shape a with
  | .group negate letters => letters.findSome? (letterDefect specs negate)
  | .long negate name => longDefect specs longNames negate name
  | _ => none

/-- the options one argument stands for, if it is a faultless group or long option -/
def optionArg (specs : List TSpec) (longNames : Bool) (a : Str) : Option (List Occ) :=
  match shape a with
  | .group negate letters =>
    if letters.all (letterOk specs negate) then some (letters.map (letterOcc specs negate)) else none
  | .long negate name =>
    if longNames then (denotes specs negate name).map (fun s => [{ spec := s, state := !negate }]) else none
  | _ => none

/-- a prefix of the vector that consists of faultless options only (no `--`, no operand) -/
def optionsOnly (specs : List TSpec) (longNames : Bool) : List Str → Option (List Occ)
  | [] => some []
  | a :: rest =>
    match optionArg specs longNames a, optionsOnly specs longNames rest with
    | some os, some os' => some (os ++ os')
    | _, _ => none

/-- canonical spelling (`longNames = false`, i.e. the `portable` option on: long options are rejected by
    design, so they are not rewritten) -/
def canon (specs : List TSpec) (longNames : Bool) : List Str → List Str
  | [] => []
  | a :: rest =>
    match shape a with
    | .operand => a :: rest
    | .separator => a :: rest
    | .long negate name =>
      (match (if longNames then denotes specs negate name else none) with
       | some s => [signChar negate, s.short] :: canon specs longNames rest
       | none => a :: rest)
    | .group negate letters =>
      if letters.all (letterOk specs negate) then letters.map (fun c => [signChar negate, c]) ++ canon specs longNames rest
      else a :: rest

/-- the reference reader: understands `-c` / `+c`, `--` and operands only -/
def read (specs : List TSpec) : List Str → Except PErr (List Occ × List Str)
  | [] => .ok ([], [])
  | a :: rest =>
    if a = ['-', '-'] then .ok ([], rest)
    else match a with
      | [sg, c] =>
        if (sg = '-' ∨ sg = '+') ∧ c ≠ sg then
          let negate := sg = '+'
          match findShort specs c with
          | none => .error (.unknownShort c)
          | some s =>
            if negate ∧ s.attr = none then .error (.uncancelableShort c)
            else prepend [{ spec := s, state := !negate }] (read specs rest)
        else .ok ([], a :: rest)
      | _ => .ok ([], a :: rest)

/-- a vector in canonical spelling: single-letter options, then nothing, `--` or an operand and anything -/
def isSingle (a : Str) : Bool :=
  match a with
  | [sg, c] => (sg = '-' || sg = '+') && c != sg
  | _ => false

def isCanonical : List Str → Bool
  | [] => true
  | a :: rest =>
    if isSingle a then isCanonical rest
    else a = ['-', '-'] || shape a = .operand

/-- names as the documentation requires them of a table: no letter is a sign, no two options share a letter
    (each option is the first one found under its own letter) -/
def WellFormed (specs : List TSpec) : Prop :=
  ∀ s ∈ specs, s.short ≠ '-' ∧ s.short ≠ '+' ∧ findShort specs s.short = some s

instance (specs : List TSpec) : Decidable (WellFormed specs) := by unfold WellFormed; infer_instance

/-- every option without an attribute is one of those `interpret` knows by letter -/
def Interpretable (specs : List TSpec) : Prop :=
  ∀ s ∈ specs, s.attr = none → s.short = 'f' ∨ s.short = 'g' ∨ s.short = 'p' ∨ s.short = 'X'

instance (specs : List TSpec) : Decidable (Interpretable specs) := by unfold Interpretable; infer_instance

end YashModel.Args.Typeset
