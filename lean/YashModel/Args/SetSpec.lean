/-
  C20 — Spec of the `set` built-in's argument syntax and of its effect (yash documentation of `set`,
  POSIX XCU `set`): an argument-at-a-time reference reader.

  * every argument in option position has one of four *shapes*, decided by its first two characters
    only (`shape`; characterised declaratively in `SetTheorems.lean`): an operand (no leading sign, the
    empty string, `+` alone), a separator (`-`, `--`), a long option (`--NAME` with a non-empty NAME,
    `++NAME`), or a *group*: a sign followed by at least one character that is not the same sign —
    whatever that character is.  So `-+e`, `+-`, `-+o` are groups whose first letter is `+` / `-`,
    and since no option is called `+` or `-` they are malformed;
  * a group is read letter by letter; `o` takes the rest of the group as an option name, or — when
    nothing is left — makes the NEXT argument an option name (the reader's `pending` state; the
    implementation instead lets the cluster loop consume the next argument);
  * a malformed invocation (a letter or name that denotes no option or an option `set` may not change, a
    missing name, a spelling the `portable` option forbids) is rejected as a whole: a diagnostic, a
    non-zero exit status, nothing printed, no option and no positional parameter changed (`expect`).

  Import-free apart from the shared data types (`Names`, `SetErr`, `SetCmd`, `SetEnv`, `SetResult`) and the
  per-letter / per-name table look-ups.
-/
import YashModel.Args.SetMain
namespace YashModel.Args.Bespoke

/-- the four shapes of an argument in option position -/
inductive Shape where
  | operand
  | separator
  | long (negate : Bool) (name : Str)
  | group (negate : Bool) (letters : Str)
  deriving DecidableEq, Repr

def isSign (c : Char) : Bool := c == '-' || c == '+'

def shape : Str → Shape
  | [] => .operand
  | [c] => if c = '-' then .separator else .operand
  | s :: c :: cs =>
    if isSign s then
      if c = s then (if s = '-' ∧ cs = [] then .separator else .long (s == '+') cs)
      else .group (s == '+') (c :: cs)
    else .operand

/-- what a name given to `-o` / `+o` denotes (`attached` = written in the same argument), or why it is
    rejected; the option with its new state and the `portable` state afterwards -/
def judgeName (nm : Names) (p negate attached : Bool) (raw : Str) : Except SetErr ((Str × Bool) × Bool) :=
  match nm.parseLong raw with
  | .noSuch => .error .unknownLong
  | .ambiguous => .error .ambiguousLong
  | .ok opt st =>
    if !(nm.infoOf opt).modifiable then .error .unmodifiableLong
    else if p && !isPortableLongName nm raw opt st then .error .nonPortableLong
    else if p && attached then .error .unseparated
    else
      let new := if negate then !st else st
      .ok ((opt, new), if opt = portableOpt then new else p)

/-- `--NAME` / `++NAME`: not POSIX, so rejected as a whole while `portable` is on -/
def judgeLongForm (nm : Names) (p negate : Bool) (name : Str) : Except SetErr ((Str × Bool) × Bool) :=
  match nm.parseLong name with
  | .noSuch => .error .unknownLong
  | .ambiguous => .error .ambiguousLong
  | .ok opt st =>
    if !(nm.infoOf opt).modifiable then .error .unmodifiableLong
    else if p then .error .nonPortableLong
    else
      let new := if negate then !st else st
      .ok ((opt, new), if opt = portableOpt then new else p)

/-- the letters of one group: options, the `portable` state afterwards, and whether the group ended in
    an `o` that still waits for its name -/
def readLetters (nm : Names) (negate : Bool) : Bool → Str → Except SetErr (List (Str × Bool) × Bool × Bool)
  | p, [] => .ok ([], p, false)
  | p, c :: rest =>
    if c = 'o' then
      if rest.isEmpty then .ok ([], p, true)
      else match judgeName nm p negate true rest with
        | .error e => .error e
        | .ok (o, p') => .ok ([o], p', false)
    else match setLetter nm negate p c with
      | .error e => .error e
      | .ok o =>
        match readLetters nm negate p rest with
        | .error e => .error e
        | .ok (os, p', pend) => .ok (o :: os, p', pend)

/-- the reference reader: `pending = some negate` means "the previous argument ended in `-o` / `+o`" -/
def readArgs (nm : Names) : Bool → Option Bool → List Str → Looped SetErr
  | _, some _, [] => .error .missingArgument
  | p, some negate, a :: rest =>
    match judgeName nm p negate false a with
    | .error e => .error e
    | .ok (o, p') => prependO [o] (readArgs nm p' none rest)
  | _, none, [] => .ok ([], [])
  | p, none, a :: rest =>
    match shape a with
    | .operand => .ok ([], a :: rest)
    | .separator => .ok ([], a :: rest)
    | .long negate name =>
      (match judgeLongForm nm p negate name with
       | .error e => .error e
       | .ok (o, p') => prependO [o] (readArgs nm p' none rest))
    | .group negate letters =>
      (match readLetters nm negate p letters with
       | .error e => .error e
       | .ok (os, p', pend) => prependO os (readArgs nm p' (if pend then some negate else none) rest))

/-- the whole command line of `set` -/
def specParse (nm : Names) (portable : Bool) (args : List Str) : Except SetErr SetCmd :=
  if args = [] then .ok .printVariables
  else if args = [['-', 'o']] then .ok .printHuman
  else if args = [['+', 'o']] then .ok .printMachine
  else match readArgs nm portable none args with
    | .error e => .error e
    | .ok (os, []) => .ok (.modify os none)
    | .ok (os, a :: rest) =>
      -- one separator is dropped; the positional parameters are replaced iff a separator or an operand is there
      .ok (.modify os (some (if shape a = .separator then rest else a :: rest)))

/-- is the invocation malformed? -/
def malformed (nm : Names) (portable : Bool) (args : List Str) : Bool :=
  match specParse nm portable args with
  | .error _ => true
  | .ok _ => false

/-- what the property demands of a malformed invocation: diagnostic, non-zero status, no output, no effect -/
def rejected (env : SetEnv) : SetResult := { env := env, status := 2, diag := true, out := .nothing }

/-- the last state each option is given, applied to the option set; independent of the order of
    *different* options -/
def specOptions (s : OptStates) (os : List (Str × Bool)) : OptStates :=
  os.foldl (fun s o => setOpt s o.1 o.2) s

/-- what the Spec expects an invocation to leave behind -/
def expect (nm : Names) (env : SetEnv) (args : List Str) : SetResult :=
  match specParse nm (getOpt env.options portableOpt) args with
  | .error _ => rejected env
  | .ok .printVariables => { env := env, status := 0, diag := false, out := .variables }
  | .ok .printHuman => { env := env, status := 0, diag := false, out := .text (printHuman env.options) }
  | .ok .printMachine => { env := env, status := 0, diag := false, out := .text (printMachine nm env.options) }
  | .ok (.modify os ps) =>
    { env := { options := specOptions env.options os, params := ps.getD env.params }
      status := 0, diag := false, out := .nothing }

end YashModel.Args.Bespoke
