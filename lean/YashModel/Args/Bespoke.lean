/-
  C20 — Impl models of the three bespoke argument parsers the property names besides
  `common/syntax.rs` and `getopts`:

  * `yash-builtin/src/set/syntax.rs`   (`try_parse_short`, `try_parse_long`, `parse`)
  * `yash-cli/src/startup/args.rs`     (`parse_arg0`, `try_parse_short`, `try_parse_long`,
                                         `NonShellOptionConstructor::from_name`, `parse`)
  * `yash-builtin/src/kill/syntax.rs`  (`parse_signal`, `non_portable_signal_number`,
                                         `check_portable_signal_prefix`, `check_portable_list_operands`,
                                         `set_signal`, `parse_list_case`, `parse`)

  Import-free and executable.  What these parsers ask of *other* modules is a parameter (`Names`) whose
  answers the harness supplies with every case: `yash_env::option::{parse_short, parse_long ∘
  canonicalize, is_modifiable, portable_short_name, portable_long_name}` (an option is identified by
  its `long_name`) and `Signals::str2sig` (on upper-cased names).  Strings are lists of characters;
  `Field` origins / locations and the text payload of errors are dropped (an error keeps its class and
  the option character it names).
-/
namespace YashModel.Args.Bespoke

abbrev Str := List Char

/-- result of `parse_long(&canonicalize(raw))` -/
inductive LongRes where
  | ok (opt : Str) (state : Bool)
  | noSuch
  | ambiguous
  deriving DecidableEq, Repr

structure OptInfo where
  modifiable : Bool := true
  portShort : Option (Char × Bool) := none
  portLong : Option (Str × Bool) := none
  deriving DecidableEq, Repr

/-- the answers of the modules the parsers call into -/
structure Names where
  /-- `parse_short(c)` -/
  short : List (Char × Str × Bool) := []
  /-- `parse_long(&canonicalize(raw))` keyed by the raw text -/
  long : List (Str × LongRes) := []
  /-- per option: `is_modifiable`, `portable_short_name`, `portable_long_name` -/
  info : List (Str × OptInfo) := []
  /-- `Signals::str2sig` (raw number) keyed by the upper-cased name -/
  sig : List (Str × Int) := []
  deriving Repr

def Names.parseShort (nm : Names) (c : Char) : Option (Str × Bool) :=
  (nm.short.find? (fun e => e.1 == c)).map (·.2)

def Names.parseLong (nm : Names) (raw : Str) : LongRes :=
  match nm.long.find? (fun e => e.1 == raw) with
  | some e => e.2
  | none => .noSuch

def Names.infoOf (nm : Names) (opt : Str) : OptInfo :=
  match nm.info.find? (fun e => e.1 == opt) with
  | some e => e.2
  | none => {}

def Names.str2sig (nm : Names) (name : Str) : Option Int :=
  (nm.sig.find? (fun e => e.1 == name)).map (·.2)

def portableOpt : Str := "portable".toList
def cmdlineOpt : Str := "cmdline".toList
def stdinOpt : Str := "stdin".toList

/-- `is_portable_long_name` (identical in set/syntax.rs and startup/args.rs) -/
def isPortableLongName (nm : Names) (raw : Str) (opt : Str) (state : Bool) : Bool :=
  if opt = portableOpt then raw = portableOpt
  else (nm.infoOf opt).portLong == some (raw, state)

/-- is the argument a cluster of short options (`is_short_option`; the prologue of set's
    `try_parse_short`): `-x…` or `+x…` with `x` not the same sign again; `some negate` -/
def shortSign : Str → Option Bool
  | '-' :: c :: _ => if c = '-' then none else some false
  | '+' :: c :: _ => if c = '+' then none else some true
  | _ => none

/-! ## `set` -/

inductive SetErr where
  | unknownShort (c : Char)
  | unknownLong
  | ambiguousLong
  | missingArgument
  | unmodifiableShort (c : Char)
  | unmodifiableLong
  | nonPortableShort (c : Char)
  | nonPortableLong
  | unseparated
  deriving DecidableEq, Repr

inductive SetCmd where
  | printVariables
  | printHuman
  | printMachine
  | modify (options : List (Str × Bool)) (params : Option (List Str))
  deriving DecidableEq, Repr

/-- options pushed, whether the next argument was consumed, the `portable` state afterwards -/
abbrev ShortOut := List (Str × Bool) × Bool × Bool

def consOpt (o : Str × Bool) : Except ε ShortOut → Except ε ShortOut
  | .ok (os, took, p) => .ok (o :: os, took, p)
  | .error e => .error e

/-- the `-o name` / `-oname` arm shared by `set` and the command line (`checkMod` = set refuses
    unmodifiable options) -/
def oArm (nm : Names) (negate : Bool) (p : Bool) (rest : Str) (next : Option Str)
    (eMissing eUnknown eAmbiguous eUnmod eNonPortable eUnseparated : ε) (checkMod : Bool) : Except ε ShortOut :=
  let attached := !rest.isEmpty
  match (if attached then some rest else next) with
  | none => .error eMissing
  | some raw =>
    match nm.parseLong raw with
    | .ok opt st =>
      if checkMod && !(nm.infoOf opt).modifiable then .error eUnmod
      else
        let new := if negate then !st else st
        if p && !isPortableLongName nm raw opt st then .error eNonPortable
        else if p && attached then .error eUnseparated
        else .ok ([(opt, new)], !attached, if opt = portableOpt then new else p)
    | .noSuch => .error eUnknown
    | .ambiguous => .error eAmbiguous

/-- a letter other than `o` in set's `try_parse_short`: the option it pushes -/
def setLetter (nm : Names) (negate : Bool) (p : Bool) (c : Char) : Except SetErr (Str × Bool) :=
  match nm.parseShort c with
  | none => .error (.unknownShort c)
  | some (opt, st) =>
    if !(nm.infoOf opt).modifiable then .error (.unmodifiableShort c)
    else if p && (nm.infoOf opt).portShort != some (c, st) then .error (.nonPortableShort c)
    else .ok (opt, if negate then !st else st)

/-- push the letter's option, then go on with the rest of the cluster -/
def thenCons (l : Except ε (Str × Bool)) (r : Except ε ShortOut) : Except ε ShortOut :=
  match l with
  | .error e => .error e
  | .ok o => consOpt o r

/-- the `while let Some(c) = chars.next()` loop of set's `try_parse_short` -/
def setShortLoop (nm : Names) (negate : Bool) (next : Option Str) : Bool → Str → Except SetErr ShortOut
  | p, [] => .ok ([], false, p)
  | p, c :: rest =>
    if c = 'o' then
      oArm nm negate p rest next .missingArgument .unknownLong .ambiguousLong .unmodifiableLong
        .nonPortableLong .unseparated true
    else thenCons (setLetter nm negate p c) (setShortLoop nm negate next p rest)

/-- set's `try_parse_long` on `--name` / `++name`; `none` = not a long option -/
def setLong (nm : Names) (p : Bool) (a : Str) : Option (Except SetErr ((Str × Bool) × Bool)) :=
  let go (name : Str) (negate : Bool) : Except SetErr ((Str × Bool) × Bool) :=
    match nm.parseLong name with
    | .ok opt st =>
      if !(nm.infoOf opt).modifiable then .error .unmodifiableLong
      else
        let new := if negate then !st else st
        if p then .error .nonPortableLong
        else .ok ((opt, new), if opt = portableOpt then new else p)
    | .noSuch => .error .unknownLong
    | .ambiguous => .error .ambiguousLong
  match a with
  | '-' :: '-' :: name => if name.isEmpty then none else some (go name false)
  | '+' :: '+' :: name => some (go name true)
  | _ => none

inductive Step (ε : Type) where
  | stop
  | opts (os : List (Str × Bool)) (took : Bool) (p : Bool)
  | fail (e : ε)

def Step.ofShort : Except ε ShortOut → Step ε
  | .ok (os, took, p') => .opts os took p'
  | .error e => .fail e

def Step.ofLong : Option (Except ε ((Str × Bool) × Bool)) → Step ε
  | some (.ok (o, p')) => .opts [o] false p'
  | some (.error e) => .fail e
  | none => .stop

def setStep (nm : Names) (p : Bool) (a : Str) (next : Option Str) : Step SetErr :=
  match shortSign a with
  | some negate => Step.ofShort (setShortLoop nm negate next p (a.drop 1))
  | none => Step.ofLong (setLong nm p a)

abbrev Looped (ε : Type) := Except ε (List (Str × Bool) × List Str)

def prependO (os : List (Str × Bool)) : Looped ε → Looped ε
  | .ok (os', rem) => .ok (os ++ os', rem)
  | .error e => .error e

/-- the `loop` of set's `parse` -/
def setLoop (nm : Names) : Bool → List Str → Looped SetErr
  | _, [] => .ok ([], [])
  | p, a :: rest =>
    match setStep nm p a rest.head? with
    | .fail e => .error e
    | .stop => .ok ([], a :: rest)
    | .opts os false p' => prependO os (setLoop nm p' rest)
    | .opts os true p' =>
      match rest with
      | [] => .ok (os, [])
      | _ :: rest' => prependO os (setLoop nm p' rest')

/-- what follows the loop in set's `parse`: drop one `--` / `-`; positional parameters are replaced iff
    a separator was there or operands remain -/
def finishSet : Looped SetErr → Except SetErr SetCmd
  | .error e => .error e
  | .ok (os, []) => .ok (.modify os none)
  | .ok (os, a :: rest) =>
    if a = ['-', '-'] ∨ a = ['-'] then .ok (.modify os (some rest)) else .ok (.modify os (some (a :: rest)))

/-- set's `parse` -/
def setParse (nm : Names) (portable : Bool) (args : List Str) : Except SetErr SetCmd :=
  if args = [] then .ok .printVariables
  else if args = [['-', 'o']] then .ok .printHuman
  else if args = [['+', 'o']] then .ok .printMachine
  else finishSet (setLoop nm portable args)

/-! ## the shell's own command line -/

inductive ShErr where
  | unknownShort (c : Char)
  | unknownLong
  | ambiguousLong
  | missingArgument
  | unexpectedArgument
  | conflictingSources
  | unnegatableShort (c : Char)
  | unnegatableLong
  | missingCommandString
  | nonPortableShort (c : Char)
  | nonPortableShortNegation (c : Char)
  | nonPortableLong
  | unseparated
  deriving DecidableEq, Repr

inductive Source where
  | stdin | file (path : Str) | string (s : Str)
  deriving DecidableEq, Repr

inductive InitFile where
  | none | default | file (path : Str)
  deriving DecidableEq, Repr

structure Run where
  source : Source := .stdin
  profile : InitFile := .default
  rcfile : InitFile := .default
  options : List (Str × Bool) := []
  arg0 : Str := []
  params : List Str := []
  deriving DecidableEq, Repr

inductive ShParse where
  | run (r : Run) | help | version
  deriving DecidableEq, Repr

/-- a letter other than `V` and `o` in `try_parse_short` -/
def shLetter (nm : Names) (negate : Bool) (p : Bool) (c : Char) : Except ShErr (Str × Bool) :=
  match nm.parseShort c with
  | none => .error (.unknownShort c)
  | some (opt, st) =>
    if p && (nm.infoOf opt).portShort != some (c, st) then .error (.nonPortableShort c)
    else if p && negate && (opt = cmdlineOpt || opt = stdinOpt) then .error (.nonPortableShortNegation c)
    else .ok (opt, if negate then !st else st)

def thenConsV (l : Except ε (Str × Bool)) (r : Except ε (ShortOut × Bool)) : Except ε (ShortOut × Bool) :=
  match l, r with
  | .error e, _ => .error e
  | .ok _, .error e => .error e
  | .ok o, .ok ((os, took, p'), v) => .ok ((o :: os, took, p'), v)

def noVersion : Except ε ShortOut → Except ε (ShortOut × Bool)
  | .ok r => .ok (r, false)
  | .error e => .error e

/-- `try_parse_short`'s loop; the extra Boolean of the error-free result says "`-V` was seen" -/
def shShortLoop (nm : Names) (negate : Bool) (next : Option Str) : Bool → Str → Except ShErr (ShortOut × Bool)
  | p, [] => .ok (([], false, p), false)
  | p, c :: rest =>
    if c = 'V' then
      (if negate then .error (.unnegatableShort 'V')
       else if p then .error (.nonPortableShort 'V')
       else .ok (([], false, p), true))
    else if c = 'o' then
      noVersion (oArm nm negate p rest next ShErr.missingArgument .unknownLong .ambiguousLong .unknownLong
          .nonPortableLong .unseparated false)
    else thenConsV (shLetter nm negate p c) (shShortLoop nm negate next p rest)

/-- `LongOption` -/
inductive ShLong where
  | shell (opt : Str) (state : Bool)
  | profile (path : Str) | noProfile | rcfile (path : Str) | noRcfile | help | version
  deriving DecidableEq, Repr

/-- `NonShellOptionConstructor::from_name`: `some (takesArg, ctor)` -/
def nonShell (name : Str) : Option (Bool × (Str → ShLong)) :=
  if name.isPrefixOf "profile".toList then some (true, .profile)
  else if name.isPrefixOf "rcfile".toList then some (true, .rcfile)
  else if name.isPrefixOf "noprofile".toList then some (false, fun _ => .noProfile)
  else if name.isPrefixOf "norcfile".toList then some (false, fun _ => .noRcfile)
  else if name.isPrefixOf "help".toList then some (false, fun _ => .help)
  else if name.isPrefixOf "version".toList then some (false, fun _ => .version)
  else none

def isLongArg : Str → Option Bool
  | '-' :: '-' :: name => if name.isEmpty then none else some false
  | '+' :: '+' :: _ => some true
  | _ => none

def notEqC (c : Char) : Bool := c != '='

/-- `try_parse_long` on an argument that `is_long_option`; result, took-next flag, new portable -/
def shLong (nm : Names) (p : Bool) (negate : Bool) (chars : Str) (next : Option Str) :
    Except ShErr (ShLong × Bool × Bool) :=
  let name := chars.takeWhile notEqC
  let tl := chars.dropWhile notEqC          -- empty, or `=value`
  match nonShell name, nm.parseLong chars with
  | _, .ambiguous => .error .ambiguousLong
  | some _, .ok _ _ => .error .ambiguousLong
  | none, .noSuch => .error .unknownLong
  | some (takesArg, ctor), .noSuch =>
    if negate then .error .unnegatableLong
    else if p then .error .nonPortableLong
    else if !takesArg then
      (if tl.isEmpty then .ok (ctor [], false, p) else .error .unexpectedArgument)
    else if !tl.isEmpty then .ok (ctor (tl.drop 1), false, p)
    else match next with
      | some v => .ok (ctor v, true, p)
      | none => .error .missingArgument
  | none, .ok opt st =>
    let new := if negate then !st else st
    if p then .error .nonPortableLong
    else .ok (.shell opt new, false, if opt = portableOpt then new else p)

inductive ShStep where
  | stop
  | fail (e : ShErr)
  | finish (r : ShParse)
  | go (f : Run → Run) (took : Bool) (p : Bool)

def applyLong (o : ShLong) (r : Run) : Run :=
  match o with
  | .shell opt st => { r with options := r.options ++ [(opt, st)] }
  | .profile path => if r.profile != .none then { r with profile := .file path } else r
  | .noProfile => { r with profile := .none }
  | .rcfile path => if r.rcfile != .none then { r with rcfile := .file path } else r
  | .noRcfile => { r with rcfile := .none }
  | .help => r
  | .version => r

def pushOptions (os : List (Str × Bool)) (r : Run) : Run := { r with options := r.options ++ os }

/-- after a cluster: the options seen before `-V` have been pushed, but `Parse::Version` discards them -/
def ShStep.ofShort : Except ShErr (ShortOut × Bool) → ShStep
  | .error e => .fail e
  | .ok ((os, took, p'), v) => if v then .finish .version else .go (pushOptions os) took p'

def ShStep.ofLong : Except ShErr (ShLong × Bool × Bool) → ShStep
  | .error e => .fail e
  | .ok (.help, _, _) => .finish .help
  | .ok (.version, _, _) => .finish .version
  | .ok (o, took, p') => .go (applyLong o) took p'

def shStep (nm : Names) (p : Bool) (a : Str) (next : Option Str) : ShStep :=
  match shortSign a with
  | some negate => ShStep.ofShort (shShortLoop nm negate next p (a.drop 1))
  | none =>
    match isLongArg a with
    | none => .stop
    | some negate => ShStep.ofLong (shLong nm p negate (a.drop 2) next)

/-- the option loop of `parse`: the `Run` so far and the remaining arguments, or an early result -/
def shLoop (nm : Names) : Bool → Run → List Str → Except ShErr (ShParse ⊕ (Run × List Str))
  | _, r, [] => .ok (.inr (r, []))
  | p, r, a :: rest =>
    match shStep nm p a rest.head? with
    | .fail e => .error e
    | .finish x => .ok (.inl x)
    | .stop => .ok (.inr (r, a :: rest))
    | .go f false p' => shLoop nm p' (f r) rest
    | .go f true p' =>
      match rest with
      | [] => .ok (.inr (f r, []))
      | _ :: rest' => shLoop nm p' (f r) rest'

/-- `parse_arg0` -/
def arg0Options (arg0 : Str) : List (Str × Bool) :=
  (if arg0.head? = some '-' then [("login".toList, true)] else []) ++
  (if (arg0.reverse.takeWhile (· != '/')).reverse = ['s', 'h'] then [("posixlycorrect".toList, true)] else [])

/-- the operand part of `parse` -/
def shOperands (r : Run) (rem : List Str) : Except ShErr ShParse :=
  let rem := match rem with
    | a :: rest => if a = ['-'] ∨ a = ['-', '-'] then rest else a :: rest
    | [] => []
  if r.options.contains (cmdlineOpt, true) then
    if r.options.contains (stdinOpt, true) then .error .conflictingSources
    else match rem with
      | [] => .error .missingCommandString
      | cmd :: rest =>
        match rest with
        | [] => .ok (.run { r with source := .string cmd, params := [] })
        | name :: params => .ok (.run { r with source := .string cmd, arg0 := name, params := params })
  else if r.options.contains (stdinOpt, true) then .ok (.run { r with source := .stdin, params := rem })
  else match rem with
    | [] => .ok (.run { r with params := [] })
    | operand :: params => .ok (.run { r with arg0 := operand, source := .file operand, params := params })

/-- `startup::args::parse` (the vector includes `argv[0]`) -/
def shParse (nm : Names) (argv : List Str) : Except ShErr ShParse :=
  match argv with
  | [] => shOperands {} []
  | arg0 :: args =>
    match shLoop nm false { options := arg0Options arg0, arg0 := arg0 } args with
    | .error e => .error e
    | .ok (.inl x) => .ok x
    | .ok (.inr (r, rem)) => shOperands r rem

/-! ## `kill` -/

inductive KillErr where
  | unknownOption
  | nonPortableOption (c : Char)
  | conflictingOptions (listOption : Char)
  | missingSignal (c : Char)
  | unseparatedSignalArgument
  | nonPortableSignalNumber (n : Int)
  | nonPortableSignalPrefix
  | multipleSignals
  | invalidSignal
  | multipleListOperands
  | nonPortableListOperand
  | missingTarget
  deriving DecidableEq, Repr

inductive KillCmd where
  | send (signal : Int) (hasOrigin : Bool) (targets : List Str)
  | print (signals : List Str) (verbose : Bool)
  deriving DecidableEq, Repr

def digitsVal : Str → Nat → Option Nat
  | [], acc => some acc
  | c :: rest, acc => if c.isDigit then digitsVal rest (acc * 10 + (c.toNat - 48)) else none

/-- `str::parse::<i32>()`: optional sign, at least one ASCII digit, within range -/
def parseI32 (s : Str) : Option Int :=
  let (neg, ds) := match s with
    | '-' :: ds => (true, ds)
    | '+' :: ds => (false, ds)
    | ds => (false, ds)
  if ds.isEmpty then none
  else match digitsVal ds 0 with
    | none => none
    | some n =>
      let v : Int := if neg then -(n : Int) else (n : Int)
      if -2147483648 ≤ v ∧ v ≤ 2147483647 then some v else none

def upper (s : Str) : Str := s.map fun c => if 'a' ≤ c ∧ c ≤ 'z' then Char.ofNat (c.toNat - 32) else c

def stripSIG : Str → Option Str
  | 'S' :: 'I' :: 'G' :: rest => some rest
  | _ => none

/-- `parse_signal` -/
def parseSignal (nm : Names) (spec : Str) (allowSigPrefix : Bool) : Option Int :=
  match parseI32 spec with
  | some n => some n
  | none =>
    let u := upper spec
    let name := if allowSigPrefix then (stripSIG u).getD u else u
    nm.str2sig name

/-- `is_signal_name` -/
def isSignalName (nm : Names) (spec : Str) (allow : Bool) : Bool :=
  (parseI32 spec).isNone && (parseSignal nm spec allow).isSome

/-- `non_portable_signal_number` -/
def nonPortableSignalNumber (spec : Str) : Option Int :=
  match parseI32 spec with
  | some 0 => none
  | some n => some n
  | none => none

/-- `check_portable_signal_prefix` fails? -/
def sigPrefixOnly (nm : Names) (spec : Str) : Bool :=
  (parseSignal nm spec false).isNone && (parseSignal nm spec true).isSome

structure KillState where
  signal : Int
  hasOrigin : Bool := false
  list : Bool := false
  verbose : Bool := false
  deriving Repr

/-- `set_signal` -/
def setSignal (st : KillState) (new : Option Int) : Except KillErr KillState :=
  match new with
  | none => .error .invalidSignal
  | some n => if st.hasOrigin then .error .multipleSignals else .ok { st with signal := n, hasOrigin := true }

def withTook (took : Bool) : Except KillErr KillState → Except KillErr (KillState × Bool)
  | .ok st => .ok (st, took)
  | .error e => .error e

/-- `invalid_signal_to_unknown_option` -/
def invalidToUnknown : Except KillErr KillState → Except KillErr KillState
  | .error .invalidSignal => .error .unknownOption
  | r => r

/-- the `while let Some(option) = chars.next()` loop on one option argument (`options` = the text
    after `-`, `chars` = what is left of it); result: new state and whether the next argument was taken -/
def killChars (nm : Names) (portable : Bool) (options : Str) (next : Option Str) :
    KillState → Str → Except KillErr (KillState × Bool)
  | st, [] => .ok (st, false)
  | st, c :: remainder =>
    let allow := !portable
    if (c = 'n' ∨ c = 'v') ∧ portable then .error (.nonPortableOption c)
    else if c = 's' ∨ c = 'n' then
      if remainder.isEmpty then
        match next with
        | none => .error (.missingSignal c)
        | some arg =>
          if portable ∧ (nonPortableSignalNumber arg).isSome then
            .error (.nonPortableSignalNumber ((nonPortableSignalNumber arg).getD 0))
          else if portable ∧ sigPrefixOnly nm arg then .error .nonPortableSignalPrefix
          else withTook true (setSignal st (parseSignal nm arg allow))
      else
        if portable ∧ (nonPortableSignalNumber remainder).isSome then
          .error (.nonPortableSignalNumber ((nonPortableSignalNumber remainder).getD 0))
        else if portable ∧ (parseSignal nm remainder allow).isSome then .error .unseparatedSignalArgument
        else if portable ∧ (sigPrefixOnly nm remainder ∨ sigPrefixOnly nm options) then .error .nonPortableSignalPrefix
        else withTook false (setSignal st ((parseSignal nm remainder allow).orElse fun _ => parseSignal nm options allow))
    else if c = 'l' then killChars nm portable options next { st with list := true } remainder
    else if c = 'v' then killChars nm portable options next { st with verbose := true } remainder
    else
      if portable ∧ sigPrefixOnly nm options then .error .nonPortableSignalPrefix
      else withTook false (invalidToUnknown (setSignal st (parseSignal nm options allow)))

/-- is the argument examined as an option (`strip_prefix('-')` non-empty)? -/
def killIsOption : Str → Bool
  | '-' :: _ :: _ => true
  | _ => false

/-- the option loop of kill's `parse`: final state and the operands -/
def killLoop (nm : Names) (portable : Bool) : KillState → List Str → Except KillErr (KillState × List Str)
  | st, [] => .ok (st, [])
  | st, a :: rest =>
    if !killIsOption a then .ok (st, a :: rest)
    else if a = ['-', '-'] then .ok (st, rest)
    else
      match killChars nm portable (a.drop 1) rest.head? st (a.drop 1) with
      | .error e => .error e
      | .ok (st', false) => killLoop nm portable st' rest
      | .ok (st', true) =>
        match rest with
        | [] => .ok (st', [])
        | _ :: rest' => killLoop nm portable st' rest'

/-- kill's `parse` (`sigterm` = `S::SIGTERM`) -/
def killParse (nm : Names) (portable : Bool) (sigterm : Int) (args : List Str) : Except KillErr KillCmd :=
  match killLoop nm portable { signal := sigterm } args with
  | .error e => .error e
  | .ok (st, operands) =>
    let listCase (c : Char) (verbose : Bool) : Except KillErr KillCmd :=
      if st.hasOrigin then .error (.conflictingOptions c)
      else
        -- `check_portable_list_operands`
        if portable && (match operands with | f :: _ => isSignalName nm f (!portable) | [] => false) then
          .error .nonPortableListOperand
        else if portable ∧ operands.length ≥ 2 then .error .multipleListOperands
        else .ok (.print operands verbose)
    if st.verbose then listCase 'v' true
    else if st.list then listCase 'l' false
    else if operands.isEmpty then .error .missingTarget
    else .ok (.send st.signal st.hasOrigin operands)

end YashModel.Args.Bespoke
