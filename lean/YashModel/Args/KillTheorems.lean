/-
  C20 — property theorems ONLY, `kill`: the tables behind `str2sig`, and signal-versus-process-id ambiguity.
-/
import YashModel.Args.BespokeLemmas
import YashModel.Args.Str2sig
import YashModel.Args.EndOfOptionsTheorems
namespace YashModel.Args.Bespoke
open YashModel.Generated

/-- ☆ `NAMED_SIGNALS` is strictly ascending — the precondition of the binary search in `str2sig`, which is therefore the
    linear `find?` of the model -/
theorem namedSignals_ascending :
    (SignalNames.namedSignals.map (·.1)).Pairwise (· < ·) := by decide

/-- ☆ the real-time prefixes `str2sig` strips, in the order of its `if let … else if let` chain -/
theorem rt_prefixes_extracted : SignalNames.rtBaseNames = ["RTMIN", "RTMAX"] := by decide

/-- ☆ every constant `NAMED_SIGNALS` reads is bound by the virtual system to a constant that has a number -/
theorem named_signals_all_numbered :
    ∀ e ∈ SignalNames.namedSignals, e.2 = "" ∨ (namedNumber e.2).isSome = true := by decide

example : str2sig "INT".toList = some 2 := by decide
example : str2sig "RTMIN+3".toList = some 204 := by decide
example : str2sig "RTMAX+1".toList = none := by decide
example : str2sig "int".toList = none := by decide

/-- ★ signal or process? an argument `-<spec>` in option position whose text is a signal specification (a number, or a
    name `str2sig` knows) and does not start with one of kill's letters `s n l v` is the SIGNAL, never a negative process
    id: `kill -9 1 2` sends signal 9 to `1`, `2` -/
theorem kill_dash_spec_is_signal (nm : Names) (sigterm : Int) (c : Char) (cs : Str) (v : Int)
    (hc : c ≠ 's' ∧ c ≠ 'n' ∧ c ≠ 'l' ∧ c ≠ 'v') (hcd : (c :: cs) ≠ ['-'])
    (hv : parseSignal nm (c :: cs) true = some v) (t : Str) (ht : killIsOption t = false) (ts : List Str) :
    killParse nm false sigterm (('-' :: c :: cs) :: t :: ts) = .ok (.send v true (t :: ts)) := by
  unfold killParse
  rw [killLoop_option nm _ (c :: cs) (t :: ts) (by simp) hcd, killChars_cons]
  simp [hc.1, hc.2.1, hc.2.2.1, hc.2.2.2, hv, setSignal, invalidToUnknown, withTook, contK, killLoop, ht]

/-- ★ … and so is a SECOND such argument: a negative process id directly behind the signal is read as another signal
    and rejected — it needs the `--` (`kill -9 -5` fails, `kill -9 -- -5` signals the process group 5:
    `kill_send_targets_after_dashdash`) -/
theorem kill_negative_pid_needs_dashdash (nm : Names) (sigterm : Int) (c d : Char) (cs ds : Str) (v w : Int)
    (hc : c ≠ 's' ∧ c ≠ 'n' ∧ c ≠ 'l' ∧ c ≠ 'v') (hcd : (c :: cs) ≠ ['-'])
    (hd : d ≠ 's' ∧ d ≠ 'n' ∧ d ≠ 'l' ∧ d ≠ 'v') (hdd : (d :: ds) ≠ ['-'])
    (hv : parseSignal nm (c :: cs) true = some v) (hw : parseSignal nm (d :: ds) true = some w) (ts : List Str) :
    killParse nm false sigterm (('-' :: c :: cs) :: ('-' :: d :: ds) :: ts) = .error .multipleSignals := by
  unfold killParse
  rw [killLoop_option nm _ (c :: cs) _ (by simp) hcd, killChars_cons]
  simp only [hc.1, hc.2.1, hc.2.2.1, hc.2.2.2, hv, setSignal, invalidToUnknown, withTook, contK, false_and, false_or,
    if_false, Bool.not_false, Bool.false_eq_true]
  rw [killLoop_option nm _ (d :: ds) _ (by simp) hdd, killChars_cons]
  simp [hd.1, hd.2.1, hd.2.2.1, hd.2.2.2, hw, setSignal, invalidToUnknown, withTook, contK]

/-- `kill -9 1 2`; `kill -INT 1` with the names the model of `str2sig` answers; `kill -9 -5` -/
example : killParse {} false 15 [['-','9'], ['1'], ['2']] = .ok (.send 9 true [['1'], ['2']]) :=
  kill_dash_spec_is_signal {} 15 '9' [] 9 (by decide) (by decide) (by decide) ['1'] rfl [['2']]
example : killParse { sig := sigAnswers [['-','I','N','T']] } false 15 [['-','I','N','T'], ['1']] = .ok (.send 2 true [['1']]) :=
  kill_dash_spec_is_signal _ 15 'I' ['N','T'] 2 (by decide) (by decide) (by decide) ['1'] rfl []
example : killParse {} false 15 [['-','9'], ['-','5']] = .error .multipleSignals :=
  kill_negative_pid_needs_dashdash {} 15 '9' '5' [] [] 9 5 (by decide) (by decide) (by decide) (by decide) (by decide) (by decide) []

end YashModel.Args.Bespoke
