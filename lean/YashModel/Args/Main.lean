/-
  Driver for C20.  stdin: one case per line, stdout: `<model observation>\t<spec>`.

  Case lines (space-separated tokens; strings are hex of UTF-8, `-` = empty string, `~` = absent):
    P <mode> <specs> <arg>*                       one vector against `parse_arguments`
    S <cmd> <mode> <specs> <setup> <probe> <arg>* ( | <arg>* )*   equivalent spellings of one invocation
    M <cmd> <mode> <specs> <setup> <probe> <arg>*                 a malformed invocation
    B <portable> <cmd> <setup> <probe> <arg>* ( | <arg>* )*   shell-level spellings (no model: observation = their number)
    E <portable> <cmd> <setup> <probe> <arg>*     shell-level rejection (no model)
    G <optstring> <arg>*                          `while getopts optstring v arg…` run to the end
    J <step> ( ; <step> )*                        getopts sessions in ONE shell: `S <i|a|l> <optstring> <limit|*> <arg>*` | `R <value>`
    T <portable> <names> <arg>*                   set/syntax.rs `parse`
    H <names> <argv0> <arg>*                      startup/args.rs `parse` (the shell's own command line)
    K <portable> <sigterm> <names> <arg>*         kill/syntax.rs `parse`
    Y <ln><p> <table> <arg>*                      typeset/syntax.rs `parse` + `interpret` (<ln> = long_option_names, <p> = portable;
                                                  <table> = `@typeset` | `@export` | `@readonly` (re-extracted constants) | `_` |
                                                  comma-separated `<short>:<long>:<attr>`, attr 0 none / 1 ReadOnly / 2 Export)
    Q <builtin> <portable> <arg>*                 cd / pwd / unset / unalias `syntax::parse`: parse_arguments + the built-in's own checks
    U <names> <init> <params0> <arg>*             `set arg…` run in a shell: set.rs `main` (<init> = `name.bit;…` for every option,
                                                  <params0> = `_` or comma-separated positional parameters)
  <names> = `_` or comma-separated answers of yash_env::option / Signals::str2sig:
            s:<char>:<opt>:<state>  l:<raw>:N|A|<opt>:<state>  o:<opt>:<modifiable>:<portable short c.state|~>:<portable long n.state|~>  g:<NAME>:<number>
  <mode>  = three bits: long_option_names, extension_options, option_arguments_in_same_field
  <specs> = `_` (empty table) or comma-separated `<short>:<long>:<takesArg>:<extension>`
-/
import YashModel.Common.Proto
import YashModel.Args.Model
import YashModel.Args.Spec
import YashModel.Args.Canon
import YashModel.Args.Getopts
import YashModel.Args.GetoptsHistory
import YashModel.Args.Bespoke
import YashModel.Args.BespokeSpec
import YashModel.Args.SetMain
import YashModel.Args.SetSpec
import YashModel.Args.OptionNames
import YashModel.Args.Typeset
import YashModel.Args.SeparateModeLemmas
import YashModel.Args.Str2sig
import YashModel.Args.Post
import YashModel.Args.TypesetSpec
import YashModel.Generated.OptionNames
import YashModel.Generated.ArgSpecs
open YashModel YashModel.Args YashModel.Proto

def parseBit (c : Char) : Option Bool :=
  if c = '1' then some true else if c = '0' then some false else none

def parseMode (t : String) : Option Mode :=
  match t.toList with
  | [a, b, c] => do pure ⟨← parseBit a, ← parseBit b, ← parseBit c⟩
  | _ => none

def parseOptStr (t : String) : Option (Option Str) :=
  if t = "~" then some none else (decChars t).map some

def parseSpec (t : String) : Option OptionSpec :=
  match t.splitOn ":" with
  | [s, l, a, e] => do
    let sh ← parseOptStr s
    let short ← match sh with
      | none => some none
      | some [c] => some (some c)
      | _ => none
    let long ← parseOptStr l
    let a ← match a.toList with | [c] => parseBit c | _ => none
    let e ← match e.toList with | [c] => parseBit c | _ => none
    pure { short := short, long := long, takesArg := a, extension := e }
  | _ => none

def parseSpecs (t : String) : Option (List OptionSpec) :=
  if t = "_" then some [] else (t.splitOn ",").mapM parseSpec

def bit (b : Bool) : String := if b then "1" else "0"

def showOptStr : Option Str → String
  | none => "~"
  | some s => encChars s

def showSpec (s : OptionSpec) : String :=
  let sh := match s.short with | none => "~" | some c => encChars [c]
  s!"{sh}:{showOptStr s.long}:{bit s.takesArg}:{bit s.extension}"

def showSpelling : Spelling → String
  | .short i => s!"s{i}"
  | .long => "l"

def showErr : ParseError → String
  | .unknownShort c => s!"err:unknownShort:{encChars [c]}"
  | .unknownLong => "err:unknownLong"
  | .nonPortableShort c s => s!"err:nonPortableShort:{encChars [c]}:{showSpec s}"
  | .nonPortableLong s => s!"err:nonPortableLong:{showSpec s}"
  | .ambiguousLong ss => s!"err:ambiguous:{"+".intercalate (ss.map showSpec)}"
  | .missingArgument s => s!"err:missing:{showSpec s}"
  | .unseparatedArgument s => s!"err:unseparated:{showSpec s}"
  | .unexpectedArgument s => s!"err:unexpected:{showSpec s}"

def showParsed : Parsed → String
  | .error e => showErr e
  | .ok (os, ops) =>
    let o := os.map fun o => s!"{showSpec o.spec}@{showSpelling o.spelling}={showOptStr o.argument}"
    s!"ok [{";".intercalate o}] [{",".intercalate (ops.map encChars)}]"

def showView : View → String
  | .error e => showErr e
  | .ok (os, ops) =>
    let o := os.map fun (s, a) => s!"{showSpec s}={showOptStr a}"
    s!"ok [{";".intercalate o}] [{",".intercalate (ops.map encChars)}]"

/-- split a token list at `;` -/
def splitSemi (ts : List String) : List (List String) :=
  let rec go (ts : List String) (cur : List String) (acc : List (List String)) : List (List String) :=
    match ts with
    | [] => (cur.reverse :: acc).reverse
    | t :: r => if t = ";" then go r [] (cur.reverse :: acc) else go r (t :: cur) acc
  go ts [] []

/-- split a token list at `|` -/
def splitBar (ts : List String) : List (List String) :=
  let rec go (ts : List String) (cur : List String) (acc : List (List String)) : List (List String) :=
    match ts with
    | [] => (cur.reverse :: acc).reverse
    | t :: r => if t = "|" then go r [] (cur.reverse :: acc) else go r (t :: cur) acc
  go ts [] []

def specVerdict (specs : List OptionSpec) (mode : Mode) (args : List Str) (r : Parsed) : Option String :=
  let v := r.view
  let s := Spec.parse specs mode args
  if showView v ≠ showView s then some s!"FAIL:spec-predicts {showView s}"
  else if mode.optionArgumentsInSameField then
    -- the canonical spelling (Canon.lean) must parse alike, and be read by the simple reader when accepted
    let c := Spec.canon specs args
    let vc := (parseArguments specs mode c).view
    if showView vc ≠ showView v then some s!"FAIL:canonical-spelling-gives {showView vc}"
    else match v with
      | .ok _ =>
        if specs.all (fun s => s.short != some '-' && (match s.long with | some l => !l.isEmpty && !l.contains '=' | none => true))
            && showView (Spec.readCanon specs mode c) ≠ showView v then
          some s!"FAIL:simple-reader-gives {showView (Spec.readCanon specs mode c)}"
        else none
      | .error _ => none
  else none

/-! getopts leg -/

def showOptind (p : Nat × Nat) : String := if p.2 = 1 then s!"{p.1}" else s!"{p.1}:{p.2}"

def showGetopts (r : List Getopts.Ev × Option Nat) : String :=
  let evs := r.1.map fun e => s!"{encChars [e.var]},{showOptStr e.optarg},{showOptind e.optind}"
  let diags := (r.1.filter (·.diag)).length
  let fin := match r.2 with
    | some i => s!"3f,~,{i},st1"
    | none => "LOOP"
  s!"[{";".intercalate evs}] end={fin} diag={diags}"

def showGObs (o : Getopts.Obs) : String :=
  let evs := o.1.map fun (v, a, d) => s!"{encChars [v]},{showOptStr a},{bit d}"
  let ops := match o.2 with
    | some l => ",".intercalate (l.map encChars)
    | none => "LOOP"
  s!"[{";".intercalate evs}] [{ops}]"

def runGetopts (spec : Str) (args : List Str) : String :=
  let r := Getopts.walkAll spec args
  let o := Getopts.obsOf args r
  let s := Getopts.specObs spec args
  let verdict := if showGObs o = showGObs s then "ok" else s!"FAIL:separated-spelling-gives {showGObs s}"
  showGetopts r ++ "\t" ++ verdict

/-! bespoke parsers: set, the shell's command line, kill -/

open YashModel.Args.Bespoke in
def parseNames (t : String) : Option Names :=
  if t = "_" then some {} else
  (t.splitOn ",").foldlM (init := ({} : Names)) fun nm e =>
    match e.splitOn ":" with
    | ["s", c, o, st] => do
      let c ← decChars c
      let c ← c.head?
      let o ← decChars o
      let st ← st.toList.head? >>= parseBit
      pure { nm with short := nm.short ++ [(c, o, st)] }
    | ["l", r, "N"] => do pure { nm with long := nm.long ++ [(← decChars r, .noSuch)] }
    | ["l", r, "A"] => do pure { nm with long := nm.long ++ [(← decChars r, .ambiguous)] }
    | ["l", r, o, st] => do
      let st ← st.toList.head? >>= parseBit
      pure { nm with long := nm.long ++ [(← decChars r, .ok (← decChars o) st)] }
    | ["o", o, m, ps, pl] => do
      let m ← m.toList.head? >>= parseBit
      let pair (x : String) : Option (Option (List Char × Bool)) :=
        if x = "~" then some none else
        match x.splitOn "." with
        | [n, st] => do pure (some (← decChars n, ← st.toList.head? >>= parseBit))
        | _ => none
      let ps ← pair ps
      let pl ← pair pl
      let ps' ← match ps with
        | none => some none
        | some ([c], st) => some (some (c, st))
        | _ => none
      pure { nm with info := nm.info ++ [(← decChars o, { modifiable := m, portShort := ps', portLong := pl })] }
    | ["g", n, v] => do pure { nm with sig := nm.sig ++ [(← decChars n, ← v.toInt?)] }
    | ["a", _, _] => some nm
    | _ => none

def showOpts (os : List (Str × Bool)) : String :=
  ";".intercalate (os.map fun (o, st) => s!"{String.ofList o}={bit st}")

def showStrs (l : List Str) : String := ",".intercalate (l.map encChars)

open YashModel.Args.Bespoke in
def showSet : Except SetErr SetCmd → String
  | .ok .printVariables => "ok vars"
  | .ok .printHuman => "ok human"
  | .ok .printMachine => "ok machine"
  | .ok (.modify os ps) =>
    let p := match ps with | none => "~" | some l => s!"[{showStrs l}]"
    s!"ok modify [{showOpts os}] params={p}"
  | .error e => match e with
    | .unknownShort c => s!"err:unknownShort:{encChars [c]}"
    | .unknownLong => "err:unknownLong"
    | .ambiguousLong => "err:ambiguousLong"
    | .missingArgument => "err:missingArgument"
    | .unmodifiableShort c => s!"err:unmodifiableShort:{encChars [c]}"
    | .unmodifiableLong => "err:unmodifiableLong"
    | .nonPortableShort c => s!"err:nonPortableShort:{encChars [c]}"
    | .nonPortableLong => "err:nonPortableLong"
    | .unseparated => "err:unseparated"

open YashModel.Args.Bespoke in
def showSh : Except ShErr ShParse → String
  | .ok .help => "ok help"
  | .ok .version => "ok version"
  | .ok (.run r) =>
    let src := match r.source with | .stdin => "stdin" | .file p => s!"file:{encChars p}" | .string p => s!"string:{encChars p}"
    let ini : InitFile → String := fun i => match i with | .none => "none" | .default => "default" | .file p => s!"file:{encChars p}"
    s!"ok run src={src} profile={ini r.profile} rcfile={ini r.rcfile} opts=[{showOpts r.options}] arg0={encChars r.arg0} params=[{showStrs r.params}]"
  | .error e => match e with
    | .unknownShort c => s!"err:unknownShort:{encChars [c]}"
    | .unknownLong => "err:unknownLong"
    | .ambiguousLong => "err:ambiguousLong"
    | .missingArgument => "err:missingArgument"
    | .unexpectedArgument => "err:unexpectedArgument"
    | .conflictingSources => "err:conflictingSources"
    | .unnegatableShort c => s!"err:unnegatableShort:{encChars [c]}"
    | .unnegatableLong => "err:unnegatableLong"
    | .missingCommandString => "err:missingCommandString"
    | .nonPortableShort c => s!"err:nonPortableShort:{encChars [c]}"
    | .nonPortableShortNegation c => s!"err:nonPortableShortNegation:{encChars [c]}"
    | .nonPortableLong => "err:nonPortableLong"
    | .unseparated => "err:unseparated"

open YashModel.Args.Bespoke in
def showKill : Except KillErr KillCmd → String
  | .ok (.send sig o ts) => s!"ok send {sig} origin={bit o} [{showStrs ts}]"
  | .ok (.print ss v) => s!"ok print [{showStrs ss}] verbose={bit v}"
  | .error e => match e with
    | .unknownOption => "err:unknownOption"
    | .nonPortableOption c => s!"err:nonPortableOption:{encChars [c]}"
    | .conflictingOptions c => s!"err:conflictingOptions:{encChars [c]}"
    | .missingSignal c => s!"err:missingSignal:{encChars [c]}"
    | .unseparatedSignalArgument => "err:unseparatedSignalArgument"
    | .nonPortableSignalNumber n => s!"err:nonPortableSignalNumber:{n}"
    | .nonPortableSignalPrefix => "err:nonPortableSignalPrefix"
    | .multipleSignals => "err:multipleSignals"
    | .invalidSignal => "err:invalidSignal"
    | .multipleListOperands => "err:multipleListOperands"
    | .nonPortableListOperand => "err:nonPortableListOperand"
    | .missingTarget => "err:missingTarget"

/-- `a:<char>:<0|1>` entries of <names>: `char::is_alphanumeric` of the non-ASCII characters of the case -/
def parseAlnum (t : String) : List (Char × Bool) :=
  if t = "_" then [] else
  (t.splitOn ",").filterMap fun e =>
    match e.splitOn ":" with
    | ["a", c, b] => do
      let c ← decChars c
      let c ← c.head?
      let b ← b.toList.head? >>= parseBit
      pure (c, b)
    | _ => none

def allSuffixes (args : List (List Char)) : List (List Char) :=
  ([] :: args.flatMap fun a => (List.range a.length).map fun i => a.drop i).eraseDups

/-- The long-name answers are NOT taken from the harness: they are computed by the model of
    `canonicalize` / `parse_long` (Args/OptionNames.lean) over the generated table of option names. -/
def withModelLong (nm : Bespoke.Names) (extra : List (Char × Bool)) (args : List (List Char)) : Bespoke.Names :=
  { nm with long := (allSuffixes args).map fun s =>
      (s, match OptionNames.resolve Generated.OptionNames.optionNames extra s with
          | .ok o st => Bespoke.LongRes.ok o st
          | .noSuch => .noSuch
          | .ambiguous => .ambiguous) }

/-- The answers of `parse_short`, `is_modifiable`, `portable_short_name`, `portable_long_name` are NOT taken from
    the harness either: they come from the tables re-extracted from yash-env/src/option.rs (`Bespoke.tableNames`);
    only `str2sig` (kill) is still the harness's. -/
def withModelTables (nm : Bespoke.Names) (extra : List (Char × Bool)) (args : List (List Char)) : Bespoke.Names :=
  { Bespoke.tableNames (withModelLong nm extra args).long with sig := nm.sig }

open YashModel.Args.Bespoke in
def showSetResult (init : OptStates) (r : SetResult) : String :=
  let out := match r.out with
    | .nothing => "-"
    | .variables => "vars"
    | .text s => encChars s
  let chg := r.env.options.filter fun e => !(init.any fun i => i.1 == e.1 && i.2 == e.2)
  s!"st={r.status} diag={bit r.diag} out={out} chg=[{showOpts chg}] params=[{showStrs r.env.params}]"

def parseInit (t : String) : Option (List (List Char × Bool)) :=
  (t.splitOn ";").mapM fun e =>
    match e.splitOn "." with
    | [n, b] => do pure (n.toList, ← b.toList.head? >>= parseBit)
    | _ => none

def hasSub (s pat : String) : Bool := (s.splitOn pat).length > 1

def byDesign (o : String) : Bool :=
  hasSub o "portable=1" || o.startsWith "err:nonPortable" || o.startsWith "err:unseparated"

/-- observation, then: `ok` if the separated spelling gives the same; `-` if they differ while the
    `portable` option is (or is being turned) on — there the attached / long forms are rejected by
    design; `FAIL` otherwise -/
def specCompare (portable : Bool) (a b : String) : String :=
  let verdict :=
    if a = b then "ok"
    else if portable || byDesign a || byDesign b then "-"
    else s!"FAIL:separated-spelling-gives {b}"
  a ++ "\t" ++ verdict

/-! getopts histories -/

open YashModel.Args.Getopts in
def parseHStep (ts : List String) : Option HStep :=
  match ts with
  | ["R", v] => do pure (.assign (← decChars v))
  | "S" :: sp :: spec :: lim :: vec => do
    let sp ← match sp with | "i" => some Spelling.implicit | "a" => some .dollarAt | "l" => some .literal | _ => none
    let lim ← if lim = "*" then some none else lim.toNat?.map some
    pure (.session sp (← decChars spec) (← vec.mapM decChars) lim)
  | _ => none

def showRawStr (s : List Char) : String := if s.isEmpty then "-" else String.ofList s

open YashModel.Args.Getopts in
def showStepObs (o : StepObs) : String :=
  let cs := o.calls.map fun c => s!"{encChars [c.var]},{showOptStr c.optarg},{showRawStr c.optind}"
  let fin := match o.fin with | some n => s!"st{n}" | none => "part"
  let v := match o.var with | some c => encChars [c] | none => "~"
  s!"[{";".intercalate cs}] fin={fin} now={v},{showOptStr o.optarg},{showRawStr o.optind}"

open YashModel.Args.Getopts in
/-- Spec: every complete session that starts with `OPTIND=1` behaves as in a fresh shell, in each spelling -/
def historyVerdict (steps : List HStep) : String :=
  let rec go (env : GEnv) (steps : List HStep) (checked : Nat) : String :=
    match steps with
    | [] => if checked = 0 then "-" else "ok"
    | .assign v :: rest => go { env with optind := v } rest checked
    | .session sp spec vec limit :: rest =>
      let (o, env') := runSession env sp spec vec limit
      if limit.isNone && env.optind == ['1'] && !(sp == .literal && vec.isEmpty) then
        let sps := [Spelling.implicit, .dollarAt] ++ (if vec.isEmpty then [] else [.literal])
        if sps.all (fun s => showStepObs (freshObs s spec vec) == showStepObs o) then go env' rest (checked + 1)
        else s!"FAIL:session differs from a fresh shell: {showStepObs (freshObs sp spec vec)}"
      else go env' rest checked
  go freshEnv steps 0

open YashModel.Args.Getopts in
def runHistoryLine (ts : List String) : String :=
  match (splitSemi ts).mapM parseHStep with
  | none => "bad-case\t-"
  | some steps =>
    let obs := runHistory freshEnv steps
    let shown := obs.map fun o => match o with | none => "r" | some o => showStepObs o
    let diag := (obs.filterMap id).foldl (fun n o => n + (o.calls.filter (·.diag)).length) 0
    let err := ((obs.filterMap id).filter (fun o => o.fin == some 2)).length
    s!"{" | ".intercalate shown} diag={diag} err={err}" ++ "\t" ++ historyVerdict steps

/-! the typeset family's own parser -/

open YashModel.Args.Typeset in
def attrOfNat : Nat → Option (Option Attr)
  | 0 => some none
  | 1 => some (some .readOnly)
  | 2 => some (some .export)
  | _ => none

open YashModel.Args.Typeset in
def parseTTable (t : String) : Option (List TSpec) :=
  if t.startsWith "@" then
    (Generated.ArgSpecs.typesetTables.find? (fun e => "@" ++ e.1 == t)).bind fun e =>
      e.2.mapM fun (c, l, a) => do pure { short := c, long := l, attr := ← attrOfNat a }
  else if t = "_" then some []
  else (t.splitOn ",").mapM fun e =>
    match e.splitOn ":" with
    | [s, l, a] => do
      let s ← decChars s
      let c ← match s with | [c] => some c | _ => none
      pure { short := c, long := ← decChars l, attr := ← (a.toNat? >>= attrOfNat) }
    | _ => none

open YashModel.Args.Typeset in
def attrNum : Option Attr → Nat
  | none => 0
  | some .readOnly => 1
  | some .export => 2

open YashModel.Args.Typeset in
def showOcc (o : Occ) : String := s!"{encChars [o.spec.short]}.{attrNum o.spec.attr}={bit o.state}"

open YashModel.Args.Typeset in
def showTAttrs (l : List (Attr × Bool)) : String :=
  ";".intercalate (l.map fun (a, st) => s!"{match a with | .readOnly => "ro" | .export => "ex"}={bit st}")

open YashModel.Args.Typeset in
def showPErr : PErr → String
  | .unknownShort c => s!"err:unknownShort:{encChars [c]}"
  | .unknownLong => "err:unknownLong"
  | .ambiguousLong => "err:ambiguousLong"
  | .nonPortableLong => "err:nonPortableLong"
  | .uncancelableShort c => s!"err:uncancelableShort:{encChars [c]}"
  | .uncancelableLong => "err:uncancelableLong"

open YashModel.Args.Typeset in
def showTParse : Except PErr (List Occ × List Typeset.Str) → String
  | .error e => showPErr e
  | .ok (os, ops) => s!"ok [{";".intercalate (os.map showOcc)}] [{showStrs ops}]"

open YashModel.Args.Typeset in
def showInterp : Except IErr Cmd → String
  | .ok (.setVariables v a g) => s!"setvars [{showTAttrs a}] g={bit g} [{showStrs v}]"
  | .ok (.printVariables v a g) => s!"printvars [{showTAttrs a}] g={bit g} [{showStrs v}]"
  | .ok (.setFunctions f a) => s!"setfns [{showTAttrs a}] [{showStrs f}]"
  | .ok (.printFunctions f a) => s!"printfns [{showTAttrs a}] [{showStrs f}]"
  | .error (.inapplicable c f) => s!"ierr:inapplicable:{showOcc c}:{showOcc f}"
  | .error .missingOperand => "ierr:missingOperand"
  | .error (.unexpectedOperands ops) => s!"ierr:unexpectedOperands:[{showStrs ops}]"
  | .error (.foreignSpec c) => s!"ierr:foreignSpec:{encChars [c]}"

open YashModel.Args.Typeset in
def showTypeset (specs : List TSpec) (portable : Bool) (r : Except PErr (List Occ × List Typeset.Str)) : String :=
  match r with
  | .error _ => showTParse r
  | .ok (os, ops) =>
    let i := if decide (Interpretable specs) then showInterp (interpret os ops portable) else "skip"
    s!"{showTParse r} => {i}"

open YashModel.Args.Typeset in
def runTypeset (specs : List TSpec) (ln portable : Bool) (args : List Typeset.Str) : String :=
  let r := parse specs ln args
  let obs := showTypeset specs portable r
  let spec :=
    if decide (WellFormed specs) then
      let c := canon specs ln args
      let rc := parse specs ln c
      if showTypeset specs portable rc ≠ obs then s!"FAIL:canonical-spelling-gives {showTypeset specs portable rc}"
      else match r with
        | .ok _ =>
          if !isCanonical c then "FAIL:canonical-spelling-is-not-canonical"
          else if showTParse (read specs c) ≠ showTParse r then s!"FAIL:simple-reader-gives {showTParse (read specs c)}"
          else "ok"
        | .error _ => "ok"
    else "-"
  obs ++ "\t" ++ spec

/-! what the built-in's syntax.rs does after `parse_arguments` (cd, pwd, unset, unalias) -/

open YashModel.Args.Post in
def runPost (b : String) (p : Bool) (args : List (List Char)) : Option String :=
  let opt (o : Option (List Char)) : String := match o with | some s => encChars s | none => "~"
  match b with
  | "cd" => some (match cdParse p args with
      | .ok c => s!"ok cd physical={bit c.physical} ensure={bit c.ensurePwd} operand={opt c.operand}"
      | .error (.common e) => s!"err:common:{showErr e}"
      | .error .ensurePwdNotPhysical => "err:ensurePwdNotPhysical"
      | .error .emptyOperand => "err:emptyOperand"
      | .error (.unexpectedOperands o) => s!"err:unexpectedOperands:[{showStrs o}]")
  | "pwd" => some (match pwdParse p args with
      | .ok m => s!"ok pwd physical={bit m}"
      | .error (.common e) => s!"err:common:{showErr e}"
      | .error (.unexpectedOperands o) => s!"err:unexpectedOperands:[{showStrs o}]")
  | "unset" => some (match unsetParse p args with
      | .ok c => s!"ok unset functions={bit c.functions} [{showStrs c.names}]"
      | .error (.common e) => s!"err:common:{showErr e}"
      | .error .conflictingOption => "err:conflictingOption"
      | .error .missingOperand => "err:missingOperand")
  | "unalias" => some (match unaliasParse p args with
      | .ok (.remove n) => s!"ok unalias remove [{showStrs n}]"
      | .ok .removeAll => "ok unalias all"
      | .error (.common e) => s!"err:common:{showErr e}"
      | .error .conflictingOptionAndOperand => "err:conflictingOptionAndOperand"
      | .error .missingArgument => "err:missingArgument")
  | _ => none

open YashModel.Args.Post in
def postSpecs (b : String) : List OptionSpec :=
  match b with | "cd" => cdSpecs | "pwd" => pwdSpecs | "unset" => unsetSpecs | "unalias" => unaliasSpecs | _ => []

def runLine (line : String) : String :=
  match words line with
  | "P" :: m :: sp :: args =>
    (match parseMode m, parseSpecs sp, args.mapM decChars with
     | some mode, some specs, some args =>
       let r := parseArguments specs mode args
       showParsed r ++ "\t" ++ (specVerdict specs mode args r).getD "ok"
     | _, _, _ => "bad-case\t-")
  | "S" :: _cmd :: m :: sp :: _setup :: _probe :: rest =>
    (match parseMode m, parseSpecs sp, (splitBar rest).mapM (·.mapM decChars) with
     | some mode, some specs, some spellings =>
       let rs := spellings.map (parseArguments specs mode)
       let views := (rs.map (fun r => showView r.view)).eraseDups
       let first := match rs.head? with | some r => showView r.view | none => "-"
       let bad := (spellings.zip rs).filterMap fun (a, r) => specVerdict specs mode a r
       let spec := match bad with
         | b :: _ => b
         | [] => if views.length = 1 then "ok" else "FAIL:spellings-not-equivalent"
       s!"n={spellings.length} classes={views.length} first={first}" ++ "\t" ++ spec
     | _, _, _ => "bad-case\t-")
  | "M" :: _cmd :: m :: sp :: _setup :: _probe :: args =>
    (match parseMode m, parseSpecs sp, args.mapM decChars with
     | some mode, some specs, some args =>
       let r := parseArguments specs mode args
       let obs := match r with
         | .error e => "rejected " ++ showErr e
         | .ok _ => "accepted " ++ showView r.view
       let spec := match specVerdict specs mode args r with
         | some b => b
         | none => match r with | .error _ => "ok" | .ok _ => "FAIL:malformed-accepted"
       obs ++ "\t" ++ spec
     | _, _, _ => "bad-case\t-")
  | "T" :: p :: nm :: args =>
    (match p.toList.head? >>= parseBit, parseNames nm, args.mapM decChars with
     | some p, some nm0, some args =>
       let nm := withModelTables nm0 (parseAlnum nm) args
       -- in EVERY `portable` state (named in the vector or not) the mode-following separated spelling must parse alike
       let base := showSet (Bespoke.setParse nm p args)
       let m := Bespoke.separateM nm p args
       let isPrint : List (List Char) → Bool := fun l => l == [] || l == [['-', 'o']] || l == [['+', 'o']]
       let viaM := showSet (Bespoke.setParse nm p m)
       if !isPrint args && !isPrint m && viaM ≠ base then base ++ "\t" ++ s!"FAIL:mode-separated-spelling-gives {viaM}"
       else specCompare p base (showSet (Bespoke.setParse nm p (Bespoke.separateSO true args)))
     | _, _, _ => "bad-case\t-")
  | "H" :: nm :: args =>
    (match parseNames nm, args.mapM decChars with
     | some nm0, some args =>
       let nm := withModelTables nm0 (parseAlnum nm) args
       -- `--name=ARG` as the first argument is also rewritten to `--name ARG` (options that take an argument)
       let eqSplit : List (List Char) → List (List Char) := fun r =>
         match r with
         | ('-' :: '-' :: body) :: r' =>
           let n := body.takeWhile (· != '=')
           let tl := body.dropWhile (· != '=')
           (match Bespoke.nonShell n, tl with
            | some (true, _), _ :: v => if n.isEmpty then r else ('-' :: '-' :: n) :: v :: r'
            | _, _ => r)
         | _ => r
       let base := showSh (Bespoke.shParse nm args)
       -- in every `portable` state the mode-following separated spelling must parse alike
       let viaM := showSh (Bespoke.shParse nm (match args with | a0 :: r => a0 :: Bespoke.separateMsh nm false r | [] => []))
       if viaM ≠ base then base ++ "\t" ++ s!"FAIL:mode-separated-spelling-gives {viaM}" else
       let alt := showSh (Bespoke.shParse nm (match args with | a0 :: r => a0 :: eqSplit r | [] => []))
       if alt ≠ base && !byDesign alt && !byDesign base then base ++ "\t" ++ s!"FAIL:`--name ARG`-spelling-gives {alt}"
       else specCompare false base (showSh (Bespoke.shParse nm (match args with | a0 :: r => a0 :: Bespoke.separateSO false r | [] => [])))
     | _, _ => "bad-case\t-")
  | "K" :: p :: st :: nm :: args =>
    (match p.toList.head? >>= parseBit, st.toInt?, parseNames nm, args.mapM decChars with
     | some p, some st, some nm0, some args =>
       -- the answers of `str2sig` are NOT taken from the harness (its `g:` entries are ignored): they are computed by the
       -- model of `str2sig` over the re-extracted NAMED_SIGNALS / VirtualSystem constants (Args/Str2sig.lean)
       let nm : Bespoke.Names := { nm0 with sig := Bespoke.sigAnswers args }
       specCompare p (showKill (Bespoke.killParse nm p st args)) (showKill (Bespoke.killParse nm p st (Bespoke.separateKill nm args)))
     | _, _, _, _ => "bad-case\t-")
  | "U" :: nm :: init :: p0 :: args =>
    (match parseNames nm, parseInit init, (if p0 = "_" then some [] else (p0.splitOn ",").mapM decChars), args.mapM decChars with
     | some nm0, some init, some params0, some args =>
       let nm := withModelTables nm0 (parseAlnum nm) args
       let env : Bespoke.SetEnv := { options := init, params := params0 }
       let obs := showSetResult init (Bespoke.setMain nm env args)
       let exp := showSetResult init (Bespoke.expect nm env args)
       -- a malformed invocation: the Spec's prediction is compared with the REAL run (`=`); otherwise the
       -- model's run must be what the reference reader expects
       let spec := if Bespoke.malformed nm (Bespoke.getOpt init Bespoke.portableOpt) args then "=" ++ exp
         else if obs = exp then "ok" else s!"FAIL:reference-reader-expects {exp}"
       obs ++ "\t" ++ spec
     | _, _, _, _ => "bad-case\t-")
  | "Q" :: b :: p :: args =>
    (match p.toList.head? >>= parseBit, args.mapM decChars with
     | some p, some args =>
       (match runPost b p args with
        | some obs =>
          -- the canonical spelling must come to the same command / error (attached arguments need the extensions)
          let spec := if p then "-" else
            match runPost b p (Spec.canon (postSpecs b) args) with
            | some o2 => if o2 = obs then "ok" else s!"FAIL:canonical-spelling-gives {o2}"
            | none => "-"
          obs ++ "\t" ++ spec
        | none => "bad-case\t-")
     | _, _ => "bad-case\t-")
  | "Y" :: m :: tb :: args =>
    (match m.toList, parseTTable tb, args.mapM decChars with
     | [a, b], some specs, some args =>
       (match parseBit a, parseBit b with
        | some ln, some p => runTypeset specs ln p args
        | _, _ => "bad-case\t-")
     | _, _, _ => "bad-case\t-")
  | "B" :: _p :: _cmd :: _setup :: _probe :: rest => s!"n={(splitBar rest).length}\t-"
  | "E" :: _p :: _cmd :: _setup :: _probe :: _ => "n=1\t-"
  | "J" :: ts => runHistoryLine ts
  | "G" :: sp :: args =>
    (match decChars sp, args.mapM decChars with
     | some spec, some args => runGetopts spec args
     | _, _ => "bad-case\t-")
  | _ => "bad-case\t-"

def main : IO Unit := mainLoop runLine
