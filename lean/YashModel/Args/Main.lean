/-
  Driver for C20.  stdin: one case per line, stdout: `<model observation>\t<spec>`.

  Case lines (space-separated tokens; strings are hex of UTF-8, `-` = empty string, `~` = absent):
    P <mode> <specs> <arg>*                       one vector against `parse_arguments`
    S <cmd> <mode> <specs> <setup> <probe> <arg>* ( | <arg>* )*   equivalent spellings of one invocation
    M <cmd> <mode> <specs> <setup> <probe> <arg>*                 a malformed invocation
    G <optstring> <arg>*                          `while getopts optstring v arg…` run to the end
  <mode>  = three bits: long_option_names, extension_options, option_arguments_in_same_field
  <specs> = `_` (empty table) or comma-separated `<short>:<long>:<takesArg>:<extension>`
-/
import YashModel.Common.Proto
import YashModel.Args.Model
import YashModel.Args.Spec
import YashModel.Args.Getopts
open YashModel YashModel.Args YashModel.Proto

def parseBit (c : Char) : Option Bool :=
  if c = '1' then some true else if c = '0' then some false else none

def parseMode (t : String) : Option Mode :=
  match t.toList with
  | [a, b, c] => do pure ⟨← parseBit a, ← parseBit b, ← parseBit c⟩
  | _ => none

def parseOptStr (t : String) : Option (Option Str) :=
  if t = "~" then some none else (decChars t).map some

def parseSpec (t : String) : Option OptionSpec :=
  match t.splitOn ":" with
  | [s, l, a, e] => do
    let sh ← parseOptStr s
    let short ← match sh with
      | none => some none
      | some [c] => some (some c)
      | _ => none
    let long ← parseOptStr l
    let a ← match a.toList with | [c] => parseBit c | _ => none
    let e ← match e.toList with | [c] => parseBit c | _ => none
    pure { short := short, long := long, takesArg := a, extension := e }
  | _ => none

def parseSpecs (t : String) : Option (List OptionSpec) :=
  if t = "_" then some [] else (t.splitOn ",").mapM parseSpec

def bit (b : Bool) : String := if b then "1" else "0"

def showOptStr : Option Str → String
  | none => "~"
  | some s => encChars s

def showSpec (s : OptionSpec) : String :=
  let sh := match s.short with | none => "~" | some c => encChars [c]
  s!"{sh}:{showOptStr s.long}:{bit s.takesArg}:{bit s.extension}"

def showSpelling : Spelling → String
  | .short i => s!"s{i}"
  | .long => "l"

def showErr : ParseError → String
  | .unknownShort c => s!"err:unknownShort:{encChars [c]}"
  | .unknownLong => "err:unknownLong"
  | .nonPortableShort c s => s!"err:nonPortableShort:{encChars [c]}:{showSpec s}"
  | .nonPortableLong s => s!"err:nonPortableLong:{showSpec s}"
  | .ambiguousLong ss => s!"err:ambiguous:{"+".intercalate (ss.map showSpec)}"
  | .missingArgument s => s!"err:missing:{showSpec s}"
  | .unseparatedArgument s => s!"err:unseparated:{showSpec s}"
  | .unexpectedArgument s => s!"err:unexpected:{showSpec s}"

def showParsed : Parsed → String
  | .error e => showErr e
  | .ok (os, ops) =>
    let o := os.map fun o => s!"{showSpec o.spec}@{showSpelling o.spelling}={showOptStr o.argument}"
    s!"ok [{";".intercalate o}] [{",".intercalate (ops.map encChars)}]"

def showView : View → String
  | .error e => showErr e
  | .ok (os, ops) =>
    let o := os.map fun (s, a) => s!"{showSpec s}={showOptStr a}"
    s!"ok [{";".intercalate o}] [{",".intercalate (ops.map encChars)}]"

/-- split a token list at `|` -/
def splitBar (ts : List String) : List (List String) :=
  let rec go (ts : List String) (cur : List String) (acc : List (List String)) : List (List String) :=
    match ts with
    | [] => (cur.reverse :: acc).reverse
    | t :: r => if t = "|" then go r [] (cur.reverse :: acc) else go r (t :: cur) acc
  go ts [] []

def specVerdict (specs : List OptionSpec) (mode : Mode) (args : List Str) (r : Parsed) : Option String :=
  let v := r.view
  let s := Spec.parse specs mode args
  if showView v = showView s then none else some s!"FAIL:spec-predicts {showView s}"

/-! getopts leg -/

def showOptind (p : Nat × Nat) : String := if p.2 = 1 then s!"{p.1}" else s!"{p.1}:{p.2}"

def showGetopts (r : List Getopts.Ev × Option Nat) : String :=
  let evs := r.1.map fun e => s!"{encChars [e.var]},{showOptStr e.optarg},{showOptind e.optind}"
  let diags := (r.1.filter (·.diag)).length
  let fin := match r.2 with
    | some i => s!"3f,~,{i},st1"
    | none => "LOOP"
  s!"[{";".intercalate evs}] end={fin} diag={diags}"

def showGObs (o : Getopts.Obs) : String :=
  let evs := o.1.map fun (v, a, d) => s!"{encChars [v]},{showOptStr a},{bit d}"
  let ops := match o.2 with
    | some l => ",".intercalate (l.map encChars)
    | none => "LOOP"
  s!"[{";".intercalate evs}] [{ops}]"

def runGetopts (spec : Str) (args : List Str) : String :=
  let r := Getopts.walkAll spec args
  let o := Getopts.obsOf args r
  let s := Getopts.specObs spec args
  let verdict := if showGObs o = showGObs s then "ok" else s!"FAIL:separated-spelling-gives {showGObs s}"
  showGetopts r ++ "\t" ++ verdict

def runLine (line : String) : String :=
  match words line with
  | "P" :: m :: sp :: args =>
    (match parseMode m, parseSpecs sp, args.mapM decChars with
     | some mode, some specs, some args =>
       let r := parseArguments specs mode args
       showParsed r ++ "\t" ++ (specVerdict specs mode args r).getD "ok"
     | _, _, _ => "bad-case\t-")
  | "S" :: _cmd :: m :: sp :: _setup :: _probe :: rest =>
    (match parseMode m, parseSpecs sp, (splitBar rest).mapM (·.mapM decChars) with
     | some mode, some specs, some spellings =>
       let rs := spellings.map (parseArguments specs mode)
       let views := (rs.map (fun r => showView r.view)).eraseDups
       let first := match rs.head? with | some r => showView r.view | none => "-"
       let bad := (spellings.zip rs).filterMap fun (a, r) => specVerdict specs mode a r
       let spec := match bad with
         | b :: _ => b
         | [] => if views.length = 1 then "ok" else "FAIL:spellings-not-equivalent"
       s!"n={spellings.length} classes={views.length} first={first}" ++ "\t" ++ spec
     | _, _, _ => "bad-case\t-")
  | "M" :: _cmd :: m :: sp :: _setup :: _probe :: args =>
    (match parseMode m, parseSpecs sp, args.mapM decChars with
     | some mode, some specs, some args =>
       let r := parseArguments specs mode args
       let obs := match r with
         | .error e => "rejected " ++ showErr e
         | .ok _ => "accepted " ++ showView r.view
       let spec := match specVerdict specs mode args r with
         | some b => b
         | none => match r with | .error _ => "ok" | .ok _ => "FAIL:malformed-accepted"
       obs ++ "\t" ++ spec
     | _, _, _ => "bad-case\t-")
  | "G" :: sp :: args =>
    (match decChars sp, args.mapM decChars with
     | some spec, some args => runGetopts spec args
     | _, _ => "bad-case\t-")
  | _ => "bad-case\t-"

def main : IO Unit := mainLoop runLine
