/-
  C20 — property theorems ONLY: the built-ins' own checks after `parse_arguments` (Post.lean: cd, pwd, unset, unalias)
  composed with the parser theorems: equivalent spellings come to the same `Command` or the same error, end to end.
-/
import YashModel.Args.Post
import YashModel.Args.Theorems
namespace YashModel.Args.Post
open YashModel.Args YashModel.Generated

/-- ★ whatever a built-in computes from the VIEW of the parse (options without their spelling, operands, or the parse
    error) is the same for two vectors with the same canonical spelling — every table, every mode with attached arguments -/
theorem post_same_of_equivalent_spellings {α : Type} (f : View → α) (specs : List OptionSpec) (mode : Mode)
    (hm : mode.optionArgumentsInSameField = true) (a b : List Str) (h : Spec.canon specs a = Spec.canon specs b) :
    f (parseArguments specs mode a).view = f (parseArguments specs mode b).view := by
  rw [equivalent_spellings_same_parse specs mode hm a b h]

/-- ★ `cd`: equivalent spellings (`-LP` / `-L -P` / `--logical --physical` / `--lo --ph` …) give the same `Command`
    (mode, `ensure_pwd`, operand) or the same error (parse error, `-e` without `-P`, empty / surplus operand) -/
theorem cd_equivalent_spellings_same_command (a b : List Str) (h : Spec.canon cdSpecs a = Spec.canon cdSpecs b) :
    cdParse false a = cdParse false b := by
  unfold cdParse
  rw [equivalent_spellings_same_parse cdSpecs (modeOf false) rfl a b h]

theorem pwd_equivalent_spellings_same_command (a b : List Str) (h : Spec.canon pwdSpecs a = Spec.canon pwdSpecs b) :
    pwdParse false a = pwdParse false b := by
  unfold pwdParse
  rw [equivalent_spellings_same_parse pwdSpecs (modeOf false) rfl a b h]

theorem unset_equivalent_spellings_same_command (a b : List Str) (h : Spec.canon unsetSpecs a = Spec.canon unsetSpecs b) :
    unsetParse false a = unsetParse false b := by
  unfold unsetParse
  rw [equivalent_spellings_same_parse unsetSpecs (modeOf false) rfl a b h]

theorem unalias_equivalent_spellings_same_command (a b : List Str)
    (h : Spec.canon unaliasSpecs a = Spec.canon unaliasSpecs b) :
    unaliasParse false a = unaliasParse false b := by
  unfold unaliasParse
  rw [equivalent_spellings_same_parse unaliasSpecs (modeOf false) rfl a b h]

/-- ★ `unset`: `-f` and `-v` exclude each other whatever their order, number and spelling, and whatever the operands -/
theorem unset_conflict_iff (portable : Bool) (os : Occs) (names : List Str) :
    unsetPost portable (os, names) = .error .conflictingOption ↔ (os.any (hasShort 'f') = true ∧ os.any (hasShort 'v') = true) := by
  unfold unsetPost
  by_cases h : os.any (hasShort 'f') = true ∧ os.any (hasShort 'v') = true
  · simp [h]
  · simp only [h, if_false, iff_false]
    split <;> simp

/-- ★ `pwd`: the last of `-L` / `-P` wins; any operand is an error that names all of them -/
theorem pwd_last_option_wins (os : Occs) (o : OptionSpec × Option Str) :
    pwdPost (os ++ [o], []) = .ok (hasShort 'P' o) := by
  simp [pwdPost]

theorem pwd_rejects_operands (os : Occs) (x : Str) (xs : List Str) :
    pwdPost (os, x :: xs) = .error (.unexpectedOperands (x :: xs)) := by
  simp [pwdPost]

/-- ★ `cd`: `-e` without a final `-P` is rejected before the operands are looked at; otherwise at most one, non-empty -/
theorem cd_rejects_second_operand (os : Occs) (x y : Str) (ys : List Str)
    (h : ¬ ((cdScan os (false, false)).1 = true ∧ (cdScan os (false, false)).2 = false)) :
    cdPost (os, x :: y :: ys) = .error (.unexpectedOperands (y :: ys)) := by
  unfold cdPost
  cases hsc : cdScan os (false, false) with
  | mk e phys =>
    rw [hsc] at h
    cases e <;> cases phys <;> simp_all

/-- ☆ the error classes of the four transcribed `syntax.rs` are the ones the model has (re-extracted enum variants) -/
theorem post_error_enums_audited :
    (ArgSpecs.errorEnums.filter fun e => e.1 == "cd/syntax.rs" || e.1 == "pwd/syntax.rs" || e.1 == "unset/syntax.rs" || e.1 == "unalias/syntax.rs") =
      [("cd/syntax.rs", "Error", ["CommonError", "EnsurePwdNotPhysical", "EmptyOperand", "UnexpectedOperands"]),
       ("pwd/syntax.rs", "Error", ["CommonError", "UnexpectedOperands"]),
       ("unalias/syntax.rs", "Error", ["CommonError", "ConflictingOptionAndOperand", "MissingArgument"]),
       ("unset/syntax.rs", "Error", ["CommonError", "ConflictingOption", "MissingOperand"])] := by decide

/-- ☆ every error enum of every built-in, with its number of variants, pinned: a new error class anywhere has to be looked at -/
theorem builtin_error_enums_pinned :
    ArgSpecs.errorEnums.map (fun e => (e.1, e.2.1, e.2.2.length)) =
      [("alias/semantics.rs", "Error", 2), ("break/semantics.rs", "Error", 1), ("break/syntax.rs", "Error", 3),
       ("cd/chdir.rs", "Error", 2), ("cd/syntax.rs", "Error", 4), ("cd/target.rs", "TargetError", 3),
       ("command/syntax.rs", "Error", 4), ("getopts/model.rs", "Error", 2), ("getopts/report.rs", "Error", 4),
       ("getopts/verify.rs", "Error", 2), ("kill/send.rs", "Error", 6), ("kill/syntax.rs", "Error", 12),
       ("pwd/semantics.rs", "Error", 1), ("pwd/syntax.rs", "Error", 2), ("read/syntax.rs", "Error", 5),
       ("set/syntax.rs", "Error", 9), ("source/syntax.rs", "Error", 3), ("times/syntax.rs", "Error", 2),
       ("trap.rs", "ErrorCause", 2), ("trap/syntax.rs", "Error", 2), ("typeset.rs", "ExecuteError", 8),
       ("typeset/syntax.rs", "ParseError", 6), ("typeset/syntax.rs", "InterpretError", 3), ("ulimit.rs", "Error", 5),
       ("ulimit/syntax.rs", "Error", 9), ("umask/symbol.rs", "ParseClausesError", 2), ("umask/symbol.rs", "ParseClauseError", 1),
       ("umask/symbol.rs", "ParseActionError", 2), ("umask/symbol.rs", "ParsePermissionError", 1), ("umask/syntax.rs", "Error", 4),
       ("unalias/semantics.rs", "Error", 1), ("unalias/syntax.rs", "Error", 3), ("unset/syntax.rs", "Error", 3),
       ("wait/core.rs", "Error", 3), ("wait/syntax.rs", "Error", 3)] := by decide

/-! ## non-vacuity -/

example : Spec.canon cdSpecs [['-','P','e'], ['x']] = Spec.canon cdSpecs [['-','P'], ['-','e'], ['x']] := by decide
example : cdParse false [['-','P','e'], ['x']] = .ok ⟨true, true, some ['x']⟩ := by rfl
example : cdParse false [['-','P'], ['-','e'], ['x']] = cdParse false [['-','P','e'], ['x']] :=
  cd_equivalent_spellings_same_command _ _ (by decide)
example : cdParse false ["--ph".toList, "--ens".toList, ['x']] = cdParse false ["--physical".toList, "--ensure-pwd".toList, ['x']] :=
  cd_equivalent_spellings_same_command _ _ (by decide)
example : cdParse false [['-','e','L'], ['x']] = .error .ensurePwdNotPhysical := by rfl
example : cdParse false [['-','-'], ['-','-']] = .ok ⟨false, false, some ['-','-']⟩ := by rfl
example : unsetParse false [['-','f','v'], ['x']] = .error .conflictingOption := by rfl
example : unaliasParse false [['-','a'], ['x']] = .error .conflictingOptionAndOperand := by rfl

end YashModel.Args.Post
