/-
  C12 wave 3 — property theorems (and non-vacuity examples) about the rest of the public mutating surface of
  `JobList`: the REAL `remove_if`, `extract_if` drained or dropped early, the deprecated `add` and
  `add_job_if_suspended`, `get_mut(i).state_reported()`.  Helper lemmas: `ApiSteps.lean`, `ApiLemmas.lean`.
-/
import YashModel.Job.Theorems
import YashModel.Job.ApiLemmas
namespace YashModel.Job

theorem currentJob_eq_some (s : JobList) (c : Nat) :
    s.currentJob = some c ↔ s.cur = c ∧ ∃ j, gets s.entries c = some j := by
  unfold JobList.currentJob
  constructor
  · intro h
    split at h
    · rename_i hh; cases h
      cases hg : gets s.entries s.cur with
      | none => rw [hg] at hh; cases hh
      | some j => exact ⟨rfl, j, rfl⟩
    · cases h
  · rintro ⟨rfl, j, hj⟩
    simp [hj]

theorem previousJob_eq_some (s : JobList) (p : Nat) :
    s.previousJob = some p ↔ s.prev = p ∧ s.prev ≠ s.cur ∧ ∃ j, gets s.entries p = some j := by
  unfold JobList.previousJob
  constructor
  · intro h
    split at h
    · rename_i hh; cases h
      cases hg : gets s.entries s.prev with
      | none => rw [hg] at hh; simp at hh
      | some j => exact ⟨rfl, hh.1, j, rfl⟩
    · cases h
  · rintro ⟨rfl, hne, j, hj⟩
    simp [hj, hne]

/-- ★ `JobList::remove_if` (= `extract_if(..).for_each(drop)`), for EVERY predicate on (index, job), with or
    without `state_reported` in the closure, on every consistent table:
    * the table stays consistent (all clauses of the property);
    * slot by slot: a job the predicate selects is gone, every other job is in its slot, the same job (only
      `state_changed` cleared if the closure reports it), nothing is added;
    * `$!` is unchanged;
    * a current job that is not selected is still the current job;
    * if the current job is selected and the previous job is not, the previous job is the current job
      ("If the removed job is the current job, the previous job becomes the current job" — also when both
      the selection contains many jobs and current and previous are visited in either order);
    * if neither is selected, the previous job is still the previous job;
    * if any job survives there is a current job (the clause the round-7 seed broke when the selection
      contained the current AND the previous job). -/
theorem remove_if_effect (s : JobList) (pred : Nat → Job → Bool) (report : Bool) (h : Inv s) :
    let s' := s.removeIfDrop pred report
    Inv s' ∧ Consistent s' ∧
    (∀ i, s'.get i = match s.get i with
                     | none => none
                     | some j => if pred i j then none
                                 else some (if report then { j with changed := false } else j)) ∧
    s'.lastAsync = s.lastAsync ∧
    (∀ c j, s.currentJob = some c → s.get c = some j → pred c j = false → s'.currentJob = some c) ∧
    (∀ c jc p jp, s.currentJob = some c → s.get c = some jc → pred c jc = true →
        s.previousJob = some p → s.get p = some jp → pred p jp = false → s'.currentJob = some p) ∧
    (∀ c jc p jp, s.currentJob = some c → s.get c = some jc → pred c jc = false →
        s.previousJob = some p → s.get p = some jp → pred p jp = false → s'.previousJob = some p) ∧
    ((∃ i j, s.get i = some j ∧ pred i j = false) → ∃ c j, s'.currentJob = some c ∧ s'.get c = some j) := by
  intro s'
  have hI : Inv s' := removeIf_inv s pred report h
  have hC := consistent_of_inv s' hI
  have E : Effect s pred report s' := removeIf_effect s pred report
  have hslot : ∀ i, s'.get i = match s.get i with
                     | none => none
                     | some j => if pred i j then none
                                 else some (if report then { j with changed := false } else j) := by
    intro i
    have := E.slots i
    unfold JobList.get
    rw [this]
    cases gets s.entries i <;> rfl
  have hsurv : ∀ i j, s.get i = some j → pred i j = false → ∃ j', gets s'.entries i = some j' := by
    intro i j hi hp
    have := hslot i
    rw [hi] at this
    simp only [hp, Bool.false_eq_true, if_false] at this
    exact ⟨_, this⟩
  have hnsel : ∀ i j, s.get i = some j → pred i j = false → ¬ Selected s pred i := by
    rintro i j hi hp ⟨j', hj', hp'⟩
    unfold JobList.get at hi
    rw [hi] at hj'; cases hj'; rw [hp] at hp'; cases hp'
  refine ⟨hI, hC, hslot, extractLoop_lastAsync _ _ _ _ _ _ _, ?_, ?_, ?_, ?_⟩
  · intro c j hc hj hp
    obtain ⟨hcc, _⟩ := (currentJob_eq_some s c).mp hc
    rw [currentJob_eq_some]
    exact ⟨by rw [E.curKeep (by rw [hcc]; exact hnsel c j hj hp), hcc], hsurv c j hj hp⟩
  · intro c jc p jp hc hjc hpc hp hjp hpp
    obtain ⟨hcc, _⟩ := (currentJob_eq_some s c).mp hc
    obtain ⟨hpp', _, _⟩ := (previousJob_eq_some s p).mp hp
    rw [currentJob_eq_some]
    refine ⟨?_, hsurv p jp hjp hpp⟩
    rw [E.curMoved (by rw [hcc]; exact ⟨jc, hjc, hpc⟩) (by rw [hpp']; exact hnsel p jp hjp hpp), hpp']
  · intro c jc p jp hc hjc hpc hp hjp hpp
    obtain ⟨hcc, _⟩ := (currentJob_eq_some s c).mp hc
    obtain ⟨hpp', hne, _⟩ := (previousJob_eq_some s p).mp hp
    rw [previousJob_eq_some]
    have h1 := E.curKeep (by rw [hcc]; exact hnsel c jc hjc hpc)
    have h2 := E.prevKeep (by rw [hcc]; exact hnsel c jc hjc hpc) (by rw [hpp']; exact hnsel p jp hjp hpp)
    exact ⟨by rw [h2, hpp'], by rw [h1, h2]; exact hne, hsurv p jp hjp hpp⟩
  · rintro ⟨i, j, hi, hp⟩
    obtain ⟨j', hj'⟩ := hsurv i j hi hp
    exact hC.current_exists ⟨i, j', hj'⟩

/-- ★ `extract_if` drained is the same table as `remove_if` (the removed jobs are only handed out) -/
theorem extract_if_table (s : JobList) (pred : Nat → Job → Bool) (report : Bool) :
    (s.removeIf pred report).2 = s.removeIfDrop pred report := rfl

/-- ★ what `extract_if` hands out: exactly the job numbers whose job the predicate selects (judged on the table the
    call started from), each once, in ascending order ("Jobs are iterated in the order of indices") -/
theorem extract_if_returns (s : JobList) (pred : Nat → Job → Bool) (report : Bool) :
    (∀ k, k ∈ (s.removeIf pred report).1 ↔ ∃ j, s.get k = some j ∧ pred k j = true) ∧
    (s.removeIf pred report).1.Pairwise (· < ·) :=
  removeIf_result s pred report

/-- ★ `remove_if` / `extract_if` with an `FnMut` closure that carries its own state (any state type, any transition):
    the call is the call with the PURE predicate "the job number is among `selS f st`", where `selS` runs the closure
    once over the jobs of the table the call starts from, in the order of the job numbers — so every clause of
    `remove_if_effect` (consistency, slot-wise effect, current / previous job, "a survivor implies a current job")
    and `extract_if_returns` holds for stateful closures with that predicate; for the counting closure "remove the
    first `k` jobs that satisfy `p`" the selected job numbers are the first `k` the pure `p` selects. -/
theorem remove_if_stateful {σ : Type} (s : JobList) (f : σ → Nat → Job → Bool × σ) (st : σ) (report : Bool) (h : Inv s) :
    s.removeIfS f st report = s.removeIf (fun i _ => (selS f st s.entries 0).contains i) report ∧
    Inv (s.removeIfS f st report).2 ∧ Consistent (s.removeIfS f st report).2 ∧
    (∀ i, (s.removeIfS f st report).2.get i = match s.get i with
        | none => none
        | some j => if (selS f st s.entries 0).contains i then none
                    else some (if report then { j with changed := false } else j)) ∧
    ((∃ i j, s.get i = some j ∧ (selS f st s.entries 0).contains i = false) →
        ∃ c j, (s.removeIfS f st report).2.currentJob = some c ∧ (s.removeIfS f st report).2.get c = some j) ∧
    (∀ (p : Nat → Job → Bool) (k : Nat),
        selS (firstK p) k s.entries 0 = (selS (fun (_ : Unit) i j => (p i j, ())) () s.entries 0).take k) := by
  have e := removeIfS_eq s f st report
  obtain ⟨h1, h2, h3, _, _, _, _, h8⟩ := remove_if_effect s (fun i _ => (selS f st s.entries 0).contains i) report h
  rw [e]
  exact ⟨rfl, h1, h2, h3, h8, fun p k => selS_firstK p k s.entries 0⟩

/-- ★ the list an early-dropped `extract_if(..).take(n)` yields is the first `n` entries of the list the drained
    iterator yields (with `extract_if_returns`: the first `n` selected job numbers, ascending) -/
theorem extract_take_returns (s : JobList) (n : Nat) (pred : Nat → Job → Bool) (report : Bool) :
    (s.extractTake n pred report).1 = (s.removeIf pred report).1.take n := by
  have := extractLoopN_take pred report (s.entries.length + 1) n 0 s.len s []
  simpa [JobList.extractTake, JobList.removeIf] using this

/-- ★ `extract_if(..).take(n)` dropped early ("the remaining jobs are retained in the list"), every `n`, every
    predicate, every consistent table: the table stays consistent, `$!` is unchanged, and the call has worked
    through exactly a prefix of the job numbers — below some `k` every slot is as after `remove_if`, from `k`
    on every slot is untouched (also its `state_changed` flag). -/
theorem extract_take_prefix (s : JobList) (n : Nat) (pred : Nat → Job → Bool) (report : Bool) (h : Inv s) :
    let s' := (s.extractTake n pred report).2
    Inv s' ∧ Consistent s' ∧ s'.lastAsync = s.lastAsync ∧
    ∃ k, ∀ i, s'.get i = if i < k then
                           (match s.get i with
                            | none => none
                            | some j => if pred i j then none
                                        else some (if report then { j with changed := false } else j))
                         else s.get i := by
  intro s'
  have hI : Inv s' := extractLoopN_inv _ _ _ _ _ _ _ _ h
  refine ⟨hI, consistent_of_inv _ hI, extractLoopN_lastAsync _ _ _ _ _ _ _ _, ?_⟩
  obtain ⟨k, len, L⟩ := extractLoopN_loopInv s pred report (s.entries.length + 1) n 0 s.len s [] (LoopInv.init s pred report)
  refine ⟨k, fun i => ?_⟩
  unfold JobList.get
  by_cases hi : i < k
  · simp only [hi, if_true]
    refine (L.lo i hi).trans ?_
    cases gets s.entries i <;> rfl
  · simp only [hi, if_false]
    exact L.hi i (by omega)

/-- ★ with at least as many `next` calls as there are jobs, `take` changes nothing: the early-dropped iterator
    and the drained one are the same function -/
theorem extract_take_all (s : JobList) (n : Nat) (pred : Nat → Job → Bool) (report : Bool) (hn : s.len ≤ n) :
    s.extractTake n pred report = s.removeIf pred report :=
  extractLoopN_eq _ _ _ _ _ _ _ _ hn

/-- ★ `take(0)`: an iterator that is never advanced does nothing (`extract_if` is lazy) -/
theorem extract_take_zero (s : JobList) (pred : Nat → Job → Bool) (report : Bool) :
    s.extractTake 0 pred report = ([], s) := by
  unfold JobList.extractTake extractLoopN; rfl

/-- ★ the deprecated entry points: `add` IS `insert` (index and table), and `add_job_if_suspended` leaves the
    table `handle_job_status` leaves; hence every theorem about `insert` / `handle_job_status` (`inv_step`,
    `insert_suspended_selection`, `hjs_table`, the known finding) speaks about them too. -/
theorem deprecated_aliases (s : JobList) (job : Job) (pid : Nat) (r : PState) (i : Bool) (name : Str) :
    s.add job = s.insert job ∧
    (addJobIfSuspended s pid r i name).2 = (handleJobStatus s pid r i name).2 ∧
    (addJobIfSuspended s pid r i name).1.2 = (handleJobStatus s pid r i name).1.2 ∧
    (r.isStopped = true → (addJobIfSuspended s pid r i name).1 = (handleJobStatus s pid r i name).1) := by
  refine ⟨rfl, addJobIfSuspended_table s pid r i name, ?_, ?_⟩
  · unfold addJobIfSuspended handleJobStatus; split <;> rfl
  · intro hs; unfold addJobIfSuspended handleJobStatus; simp [hs]

/-- ★ `get_mut(i).state_reported()`: only the `state_changed` flag of slot `i` changes -/
theorem report_one_effect (s : JobList) (i : Nat) (h : Inv s) :
    Inv (s.reportOne i) ∧ (s.reportOne i).currentJob = s.currentJob ∧ (s.reportOne i).previousJob = s.previousJob ∧
    (s.reportOne i).lastAsync = s.lastAsync ∧
    ∀ k, (s.reportOne i).get k = if k = i then (s.get i).map (fun j => { j with changed := false }) else s.get k := by
  have hg : ∀ k, (s.reportOne i).get k = if k = i then (s.get i).map (fun j => { j with changed := false }) else s.get k := by
    intro k
    unfold JobList.reportOne JobList.get
    cases hgi : gets s.entries i with
    | none =>
      by_cases hk : k = i
      · subst hk; simp [hgi]
      · simp [hk]
    | some j =>
      simp only
      rw [gets_set _ _ _ _ (gets_some_lt hgi)]
      by_cases hk : k = i <;> simp [hk]
  have hc : (s.reportOne i).cur = s.cur ∧ (s.reportOne i).prev = s.prev := by
    unfold JobList.reportOne; cases gets s.entries i <;> exact ⟨rfl, rfl⟩
  have hsome : ∀ k, (gets (s.reportOne i).entries k).isSome = (gets s.entries k).isSome := by
    intro k
    have := hg k
    unfold JobList.get at this
    rw [this]
    by_cases hk : k = i
    · subst hk; simp
    · simp [hk]
  refine ⟨reportOne_inv s i h, ?_, ?_, reportOne_lastAsync s i, hg⟩
  · unfold JobList.currentJob; rw [hc.1, hsome]
  · unfold JobList.previousJob; rw [hc.1, hc.2, hsome]

open Generated.JobTables in
/-- ★ the delegations the model takes over instead of transcribing a second body are the ones of the code:
    tools/tables/job.py re-reads yash-env/src/job.rs on every run and writes these flags only if `remove_if`
    drains `self.extract_if(..)`, `add` is `self.insert(job)` and `ExtractIf::next` removes through
    `JobList::remove` (any other body stops the run); here they are tied to the model's definitions. -/
theorem api_shapes_agree :
    (removeIfDrainsExtractIf = true ∧ ∀ s p r, JobList.removeIfDrop s p r = (s.removeIf p r).2) ∧
    (addIsAliasOfInsert = true ∧ ∀ s j, JobList.add s j = s.insert j) ∧
    (extractIfRemovesWithRemove = true ∧
      ∀ (p : Nat → Job → Bool) (r : Bool) (fuel idx len : Nat) (s : JobList) (acc : List Nat) (j : Job),
        gets s.entries idx = some j → p idx j = true →
        extractLoop p r (fuel + 1) idx (len + 1) s acc =
          extractLoop p r fuel (idx + 1) len
            ((if r then { s with entries := s.entries.set idx (some { j with changed := false }) } else s).remove idx).2
            (idx :: acc)) := by
  refine ⟨⟨rfl, fun _ _ _ => rfl⟩, ⟨rfl, fun _ _ => rfl⟩, rfl, ?_⟩
  intro p r fuel idx len s acc j hg hp
  rw [extractLoop]
  simp only [hg, hp, if_true]

/-! ### non-vacuity -/

/-- the round-7 shape: three running jobs, `remove_if` of the current AND the previous job -/
def purgeHistory : List Op :=
  [.insert 101 .running, .insert 102 .running, .insert 103 .running, .removeIf (.mask 3) false]

example : PathPre JobList.empty purgeHistory := by
  simp [purgeHistory, PathPre]; decide

/-- … the surviving job is the current job -/
example :
    let s := run JobList.empty (purgeHistory.take 3)
    s.currentJob = some 0 ∧ s.previousJob = some 1 ∧
    (s.removeIfDrop (RmPred.mask 3).eval false).currentJob = some 2 ∧
    (s.removeIfDrop (RmPred.mask 3).eval false).len = 1 := by decide

/-- hypotheses of the "previous becomes current" clause: current selected, previous not, a third job selected too -/
example :
    let s := run JobList.empty [.insert 101 .running, .insert 102 (.stopped 20), .insert 103 .running, .insert 104 (.stopped 19)]
    s.currentJob = some 1 ∧ s.previousJob = some 3 ∧ (RmPred.mask 6).eval 1 default = true ∧
    (RmPred.mask 6).eval 3 default = false ∧
    (s.removeIfDrop (RmPred.mask 6).eval true).currentJob = some 3 := by decide

/-- `take 1` stops after the first removal: job 2 is finished too but is retained, flag untouched -/
example :
    let s := run JobList.empty [.insert 101 (.exited 0), .insert 102 .running, .insert 103 (.exited 1)]
    (s.extractTake 1 RmPred.done.eval true).1 = [0] ∧
    ((s.extractTake 1 RmPred.done.eval true).2.get 2).map (·.changed) = some true ∧
    (s.extractTake 3 RmPred.done.eval true).1 = [0, 2] := by decide

/-- a counting closure on a table with a hole and a finished job: the first two running jobs go, the third stays -/
example :
    let s := run JobList.empty [.insert 101 .running, .insert 102 (.exited 0), .insert 103 .running, .insert 104 .running,
                                .remove 1]
    selS (firstK RmPred.running.eval) 2 s.entries 0 = [0, 2] ∧
    (s.removeIfS (firstK RmPred.running.eval) 2 false).2.currentJob = some 3 ∧
    (s.removeIfS (firstK RmPred.running.eval) 2 false).2.len = 1 := by decide

/-- the budget of `take` counts removals, not visited jobs: a job that is not selected does not use it up; the
    jobs behind the first removal keep their `state_changed` flag, the ones before it are reported -/
example :
    let s := run JobList.empty [.insert 101 .running, .insert 102 (.exited 0), .insert 103 (.exited 1)]
    (s.extractTake 1 RmPred.done.eval true).1 = [1] ∧
    ((s.extractTake 1 RmPred.done.eval true).2.get 0).map (·.changed) = some false ∧
    ((s.extractTake 1 RmPred.done.eval true).2.get 2).map (·.changed) = some true ∧
    (s.extractTake 1 RmPred.done.eval true).2.currentJob = some 0 := by decide

end YashModel.Job
