/-
  C12 — property theorems (and non-vacuity examples) ONLY.  Helper lemmas: `Lemmas.lean`, `Steps.lean`.

  Property text: "Across every history of jobs being added, suspended, resumed, finished, reported
  and removed, the job table stays consistent: a non-empty table has a current job; two or more
  jobs imply a previous job distinct from it; whenever suspended jobs exist the current job is
  suspended, and with two or more the previous job is too; each process ID designates at most one
  job; and a job's number never changes while the job exists.  `%%`, `%+`, `%-`, `%n` and `$!`
  therefore always designate the jobs the documentation says they do."
-/
import YashModel.Job.Steps
import YashModel.Job.BuiltinSteps
import YashModel.Job.ExtSteps
import YashModel.Job.ApiSteps
import YashModel.Job.ApiLemmas
namespace YashModel.Job

/-- The statement of the property on one table, in the existential form of the property text and
    through the public view (`currentJob`, `previousJob`, slot lookup, `find_by_pid` = `lookup`). -/
structure Consistent (s : JobList) : Prop where
  current_exists :
    (∃ i j, s.get i = some j) → ∃ c j, s.currentJob = some c ∧ s.get c = some j
  previous_exists :
    (∃ i i' j j', i ≠ i' ∧ s.get i = some j ∧ s.get i' = some j') →
      ∃ p j, s.previousJob = some p ∧ s.get p = some j ∧ s.currentJob ≠ some p
  current_suspended :
    (∃ i j, s.get i = some j ∧ j.isSuspended = true) →
      ∃ c j, s.currentJob = some c ∧ s.get c = some j ∧ j.isSuspended = true
  previous_suspended :
    (∃ i i' j j', i ≠ i' ∧ s.get i = some j ∧ j.isSuspended = true ∧ s.get i' = some j' ∧ j'.isSuspended = true) →
      ∃ p j, s.previousJob = some p ∧ s.get p = some j ∧ j.isSuspended = true
  pid_unique :
    ∀ i i' j j', s.get i = some j → s.get i' = some j' → j.pid = j'.pid → i = i'
  pid_index :
    ∀ i j, s.get i = some j → lookup s.pids j.pid = some i

/-- histories whose every `insert` respects the stated precondition (pid fresh or designating a
    job that is not alive) -/
def PathPre : JobList → List Op → Prop
  | _, [] => True
  | s, op :: ops => opPre s op = true ∧ PathPre (step s op) ops

/-- ★ the invariant holds initially -/
theorem inv_init : Inv JobList.empty := by
  refine ⟨?_, ?_, ?_⟩
  · unfold JInv JobList.empty; simp [gets_nil]
  · intro p i; simp [JobList.empty, lookup, gets_nil]
  · exact ⟨by simp [JobList.empty], by simp [JobList.empty]⟩

/-- ★ every operation preserves it — the `JobList` API calls, and the built-ins `jobs`, `bg`, `fg`,
    `wait` (also while the system reports state changes) and the asynchronous command `cmd &` as wholes,
    `Env::update_all_subshell_statuses` and the prompt report of an interactive shell -/
theorem inv_step (s : JobList) (op : Op) (h : Inv s) (hpre : opPre s op = true) : Inv (step s op) := by
  cases op with
  | insert pid st => exact insert_inv s _ h hpre
  | update pid st => exact update_inv s pid st h
  | setCurrent i =>
    simp only [step]
    cases hs : s.setCurrentJob i with
    | error e => exact h
    | ok s' => exact setCurrent_inv s s' i h hs
  | remove i => exact remove_inv s i h
  | removeIfDone r => exact removeIf_inv s _ _ h
  | removeIfChanged => exact removeIf_inv s _ _ h
  | report => exact mapJobs_inv s _ (fun j => ⟨rfl, rfl⟩) h
  | expect i st =>
    simp only [step, JobList.expect]
    cases hg : gets s.entries i with
    | none => exact h
    | some j => exact setSlot_inv s i j _ hg ⟨rfl, rfl⟩ h
  | disown => exact mapJobs_inv s _ (fun j => ⟨rfl, rfl⟩) h
  | setAsync pid => exact ⟨h.j, h.p, h.f⟩
  | insertJob pid st jc name => exact insert_inv s _ h hpre
  | jobs args => exact jobsBuiltin_inv s args h
  | bg m args => exact bgBuiltin_inv s m args h
  | fg m i out args => exact fgBuiltin_inv s m i out args h
  | wait args => exact waitBuiltin_inv s args h
  | wres arg => exact h
  | amp pid m i name => exact ampersand_inv s pid m i name h hpre
  | hjs pid r i name => exact handleJobStatus_inv s pid r i name h hpre
  | jobsClosed args => exact jobsClosed_inv s args h
  | ampFail => exact h
  | reportLast => exact reportLast_inv s h
  | sync evs => exact updateAll_inv s evs h
  | prompt m i => exact promptReport_inv s m i h
  | waitEv evs args => exact waitBuiltinEv_inv s evs args h
  | kres arg => exact h
  | bang => exact h
  | removeIf p r => exact removeIf_inv s _ _ h
  | extractIf p r => exact removeIf_inv s _ _ h
  | extractTake n p r => exact extractLoopN_inv _ _ _ _ _ _ _ _ h
  | addJob pid st => exact insert_inv s _ h hpre
  | reportOne i => exact reportOne_inv s i h
  | ajs pid r i name =>
    simp only [step, addJobIfSuspended_table]
    exact handleJobStatus_inv s pid r i name h hpre
  | removeIfFirst k p r => simp only [step, removeIfS_eq]; exact removeIf_inv s _ _ h
  | promptClosed m i => exact h
  | subJobs args => exact h
  | subWait args => exact h

/-- ★ hence it holds after every history — any length, any number of jobs -/
theorem inv_reachable (ops : List Op) (s : JobList) (h : Inv s) (hp : PathPre s ops) : Inv (run s ops) := by
  induction ops generalizing s with
  | nil => exact h
  | cons op ops ih => exact ih _ (inv_step s op h hp.1) hp.2

/-- ★ the invariant implies the property text -/
theorem consistent_of_inv (s : JobList) (h : Inv s) : Consistent s := by
  obtain ⟨⟨h1, h2, h3, h4⟩, hP, _⟩ := h
  refine ⟨?_, ?_, ?_, ?_, ?_, ?_⟩
  · rintro ⟨i, j, hij⟩
    obtain ⟨j', hj'⟩ := h1 i j hij
    exact ⟨s.cur, j', by simp [JobList.currentJob, hj'], hj'⟩
  · rintro ⟨i, i', j, j', hne, hi, hi'⟩
    have : ∃ k jk, k ≠ s.cur ∧ gets s.entries k = some jk := by
      by_cases hc : i = s.cur
      · exact ⟨i', j', fun e => hne (hc.trans e.symm), hi'⟩
      · exact ⟨i, j, hc, hi⟩
    obtain ⟨k, jk, hk1, hk2⟩ := this
    obtain ⟨hpc, jp, hjp⟩ := h2 k jk hk1 hk2
    obtain ⟨jc, hjc⟩ := h1 k jk hk2
    refine ⟨s.prev, jp, by simp [JobList.previousJob, hpc, hjp], hjp, ?_⟩
    simp [JobList.currentJob, hjc]; exact fun e => hpc e.symm
  · rintro ⟨i, j, hij, hs⟩
    obtain ⟨j', hj', hs'⟩ := h3 i j hij hs
    exact ⟨s.cur, j', by simp [JobList.currentJob, hj'], hj', hs'⟩
  · rintro ⟨i, i', j, j', hne, hi, hs, hi', hs'⟩
    have : ∃ k jk, k ≠ s.cur ∧ gets s.entries k = some jk ∧ jk.isSuspended = true := by
      by_cases hc : i = s.cur
      · exact ⟨i', j', fun e => hne (hc.trans e.symm), hi', hs'⟩
      · exact ⟨i, j, hc, hi, hs⟩
    obtain ⟨k, jk, hk1, hk2, hk3⟩ := this
    obtain ⟨hpc, _, _⟩ := h2 k jk hk1 hk2
    obtain ⟨jp, hjp, hsp⟩ := h4 k jk hk1 hk2 hk3
    exact ⟨s.prev, jp, by simp [JobList.previousJob, hpc, hjp], hjp, hsp⟩
  · intro i i' j j' hi hi' hpid
    have a := (hP j.pid i).mpr ⟨j, hi, rfl⟩
    have b := (hP j.pid i').mpr ⟨j', hi', hpid.symm⟩
    rw [a] at b; cases b; rfl
  · intro i j hi
    exact (hP j.pid i).mpr ⟨j, hi, rfl⟩

/-- ★ the property statement for every history from the empty table -/
theorem consistent_reachable (ops : List Op) (hp : PathPre JobList.empty ops) :
    Consistent (run JobList.empty ops) :=
  consistent_of_inv _ (inv_reachable ops _ inv_init hp)

/-- "a job's number never changes while the job exists": after any operation a pid that was in
    the table is at the same index or nowhere. -/
def Stable (s s' : JobList) : Prop :=
  ∀ i j, s.get i = some j →
    (∃ j', s'.get i = some j' ∧ j'.pid = j.pid) ∨ (∀ i' j', s'.get i' = some j' → j'.pid ≠ j.pid)

theorem stable_of_sub (s s' : JobList) (h : Inv s) (hs : Sub s s') : Stable s s' := by
  intro i j hi
  have hu := (consistent_of_inv s h).pid_unique
  rcases hs i with hn | ⟨a, a', ha, ha', hp⟩
  · right
    intro i' j' hi' hpid
    rcases hs i' with hn' | ⟨b, b', hb, hb', hp'⟩
    · unfold JobList.get at hi'; rw [hn'] at hi'; cases hi'
    · unfold JobList.get at hi' hi; rw [hb'] at hi'; cases hi'
      have := hu i' i b j hb hi (by rw [← hp', hpid])
      subst this
      rw [hn] at hb'; cases hb'
  · left
    unfold JobList.get at hi; rw [ha] at hi; cases hi
    exact ⟨a', ha', hp⟩

theorem setCurrent_same (s s' : JobList) (k : Nat) (hs : s.setCurrentJob k = .ok s') :
    s'.entries = s.entries ∧ s'.lastAsync = s.lastAsync := by
  unfold JobList.setCurrentJob at hs
  split at hs
  · cases hs
  · split at hs
    · cases hs
    · split at hs <;> cases hs <;> exact ⟨rfl, rfl⟩

theorem insert_stable (s : JobList) (job : Job) (h : Inv s) : Stable s (s.insert job).2 := by
  have hP := h.p
  intro i j hi
  left
  simp only [JobList.insert]
  cases hl : lookup s.pids job.pid with
  | none =>
    simp only
    obtain ⟨hs1, hs2, _⟩ := slabInsert_spec s.entries s.free job h.f
    unfold JobList.get
    simp only
    rw [hs2 i]
    have : i ≠ (slabInsert s.entries s.free job).1 := by
      intro e; unfold JobList.get at hi; rw [e, hs1] at hi; cases hi
    simp only [this, if_false]
    exact ⟨j, hi, rfl⟩
  | some k =>
    simp only
    obtain ⟨old, ho1, ho2⟩ := (hP job.pid k).mp hl
    unfold JobList.get
    simp only
    rw [gets_set _ _ _ _ (gets_some_lt ho1)]
    by_cases hik : i = k
    · subst hik
      unfold JobList.get at hi; rw [ho1] at hi; cases hi
      exact ⟨job, if_pos rfl, ho2.symm⟩
    · simp only [hik, if_false]; exact ⟨j, hi, rfl⟩

/-- ★ index stability for every operation, built-ins included -/
theorem index_stable (s : JobList) (op : Op) (h : Inv s) (hpre : opPre s op = true) : Stable s (step s op) := by
  have hu := (consistent_of_inv s h).pid_unique
  have hP := h.p
  cases op with
  | insert pid st => exact insert_stable s _ h
  | update pid st =>
    intro i j hi
    left
    simp only [step, JobList.updateStatus]
    cases hl : lookup s.pids pid with
    | none => exact ⟨j, hi, rfl⟩
    | some idx =>
      simp only
      cases hg : gets s.entries idx with
      | none => exact ⟨j, hi, rfl⟩
      | some job =>
        unfold JobList.get
        simp only
        rw [gets_set _ _ _ _ (gets_some_lt hg)]
        by_cases hik : i = idx
        · subst hik
          unfold JobList.get at hi; rw [hg] at hi; cases hi
          exact ⟨_, if_pos rfl, rfl⟩
        · simp only [hik, if_false]; exact ⟨j, hi, rfl⟩
  | setCurrent k =>
    intro i j hi
    left
    simp only [step]
    cases hs : s.setCurrentJob k with
    | error e => exact ⟨j, hi, rfl⟩
    | ok s' =>
      unfold JobList.get; rw [(setCurrent_same s s' k hs).1]; exact ⟨j, hi, rfl⟩
  | remove k => exact stable_of_sub _ _ h (remove_sub s k)
  | removeIfDone r => exact stable_of_sub _ _ h (extractLoop_sub _ _ _ _ _ _ _)
  | removeIfChanged => exact stable_of_sub _ _ h (extractLoop_sub _ _ _ _ _ _ _)
  | report =>
    intro i j hi
    left
    simp only [step, JobList.reportAll, JobList.get]
    rw [gets_map]
    unfold JobList.get at hi
    rw [hi]; exact ⟨_, rfl, rfl⟩
  | expect k st =>
    intro i j hi
    left
    simp only [step, JobList.expect]
    cases hg : gets s.entries k with
    | none => exact ⟨j, hi, rfl⟩
    | some jk =>
      unfold JobList.get
      simp only
      rw [gets_set _ _ _ _ (gets_some_lt hg)]
      by_cases hik : i = k
      · subst hik
        unfold JobList.get at hi; rw [hg] at hi; cases hi
        exact ⟨_, if_pos rfl, rfl⟩
      · simp only [hik, if_false]; exact ⟨j, hi, rfl⟩
  | disown =>
    intro i j hi
    left
    simp only [step, JobList.disownAll, JobList.get]
    rw [gets_map]
    unfold JobList.get at hi
    rw [hi]; exact ⟨_, rfl, rfl⟩
  | setAsync pid =>
    intro i j hi
    exact Or.inl ⟨j, hi, rfl⟩
  | insertJob pid st jc name => exact insert_stable s _ h
  | jobs args => exact stable_of_sub _ _ h (jobsBuiltin_sub s args)
  | bg m args => exact stable_of_sub _ _ h (bgBuiltin_sub s m args)
  | fg m i out args => exact stable_of_sub _ _ h (fgBuiltin_sub s m i out args)
  | wait args => exact stable_of_sub _ _ h (waitBuiltin_sub s args)
  | wres arg => exact stable_of_sub _ _ h (Sub.refl s)
  | amp pid m i name =>
    intro i' j hi
    have := insert_stable s (asyncJob pid m name) h i' j hi
    exact this
  | hjs pid r i name =>
    simp only [step, handleJobStatus]
    split
    · exact insert_stable s _ h
    · exact stable_of_sub _ _ h (Sub.refl s)
  | jobsClosed args => exact stable_of_sub _ _ h (jobsClosed_sub s args)
  | ampFail => exact stable_of_sub _ _ h (Sub.refl s)
  | reportLast => exact stable_of_sub _ _ h (reportLast_sub s)
  | sync evs => exact stable_of_sub _ _ h (updateAll_sub s evs)
  | prompt m i => exact stable_of_sub _ _ h (promptReport_sub s m i)
  | waitEv evs args => exact stable_of_sub _ _ h (waitBuiltinEv_sub s evs args)
  | kres arg => exact stable_of_sub _ _ h (Sub.refl s)
  | bang => exact stable_of_sub _ _ h (Sub.refl s)
  | removeIf p r => exact stable_of_sub _ _ h (extractLoop_sub _ _ _ _ _ _ _)
  | extractIf p r => exact stable_of_sub _ _ h (extractLoop_sub _ _ _ _ _ _ _)
  | extractTake n p r => exact stable_of_sub _ _ h (extractLoopN_sub _ _ _ _ _ _ _ _)
  | addJob pid st => exact insert_stable s _ h
  | reportOne i => exact stable_of_sub _ _ h (reportOne_sub s i)
  | ajs pid r i name =>
    simp only [step, addJobIfSuspended_table, handleJobStatus]
    split
    · exact insert_stable s _ h
    · exact stable_of_sub _ _ h (Sub.refl s)
  | removeIfFirst k p r => simp only [step, removeIfS_eq]; exact stable_of_sub _ _ h (extractLoop_sub _ _ _ _ _ _ _)
  | promptClosed m i => exact stable_of_sub _ _ h (Sub.refl s)
  | subJobs args => exact stable_of_sub _ _ h (Sub.refl s)
  | subWait args => exact stable_of_sub _ _ h (Sub.refl s)

/-- ★ `%%`/`%+` designate the current job, `%-` the previous job, `%n` the job at index `n-1`;
    on a consistent table `%%` succeeds iff the table is non-empty. -/
theorem jobid_designates (s : JobList) :
    (∀ i, JobId.current.find s = .ok i ↔ s.currentJob = some i) ∧
    (∀ i, JobId.previous.find s = .ok i ↔ s.previousJob = some i) ∧
    (∀ n i, 1 ≤ n → ((JobId.number n).find s = .ok i ↔ i = n - 1 ∧ ∃ j, s.get (n - 1) = some j)) := by
  refine ⟨?_, ?_, ?_⟩
  · intro i; unfold JobId.find; cases s.currentJob <;> simp
  · intro i; unfold JobId.find; cases s.previousJob <;> simp
  · intro n i _
    simp only [JobId.find, JobList.get]
    cases hg : gets s.entries (n - 1) with
    | none => simp
    | some j => simp [eq_comm]

theorem jobid_current_total (s : JobList) (h : Inv s) (hne : ∃ i j, s.get i = some j) :
    ∃ c, JobId.current.find s = .ok c := by
  obtain ⟨c, j, hc, _⟩ := (consistent_of_inv s h).current_exists hne
  exact ⟨c, ((jobid_designates s).1 c).mpr hc⟩

/-- ★ `$!` changes only through `set_last_async_pid`: directly, in `cmd &` (the pid of the new
    child) and in `bg` (see `bg_resumed`); `jobs`, `fg`, `wait` leave it alone. -/
theorem last_async (s : JobList) (op : Op) :
    (step s op).lastAsync = match op with
      | .setAsync p => p
      | .amp p _ _ _ => p
      | .bg m args => (bgBuiltin s m args).2.lastAsync
      | _ => s.lastAsync := by
  cases op with
  | insert pid st =>
    simp only [step, JobList.insert]; cases lookup s.pids pid <;> rfl
  | update pid st => exact update_lastAsync s pid st
  | setCurrent i =>
    simp only [step]
    cases hs : s.setCurrentJob i with
    | error e => rfl
    | ok s' => exact (setCurrent_same s s' i hs).2
  | remove i =>
    simp only [step, JobList.remove]; cases gets s.entries i <;> rfl
  | removeIfDone r => exact extractLoop_lastAsync _ _ _ _ _ _ _
  | removeIfChanged => exact extractLoop_lastAsync _ _ _ _ _ _ _
  | report => rfl
  | expect i st => simp only [step, JobList.expect]; cases gets s.entries i <;> rfl
  | disown => rfl
  | setAsync pid => rfl
  | insertJob pid st jc name =>
    simp only [step, JobList.insert]; cases lookup s.pids pid <;> rfl
  | jobs args => exact jobsBuiltin_lastAsync s args
  | bg m args => rfl
  | fg m i out args => exact fgBuiltin_lastAsync s m i out args
  | wait args => exact waitBuiltin_lastAsync s args
  | wres arg => rfl
  | amp pid m i name => rfl
  | hjs pid r i name => exact handleJobStatus_lastAsync s pid r i name
  | jobsClosed args => exact jobsClosed_lastAsync s args
  | ampFail => rfl
  | reportLast => exact reportLast_lastAsync s
  | sync evs => exact updateAll_lastAsync s evs
  | prompt m i => exact promptReport_lastAsync s m i
  | waitEv evs args => exact waitBuiltinEv_lastAsync s evs args
  | kres arg => rfl
  | bang => rfl
  | removeIf p r => exact extractLoop_lastAsync _ _ _ _ _ _ _
  | extractIf p r => exact extractLoop_lastAsync _ _ _ _ _ _ _
  | extractTake n p r => exact extractLoopN_lastAsync _ _ _ _ _ _ _ _
  | addJob pid st =>
    simp only [step, JobList.add, JobList.insert]; cases lookup s.pids pid <;> rfl
  | reportOne i => exact reportOne_lastAsync s i
  | ajs pid r i name =>
    simp only [step, addJobIfSuspended_table]
    exact handleJobStatus_lastAsync s pid r i name
  | removeIfFirst k p r => simp only [step, removeIfS_eq]; exact extractLoop_lastAsync _ _ _ _ _ _ _
  | promptClosed m i => rfl
  | subJobs args => rfl
  | subWait args => rfl

/-! ### the precondition is needed and satisfiable; hypotheses are met by non-trivial histories -/

/-- without the precondition the consistency conditions can break: a suspended current job is
    overwritten by a running one carrying the same pid while another job is suspended -/
example :
    let ops := [Op.insert 1 (.stopped 19), Op.insert 2 (.stopped 19)]
    invB (run JobList.empty (ops ++ [Op.insert 1 .running])) = false ∧
    opPre (run JobList.empty ops) (Op.insert 1 .running) = false := by
  decide

/-- a history with fresh pids, a pid reused after its job finished, suspensions and removals
    satisfies `PathPre`, so `consistent_reachable` applies to it (and `invB` agrees) -/
def sampleHistory : List Op :=
  [.insert 1 .running, .insert 2 (.stopped 19), .insert 3 (.stopped 20), .update 1 (.exited 0),
   .insert 1 .running, .update 2 .running, .remove 1, .removeIfDone true, .setCurrent 0]

example : PathPre JobList.empty sampleHistory := by
  simp [sampleHistory, PathPre]
  decide

example : invB (run JobList.empty sampleHistory) = true ∧ (run JobList.empty sampleHistory).len = 2 := by
  decide

end YashModel.Job
