/-
  C12 final pass — property theorems ONLY: the prompt report with standard error closed, and the job table inside a
  subshell (`( jobs … )`, `( wait … )` run in a real child process of the virtual system).
-/
import YashModel.Job.ApiLicenceTheorems
import YashModel.Job.BuiltinTheorems
namespace YashModel.Job

/-- ★ a status report that cannot be written (standard error closed) marks no job as reported and removes nothing:
    the table is untouched, so the next prompt reports exactly what this one would have reported — with the same
    markers and the same jobs (docs: "automatic notifications do not remove the reported job from the job list";
    input/reporter.rs: `state_reported()` only `if write_all(..).is_ok()`) -/
theorem prompt_closed (s : JobList) (m i : Bool) :
    promptReportClosed s m i = ([], s) ∧ step s (.promptClosed m i) = s ∧
    (∀ m' i', promptReport (step s (.promptClosed m i)) m' i' = promptReport s m' i') :=
  ⟨rfl, rfl, fun _ _ => rfl⟩

/-- ★ the job table a subshell starts with (`subshell/config.rs`: `env.jobs.disown_all()` on the child's copy) and what
    `( jobs … )` / `( wait … )` do with it:
    * the list is KEPT — every job in its slot with the same pid, state, name, flags — but no job is owned; the current
      and the previous job and `$!` are inherited; the table is consistent;
    * the parent's table is not touched by the subshell (`step` is the identity);
    * `wait` on any job inherited from the parent does not wait: `job_status` answers 127 at once
      (docs/src/builtins/wait.md: "Subshells cannot wait for jobs in the parent shell environment");
    * `jobs` in the subshell prints what `jobs` prints in the parent (docs/src/builtins/jobs.md: it "reports not only
      jobs that were started in the subshell but also jobs that were started in the parent shell"). -/
theorem subshell_table (s : JobList) (h : Inv s) :
    Inv (subshellJobs s) ∧
    (∀ k, (subshellJobs s).get k = (s.get k).map (fun j => { j with owned := false })) ∧
    (subshellJobs s).currentJob = s.currentJob ∧ (subshellJobs s).previousJob = s.previousJob ∧
    (subshellJobs s).lastAsync = s.lastAsync ∧
    (∀ args, step s (.subJobs args) = s ∧ step s (.subWait args) = s) ∧
    (∀ k j, s.get k = some j → (jobStatus (subshellJobs s) k).1 = some 127) := by
  have hg : ∀ k, gets (subshellJobs s).entries k = (gets s.entries k).map (fun j => { j with owned := false }) := by
    intro k; simp only [subshellJobs, JobList.disownAll]; exact gets_map _ _ _
  have hsome : ∀ k, (gets (subshellJobs s).entries k).isSome = (gets s.entries k).isSome := by
    intro k; rw [hg]; cases gets s.entries k <;> rfl
  refine ⟨mapJobs_inv s _ (fun j => ⟨rfl, rfl⟩) h, hg, ?_, ?_, rfl, fun _ => ⟨rfl, rfl⟩, ?_⟩
  · unfold JobList.currentJob; rw [hsome]; rfl
  · unfold JobList.previousJob; rw [hsome]; rfl
  · intro k j hk
    have := hg k
    unfold JobList.get at hk
    rw [hk] at this
    exact congrArg Prod.fst ((wait_job_status (subshellJobs s) k _ this).1 rfl)

/-- non-vacuity: a table with a finished job; in the subshell `wait %3` gives 127 (not the job's status 3), `jobs`
    prints the three lines, the parent still has the job and can retrieve its status -/
example :
    let s := run JobList.empty [.insertJob 101 .running true "ab".toList, .insertJob 102 (.stopped 120) true "abc".toList,
                                .insertJob 103 (.exited 3) true "b".toList]
    (subWait s ["%3".toList]).status = 127 ∧ (subJobs s []).stdout = (jobsBuiltin s []).1.stdout ∧
    (waitBuiltin (step s (.subWait ["%3".toList])) ["%3".toList]).1.status = 3 := by decide

end YashModel.Job
