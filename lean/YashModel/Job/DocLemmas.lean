/-
  Helper lemmas for the documentation-level theorems of C12 (`DocTheorems.lean`): decimal text of a
  number, the name predicates, lists of matching slots.
-/
import YashModel.Job.BuiltinSteps
namespace YashModel.Job

/-! ### decimal text -/

theorem digitsVal_eq_ofDigitChars (l : Str) (init : Nat) :
    l.foldl (fun a c => a * 10 + (c.toNat - 48)) init = Nat.ofDigitChars 10 l init := by
  induction l generalizing init with
  | nil => rfl
  | cons c cs ih =>
    simp only [List.foldl_cons, Nat.ofDigitChars_cons]
    rw [ih, Nat.mul_comm]
    rfl

theorem natStr_eq (n : Nat) : natStr n = Nat.toDigits 10 n := by
  unfold natStr
  rw [Nat.toString_eq_repr, Nat.toList_repr]

/-- reading the decimal text of `n` gives `n` back -/
theorem digitsVal_natStr (n : Nat) : digitsVal (natStr n) = n := by
  unfold digitsVal
  rw [digitsVal_eq_ofDigitChars, natStr_eq]
  exact Nat.ofDigitChars_ten_toDigits

theorem isDigitC_eq (c : Char) : isDigitC c = c.isDigit := by
  unfold isDigitC Char.isDigit
  simp only [Char.le_def, UInt32.le_iff_toNat_le]

theorem natStr_all_digits (n : Nat) : (natStr n).all isDigitC = true := by
  rw [natStr_eq, List.all_eq_true]
  intro c hc
  rw [isDigitC_eq]
  exact Nat.isDigit_of_mem_toDigits (by decide) (by decide) hc

theorem natStr_ne_nil (n : Nat) : natStr n ≠ [] := by
  rw [natStr_eq]; exact Nat.toDigits_ne_nil

/-! ### the name predicates -/

theorem isPrefixOfL_iff (a b : Str) : isPrefixOfL a b = true ↔ ∃ c, b = a ++ c := by
  induction a generalizing b with
  | nil => simp [isPrefixOfL]
  | cons x xs ih =>
    cases b with
    | nil => simp [isPrefixOfL]
    | cons y ys =>
      simp only [isPrefixOfL, Bool.and_eq_true, beq_iff_eq, ih, List.cons_append, List.cons.injEq]
      constructor
      · rintro ⟨e, c, hc⟩; exact ⟨c, e.symm, hc⟩
      · rintro ⟨c, e, hc⟩; exact ⟨e.symm, c, hc⟩

theorem containsL_iff (h n : Str) : containsL h n = true ↔ ∃ x y, h = x ++ n ++ y := by
  induction h with
  | nil =>
    simp only [containsL, List.isEmpty_iff]
    constructor
    · intro e; subst e; exact ⟨[], [], rfl⟩
    · rintro ⟨x, y, e⟩
      have := congrArg List.length e
      simp at this
      exact List.eq_nil_of_length_eq_zero (by omega)
  | cons c t ih =>
    simp only [containsL, Bool.or_eq_true, isPrefixOfL_iff, ih]
    constructor
    · rintro (⟨y, e⟩ | ⟨x, y, e⟩)
      · exact ⟨[], y, by simpa using e⟩
      · exact ⟨c :: x, y, by simp [e]⟩
    · rintro ⟨x, y, e⟩
      cases x with
      | nil => exact Or.inl ⟨y, by simpa using e⟩
      | cons x0 xs =>
        simp only [List.cons_append, List.cons.injEq] at e
        exact Or.inr ⟨xs, y, e.2⟩

/-! ### lists of matching slots -/

theorem matchingIdx_nodup (es : Slab) (p : Job → Bool) (off : Nat) : (matchingIdx es p off).Nodup := by
  induction es generalizing off with
  | nil => simp [matchingIdx]
  | cons h t ih =>
    cases h with
    | none => simp only [matchingIdx]; exact ih _
    | some j =>
      simp only [matchingIdx]
      split
      · refine List.nodup_cons.mpr ⟨?_, ih _⟩
        intro hm
        have := ((mem_matchingIdx t p (off + 1) off).mp hm).1
        omega
      · exact ih _

theorem eq_singleton_of_nodup {l : List Nat} {i : Nat} (hn : l.Nodup) (hm : ∀ x, x ∈ l ↔ x = i) : l = [i] := by
  cases l with
  | nil => exact absurd ((hm i).mpr rfl) (by simp)
  | cons a t =>
    have ha : a = i := (hm a).mp (by simp)
    subst ha
    cases t with
    | nil => rfl
    | cons b t' =>
      have hb : b = a := (hm b).mp (by simp)
      subst hb
      simp at hn

/-- `find_one`: exactly one job satisfies the predicate -/
theorem findOne_ok_iff (es : Slab) (p : Job → Bool) (i : Nat) :
    findOne es p = .ok i ↔
      (∃ j, gets es i = some j ∧ p j = true) ∧ ∀ k j, gets es k = some j → p j = true → k = i := by
  have mem := fun x => mem_matchingIdx es p 0 x
  unfold findOne
  constructor
  · intro h
    have hl : matchingIdx es p 0 = [i] := by
      revert h
      cases hm : matchingIdx es p 0 with
      | nil => simp
      | cons a t =>
        cases t with
        | nil => simp
        | cons b t' => simp
    constructor
    · have := (mem i).mp (by rw [hl]; simp)
      simpa using this
    · intro k j hk hp
      have : k ∈ matchingIdx es p 0 := (mem k).mpr ⟨Nat.zero_le _, j, by simpa using hk, hp⟩
      rw [hl] at this
      simpa using this
  · rintro ⟨⟨j, hj, hp⟩, huniq⟩
    have hl : matchingIdx es p 0 = [i] := by
      apply eq_singleton_of_nodup (matchingIdx_nodup es p 0)
      intro x
      constructor
      · intro hx
        obtain ⟨_, jx, hjx, hpx⟩ := (mem x).mp hx
        exact huniq x jx (by simpa using hjx) hpx
      · intro e; subst e
        exact (mem x).mpr ⟨Nat.zero_le _, j, by simpa using hj, hp⟩
    rw [hl]

/-- `find_one` finds nothing iff no job satisfies the predicate -/
theorem findOne_notFound_iff (es : Slab) (p : Job → Bool) :
    findOne es p = .error .notFound ↔ ∀ k j, gets es k = some j → p j = false := by
  have mem := fun x => mem_matchingIdx es p 0 x
  unfold findOne
  constructor
  · intro h k j hk
    cases hp : p j with
    | false => rfl
    | true =>
      have : k ∈ matchingIdx es p 0 := (mem k).mpr ⟨Nat.zero_le _, j, by simpa using hk, hp⟩
      revert h
      cases hm : matchingIdx es p 0 with
      | nil => rw [hm] at this; simp at this
      | cons a t => cases t <;> simp
  · intro h
    have : matchingIdx es p 0 = [] := by
      apply List.eq_nil_iff_forall_not_mem.mpr
      intro x hx
      obtain ⟨_, jx, hjx, hpx⟩ := (mem x).mp hx
      rw [h x jx (by simpa using hjx)] at hpx
      cases hpx
    rw [this]

/-! ### operand resolution and `docDesignates` in normal form -/

/-- the largest `usize` -/
def usizeMax : Nat := 18446744073709551615

/-- what an operand resolves to, as an option (ambiguous = no job) -/
def resolved (s : JobList) (op : Str) : Option Nat :=
  match waitResolve s (.jobId op) with
  | .ok r => r
  | .error _ => none

theorem findOne_uniqueOf (es : Slab) (q : Job → Bool) :
    (match findOne es q with | .ok i => some i | .error _ => none) = uniqueOf (matchingIdx es q 0) := by
  unfold findOne uniqueOf
  cases matchingIdx es q 0 with
  | nil => rfl
  | cons a t => cases t <;> rfl

theorem resolved_eq (s : JobList) (t : Str) :
    resolved s ('%' :: t) = match (parseTail t).find s with | .ok i => some i | .error _ => none := by
  unfold resolved waitResolve
  simp only [parseJobId]
  cases h : (parseTail t).find s with
  | ok i => rfl
  | error e => cases e <;> rfl

theorem uniqueOf_iff (es : Slab) (q : Job → Bool) (i : Nat) :
    uniqueOf (matchingIdx es q 0) = some i ↔
      (∃ j, gets es i = some j ∧ q j = true) ∧ ∀ k j, gets es k = some j → q j = true → k = i := by
  rw [← findOne_ok_iff, ← findOne_uniqueOf]
  cases findOne es q with
  | ok k => simp
  | error e => simp

/-- `docDesignates` as one chain of conditions -/
theorem docDesignates_eq (s : JobList) (t : Str) :
    docDesignates s ('%' :: t) = some (
      if t = [] ∨ t = ['%'] ∨ t = ['+'] then s.currentJob
      else if t = ['-'] then s.previousJob
      else if t.head? = some '?' then uniqueOf (jobsWhere s (fun n => containsL n t.tail))
      else if t.all isDigitC = true ∧ digitsVal t ≠ 0 then
        (if (s.get (digitsVal t - 1)).isSome then some (digitsVal t - 1) else none)
      else uniqueOf (jobsWhere s (fun n => isPrefixOfL t n))) := by
  unfold docDesignates
  by_cases h1 : t = [] ∨ t = ['%'] ∨ t = ['+']
  · simp only [h1, if_true]
  · by_cases h2 : t = ['-']
    · subst h2; simp
    · simp only [h1, h2, if_false]
      cases t with
      | nil => exact absurd (Or.inl rfl) h1
      | cons c cs =>
        by_cases hq : c = '?'
        · subst hq; simp
        · have : (c :: cs).head? ≠ some '?' := by simpa using hq
          simp only [this, if_false]
          split
          · rename_i e; cases e; exact absurd rfl hq
          · by_cases hd : (c :: cs).all isDigitC = true ∧ digitsVal (c :: cs) ≠ 0
            · rw [if_pos hd, if_pos hd]
            · rw [if_neg hd, if_neg hd]

end YashModel.Job
