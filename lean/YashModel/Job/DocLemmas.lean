/-
  Helper lemmas for the documentation-level theorems of C12 (`DocTheorems.lean`): decimal text of a
  number, the name predicates, lists of matching slots.
-/
import YashModel.Job.BuiltinSteps
namespace YashModel.Job

/-! ### decimal text -/

theorem digitsVal_eq_ofDigitChars (l : Str) (init : Nat) :
    l.foldl (fun a c => a * 10 + (c.toNat - 48)) init = Nat.ofDigitChars 10 l init := by
  induction l generalizing init with
  | nil => rfl
  | cons c cs ih =>
    simp only [List.foldl_cons, Nat.ofDigitChars_cons]
    rw [ih, Nat.mul_comm]
    rfl

theorem natStr_eq (n : Nat) : natStr n = Nat.toDigits 10 n := by
  unfold natStr
  rw [Nat.toString_eq_repr, Nat.toList_repr]

/-- reading the decimal text of `n` gives `n` back -/
theorem digitsVal_natStr (n : Nat) : digitsVal (natStr n) = n := by
  unfold digitsVal
  rw [digitsVal_eq_ofDigitChars, natStr_eq]
  exact Nat.ofDigitChars_ten_toDigits

theorem isDigitC_eq (c : Char) : isDigitC c = c.isDigit := by
  unfold isDigitC Char.isDigit
  simp only [Char.le_def, UInt32.le_iff_toNat_le]

theorem natStr_all_digits (n : Nat) : (natStr n).all isDigitC = true := by
  rw [natStr_eq, List.all_eq_true]
  intro c hc
  rw [isDigitC_eq]
  exact Nat.isDigit_of_mem_toDigits (by decide) (by decide) hc

theorem natStr_ne_nil (n : Nat) : natStr n ≠ [] := by
  rw [natStr_eq]; exact Nat.toDigits_ne_nil

/-! ### the name predicates -/

theorem isPrefixOfL_iff (a b : Str) : isPrefixOfL a b = true ↔ ∃ c, b = a ++ c := by
  induction a generalizing b with
  | nil => simp [isPrefixOfL]
  | cons x xs ih =>
    cases b with
    | nil => simp [isPrefixOfL]
    | cons y ys =>
      simp only [isPrefixOfL, Bool.and_eq_true, beq_iff_eq, ih, List.cons_append, List.cons.injEq]
      constructor
      · rintro ⟨e, c, hc⟩; exact ⟨c, e.symm, hc⟩
      · rintro ⟨c, e, hc⟩; exact ⟨e.symm, c, hc⟩

theorem containsL_iff (h n : Str) : containsL h n = true ↔ ∃ x y, h = x ++ n ++ y := by
  induction h with
  | nil =>
    simp only [containsL, List.isEmpty_iff]
    constructor
    · intro e; subst e; exact ⟨[], [], rfl⟩
    · rintro ⟨x, y, e⟩
      have := congrArg List.length e
      simp at this
      exact List.eq_nil_of_length_eq_zero (by omega)
  | cons c t ih =>
    simp only [containsL, Bool.or_eq_true, isPrefixOfL_iff, ih]
    constructor
    · rintro (⟨y, e⟩ | ⟨x, y, e⟩)
      · exact ⟨[], y, by simpa using e⟩
      · exact ⟨c :: x, y, by simp [e]⟩
    · rintro ⟨x, y, e⟩
      cases x with
      | nil => exact Or.inl ⟨y, by simpa using e⟩
      | cons x0 xs =>
        simp only [List.cons_append, List.cons.injEq] at e
        exact Or.inr ⟨xs, y, e.2⟩

/-! ### lists of matching slots -/

theorem matchingIdx_nodup (es : Slab) (p : Job → Bool) (off : Nat) : (matchingIdx es p off).Nodup := by
  induction es generalizing off with
  | nil => simp [matchingIdx]
  | cons h t ih =>
    cases h with
    | none => simp only [matchingIdx]; exact ih _
    | some j =>
      simp only [matchingIdx]
      split
      · refine List.nodup_cons.mpr ⟨?_, ih _⟩
        intro hm
        have := ((mem_matchingIdx t p (off + 1) off).mp hm).1
        omega
      · exact ih _

theorem eq_singleton_of_nodup {l : List Nat} {i : Nat} (hn : l.Nodup) (hm : ∀ x, x ∈ l ↔ x = i) : l = [i] := by
  cases l with
  | nil => exact absurd ((hm i).mpr rfl) (by simp)
  | cons a t =>
    have ha : a = i := (hm a).mp (by simp)
    subst ha
    cases t with
    | nil => rfl
    | cons b t' =>
      have hb : b = a := (hm b).mp (by simp)
      subst hb
      simp at hn

/-- `find_one`: exactly one job satisfies the predicate -/
theorem findOne_ok_iff (es : Slab) (p : Job → Bool) (i : Nat) :
    findOne es p = .ok i ↔
      (∃ j, gets es i = some j ∧ p j = true) ∧ ∀ k j, gets es k = some j → p j = true → k = i := by
  have mem := fun x => mem_matchingIdx es p 0 x
  unfold findOne
  constructor
  · intro h
    have hl : matchingIdx es p 0 = [i] := by
      revert h
      cases hm : matchingIdx es p 0 with
      | nil => simp
      | cons a t =>
        cases t with
        | nil => simp
        | cons b t' => simp
    constructor
    · have := (mem i).mp (by rw [hl]; simp)
      simpa using this
    · intro k j hk hp
      have : k ∈ matchingIdx es p 0 := (mem k).mpr ⟨Nat.zero_le _, j, by simpa using hk, hp⟩
      rw [hl] at this
      simpa using this
  · rintro ⟨⟨j, hj, hp⟩, huniq⟩
    have hl : matchingIdx es p 0 = [i] := by
      apply eq_singleton_of_nodup (matchingIdx_nodup es p 0)
      intro x
      constructor
      · intro hx
        obtain ⟨_, jx, hjx, hpx⟩ := (mem x).mp hx
        exact huniq x jx (by simpa using hjx) hpx
      · intro e; subst e
        exact (mem x).mpr ⟨Nat.zero_le _, j, by simpa using hj, hp⟩
    rw [hl]

/-- `find_one` finds nothing iff no job satisfies the predicate -/
theorem findOne_notFound_iff (es : Slab) (p : Job → Bool) :
    findOne es p = .error .notFound ↔ ∀ k j, gets es k = some j → p j = false := by
  have mem := fun x => mem_matchingIdx es p 0 x
  unfold findOne
  constructor
  · intro h k j hk
    cases hp : p j with
    | false => rfl
    | true =>
      have : k ∈ matchingIdx es p 0 := (mem k).mpr ⟨Nat.zero_le _, j, by simpa using hk, hp⟩
      revert h
      cases hm : matchingIdx es p 0 with
      | nil => rw [hm] at this; simp at this
      | cons a t => cases t <;> simp
  · intro h
    have : matchingIdx es p 0 = [] := by
      apply List.eq_nil_iff_forall_not_mem.mpr
      intro x hx
      obtain ⟨_, jx, hjx, hpx⟩ := (mem x).mp hx
      rw [h x jx (by simpa using hjx)] at hpx
      cases hpx
    rw [this]

/-! ### operand resolution and `docDesignates` in normal form -/

/-- the largest `usize` -/
def usizeMax : Nat := 18446744073709551615

/-- what an operand resolves to, as an option (ambiguous = no job) -/
def resolved (s : JobList) (op : Str) : Option Nat :=
  match waitResolve s (.jobId op) with
  | .ok r => r
  | .error _ => none

theorem findOne_uniqueOf (es : Slab) (q : Job → Bool) :
    (match findOne es q with | .ok i => some i | .error _ => none) = uniqueOf (matchingIdx es q 0) := by
  unfold findOne uniqueOf
  cases matchingIdx es q 0 with
  | nil => rfl
  | cons a t => cases t <;> rfl

theorem resolved_eq (s : JobList) (t : Str) :
    resolved s ('%' :: t) = match (parseTail t).find s with | .ok i => some i | .error _ => none := by
  unfold resolved waitResolve
  simp only [parseJobId]
  cases h : (parseTail t).find s with
  | ok i => rfl
  | error e => cases e <;> rfl

theorem uniqueOf_iff (es : Slab) (q : Job → Bool) (i : Nat) :
    uniqueOf (matchingIdx es q 0) = some i ↔
      (∃ j, gets es i = some j ∧ q j = true) ∧ ∀ k j, gets es k = some j → q j = true → k = i := by
  rw [← findOne_ok_iff, ← findOne_uniqueOf]
  cases findOne es q with
  | ok k => simp
  | error e => simp

/-- `docDesignates` as one chain of conditions -/
theorem docDesignates_eq (s : JobList) (t : Str) :
    docDesignates s ('%' :: t) = some (
      if t = [] ∨ t = ['%'] ∨ t = ['+'] then s.currentJob
      else if t = ['-'] then s.previousJob
      else if t.head? = some '?' then uniqueOf (jobsWhere s (fun n => containsL n t.tail))
      else if t.all isDigitC = true ∧ digitsVal t ≠ 0 then
        (if (s.get (digitsVal t - 1)).isSome then some (digitsVal t - 1) else none)
      else uniqueOf (jobsWhere s (fun n => isPrefixOfL t n))) := by
  unfold docDesignates
  by_cases h1 : t = [] ∨ t = ['%'] ∨ t = ['+']
  · simp only [h1, if_true]
  · by_cases h2 : t = ['-']
    · subst h2; simp
    · simp only [h1, h2, if_false]
      cases t with
      | nil => exact absurd (Or.inl rfl) h1
      | cons c cs =>
        by_cases hq : c = '?'
        · subst hq; simp
        · have : (c :: cs).head? ≠ some '?' := by simpa using hq
          simp only [this, if_false]
          split
          · rename_i e; cases e; exact absurd rfl hq
          · by_cases hd : (c :: cs).all isDigitC = true ∧ digitsVal (c :: cs) ≠ 0
            · rw [if_pos hd, if_pos hd]
            · rw [if_neg hd, if_neg hd]

/-! ### which slots `fg` and `bg` touch -/

theorem update_others (s : JobList) (pid idx : Nat) (st : PState) (job : Job)
    (hl : lookup s.pids pid = some idx) (hg : gets s.entries idx = some job) :
    (∀ k, k ≠ idx → gets (s.updateStatus pid st).2.entries k = gets s.entries k) ∧
    lookup (s.updateStatus pid st).2.pids pid = some idx ∧
    gets (s.updateStatus pid st).2.entries idx =
      some { job with state := st, changed := job.changed || decide (job.expected ≠ some st), expected := none } := by
  obtain ⟨g1, g2, _⟩ := update_get s pid idx st job hl hg
  refine ⟨fun k hk => by rw [g1 k]; simp [hk], by rw [g2]; exact hl, by rw [g1 idx]; simp⟩

/-- `fg::resume_job_by_index` touches only the slot of the resumed job, and vacates it only if the
    job ends in a state that is not alive -/
theorem fgResume_slots (s : JobList) (h : Inv s) (index : Nat) (outcome : PState) (job : Job)
    (hg : gets s.entries index = some job) (hout : outcome ≠ .running) :
    (∀ k, k ≠ index → gets (fgResume s index outcome).2.entries k = gets s.entries k) ∧
    (gets (fgResume s index outcome).2.entries index = none →
      (if job.state.isAlive then outcome else job.state).isAlive = false) := by
  have hl0 : lookup s.pids job.pid = some index := (h.p job.pid index).mpr ⟨job, hg, rfl⟩
  unfold fgResume
  simp only [hg]
  cases ho : job.owned with
  | false => simp [hg]
  | true =>
    cases hc : job.jc with
    | false => simp [hg]
    | true =>
      simp only [Bool.not_true, Bool.false_eq_true, if_false]
      cases ha : job.state.isAlive with
      | false =>
        simp only [Bool.false_eq_true, if_false]
        refine ⟨fun k hk => by rw [remove_gets]; simp [hk], fun _ => ha⟩
      | true =>
        simp only [if_true]
        -- the table after the `Running` report, if there is one
        have key : ∃ s1 j1, (if job.state.isStopped = true then (s.updateStatus job.pid .running).2 else s) = s1 ∧
            (∀ k, k ≠ index → gets s1.entries k = gets s.entries k) ∧
            lookup s1.pids job.pid = some index ∧ gets s1.entries index = some j1 := by
          cases hs : job.state.isStopped with
          | true =>
            obtain ⟨u1, u2, u3⟩ := update_others s job.pid index .running job hl0 hg
            exact ⟨_, _, by simp, u1, u2, u3⟩
          | false => exact ⟨s, job, by simp, fun _ _ => rfl, hl0, hg⟩
        obtain ⟨s1, j1, e1, o1, l1, g1⟩ := key
        rw [e1]
        obtain ⟨u1, _, u3⟩ := update_others s1 job.pid index outcome j1 l1 g1
        cases hso : outcome.isStopped with
        | true =>
          simp only [if_true]
          refine ⟨fun k hk => by rw [u1 k hk, o1 k hk], fun hv => ?_⟩
          rw [u3] at hv; cases hv
        | false =>
          simp only [Bool.false_eq_true, if_false]
          refine ⟨fun k hk => by rw [remove_gets]; simp only [hk, if_false]; rw [u1 k hk, o1 k hk], fun _ => ?_⟩
          cases outcome with
          | running => exact absurd rfl hout
          | stopped n => simp [PState.isStopped] at hso
          | exited n => rfl
          | signaled n c => rfl

/-- pid and recorded state of every slot are the same in both tables -/
def SameStates (s s' : JobList) : Prop :=
  ∀ k, (gets s'.entries k).map (fun j => (j.pid, j.state)) = (gets s.entries k).map (fun j => (j.pid, j.state))

theorem SameStates.refl (s : JobList) : SameStates s s := fun _ => rfl

theorem SameStates.trans {a b c : JobList} (h1 : SameStates a b) (h2 : SameStates b c) : SameStates a c :=
  fun k => (h2 k).trans (h1 k)

theorem sameStates_of_entries_eq {s s' : JobList} (h : s'.entries = s.entries) : SameStates s s' := by
  intro k; rw [h]

theorem expect_sameStates (s : JobList) (i : Nat) (st : Option PState) : SameStates s (s.expect i st) := by
  unfold JobList.expect
  cases hg : gets s.entries i with
  | none => exact SameStates.refl s
  | some j =>
    intro k
    simp only
    rw [gets_set _ _ _ _ (gets_some_lt hg)]
    by_cases hk : k = i
    · subst hk; simp [hg]
    · simp [hk]

theorem bgResume_sameStates (s : JobList) (index : Nat) : SameStates s (bgResume s index).2 := by
  rcases bgResume_table s index with e | ⟨job, _, _, _, e, _⟩ <;> rw [e]
  · exact SameStates.refl s
  · unfold bgTable
    have h1 : SameStates s (if job.state.isAlive then s.expect index (some .running) else s) := by
      split
      · exact expect_sameStates s index _
      · exact SameStates.refl s
    refine h1.trans (sameStates_of_entries_eq ?_)
    rw [(setCurrentOk_entries _ _).1]
    rfl

theorem bgLoop_sameStates (ops : List Str) (s : JobList) (out : Str) (errs : List String) :
    SameStates s (bgLoop ops s out errs).2 := by
  induction ops generalizing s out errs with
  | nil => exact SameStates.refl s
  | cons op rest ih =>
    unfold bgLoop
    have h1 : SameStates s (bgResumeId s op).2 := by
      unfold bgResumeId
      cases parseJobId op with
      | none => exact SameStates.refl s
      | some id =>
        simp only
        cases id.find s with
        | error e => exact SameStates.refl s
        | ok index => exact bgResume_sameStates s index
    cases hr : bgResumeId s op with
    | mk r s' =>
      rw [hr] at h1
      cases r with
      | ok line => exact h1.trans (ih _ _ _)
      | error e => exact h1.trans (ih _ _ _)

theorem bgBuiltin_sameStates (s : JobList) (m : Bool) (args : List Str) : SameStates s (bgBuiltin s m args).2 := by
  unfold bgBuiltin
  cases parseArgs [] args with
  | none => exact SameStates.refl s
  | some r =>
    obtain ⟨opts, operands⟩ := r
    simp only
    cases m with
    | false => exact SameStates.refl s
    | true =>
      simp only [Bool.not_true, Bool.false_eq_true, if_false]
      split
      · cases s.currentJob with
        | none => exact SameStates.refl s
        | some index =>
          simp only
          have h1 := bgResume_sameStates s index
          cases hr : bgResume s index with
          | mk r s' => rw [hr] at h1; cases r <;> exact h1
      · exact bgLoop_sameStates _ _ _ _

end YashModel.Job
