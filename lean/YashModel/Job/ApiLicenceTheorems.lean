/-
  C12 wave 3, third pass — property theorem ONLY: the Spec-column checks of the wave-3 operations hold on every model
  step.  Helper lemmas: `ApiLicence.lean`.
-/
import YashModel.Job.ApiLicence
namespace YashModel.Job

/-- ★ the Spec-column checks of the wave-3 operations hold on EVERY step of the model, from every consistent table
    (hence along every history, with `inv_reachable`): what the doc comments of `remove_if`, `extract_if` (drained, or
    advanced `n` times and dropped), `add`, `get_mut().state_reported()` and `add_job_if_suspended` promise — written
    in `Spec.lean` against a filter over the occupied slots, not against the loop — is true of the transcription
    of the code, for every predicate of the case language, every `n`, every counting closure.  So a `spec FAIL`
    on one of these steps can only come from a table the model did not compute. -/
theorem api_licences_on_model (s : JobList) (op : Op) (h : Inv s) (hpre : opPre s op = true) :
    docCheckApi s (step s op) op = none := by
  cases op with
  | removeIf p r => exact removalSpec_drain s p.eval r h none (Or.inl rfl)
  | extractIf p r =>
    exact removalSpec_drain s p.eval r h _ (Or.inr (by rw [removeIf_returns_selectedIdx]))
  | extractTake n p r => exact removalSpec_take s n p.eval r
  | removeIfFirst k p r =>
    simp only [docCheckApi, step]
    rw [removeIfS_eq, selS_firstK, selS_pure_eq]
    exact removalSpec_drain s _ r h none (Or.inl rfl)
  | reportOne i => simp only [docCheckApi, step, reportOneSpec_model s i h, if_true]
  | addJob pid st => simp only [docCheckApi, step, JobList.add, sameTable_refl, if_true]
  | ajs pid r i name =>
    by_cases hs : r.isStopped = true
    · simp only [docCheckApi, step, addJobIfSuspended, hs, if_true]
      have hpre' : insertPre s pid = true := by simpa [opPre, hs] using hpre
      have hI := insert_inv s { pid := pid, state := r, jc := true, name := name } h hpre'
      have hg := insert_get s { pid := pid, state := r, jc := true, name := name } h
      have hl := (hI.p pid _).mpr ⟨_, hg, rfl⟩
      rw [hl]
      simp only [Option.bind_some, JobList.get, hg, and_self, if_true]
    · simp only [docCheckApi, step, addJobIfSuspended, hs, Bool.false_eq_true, if_false, sameTable_refl, if_true]
  | _ => rfl

end YashModel.Job
