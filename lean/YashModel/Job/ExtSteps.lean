/-
  Extension round (C12): preservation lemmas for the operations added in that round —
  `Env::update_all_subshell_statuses` (`updateAll`), the prompt report (`promptReport`), `wait`
  while the system reports state changes (`waitBuiltinEv`).  Each is a composition of `JobList`
  operations, so the invariant, the slot-wise relation `Sub` and the value of `$!` follow from the
  per-operation lemmas of `Steps.lean` / `BuiltinSteps.lean`.
-/
import YashModel.Job.BuiltinSteps
namespace YashModel.Job

/-! ### events -/

theorem applyEvent_table (s : JobList) (ev : Ev) :
    applyEvent s ev = s ∨ applyEvent s ev = (s.updateStatus ev.1 ev.2).2 := by
  unfold applyEvent
  split
  · exact Or.inr rfl
  · exact Or.inl rfl

theorem applyEvent_inv (s : JobList) (ev : Ev) (h : Inv s) : Inv (applyEvent s ev) := by
  rcases applyEvent_table s ev with e | e <;> rw [e]
  · exact h
  · exact update_inv s _ _ h

theorem applyEvent_sub (s : JobList) (ev : Ev) : Sub s (applyEvent s ev) := by
  rcases applyEvent_table s ev with e | e <;> rw [e]
  · exact Sub.refl s
  · exact update_sub s _ _

theorem applyEvent_lastAsync (s : JobList) (ev : Ev) : (applyEvent s ev).lastAsync = s.lastAsync := by
  rcases applyEvent_table s ev with e | e <;> rw [e]
  exact update_lastAsync s _ _

/-- a property of tables that every delivered event preserves is preserved by `update_all_subshell_statuses` -/
theorem updateAll_ind (P : JobList → Prop) (hP : ∀ s ev, P s → P (applyEvent s ev))
    (evs : List Ev) (s : JobList) (h : P s) : P (updateAll s evs) := by
  induction evs generalizing s with
  | nil => exact h
  | cons ev rest ih => exact ih _ (hP s ev h)

theorem updateAll_inv (s : JobList) (evs : List Ev) (h : Inv s) : Inv (updateAll s evs) :=
  updateAll_ind Inv applyEvent_inv evs s h

theorem updateAll_sub (s : JobList) (evs : List Ev) : Sub s (updateAll s evs) :=
  updateAll_ind (Sub s) (fun s' ev h => h.trans (applyEvent_sub s' ev)) evs s (Sub.refl s)

theorem updateAll_lastAsync (s : JobList) (evs : List Ev) : (updateAll s evs).lastAsync = s.lastAsync :=
  updateAll_ind (fun t => t.lastAsync = s.lastAsync) (fun s' ev h => by rw [applyEvent_lastAsync]; exact h) evs s rfl

/-! ### the prompt report -/

theorem markReported_inv (s : JobList) (i : Nat) (h : Inv s) : Inv (s.markReported i) := by
  unfold JobList.markReported
  cases hg : gets s.entries i with
  | none => exact h
  | some j => exact setSlot_inv s i j _ hg ⟨rfl, rfl⟩ h

theorem markReported_sub (s : JobList) (i : Nat) : Sub s (s.markReported i) := by
  unfold JobList.markReported
  cases hg : gets s.entries i with
  | none => exact Sub.refl s
  | some j => exact sub_setSlot s i j _ hg rfl

theorem markReported_fields (s : JobList) (i : Nat) :
    (s.markReported i).lastAsync = s.lastAsync ∧ (s.markReported i).cur = s.cur ∧
    (s.markReported i).prev = s.prev ∧ (s.markReported i).pids = s.pids ∧ (s.markReported i).free = s.free := by
  unfold JobList.markReported
  cases gets s.entries i <;> exact ⟨rfl, rfl, rfl, rfl, rfl⟩

/-- slot-wise effect of `state_reported()` on slot `i` -/
theorem markReported_gets (s : JobList) (i k : Nat) :
    gets (s.markReported i).entries k =
      if k = i then (gets s.entries i).map (fun j => { j with changed := false }) else gets s.entries k := by
  unfold JobList.markReported
  cases hg : gets s.entries i with
  | none =>
    by_cases hk : k = i
    · subst hk; simp [hg]
    · simp [hk]
  | some j =>
    simp only
    rw [gets_set _ _ _ _ (gets_some_lt hg)]
    by_cases hk : k = i <;> simp [hk]

theorem markAll_ind (P : JobList → Prop) (hP : ∀ s i, P s → P (s.markReported i))
    (idxs : List Nat) (s : JobList) (h : P s) : P (idxs.foldl JobList.markReported s) := by
  induction idxs generalizing s with
  | nil => exact h
  | cons i rest ih => exact ih _ (hP s i h)

theorem promptReport_table (s : JobList) (m i : Bool) :
    (promptReport s m i).2 = s ∨
    (promptReport s m i).2 = (matchingIdx s.entries (·.changed) 0).foldl JobList.markReported s := by
  unfold promptReport
  split
  · exact Or.inl rfl
  · exact Or.inr rfl

theorem promptReport_inv (s : JobList) (m i : Bool) (h : Inv s) : Inv (promptReport s m i).2 := by
  rcases promptReport_table s m i with e | e <;> rw [e]
  · exact h
  · exact markAll_ind Inv markReported_inv _ s h

theorem promptReport_sub (s : JobList) (m i : Bool) : Sub s (promptReport s m i).2 := by
  rcases promptReport_table s m i with e | e <;> rw [e]
  · exact Sub.refl s
  · exact markAll_ind (Sub s) (fun s' k h => h.trans (markReported_sub s' k)) _ s (Sub.refl s)

theorem promptReport_lastAsync (s : JobList) (m i : Bool) : (promptReport s m i).2.lastAsync = s.lastAsync := by
  rcases promptReport_table s m i with e | e <;> rw [e]
  exact markAll_ind (fun t => t.lastAsync = s.lastAsync)
    (fun s' k h => by rw [(markReported_fields s' k).1]; exact h) _ s rfl

/-! ### `wait` while the system reports state changes -/

/-- a property of tables preserved by the test and by every delivered event is preserved by
    `wait_while_running` -/
theorem waitWhile_ind (P : JobList → Prop) (test : JobList → Option Nat × JobList)
    (hT : ∀ s, P s → P (test s).2) (hE : ∀ s ev, P s → P (applyEvent s ev))
    (evs : List Ev) (s : JobList) (h : P s) : P (waitWhile test evs s).2.1 := by
  induction evs generalizing s with
  | nil =>
    unfold waitWhile
    have h1 := hT s h
    cases hr : test s with
    | mk r s' => rw [hr] at h1; cases r <;> exact h1
  | cons ev rest ih =>
    unfold waitWhile
    have h1 := hT s h
    cases hr : test s with
    | mk r s' =>
      rw [hr] at h1
      cases r with
      | some st => exact h1
      | none => exact ih _ (hE s' ev h1)

theorem waitAllTest_table (s : JobList) : (waitAllTest s).2 = (waitAll s).2 := by
  unfold waitAllTest
  cases waitAll s with
  | mk b s' => cases b <;> rfl

theorem waitAll_ind (P : JobList → Prop) (hP : ∀ s i, P s → P (jobStatus s i).2)
    (s : JobList) (h : P s) : P (waitAll s).2 := by
  unfold waitAll
  cases lastOccupied s.entries with
  | none => exact h
  | some m => exact waitAllLoop_ind P hP _ s h

theorem waitSeqEv_ind (P : JobList → Prop) (hP : ∀ s i, P s → P (jobStatus s i).2)
    (hE : ∀ s ev, P s → P (applyEvent s ev))
    (l : List (Option Nat)) (evs : List Ev) (s : JobList) (last : Nat) (h : P s) :
    P (waitSeqEv l evs s last).2 := by
  induction l generalizing s last evs with
  | nil => exact h
  | cons o rest ih =>
    cases o with
    | none => unfold waitSeqEv; exact ih _ _ _ h
    | some i =>
      unfold waitSeqEv
      have h1 := waitWhile_ind P (fun t => jobStatus t i) (fun t ht => hP t i ht) hE evs s h
      cases hr : waitWhile (fun t => jobStatus t i) evs s with
      | mk r rest2 =>
        obtain ⟨s', evs'⟩ := rest2
        rw [hr] at h1
        cases r with
        | some st => exact ih _ _ _ h1
        | none => exact h1

theorem waitBuiltinEv_ind (P : JobList → Prop) (hP : ∀ s i, P s → P (jobStatus s i).2)
    (hE : ∀ s ev, P s → P (applyEvent s ev))
    (s : JobList) (evs : List Ev) (args : List Str) (h : P s) : P (waitBuiltinEv s evs args).2 := by
  unfold waitBuiltinEv
  cases parseArgs [] args with
  | none => exact h
  | some r =>
    obtain ⟨opts, operands⟩ := r
    simp only
    cases operands.mapM waitSpecOf with
    | none => exact h
    | some specs =>
      simp only
      split
      · exact h
      · split
        · have h1 := waitWhile_ind P waitAllTest
            (fun t ht => by rw [waitAllTest_table]; exact waitAll_ind P hP t ht) hE evs s h
          cases hr : waitWhile waitAllTest evs s with
          | mk r rest2 =>
            obtain ⟨s', evs'⟩ := rest2
            rw [hr] at h1
            cases r <;> exact h1
        · have h1 := waitSeqEv_ind P hP hE (resolveAll s specs).1 evs s 0 h
          cases hr : waitSeqEv (resolveAll s specs).1 evs s 0 with
          | mk r s' => rw [hr] at h1; cases r <;> exact h1

theorem waitBuiltinEv_inv (s : JobList) (evs : List Ev) (args : List Str) (h : Inv s) :
    Inv (waitBuiltinEv s evs args).2 :=
  waitBuiltinEv_ind Inv jobStatus_inv applyEvent_inv s evs args h

theorem waitBuiltinEv_sub (s : JobList) (evs : List Ev) (args : List Str) : Sub s (waitBuiltinEv s evs args).2 :=
  waitBuiltinEv_ind (Sub s) (fun s' i h => h.trans (jobStatus_sub s' i))
    (fun s' ev h => h.trans (applyEvent_sub s' ev)) s evs args (Sub.refl s)

theorem waitBuiltinEv_lastAsync (s : JobList) (evs : List Ev) (args : List Str) :
    (waitBuiltinEv s evs args).2.lastAsync = s.lastAsync :=
  waitBuiltinEv_ind (fun t => t.lastAsync = s.lastAsync)
    (fun s' i h => by rw [jobStatus_lastAsync]; exact h)
    (fun s' ev h => by rw [applyEvent_lastAsync]; exact h) s evs args rfl

end YashModel.Job
