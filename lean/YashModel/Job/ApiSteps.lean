/-
  Wave 3 — helper lemmas for the rest of the public mutating surface of `JobList`:
  `extract_if(..).take(n)` (`extractLoopN`), `get_mut(i).state_reported()`, the deprecated `add` and
  `add_job_if_suspended`, and the slot-wise effect of `remove_if` / `extract_if`.
-/
import YashModel.Job.Steps
import YashModel.Job.BuiltinSteps
namespace YashModel.Job

theorem extractLoopN_inv (pred : Nat → Job → Bool) (report : Bool) (fuel n idx len : Nat) (s : JobList)
    (acc : List Nat) (h : Inv s) : Inv (extractLoopN pred report fuel n idx len s acc).2 := by
  induction fuel generalizing n idx len s acc with
  | zero => unfold extractLoopN; exact h
  | succ fuel ih =>
    cases n with
    | zero => unfold extractLoopN; exact h
    | succ n =>
    cases len with
    | zero => unfold extractLoopN; exact h
    | succ len =>
      unfold extractLoopN
      cases hg : gets s.entries idx with
      | none => simp only; exact ih _ _ _ _ _ h
      | some j =>
        simp only
        have h1 : Inv (if report then { s with entries := s.entries.set idx (some { j with changed := false }) } else s) := by
          cases report with
          | false => exact h
          | true => exact setSlot_inv s idx j _ hg ⟨rfl, rfl⟩ h
        split
        · exact ih _ _ _ _ _ (remove_inv _ _ h1)
        · exact ih _ _ _ _ _ h1

theorem report_sub (s : JobList) (idx : Nat) (j : Job) (report : Bool) (hg : gets s.entries idx = some j) :
    Sub s (if report then { s with entries := s.entries.set idx (some { j with changed := false }) } else s) := by
  cases report with
  | false => exact Sub.refl s
  | true =>
    intro k
    simp only [if_true]
    rw [gets_set _ _ _ _ (gets_some_lt hg)]
    by_cases hk : k = idx
    · subst hk; exact Or.inr ⟨j, { j with changed := false }, hg, by simp, rfl⟩
    · simp only [hk, if_false]
      cases hh : gets s.entries k with
      | none => exact Or.inl rfl
      | some j2 => exact Or.inr ⟨j2, j2, rfl, rfl, rfl⟩

theorem extractLoopN_sub (pred : Nat → Job → Bool) (report : Bool) (fuel n idx len : Nat) (s : JobList)
    (acc : List Nat) : Sub s (extractLoopN pred report fuel n idx len s acc).2 := by
  induction fuel generalizing n idx len s acc with
  | zero => unfold extractLoopN; exact Sub.refl s
  | succ fuel ih =>
    cases n with
    | zero => unfold extractLoopN; exact Sub.refl s
    | succ n =>
    cases len with
    | zero => unfold extractLoopN; exact Sub.refl s
    | succ len =>
      unfold extractLoopN
      cases hg : gets s.entries idx with
      | none => simp only; exact ih _ _ _ _ _
      | some j =>
        simp only
        have h1 := report_sub s idx j report hg
        split
        · exact (h1.trans (remove_sub _ _)).trans (ih _ _ _ _ _)
        · exact h1.trans (ih _ _ _ _ _)

theorem extractLoopN_lastAsync (pred : Nat → Job → Bool) (report : Bool) (fuel n idx len : Nat) (s : JobList)
    (acc : List Nat) : (extractLoopN pred report fuel n idx len s acc).2.lastAsync = s.lastAsync := by
  induction fuel generalizing n idx len s acc with
  | zero => unfold extractLoopN; rfl
  | succ fuel ih =>
    cases n with
    | zero => unfold extractLoopN; rfl
    | succ n =>
    cases len with
    | zero => unfold extractLoopN; rfl
    | succ len =>
      unfold extractLoopN
      cases hg : gets s.entries idx with
      | none => simp only; exact ih _ _ _ _ _
      | some j =>
        simp only
        split
        · rw [ih, remove_lastAsync]; cases report <;> rfl
        · rw [ih]; cases report <;> rfl

/-- with at least as many `next` calls as there are jobs, `take` does not cut the drain short -/
theorem extractLoopN_eq (pred : Nat → Job → Bool) (report : Bool) (fuel n idx len : Nat) (s : JobList)
    (acc : List Nat) (hn : len ≤ n) :
    extractLoopN pred report fuel n idx len s acc = extractLoop pred report fuel idx len s acc := by
  induction fuel generalizing n idx len s acc with
  | zero => unfold extractLoopN extractLoop; rfl
  | succ fuel ih =>
    cases len with
    | zero => cases n <;> (unfold extractLoopN extractLoop; rfl)
    | succ len =>
      cases n with
      | zero => omega
      | succ n =>
        unfold extractLoopN extractLoop
        cases hg : gets s.entries idx with
        | none => simp only; exact ih _ _ _ _ _ hn
        | some j =>
          simp only
          split
          · exact ih _ _ _ _ _ (by omega)
          · exact ih _ _ _ _ _ (by omega)

theorem reportOne_inv (s : JobList) (i : Nat) (h : Inv s) : Inv (s.reportOne i) := by
  unfold JobList.reportOne
  cases hg : gets s.entries i with
  | none => exact h
  | some j => exact setSlot_inv s i j _ hg ⟨rfl, rfl⟩ h

theorem reportOne_sub (s : JobList) (i : Nat) : Sub s (s.reportOne i) := by
  unfold JobList.reportOne
  cases hg : gets s.entries i with
  | none => exact Sub.refl s
  | some j => exact report_sub s i j true hg

theorem reportOne_lastAsync (s : JobList) (i : Nat) : (s.reportOne i).lastAsync = s.lastAsync := by
  unfold JobList.reportOne; cases gets s.entries i <;> rfl

/-- the table `add_job_if_suspended` leaves is the table `handle_job_status` leaves (the two differ only in
    the interruption they return) -/
theorem addJobIfSuspended_table (s : JobList) (pid : Nat) (r : PState) (i : Bool) (name : Str) :
    (addJobIfSuspended s pid r i name).2 = (handleJobStatus s pid r i name).2 := by
  unfold addJobIfSuspended handleJobStatus
  split <;> rfl

end YashModel.Job
