/-
  Impl model of the code that works on the job table *above* the `JobList` API:

  * `yash-env/src/job/id.rs`      `parse_tail`, `parse`                      (`parseTail`, `parseJobId`)
  * `yash-env/src/job/fmt.rs`     `Marker`, `State`, `Report`, `Accumulator` (`markerOf`, `stateText`, `Report.render`, `accLine`)
  * `yash-builtin/src/jobs.rs`    `main`                                     (`jobsBuiltin`)
  * `yash-builtin/src/bg.rs`      `resume_job_by_index`, `resume_job_by_id`, `main`  (`bgResume`, `bgBuiltin`)
  * `yash-builtin/src/fg.rs`      `resume_job_by_index`, `main`              (`fgResume`, `fgBuiltin`)
  * `yash-builtin/src/wait/{syntax,search,status}.rs` + `wait.rs`            (`waitSpecOf`, `waitResolve`, `jobStatus`, `waitBuiltin`)
  * `yash-semantics/src/command/item.rs` `execute_async`                     (`ampersand`)

  Import-free (apart from `Model`) and executable.  Text is `List Char`; exit statuses are `Nat`
  (`ExitStatus::from(signal) = signal + 0x180`).  Error *classes* are short strings.

  What the environment contributes is a parameter of the operation, not hidden state: the `monitor`
  option for `bg`/`fg`, `monitor`/`interactive` and the child's pid for `cmd &`, and for `fg` the
  state in which the resumed process halts next (`outcome`).
-/
import YashModel.Job.Model
import YashModel.Generated.JobTables
namespace YashModel.Job

abbrev Str := List Char

/-! ### `job/id.rs` : parsing -/

def isDigitC (c : Char) : Bool := '0' ≤ c && c ≤ '9'

def digitsVal (ds : Str) : Nat := ds.foldl (fun a c => a * 10 + (c.toNat - 48)) 0

/-- the digits after an optional `+` sign (`str::parse` of an integer accepts it) -/
def stripPlus (t : Str) : Str := match t with | '+' :: r => r | _ => t

/-- `str::parse::<NonZeroUsize>()` on a 64-bit target: optional `+`, one or more ASCII digits,
    value in `1 ..= 2^64-1` -/
def parseNonZeroUsize (t : Str) : Option Nat :=
  let ds := stripPlus t
  if ds.isEmpty || !ds.all isDigitC then none
  else if digitsVal ds = 0 ∨ 18446744073709551615 < digitsVal ds then none
  else some (digitsVal ds)

/-- `parse_tail` -/
def parseTail (t : Str) : JobId :=
  if t = [] ∨ t = ['%'] ∨ t = ['+'] then .current
  else if t = ['-'] then .previous
  else match t with
    | '?' :: r => .substring r
    -- `str::parse` would accept a leading `+`, but `%+1` is not a job number
    | '+' :: _ => .prefix_ t
    | _ => match parseNonZeroUsize t with
      | some n => .number n
      | none => .prefix_ t

/-- `parse` : `Err(ParseError)` is `none` -/
def parseJobId (s : Str) : Option JobId :=
  match s with
  | '%' :: t => some (parseTail t)
  | _ => none

/-! ### `job/fmt.rs` -/

def natStr (n : Nat) : Str := (toString n).toList

def padRight (w : Nat) (s : Str) : Str := s ++ List.replicate (w - s.length) ' '
def padLeft (w : Nat) (s : Str) : Str := List.replicate (w - s.length) ' ' ++ s

/-- `Signals::sig2str` (the provided method of yash-env/src/system/signal.rs) for `VirtualSystem`: the
    ordered arms are `Generated.JobTables.sig2strTable` (re-extracted from /repo on every run by
    tools/tables/job.py, first match wins); the real-time arm: `RTMIN`, `RTMAX`, `RTMIN+k` up to
    the midpoint of the range, `RTMAX-k` above it; `???` for the rest (`unwrap_or("???")` in
    `State::from_process_state`) -/
def sigName (n : Nat) : Str :=
  match Generated.JobTables.sig2strTable.find? (·.1 = n) with
  | some (_, s) => s.toList
  | none =>
    let rtmin := Generated.JobTables.SIGRTMIN
    let rtmax := Generated.JobTables.SIGRTMAX
    if n = rtmin then "RTMIN".toList
    else if n = rtmax then "RTMAX".toList
    else if rtmin < n ∧ n < rtmax then
      (if n ≤ (rtmin + rtmax) / 2 then "RTMIN+".toList ++ natStr (n - rtmin) else "RTMAX-".toList ++ natStr (rtmax - n))
    else "???".toList

/-- `impl Display for State` after `State::from_process_state` -/
def stateText : PState → Str
  | .running => "Running".toList
  | .exited n => if n = 0 then "Done".toList else "Done(".toList ++ natStr n ++ [')']
  | .stopped sg => "Stopped(SIG".toList ++ sigName sg ++ [')']
  | .signaled sg core =>
    if core then "Killed(SIG".toList ++ sigName sg ++ ": core dumped)".toList
    else "Killed(SIG".toList ++ sigName sg ++ [')']

inductive Marker | none | current | previous
  deriving DecidableEq, Repr

/-- `Marker::as_char` -/
def Marker.char : Marker → Char
  | .none => ' '
  | .current => '+'
  | .previous => '-'

structure Report where
  number : Nat
  marker : Marker
  pid : Option Nat
  state : PState
  name : Str
  deriving Repr

/-- `impl Display for Report` : `[{}] {} `, optional `{pid:5} `, `{:20} {}` -/
def Report.render (r : Report) : Str :=
  ['['] ++ natStr r.number ++ [']', ' ', r.marker.char, ' '] ++
  (match r.pid with | some p => padLeft 5 (natStr p) ++ [' '] | none => []) ++
  padRight 20 (stateText r.state) ++ [' '] ++ r.name

/-- the marker chosen in `Accumulator::add` -/
def markerOf (cur prev : Option Nat) (index : Nat) : Marker :=
  if cur = some index then .current else if prev = some index then .previous else .none

/-- the `Report` built in `Accumulator::add` -/
def reportOf (cur prev : Option Nat) (showPid : Bool) (index : Nat) (job : Job) : Report :=
  { number := index + 1, marker := markerOf cur prev index,
    pid := if showPid then some job.pid else none, state := job.state, name := job.name }

/-- the text `Accumulator::add` appends for one job -/
def accLine (cur prev : Option Nat) (showPid pgidOnly : Bool) (index : Nat) (job : Job) : Str :=
  if pgidOnly then natStr job.pid ++ ['\n']
  else (reportOf cur prev showPid index job).render ++ ['\n']

/-! ### result of a built-in -/

structure Out where
  status : Nat
  stdout : Str := []
  /-- error classes, in the order the messages are printed -/
  errs : List String := []
  /-- `Break(Divert::Interrupt(Some(status)))` -/
  divert : Option Nat := none
  deriving Repr

/-- `ExitStatus::from(ProcessResult)` -/
def PState.exitStatus : PState → Nat
  | .running => 0
  | .exited n => n
  | .stopped sg => sg + 384
  | .signaled sg _ => sg + 384

def findErrClass : FindErr → String
  | .notFound => "nf"
  | .ambiguous => "amb"

/-! ### `common/syntax.rs` `parse_arguments`, restricted to what the four built-ins use here -/

/-- `parse_arguments` for option specs that are short letters without arguments.  Long options
    (`--name`) are outside this model: the drivers never send them.  Returns the option letters
    in order and the operands; `none` = `ParseError::UnknownShortOption`. -/
def parseArgs (allowed : List Char) : List Str → Option (List Char × List Str)
  | [] => some ([], [])
  | a :: rest =>
    match a with
    | '-' :: c :: cs =>
      if c = '-' then
        -- `--` ends the options (`arguments.next_if(|a| a.value == "--")`); `--x…` is not modelled
        some ([], rest)
      else if (c :: cs).all allowed.contains then
        (parseArgs allowed rest).map (fun r => ((c :: cs) ++ r.1, r.2))
      else none
    | _ => some ([], a :: rest)

/-! ### `jobs` -/

/-- the job ID an operand of `jobs` stands for: `parse(..).unwrap_or_else(|_| parse_tail(..))` -/
def jobsOperandId (op : Str) : JobId := (parseJobId op).getD (parseTail op)

/-- the operand loop of `jobs::main` up to the first error (nothing is printed on error) -/
def resolveOperands (s : JobList) : List Str → Except FindErr (List Nat)
  | [] => .ok []
  | op :: rest =>
    match (jobsOperandId op).find s with
    | .error e => .error e
    | .ok i =>
      match resolveOperands s rest with
      | .error e => .error e
      | .ok is => .ok (i :: is)

/-- `accumulator.indices_reported` -/
def jobsTargets (s : JobList) (operands : List Str) : Except FindErr (List Nat) :=
  if operands.isEmpty then .ok (matchingIdx s.entries (fun _ => true) 0) else resolveOperands s operands

/-- `accumulator.print` -/
def jobsPrint (s : JobList) (showPid pgidOnly : Bool) (idxs : List Nat) : Str :=
  idxs.flatMap fun i =>
    match gets s.entries i with
    | some job => accLine s.currentJob s.previousJob showPid pgidOnly i job
    | none => []

/-- one round of the final loop of `jobs::main` -/
def jobsFinish1 (s : JobList) (index : Nat) : JobList :=
  match gets s.entries index with
  | none => s
  | some job =>
    if job.state.isAlive then { s with entries := s.entries.set index (some { job with changed := false }) }
    else (s.remove index).2

/-- "Remove finished jobs and mark reported jobs as reported" -/
def jobsFinish (s : JobList) (idxs : List Nat) : JobList := idxs.foldl jobsFinish1 s

/-- `jobs::main` (standard output is writable) -/
def jobsBuiltin (s : JobList) (args : List Str) : Out × JobList :=
  match parseArgs ['l', 'p'] args with
  | none => ({ status := 2, errs := ["unkopt"] }, s)
  | some (opts, operands) =>
    if opts.contains 'l' && opts.contains 'p' then ({ status := 2, errs := ["conflict"] }, s)
    else
      match jobsTargets s operands with
      | .error e => ({ status := 1, errs := [findErrClass e] }, s)
      | .ok idxs =>
        ({ status := 0, stdout := jobsPrint s (opts.contains 'l') (opts.contains 'p') idxs },
         jobsFinish s idxs)

/-! ### `bg` -/

/-- `set_current_job(index).ok()` -/
def JobList.setCurrentOk (s : JobList) (i : Nat) : JobList :=
  match s.setCurrentJob i with | .ok s' => s' | .error _ => s

/-- `bg::resume_job_by_index` for an occupied `index` (`kill` succeeds: the process group of an
    alive job exists).  Returns the line written or the error class. -/
def bgResume (s : JobList) (index : Nat) : Except String Str × JobList :=
  match gets s.entries index with
  | none => (.error "panic", s)
  | some job =>
    if !job.owned then (.error "unowned", s)
    else if !job.jc then (.error "unmon", s)
    else
      let line := ['['] ++ natStr (index + 1) ++ [']', ' '] ++ job.name ++ ['\n']
      let s1 := if job.state.isAlive then s.expect index (some .running) else s
      let s2 := s1.setLastAsync job.pid
      (.ok line, s2.setCurrentOk index)

/-- `bg::resume_job_by_id` -/
def bgResumeId (s : JobList) (op : Str) : Except String Str × JobList :=
  match parseJobId op with
  | none => (.error "badid", s)
  | some id =>
    match id.find s with
    | .error e => (.error (findErrClass e), s)
    | .ok index => bgResume s index

/-- the operand loop of `bg::main` -/
def bgLoop : List Str → JobList → Str → List String → (Str × List String) × JobList
  | [], s, out, errs => ((out, errs), s)
  | op :: rest, s, out, errs =>
    match bgResumeId s op with
    | (.ok line, s') => bgLoop rest s' (out ++ line) errs
    | (.error e, s') => bgLoop rest s' out (errs ++ [e])

/-- `bg::main` -/
def bgBuiltin (s : JobList) (monitor : Bool) (args : List Str) : Out × JobList :=
  match parseArgs [] args with
  | none => ({ status := 2, errs := ["unkopt"] }, s)
  | some (_, operands) =>
    if !monitor then ({ status := 1, errs := ["nomon"] }, s)
    else if operands.isEmpty then
      match s.currentJob with
      | none => ({ status := 1, errs := ["nojob"] }, s)
      | some index =>
        match bgResume s index with
        | (.ok line, s') => ({ status := 0, stdout := line }, s')
        | (.error e, s') => ({ status := 1, errs := [e] }, s')
    else
      let r := bgLoop operands s [] []
      ({ status := if r.1.2.isEmpty then 0 else 1, stdout := r.1.1, errs := r.1.2 }, r.2)

/-! ### `fg` -/

/-- `fg::resume_job_by_index` for an occupied `index`, no terminal.  `outcome` is the halted
    state the resumed process reaches next (`wait_for_subshell_to_halt`): if the job was stopped
    `wait` first reports `Running` (the effect of `SIGCONT`), then `outcome`; both reach
    `update_status`.  Returns the line written and the `ProcessResult`, or the error class. -/
def fgResume (s : JobList) (index : Nat) (outcome : PState) : Except String (Str × PState) × JobList :=
  match gets s.entries index with
  | none => (.error "panic", s)
  | some job =>
    if !job.owned then (.error "unowned", s)
    else if !job.jc then (.error "unmon", s)
    else
      let line := job.name ++ ['\n']
      if job.state.isAlive then
        let s1 := if job.state.isStopped then (s.updateStatus job.pid .running).2 else s
        let s2 := (s1.updateStatus job.pid outcome).2
        let s3 := if outcome.isStopped then s2 else (s2.remove index).2
        (.ok (line, outcome), s3)
      else
        (.ok (line, job.state), (s.remove index).2)

/-- `fg::should_interrupt` (no `SIGINT` trap is set: `sigint_has_default_action()`) -/
def shouldInterrupt (inter : Bool) (result : PState) : Bool :=
  inter && (result.isStopped || (match result with | .signaled sg _ => sg == 2 | _ => false))

/-- `fg::main`; `inter` = the shell is interactive; the exit status on entry is 0 -/
def fgBuiltin (s : JobList) (monitor inter : Bool) (outcome : PState) (args : List Str) : Out × JobList :=
  match parseArgs [] args with
  | none => ({ status := 2, errs := ["unkopt"] }, s)
  | some (_, operands) =>
    if !monitor then ({ status := 1, errs := ["nomon"] }, s)
    else
      let target : Except String Nat :=
        match operands with
        | [] => (match s.currentJob with | some i => .ok i | none => .error "nojob")
        | [op] =>
          (match parseJobId op with
           | none => .error "badid"
           | some id => match id.find s with | .ok i => .ok i | .error e => .error (findErrClass e))
        | _ => .error "many"
      match target with
      | .error e => ({ status := 1, errs := [e] }, s)
      | .ok index =>
        match fgResume s index outcome with
        | (.ok (line, result), s') =>
          (if shouldInterrupt inter result then { status := 0, stdout := line, divert := some result.exitStatus }
           else { status := result.exitStatus, stdout := line }, s')
        | (.error e, s') => ({ status := 1, errs := [e] }, s')

/-! ### `wait` -/

inductive WaitSpec where
  | pid (p : Nat)
  | jobId (op : Str)
  deriving Repr

/-- `str::parse::<i32>()` : optional sign, one or more digits, in range; the result is
    `(negative, magnitude)` -/
def parseI32 (t : Str) : Option (Bool × Nat) :=
  let neg := match t with | '-' :: _ => true | _ => false
  let ds := match t with | '+' :: r => r | '-' :: r => r | _ => t
  if ds.isEmpty || !ds.all isDigitC then none
  else if neg then (if digitsVal ds ≤ 2147483648 then some (digitsVal ds ≠ 0, digitsVal ds) else none)
  else if digitsVal ds ≤ 2147483647 then some (false, digitsVal ds) else none

/-- `impl TryFrom<Field> for JobSpec` -/
def waitSpecOf (op : Str) : Option WaitSpec :=
  match op with
  | '%' :: _ => some (.jobId op)
  | _ =>
    match parseI32 op with
    | some (false, n) => some (.pid n)
    | _ => none

/-- `wait::search::resolve` : `Ok(Some i)`, `Ok(None)`, `Err(AmbiguousJobId)` -/
def waitResolve (s : JobList) : WaitSpec → Except Unit (Option Nat)
  | .pid p => .ok (lookup s.pids p)
  | .jobId op =>
    match parseJobId op with
    | none => .ok none          -- `panic!` in the code; `waitSpecOf` never produces it
    | some id =>
      match id.find s with
      | .ok i => .ok (some i)
      | .error .notFound => .ok none
      | .error .ambiguous => .error ()

/-- the closure of `wait::status::job_status(index, Off)`; `some st` is `Break(st)`, `none` is
    `Continue` -/
def jobStatus (s : JobList) (index : Nat) : Option Nat × JobList :=
  match gets s.entries index with
  | none => (some 127, s)
  | some job =>
    if !job.owned then (some 127, (s.remove index).2)
    else if job.state.isAlive then (none, s)
    else (some job.state.exitStatus, (s.remove index).2)

/-- `Command::await_jobs` over the resolved operands, in an environment without child processes:
    waiting for a job that is alive ends with `Error::NothingToWait` (`none`). -/
def waitSeq : List (Option Nat) → JobList → Nat → Option Nat × JobList
  | [], s, last => (some last, s)
  | none :: rest, s, _ => waitSeq rest s 127
  | some i :: rest, s, _ =>
    match jobStatus s i with
    | (some st, s') => waitSeq rest s' st
    | (none, s') => (none, s')

/-- `any_job_is_running(Off)` : `(0..=max_index).all(|i| job_status(i)(jobs).is_break())` -/
def waitAllLoop : List Nat → JobList → Bool × JobList
  | [], s => (true, s)
  | i :: rest, s =>
    match jobStatus s i with
    | (some _, s') => waitAllLoop rest s'
    | (none, s') => (false, s')

/-- index of the last occupied slot (`jobs.iter().next_back()`) -/
def lastOccupied (es : Slab) : Option Nat := (matchingIdx es (fun _ => true) 0).getLast?

def waitAll (s : JobList) : Bool × JobList :=
  match lastOccupied s.entries with
  | none => (true, s)
  | some m => waitAllLoop (List.range (m + 1)) s

def resolveAll (s : JobList) : List WaitSpec → List (Option Nat) × Nat
  | [] => ([], 0)
  | sp :: rest =>
    let r := resolveAll s rest
    match waitResolve s sp with
    | .ok i => (i :: r.1, r.2)
    | .error _ => (r.1, r.2 + 1)

/-- `wait::main` -/
def waitBuiltin (s : JobList) (args : List Str) : Out × JobList :=
  match parseArgs [] args with
  | none => ({ status := 2, errs := ["unkopt"] }, s)
  | some (_, operands) =>
    match operands.mapM waitSpecOf with
    | none => ({ status := 2, errs := ["badspec"] }, s)
    | some specs =>
      let r := resolveAll s specs
      if r.2 ≠ 0 then ({ status := 2, errs := List.replicate r.2 "amb" }, s)
      else if r.1.isEmpty then
        match waitAll s with
        | (true, s') => ({ status := 0 }, s')
        | (false, s') => ({ status := 1, errs := ["nowait"] }, s')
      else
        match waitSeq r.1 s 0 with
        | (some st, s') => ({ status := st }, s')
        | (none, s') => ({ status := 1, errs := ["nowait"] }, s')

/-! ### `cmd &` (`item.rs` `execute_async`) -/

/-- the job `execute_async` inserts for the child `pid` of `name &` -/
def asyncJob (pid : Nat) (monitor : Bool) (name : Str) : Job :=
  { pid := pid, state := .running, changed := false, name := name, jc := monitor }

/-- `execute_async` after the subshell started with process ID `pid` -/
def ampersand (s : JobList) (pid : Nat) (monitor interactive : Bool) (name : Str) : Out × JobList :=
  let r := s.insert (asyncJob pid monitor name)
  let s' := r.2.setLastAsync pid
  ({ status := 0,
     errs := if interactive then ["async:" ++ toString (r.1 + 1) ++ ":" ++ toString pid] else [] }, s')

/-- the `Err(errno)` branch of `execute_async`: the subshell cannot be started; nothing is inserted,
    the result is `Break(Divert::Interrupt(Some(ExitStatus::NOEXEC)))` -/
def ampersandFail (s : JobList) : Out × JobList :=
  ({ status := 0, errs := ["nofork"], divert := some 126 }, s)

/-! ### `handle_job_status` (`job.rs`): a foreground job that was suspended becomes a job -/

/-- `handle_job_status(env, pid, result, || name)`; `result` is a `ProcessResult` (never `running`).
    Returns `(interrupted, exit status)`: `Break(Divert::Interrupt(Some st))` or `Continue(st)`.
    No `SIGINT` trap is set (`sigint_has_default_action()`). -/
def handleJobStatus (s : JobList) (pid : Nat) (result : PState) (inter : Bool) (name : Str) :
    (Bool × Nat) × JobList :=
  if result.isStopped then
    ((inter, result.exitStatus), (s.insert { pid := pid, state := result, jc := true, name := name }).2)
  else
    ((inter && (match result with | .signaled sg _ => sg == 2 | _ => false), result.exitStatus), s)

/-- `add_job_if_suspended(env, pid, result, || name)` (deprecated since 0.15.0, still exported and
    re-exported by yash-semantics): the same insertion as `handle_job_status`, without the
    interactive-SIGINT interruption. -/
def addJobIfSuspended (s : JobList) (pid : Nat) (result : PState) (inter : Bool) (name : Str) :
    (Bool × Nat) × JobList :=
  if result.isStopped then
    ((inter, result.exitStatus), (s.insert { pid := pid, state := result, jc := true, name := name }).2)
  else
    ((false, result.exitStatus), s)

/-! ### `jobs` when standard output cannot be written -/

/-- `jobs::main` with standard output closed: everything up to `output(env, &accumulator.print)` is
    the same; writing a non-empty report fails, the failure is reported (exit status 1) and the
    final loop is skipped ("only if there was no error") -/
def jobsClosed (s : JobList) (args : List Str) : Out × JobList :=
  if (jobsBuiltin s args).1.status = 0 ∧ (jobsBuiltin s args).1.stdout ≠ [] then
    ({ status := 1, errs := ["stdout"] }, s)
  else jobsBuiltin s args

/-! ### `iter_mut().next_back()` -/

/-- `state_reported()` on the job `iter_mut().next_back()` yields -/
def JobList.reportLast (s : JobList) : JobList :=
  match lastOccupied s.entries with
  | none => s
  | some i =>
    match gets s.entries i with
    | none => s
    | some j => { s with entries := s.entries.set i (some { j with changed := false }) }

/-! ### extension round: status changes reported by the system, the prompt report, `kill %job`, `$!` -/

/-- a state change `(pid, new state)` that `System::wait` reports -/
abbrev Ev := Nat × PState

/-- What the operating system contributes (played by the harness): a child process changes its state
    only while it is alive, and to a state different from the one it is in; a process exists for every
    job of the table that is alive, in the recorded state.  `eventApplies s ev`: the event is one the
    system can deliver for the table `s`. -/
def eventApplies (s : JobList) (ev : Ev) : Bool :=
  match (lookup s.pids ev.1).bind (gets s.entries) with
  | some j => j.state.isAlive && decide (j.state ≠ ev.2)
  | none => false

/-- `self.jobs.update_status(pid, state)` for a delivered event -/
def applyEvent (s : JobList) (ev : Ev) : JobList :=
  if eventApplies s ev then (s.updateStatus ev.1 ev.2).2 else s

/-- `Env::update_all_subshell_statuses` (yash-env/src/lib.rs):
    `while let Ok(Some((pid, state))) = self.system.wait(Pid::ALL) { self.jobs.update_status(pid, state); }`;
    `evs` = the changes the system has pending, in the order `wait` hands them out -/
def updateAll (s : JobList) (evs : List Ev) : JobList := evs.foldl applyEvent s

/-- `state_reported()` on `get_mut(index).unwrap()` -/
def JobList.markReported (s : JobList) (i : Nat) : JobList :=
  match gets s.entries i with
  | none => s      -- `unwrap` would panic; the indices come from `iter()`
  | some j => { s with entries := s.entries.set i (some { j with changed := false }) }

/-- `input::reporter::report` (yash-env/src/input/reporter.rs), run by `Reporter::next_line` before an
    interactive shell reads a line: nothing unless `interactive` and `monitor` are on; otherwise the
    jobs with `state_changed` go through `Accumulator::add` (default format, markers of the current
    table), the text is written to standard error and, the write having succeeded, every reported
    job gets `state_reported()`.  Nothing is removed. -/
def promptReport (s : JobList) (monitor inter : Bool) : Str × JobList :=
  if !inter || !monitor then ([], s)
  else
    let idxs := matchingIdx s.entries (·.changed) 0
    (jobsPrint s false false idxs, idxs.foldl JobList.markReported s)

/-- `input::reporter::report` when standard error cannot be written (closed): `write_all` of a non-empty report
    fails, so the `state_reported()` loop is skipped — every job keeps its `state_changed` flag and is reported
    at the next prompt; an empty report (`write_all` of no bytes succeeds) means no job had the flag (every line of
    `Accumulator::add` starts with `[`), so there is no job to mark.  Either way, as with the options off, nothing is
    printed and the table is untouched. -/
def promptReportClosed (s : JobList) (_monitor _inter : Bool) : Str × JobList := ([], s)

/-- entering a subshell (`subshell/config.rs`, the child task): the child works on a COPY of the environment in
    which `env.jobs.disown_all()` has run — the job list is kept, no job is owned, `$!` is inherited -/
def subshellJobs (s : JobList) : JobList := s.disownAll

/-- `( jobs ARG… )`: the built-in in the subshell's copy; the parent's table is not touched
    (docs/src/builtins/jobs.md: "the built-in reports not only jobs that were started in the subshell but also jobs
    that were started in the parent shell") -/
def subJobs (s : JobList) (args : List Str) : Out := (jobsBuiltin (subshellJobs s) args).1

/-- `( wait ARG… )` (docs/src/builtins/wait.md: "Subshells cannot wait for jobs in the parent shell environment") -/
def subWait (s : JobList) (args : List Str) : Out := (waitBuiltin (subshellJobs s) args).1

/-- `wait::status::wait_while_running` over `wait::core::wait_for_any_job_or_trap` (no signal other
    than `SIGCHLD` arrives): test; on `Continue` take the next state change the system reports and
    pass it to `update_status`; when no child is left to report anything `wait` fails with `ECHILD`
    (`Error::NothingToWait`, result `none`).  Returns also the events not consumed. -/
def waitWhile (test : JobList → Option Nat × JobList) : List Ev → JobList → Option Nat × JobList × List Ev
  | [], s =>
    match test s with
    | (some st, s') => (some st, s', [])
    | (none, s') => (none, s', [])
  | ev :: rest, s =>
    match test s with
    | (some st, s') => (some st, s', ev :: rest)
    | (none, s') => waitWhile test rest (applyEvent s' ev)

/-- `any_job_is_running(Off)` as a test for `wait_while_running` -/
def waitAllTest (s : JobList) : Option Nat × JobList :=
  match waitAll s with
  | (true, s') => (some 0, s')
  | (false, s') => (none, s')

/-- `Command::await_jobs` over the resolved operands with the pending events threaded through -/
def waitSeqEv : List (Option Nat) → List Ev → JobList → Nat → Option Nat × JobList
  | [], _, s, last => (some last, s)
  | none :: rest, evs, s, _ => waitSeqEv rest evs s 127
  | some i :: rest, evs, s, _ =>
    match waitWhile (fun t => jobStatus t i) evs s with
    | (some st, s', evs') => waitSeqEv rest evs' s' st
    | (none, s', _) => (none, s')

/-- `wait::main` when the system reports the state changes `evs` (one per blocking `wait`), then has
    no child left.  `waitBuiltin` is the case `evs = []` (`waitBuiltinEv_nil`). -/
def waitBuiltinEv (s : JobList) (evs : List Ev) (args : List Str) : Out × JobList :=
  match parseArgs [] args with
  | none => ({ status := 2, errs := ["unkopt"] }, s)
  | some (_, operands) =>
    match operands.mapM waitSpecOf with
    | none => ({ status := 2, errs := ["badspec"] }, s)
    | some specs =>
      let r := resolveAll s specs
      if r.2 ≠ 0 then ({ status := 2, errs := List.replicate r.2 "amb" }, s)
      else if r.1.isEmpty then
        match waitWhile waitAllTest evs s with
        | (some st, s', _) => ({ status := st }, s')
        | (none, s', _) => ({ status := 1, errs := ["nowait"] }, s')
      else
        match waitSeqEv r.1 evs s 0 with
        | (some st, s') => ({ status := st }, s')
        | (none, s') => ({ status := 1, errs := ["nowait"] }, s')

/-- `kill::send::resolve_target` (yash-builtin/src/kill/send.rs): the argument of the `kill` system
    call for one operand of the `kill` built-in.  `%…` is a job ID (`parse_tail` + `find`): the
    NEGATED pid (the process group) of a job that is owned, job-controlled and alive.  Anything else
    is `str::parse::<i32>()`.  Result: `(negative, magnitude)` or the error class. -/
def killTarget (s : JobList) (target : Str) : Except String (Bool × Nat) :=
  match target with
  | '%' :: tail =>
    match (parseTail tail).find s with
    | .error e => .error (findErrClass e)
    | .ok index =>
      match gets s.entries index with
      | none => .error "panic"          -- `jobs[index]`; `find` only returns occupied slots
      | some job =>
        if !job.owned then .error "unowned"
        else if !job.jc then .error "unmon"
        else if !job.state.isAlive then .error "finished"
        else .ok (true, job.pid)
  | _ =>
    match parseI32 target with
    | some r => .ok r
    | none => .error "badpid"

/-- the expansion of `$!` (yash-semantics/src/expansion/initial/param/resolve.rs
    `non_zero_pid_or_unset(env.jobs.last_async_pid())`): unset while no asynchronous command has run -/
def bangValue (s : JobList) : Option Nat := if s.lastAsync ≠ 0 then some s.lastAsync else none

/-! ### Operations as data, for histories -/

inductive Op where
  | insert (pid : Nat) (st : PState)
  | update (pid : Nat) (st : PState)
  | setCurrent (i : Nat)
  | remove (i : Nat)
  | removeIfDone (report : Bool)      -- remove_if(|_, j| !j.state.is_alive()), optionally state_reported
  | removeIfChanged                   -- remove_if(|_, j| j.state_changed && !alive) after reporting (jobs built-in style)
  | report
  | expect (i : Nat) (st : Option PState)
  | disown
  | setAsync (pid : Nat)
  -- a job with a name and the `job_controlled` flag
  | insertJob (pid : Nat) (st : PState) (jc : Bool) (name : Str)
  -- the built-ins and the asynchronous command
  | jobs (args : List Str)
  | bg (monitor : Bool) (args : List Str)
  | fg (monitor inter : Bool) (outcome : PState) (args : List Str)
  | wait (args : List Str)
  | wres (arg : Str)
  | amp (pid : Nat) (monitor interactive : Bool) (name : Str)
  -- round 3
  | hjs (pid : Nat) (result : PState) (inter : Bool) (name : Str)
  | jobsClosed (args : List Str)
  | ampFail
  | reportLast
  -- extension round
  | sync (evs : List Ev)
  | prompt (monitor inter : Bool)
  | waitEv (evs : List Ev) (args : List Str)
  | kres (arg : Str)
  | bang
  -- wave 3: the rest of the public mutating surface of `JobList`
  | removeIf (p : RmPred) (report : Bool)                 -- the REAL `remove_if`
  | extractIf (p : RmPred) (report : Bool)                -- `extract_if`, drained
  | extractTake (n : Nat) (p : RmPred) (report : Bool)    -- `extract_if(..).take(n)`, then dropped
  | addJob (pid : Nat) (st : PState)                      -- deprecated `add`
  | reportOne (i : Nat)                                   -- `get_mut(i).state_reported()`
  | ajs (pid : Nat) (result : PState) (inter : Bool) (name : Str)   -- deprecated `add_job_if_suspended`
  | removeIfFirst (k : Nat) (p : RmPred) (report : Bool)  -- `remove_if` with a counting `FnMut` closure
  -- final pass
  | promptClosed (monitor inter : Bool)   -- the prompt report with standard error closed
  | subJobs (args : List Str)             -- `( jobs ARG… )` in a real subshell
  | subWait (args : List Str)             -- `( wait ARG… )` in a real subshell
  deriving Repr

def step (s : JobList) : Op → JobList
  | .insert pid st => (s.insert { pid := pid, state := st }).2
  | .update pid st => (s.updateStatus pid st).2
  | .setCurrent i => match s.setCurrentJob i with | .ok s' => s' | .error _ => s
  | .remove i => (s.remove i).2
  | .removeIfDone r => (s.removeIf (fun _ j => !j.state.isAlive) r).2
  | .removeIfChanged => (s.removeIf (fun _ j => j.changed && !j.state.isAlive) false).2
  | .report => s.reportAll
  | .expect i st => s.expect i st
  | .disown => s.disownAll
  | .setAsync pid => s.setLastAsync pid
  | .insertJob pid st jc name => (s.insert { pid := pid, state := st, jc := jc, name := name }).2
  | .jobs args => (jobsBuiltin s args).2
  | .bg m args => (bgBuiltin s m args).2
  | .fg m i out args => (fgBuiltin s m i out args).2
  | .wait args => (waitBuiltin s args).2
  | .wres _ => s
  | .amp pid m i name => (ampersand s pid m i name).2
  | .hjs pid r i name => (handleJobStatus s pid r i name).2
  | .jobsClosed args => (jobsClosed s args).2
  | .ampFail => s
  | .reportLast => s.reportLast
  | .sync evs => updateAll s evs
  | .prompt m i => (promptReport s m i).2
  | .waitEv evs args => (waitBuiltinEv s evs args).2
  | .kres _ => s
  | .bang => s
  | .removeIf p r => s.removeIfDrop p.eval r
  | .extractIf p r => (s.removeIf p.eval r).2
  | .extractTake n p r => (s.extractTake n p.eval r).2
  | .addJob pid st => (s.add { pid := pid, state := st }).2
  | .reportOne i => s.reportOne i
  | .ajs pid r i name => (addJobIfSuspended s pid r i name).2
  | .removeIfFirst k p r => (s.removeIfS (firstK p.eval) k r).2
  | .promptClosed m i => (promptReportClosed s m i).2
  | .subJobs _ => s
  | .subWait _ => s

def run (s : JobList) (ops : List Op) : JobList := ops.foldl step s

end YashModel.Job
