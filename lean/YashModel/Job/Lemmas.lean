/-
  Helper lemmas for the job-table invariant (C12).  Property theorems are in `Theorems.lean`.
-/
import YashModel.Job.Model
import YashModel.Job.Spec
namespace YashModel.Job

/-! ### slot lookup -/

theorem gets_set (es : Slab) (i k : Nat) (v : Option Job) (hi : i < es.length) :
    gets (es.set i v) k = if k = i then v else gets es k := by
  unfold gets
  simp only [List.getElem?_set]
  by_cases h : k = i
  · subst h; simp [hi]
  · have : ¬ i = k := fun e => h e.symm
    simp [h, this]

theorem gets_set_ge (es : Slab) (i k : Nat) (v : Option Job) (hi : es.length ≤ i) :
    gets (es.set i v) k = gets es k := by
  rw [List.set_eq_of_length_le hi]

theorem gets_some_lt {es : Slab} {i : Nat} {j : Job} (h : gets es i = some j) : i < es.length := by
  unfold gets at h
  cases hh : es[i]? with
  | none => simp [hh] at h
  | some o => exact (List.getElem?_eq_some_iff.mp hh).1

theorem gets_ge (es : Slab) (i : Nat) (h : es.length ≤ i) : gets es i = none := by
  unfold gets; simp [List.getElem?_eq_none h]

theorem gets_append_one (es : Slab) (v : Option Job) (k : Nat) :
    gets (es ++ [v]) k = if k = es.length then v else gets es k := by
  unfold gets
  by_cases h : k < es.length
  · have : k ≠ es.length := by omega
    simp [List.getElem?_append_left h, this]
  · by_cases h2 : k = es.length
    · subst h2; simp
    · have : es.length < k := by omega
      simp [h2, List.getElem?_eq_none (show (es ++ [v]).length ≤ k by simp; omega),
            List.getElem?_eq_none (show es.length ≤ k by omega)]

theorem gets_nil (k : Nat) : gets [] k = none := by simp [gets]

theorem gets_cons_zero (o : Option Job) (t : Slab) : gets (o :: t) 0 = o := by simp [gets]
theorem gets_cons_succ (o : Option Job) (t : Slab) (k : Nat) : gets (o :: t) (k+1) = gets t k := by
  simp [gets]

theorem gets_map (es : Slab) (f : Job → Job) (k : Nat) :
    gets (es.map (fun o => o.map f)) k = (gets es k).map f := by
  unfold gets
  simp only [List.getElem?_map]
  cases es[k]? with
  | none => rfl
  | some o => cases o <;> rfl

/-! ### pid map -/

theorem lookup_eraseK (m : PidMap) (p q : Nat) :
    lookup (eraseK m p) q = if q = p then none else lookup m q := by
  induction m with
  | nil => simp [eraseK, lookup]
  | cons h t ih =>
    obtain ⟨a, b⟩ := h
    by_cases hap : a = p
    · subst hap
      simp only [eraseK, if_true, ih, lookup]
      by_cases hq : q = a
      · simp [hq]
      · have : ¬ a = q := fun e => hq e.symm
        simp [hq, this]
    · simp only [eraseK, hap, if_false, lookup, ih]
      by_cases haq : a = q
      · subst haq; simp [hap]
      · simp [haq]

theorem lookup_insertKV (m : PidMap) (p i q : Nat) :
    lookup (insertKV m p i) q = if q = p then some i else lookup m q := by
  unfold insertKV
  simp only [lookup, lookup_eraseK]
  by_cases h : q = p
  · subst h; simp
  · have : ¬ p = q := fun e => h e.symm
    simp [h, this]

/-! ### searches -/

theorem findIdx_some (l : Slab) (cur : Nat) (p : Job → Bool) (i k : Nat) :
    findIdx l cur p i = some k → ∃ j, l[k - i]? = some (some j) ∧ p j = true ∧ k ≠ cur ∧ i ≤ k := by
  induction l generalizing i with
  | nil => simp [findIdx]
  | cons h t ih =>
    cases h with
    | none =>
      simp only [findIdx]
      intro hk
      obtain ⟨j, h1, h2, h3, h4⟩ := ih (i+1) hk
      refine ⟨j, ?_, h2, h3, by omega⟩
      have : k - i = (k - (i+1)) + 1 := by omega
      rw [this]; simpa using h1
    | some j0 =>
      simp only [findIdx]
      split
      · intro hk; cases hk; rename_i hh; exact ⟨j0, by simp, hh.2, hh.1, Nat.le_refl _⟩
      · intro hk
        obtain ⟨j, h1, h2, h3, h4⟩ := ih (i+1) hk
        refine ⟨j, ?_, h2, h3, by omega⟩
        have : k - i = (k - (i+1)) + 1 := by omega
        rw [this]; simpa using h1

theorem findIdx_none (l : Slab) (cur : Nat) (p : Job → Bool) (i : Nat) :
    findIdx l cur p i = none → ∀ k j, l[k]? = some (some j) → p j = true → k + i = cur := by
  induction l generalizing i with
  | nil => simp
  | cons h t ih =>
    cases h with
    | none =>
      simp only [findIdx]
      intro hn k j hk hp
      cases k with
      | zero => simp at hk
      | succ k => have := ih (i+1) hn k j (by simpa using hk) hp; omega
    | some j0 =>
      simp only [findIdx]
      split
      · simp
      · rename_i hh
        intro hn k j hk hp
        cases k with
        | zero =>
          simp at hk; subst hk
          by_cases hc : i = cur
          · omega
          · exact absurd ⟨hc, hp⟩ hh
        | succ k => have := ih (i+1) hn k j (by simpa using hk) hp; omega

theorem gets_eq_some_iff (es : Slab) (k : Nat) (j : Job) : gets es k = some j ↔ es[k]? = some (some j) := by
  unfold gets
  cases hh : es[k]? with
  | none => simp
  | some o => cases o <;> simp

theorem find_some {es : Slab} {cur : Nat} {p : Job → Bool} {k : Nat} (h : findIdx es cur p 0 = some k) :
    ∃ j, gets es k = some j ∧ p j = true ∧ k ≠ cur := by
  obtain ⟨j, h1, h2, h3, _⟩ := findIdx_some _ _ _ _ _ h
  exact ⟨j, (gets_eq_some_iff _ _ _).mpr (by simpa using h1), h2, h3⟩

theorem find_none {es : Slab} {cur : Nat} {p : Job → Bool} (h : findIdx es cur p 0 = none) :
    ∀ k j, gets es k = some j → p j = true → k = cur := by
  intro k j hk hp
  have := findIdx_none _ _ _ _ h k j ((gets_eq_some_iff _ _ _).mp hk) hp
  omega

theorem anySuspended_iff (es : Slab) :
    anySuspended es = true ↔ ∃ i j, gets es i = some j ∧ j.isSuspended = true := by
  induction es with
  | nil => simp [anySuspended, gets_nil]
  | cons h t ih =>
    cases h with
    | none =>
      simp only [anySuspended, ih]
      constructor
      · rintro ⟨i, j, h1, h2⟩; exact ⟨i+1, j, by rw [gets_cons_succ]; exact h1, h2⟩
      · rintro ⟨i, j, h1, h2⟩
        cases i with
        | zero => rw [gets_cons_zero] at h1; cases h1
        | succ i => rw [gets_cons_succ] at h1; exact ⟨i, j, h1, h2⟩
    | some j0 =>
      simp only [anySuspended, Bool.or_eq_true, ih]
      constructor
      · rintro (h0 | ⟨i, j, h1, h2⟩)
        · exact ⟨0, j0, by rw [gets_cons_zero], h0⟩
        · exact ⟨i+1, j, by rw [gets_cons_succ]; exact h1, h2⟩
      · rintro ⟨i, j, h1, h2⟩
        cases i with
        | zero => rw [gets_cons_zero] at h1; cases h1; exact Or.inl h2
        | succ i => rw [gets_cons_succ] at h1; exact Or.inr ⟨i, j, h1, h2⟩

theorem slabLen_zero_iff (es : Slab) : slabLen es = 0 ↔ ∀ i, gets es i = none := by
  induction es with
  | nil => simp [slabLen, gets_nil]
  | cons h t ih =>
    cases h with
    | none =>
      simp only [slabLen, ih]
      constructor
      · intro hh i
        cases i with
        | zero => rw [gets_cons_zero]
        | succ i => rw [gets_cons_succ]; exact hh i
      · intro hh i
        have := hh (i+1); rw [gets_cons_succ] at this; exact this
    | some j0 =>
      simp only [slabLen]
      constructor
      · intro hh; omega
      · intro hh; have := hh 0; rw [gets_cons_zero] at this; cases this

/-! ### the invariant, in ∀-form over the slot-lookup function -/

/-- current / previous consistency -/
def JInv (g : Nat → Option Job) (cur prev : Nat) : Prop :=
  (∀ i j, g i = some j → ∃ j', g cur = some j') ∧
  (∀ i j, i ≠ cur → g i = some j → prev ≠ cur ∧ ∃ j', g prev = some j') ∧
  (∀ i j, g i = some j → j.isSuspended = true → ∃ j', g cur = some j' ∧ j'.isSuspended = true) ∧
  (∀ i j, i ≠ cur → g i = some j → j.isSuspended = true → ∃ j', g prev = some j' ∧ j'.isSuspended = true)

/-- pid index agrees with the table -/
def PInv (g : Nat → Option Job) (m : PidMap) : Prop :=
  ∀ p i, lookup m p = some i ↔ ∃ j, g i = some j ∧ j.pid = p

/-- free list of the slab: only vacant in-range keys, each once -/
def FInv (es : Slab) (free : List Nat) : Prop :=
  (∀ k ∈ free, k < es.length ∧ gets es k = none) ∧ free.Nodup

structure Inv (s : JobList) : Prop where
  j : JInv (gets s.entries) s.cur s.prev
  p : PInv (gets s.entries) s.pids
  f : FInv s.entries s.free

end YashModel.Job
