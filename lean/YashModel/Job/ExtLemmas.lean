/-
  Extension round (C12): helper lemmas for `ExtTheorems.lean` — slot-wise effect of
  `update_all_subshell_statuses`, of the prompt report, and the `wait` loop while the system
  reports state changes.
-/
import YashModel.Job.ExtSteps
import YashModel.Job.DocLemmas
import YashModel.Job.Spec
namespace YashModel.Job

theorem sig2str_below_rt :
    ∀ p ∈ Generated.JobTables.sig2strTable, p.1 < Generated.JobTables.SIGRTMIN := by decide

/-! ### `update_status` slot by slot -/

theorem update_none (s : JobList) (pid : Nat) (st : PState) (hl : lookup s.pids pid = none) :
    (s.updateStatus pid st).2 = s := by
  unfold JobList.updateStatus; rw [hl]

/-- `update_status` keeps the pid of every slot -/
theorem update_pidAt (s : JobList) (pid : Nat) (st : PState) (k : Nat) :
    ((s.updateStatus pid st).2.get k).map (·.pid) = (s.get k).map (·.pid) := by
  unfold JobList.updateStatus
  cases lookup s.pids pid with
  | none => rfl
  | some idx =>
    simp only
    cases hg : gets s.entries idx with
    | none => rfl
    | some job =>
      simp only [JobList.get]
      rw [gets_set _ _ _ _ (gets_some_lt hg)]
      by_cases hk : k = idx
      · subst hk; simp [hg]
      · simp [hk]

/-- `update_status(pid, …)` does not touch a job with another pid -/
theorem update_untouched (s : JobList) (h : Inv s) (pid : Nat) (st : PState) (k : Nat) (j : Job)
    (hk : s.get k = some j) (hne : j.pid ≠ pid) : (s.updateStatus pid st).2.get k = some j := by
  cases hl : lookup s.pids pid with
  | none => rw [update_none s pid st hl]; exact hk
  | some idx =>
    obtain ⟨jb, hjb, hp⟩ := (h.p pid idx).mp hl
    have hki : k ≠ idx := by
      intro e; subst e
      unfold JobList.get at hk; rw [hjb] at hk; cases hk
      exact hne hp
    unfold JobList.get
    rw [(update_get s pid idx st jb hl hjb).1 k]
    simp only [hki, if_false]
    exact hk

/-- what a delivered event does to the job in slot `i` -/
theorem applyEvent_slot (s : JobList) (h : Inv s) (i : Nat) (job : Job) (hg : s.get i = some job) (ev : Ev) :
    ∃ job1, (applyEvent s ev).get i = some job1 ∧ job1.pid = job.pid ∧ job1.owned = job.owned ∧
      (job1.state = job.state ∨ (ev.1 = job.pid ∧ job1.state = ev.2)) := by
  rcases applyEvent_table s ev with e | e <;> rw [e]
  · exact ⟨job, hg, rfl, rfl, Or.inl rfl⟩
  · by_cases hp : job.pid = ev.1
    · have hl : lookup s.pids ev.1 = some i := (h.p ev.1 i).mpr ⟨job, hg, hp⟩
      obtain ⟨g1, _, _⟩ := update_get s ev.1 i ev.2 job hl hg
      refine ⟨{ job with state := ev.2, changed := job.changed || decide (job.expected ≠ some ev.2), expected := none },
        ?_, rfl, rfl, Or.inr ⟨hp.symm, rfl⟩⟩
      unfold JobList.get; rw [g1 i]; simp
    · exact ⟨job, update_untouched s h ev.1 ev.2 i job hg hp, rfl, rfl, Or.inl rfl⟩

theorem applyEvent_pidAt (s : JobList) (ev : Ev) (k : Nat) :
    ((applyEvent s ev).get k).map (·.pid) = (s.get k).map (·.pid) := by
  rcases applyEvent_table s ev with e | e <;> rw [e]
  exact update_pidAt s _ _ k

theorem updateAll_pids (s : JobList) (evs : List Ev) (k : Nat) :
    ((updateAll s evs).get k).map (·.pid) = (s.get k).map (·.pid) :=
  updateAll_ind (fun t => ∀ k, (t.get k).map (·.pid) = (s.get k).map (·.pid))
    (fun t ev ht k => by rw [applyEvent_pidAt]; exact ht k) evs s (fun _ => rfl) k

theorem updateAll_untouched (evs : List Ev) (s : JobList) (h : Inv s) (k : Nat) (j : Job)
    (hk : s.get k = some j) (hne : ∀ ev ∈ evs, ev.1 ≠ j.pid) : (updateAll s evs).get k = some j := by
  induction evs generalizing s with
  | nil => exact hk
  | cons ev rest ih =>
    have hk1 : (applyEvent s ev).get k = some j := by
      rcases applyEvent_table s ev with e | e <;> rw [e]
      · exact hk
      · exact update_untouched s h ev.1 ev.2 k j hk (fun e => hne ev (List.mem_cons_self ..) e.symm)
    exact ih (applyEvent s ev) (applyEvent_inv s ev h) hk1 (fun e he => hne e (List.mem_cons_of_mem _ he))

/-! ### the prompt report slot by slot -/

theorem clear_idem (o : Option Job) :
    (o.map (fun j => { j with changed := false })).map (fun j => { j with changed := false }) =
      o.map (fun j => { j with changed := false }) := by
  cases o <;> rfl

theorem markAll_gets (idxs : List Nat) (s : JobList) (k : Nat) :
    gets (idxs.foldl JobList.markReported s).entries k =
      if k ∈ idxs then (gets s.entries k).map (fun j => { j with changed := false }) else gets s.entries k := by
  induction idxs generalizing s with
  | nil => simp
  | cons i rest ih =>
    simp only [List.foldl_cons]
    rw [ih (s.markReported i), markReported_gets]
    by_cases hki : k = i
    · subst hki
      by_cases hr : k ∈ rest
      · simp only [hr, if_true, List.mem_cons, or_true]; exact clear_idem _
      · simp [hr]
    · by_cases hr : k ∈ rest <;> simp [hki, hr]

theorem promptReport_gets (s : JobList) (k : Nat) :
    (promptReport s true true).2.get k = (s.get k).map (fun j => { j with changed := false }) := by
  have e : (promptReport s true true).2 = (matchingIdx s.entries (·.changed) 0).foldl JobList.markReported s := rfl
  unfold JobList.get
  rw [e, markAll_gets]
  by_cases hm : k ∈ matchingIdx s.entries (·.changed) 0
  · simp [hm]
  · simp only [hm, if_false]
    cases hg : gets s.entries k with
    | none => rfl
    | some j =>
      have hc : j.changed = false := by
        cases hcc : j.changed with
        | false => rfl
        | true =>
          exfalso; apply hm
          exact (mem_matchingIdx _ _ 0 k).mpr ⟨Nat.zero_le _, j, by simpa using hg, hcc⟩
      cases j
      simp_all

theorem promptReport_selection (s : JobList) :
    (promptReport s true true).2.currentJob = s.currentJob ∧
    (promptReport s true true).2.previousJob = s.previousJob ∧
    (promptReport s true true).2.pids = s.pids := by
  have e : (promptReport s true true).2 = (matchingIdx s.entries (·.changed) 0).foldl JobList.markReported s := rfl
  have hf : (promptReport s true true).2.cur = s.cur ∧ (promptReport s true true).2.prev = s.prev ∧
      (promptReport s true true).2.pids = s.pids := by
    rw [e]
    exact markAll_ind (fun t => t.cur = s.cur ∧ t.prev = s.prev ∧ t.pids = s.pids)
      (fun t i ht => by
        obtain ⟨_, c, p, m, _⟩ := markReported_fields t i
        exact ⟨c.trans ht.1, p.trans ht.2.1, m.trans ht.2.2⟩) _ s ⟨rfl, rfl, rfl⟩
  have hs : ∀ k, (gets (promptReport s true true).2.entries k).isSome = (gets s.entries k).isSome := by
    intro k
    have := promptReport_gets s k
    unfold JobList.get at this
    rw [this]; cases gets s.entries k <;> rfl
  refine ⟨?_, ?_, hf.2.2⟩
  · unfold JobList.currentJob; rw [hf.1, hs]
  · unfold JobList.previousJob; rw [hf.1, hf.2.1, hs]

/-! ### `wait` -/

theorem waitSeqEv_nil (l : List (Option Nat)) (s : JobList) (last : Nat) :
    waitSeqEv l [] s last = waitSeq l s last := by
  induction l generalizing s last with
  | nil => rfl
  | cons o rest ih =>
    cases o with
    | none => simp only [waitSeqEv, waitSeq]; exact ih _ _
    | some i =>
      simp only [waitSeqEv, waitSeq, waitWhile]
      cases jobStatus s i with
      | mk r s' =>
        cases r with
        | some st => exact ih _ _
        | none => rfl

theorem jobStatus_owned (s : JobList) (i : Nat) (job : Job) (hg : s.get i = some job) (ho : job.owned = true) :
    jobStatus s i = if job.state.isAlive then (none, s) else (some job.state.exitStatus, (s.remove i).2) := by
  unfold jobStatus
  unfold JobList.get at hg
  rw [hg]
  simp [ho]

theorem waitWhile_jobStatus (evs : List Ev) (s : JobList) (h : Inv s) (i : Nat) (job : Job)
    (hg : s.get i = some job) (ho : job.owned = true) :
    (∀ st s' rest, waitWhile (fun t => jobStatus t i) evs s = (some st, s', rest) →
      s'.get i = none ∧ Inv s' ∧
      ∃ fin : PState, fin.isAlive = false ∧ st = fin.exitStatus ∧
        (fin = job.state ∨ (job.pid, fin) ∈ evs)) ∧
    (∀ s' rest, waitWhile (fun t => jobStatus t i) evs s = (none, s', rest) →
      Inv s' ∧ ∃ j', s'.get i = some j' ∧ j'.pid = job.pid ∧ j'.state.isAlive = true) := by
  have hrem : (s.remove i).2.get i = none := by
    unfold JobList.get; rw [remove_gets]; simp
  induction evs generalizing s job with
  | nil =>
    simp only [waitWhile, jobStatus_owned s i job hg ho]
    cases ha : job.state.isAlive with
    | true =>
      simp only [if_true]
      refine ⟨fun st s' rest e => (by cases e), fun s' rest e => ?_⟩
      cases e
      exact ⟨h, job, hg, rfl, ha⟩
    | false =>
      simp only [Bool.false_eq_true, if_false]
      refine ⟨fun st s' rest e => ?_, fun s' rest e => (by cases e)⟩
      cases e
      exact ⟨hrem, remove_inv s i h, job.state, ha, rfl, Or.inl rfl⟩
  | cons ev rest ih =>
    simp only [waitWhile, jobStatus_owned s i job hg ho]
    cases ha : job.state.isAlive with
    | false =>
      simp only [Bool.false_eq_true, if_false]
      refine ⟨fun st s' r e => ?_, fun s' r e => (by cases e)⟩
      cases e
      exact ⟨hrem, remove_inv s i h, job.state, ha, rfl, Or.inl rfl⟩
    | true =>
      simp only [if_true]
      obtain ⟨job1, hg1, hp1, ho1, hst1⟩ := applyEvent_slot s h i job hg ev
      have hrem1 : ((applyEvent s ev).remove i).2.get i = none := by
        unfold JobList.get; rw [remove_gets]; simp
      obtain ⟨ih1, ih2⟩ := ih (applyEvent s ev) (applyEvent_inv s ev h) job1 hg1 (ho1.trans ho) hrem1
      refine ⟨fun st s' r e => ?_, fun s' r e => ?_⟩
      · obtain ⟨a, b, fin, hfa, hfs, hfin⟩ := ih1 st s' r e
        refine ⟨a, b, fin, hfa, hfs, Or.inr ?_⟩
        rcases hfin with hfe | hmem
        · rcases hst1 with hsame | ⟨hpid, hnew⟩
          · exfalso; rw [hfe, hsame, ha] at hfa; cases hfa
          · have : ev = (job.pid, fin) := by
              cases ev; simp only at hpid hnew; rw [hpid, hfe, hnew]
            rw [this]; exact List.mem_cons_self ..
        · rw [hp1] at hmem; exact List.mem_cons_of_mem _ hmem
      · obtain ⟨a, j', hj', hpj, haj⟩ := ih2 s' r e
        exact ⟨a, j', hj', hpj.trans hp1, haj⟩

/-! ### the scanner of the Spec column (`reportHeads`) on rendered report lines -/

theorem splitLines_ne_nil (t : List Char) : splitLines t ≠ [] := by
  cases t with
  | nil => simp [splitLines]
  | cons c t =>
    unfold splitLines
    split
    · simp
    · split <;> simp

theorem splitLines_cons (c : Char) (t : List Char) (hc : c ≠ '\n') (l : List Char) (ls : List (List Char))
    (h : splitLines t = l :: ls) : splitLines (c :: t) = (c :: l) :: ls := by
  rw [splitLines, if_neg hc, h]

/-- a line without `\n`, followed by `\n`, is the first line -/
theorem splitLines_line (l rest : List Char) (h : '\n' ∉ l) :
    splitLines (l ++ '\n' :: rest) = l :: splitLines rest := by
  induction l with
  | nil => show splitLines ('\n' :: rest) = _; rw [splitLines, if_pos rfl]
  | cons c l ih =>
    have hc : c ≠ '\n' := fun e => h (by rw [e]; exact List.mem_cons_self ..)
    have hl : '\n' ∉ l := fun m => h (List.mem_cons_of_mem _ m)
    show splitLines (c :: (l ++ '\n' :: rest)) = _
    exact splitLines_cons _ _ hc _ _ (ih hl)

theorem nn_app {a b : Str} (ha : '\n' ∉ a) (hb : '\n' ∉ b) : '\n' ∉ a ++ b := by
  intro m
  rcases List.mem_append.mp m with m | m
  · exact ha m
  · exact hb m

theorem digit_ne_nl (c : Char) (h : isDigitC c = true) : c ≠ '\n' := by
  intro e; subst e; simp [isDigitC] at h

theorem no_nl_of_all_digits (l : Str) (h : l.all isDigitC = true) : '\n' ∉ l := by
  intro m
  have := List.all_eq_true.mp h _ m
  exact digit_ne_nl _ this rfl

theorem natStr_no_nl (n : Nat) : '\n' ∉ natStr n := no_nl_of_all_digits _ (natStr_all_digits n)

theorem table_no_nl : ∀ p ∈ Generated.JobTables.sig2strTable, '\n' ∉ p.2.toList := by decide

theorem sigName_no_nl (n : Nat) : '\n' ∉ sigName n := by
  unfold sigName
  split
  · rename_i p s hf
    exact table_no_nl _ (List.mem_of_find?_eq_some hf)
  · simp only
    split
    · decide
    · split
      · decide
      · split
        · split
          · exact nn_app (by decide) (natStr_no_nl _)
          · exact nn_app (by decide) (natStr_no_nl _)
        · decide

theorem stateText_no_nl (st : PState) : '\n' ∉ stateText st := by
  cases st with
  | running => decide
  | exited n =>
    show '\n' ∉ (if n = 0 then "Done".toList else "Done(".toList ++ natStr n ++ [')'])
    split
    · decide
    · exact nn_app (nn_app (by decide) (natStr_no_nl n)) (by decide)
  | stopped sg =>
    show '\n' ∉ "Stopped(SIG".toList ++ sigName sg ++ [')']
    exact nn_app (nn_app (by decide) (sigName_no_nl sg)) (by decide)
  | signaled sg core =>
    show '\n' ∉ (if core then "Killed(SIG".toList ++ sigName sg ++ ": core dumped)".toList
                  else "Killed(SIG".toList ++ sigName sg ++ [')'])
    split
    · exact nn_app (nn_app (by decide) (sigName_no_nl sg)) (by decide)
    · exact nn_app (nn_app (by decide) (sigName_no_nl sg)) (by decide)

theorem replicate_space_no_nl (k : Nat) : '\n' ∉ List.replicate k ' ' := by
  intro m; have := List.eq_of_mem_replicate m; exact absurd this (by decide)

/-- a rendered report line contains no `\n` unless the job's name does -/
theorem render_no_nl (r : Report) (h : '\n' ∉ r.name) (hm : r.marker.char ≠ '\n') : '\n' ∉ r.render := by
  unfold Report.render
  refine nn_app (nn_app (nn_app (nn_app (nn_app (nn_app (by decide) (natStr_no_nl _)) ?_) ?_) ?_) (by decide)) h
  · intro m
    simp only [List.mem_cons, List.not_mem_nil, or_false] at m
    rcases m with m | m | m | m
    · exact absurd m (by decide)
    · exact absurd m (by decide)
    · exact hm m.symm
    · exact absurd m (by decide)
  · split
    · exact nn_app (nn_app (replicate_space_no_nl _) (natStr_no_nl _)) (by decide)
    · exact List.not_mem_nil
  · exact nn_app (stateText_no_nl _) (replicate_space_no_nl _)

theorem marker_char_ne_nl (mk : Marker) : mk.char ≠ '\n' := by cases mk <;> decide

theorem headOf_shape (ds : Str) (m : Char) (rest : Str) (hall : ds.all isDigitC = true) :
    headOf ('[' :: (ds ++ ']' :: ' ' :: m :: rest)) = some (digitsVal ds, m) := by
  have hall' : ∀ a ∈ ds, isDigitC a = true := fun a ha => List.all_eq_true.mp hall a ha
  have hb : isDigitC ']' = false := by decide
  simp only [headOf]
  rw [List.dropWhile_append_of_pos hall', List.takeWhile_append_of_pos hall']
  simp [hb]

/-- the scanner reads the job number and the marker back from a rendered line -/
theorem headOf_render (r : Report) : headOf r.render = some (r.number, r.marker.char) := by
  have hr : ∃ rest, r.render = '[' :: (natStr r.number ++ ']' :: ' ' :: r.marker.char :: rest) := by
    cases hp : r.pid with
    | none => exact ⟨' ' :: (padRight 20 (stateText r.state) ++ ' ' :: r.name), by simp [Report.render, hp]⟩
    | some p =>
      exact ⟨' ' :: (padLeft 5 (natStr p) ++ ' ' :: (padRight 20 (stateText r.state) ++ ' ' :: r.name)),
        by simp [Report.render, hp]⟩
  obtain ⟨rest, hr⟩ := hr
  rw [hr, headOf_shape _ _ _ (natStr_all_digits _), digitsVal_natStr]

/-! ### Boolean licences of the Spec column -/

/-- `(occupied es).all f` is `f` on every occupied slot -/
theorem occupied_all (es : Slab) (f : Nat → Bool) :
    (occupied es).all f = true ↔ ∀ i j, gets es i = some j → f i = true := by
  unfold occupied
  rw [List.all_eq_true]
  constructor
  · intro h i j hj
    exact h i ((mem_matchingIdx _ _ 0 i).mpr ⟨Nat.zero_le _, j, by simpa using hj, rfl⟩)
  · intro h i hi
    obtain ⟨_, j, hj, _⟩ := (mem_matchingIdx _ _ 0 i).mp hi
    exact h i j (by simpa using hj)

/-- no slot is new after a step that satisfies `Sub` -/
theorem noNew_of_sub (s s' : JobList) (h : Sub s s') :
    ((occupied s'.entries).all fun i => (s.get i).isSome) = true := by
  rw [occupied_all]
  intro i j hj
  rcases h i with hn | ⟨a, a', ha, _, _⟩
  · rw [hn] at hj; cases hj
  · unfold JobList.get; rw [ha]; rfl

end YashModel.Job
