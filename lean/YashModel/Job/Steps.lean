/-
  Per-operation preservation lemmas for the job-table invariant (C12).
-/
import YashModel.Job.Lemmas
namespace YashModel.Job

/-- searches as used by the code, characterised only through `find_some` / `find_none` -/
structure SearchSpec (g : Nat → Option Job) (cur : Nat) (p : Job → Bool) (r : Option Nat) : Prop where
  some_ : ∀ k, r = some k → ∃ j, g k = some j ∧ p j = true ∧ k ≠ cur
  none_ : r = none → ∀ k j, g k = some j → p j = true → k = cur

theorem searchSpec_findIdx (es : Slab) (cur : Nat) (p : Job → Bool) :
    SearchSpec (gets es) cur p (findIdx es cur p 0) :=
  ⟨fun _ h => find_some h, fun h => find_none h⟩

theorem remove_core (g g' : Nat → Option Job) (cur prev i : Nat) (job : Job)
    (hj : g i = some job) (hg : ∀ k, g' k = if k = i then none else g k)
    (h : JInv g cur prev) (cur' prev' : Nat) (hcur : cur' = if i = cur then prev else cur)
    (a b : Option Nat) (hA : SearchSpec g' cur' (·.isSuspended) a) (hB : SearchSpec g' cur' (fun _ => true) b)
    (hprev : prev' = if i = cur ∨ i = prev then a.getD (b.getD 0) else prev) :
    JInv g' cur' prev' := by
  obtain ⟨h1, h2, h3, h4⟩ := h
  obtain ⟨hA1, hA2⟩ := hA
  obtain ⟨hB1, hB2⟩ := hB
  subst hcur hprev
  cases a <;> cases b <;> simp only [Option.getD] <;> unfold JInv <;> grind


theorem remove_pinv (g g' : Nat → Option Job) (m : PidMap) (i : Nat) (job : Job)
    (hj : g i = some job) (hg : ∀ k, g' k = if k = i then none else g k) (h : PInv g m) :
    PInv g' (eraseK m job.pid) := by
  intro p k
  rw [lookup_eraseK]
  have h1 := h p k
  have h2 := h job.pid i
  have h3 := h job.pid k
  have hgk := hg k
  by_cases hp : p = job.pid
  · subst hp
    simp only [if_true]
    constructor
    · intro hh; cases hh
    · rintro ⟨j, hj1, hj2⟩
      by_cases hki : k = i
      · subst hki; simp at hgk; rw [hgk] at hj1; cases hj1
      · simp [hki] at hgk
        rw [hgk] at hj1
        have a := h3.mpr ⟨j, hj1, hj2⟩
        have b := h2.mpr ⟨job, hj, rfl⟩
        rw [a] at b; cases b; exact absurd rfl hki
  · simp only [hp, if_false]
    rw [h1]
    by_cases hki : k = i
    · subst hki
      simp at hgk
      constructor
      · rintro ⟨j, hj1, hj2⟩; rw [hj] at hj1; cases hj1; exact absurd hj2.symm hp
      · rintro ⟨j, hj1, _⟩; rw [hgk] at hj1; cases hj1
    · simp [hki] at hgk; rw [hgk]

theorem remove_inv (s : JobList) (i : Nat) (h : Inv s) : Inv (s.remove i).2 := by
  unfold JobList.remove anySuspendedButCurrent anyButCurrent
  split
  · exact h
  · rename_i job hj
    have hi := gets_some_lt hj
    have G := fun k => gets_set s.entries i k none hi
    obtain ⟨hJ, hP, hF⟩ := h
    by_cases hz : slabLen (s.entries.set i none) = 0
    · -- the slab became empty and is cleared
      have hall := (slabLen_zero_iff _).mp hz
      have hg : ∀ k, gets ([] : Slab) k = if k = i then none else gets s.entries k := by
        intro k; rw [gets_nil]; have := hall k; rw [G] at this; exact this.symm
      simp only [hz, if_true]
      refine ⟨?_, ?_, ?_⟩
      · exact remove_core _ _ _ _ _ _ hj hg hJ _ _ rfl _ _
          (searchSpec_findIdx _ _ _) (searchSpec_findIdx _ _ _) rfl
      · exact remove_pinv _ _ _ _ _ hj hg hP
      · exact ⟨by simp, by simp⟩
    · simp only [hz, if_false]
      refine ⟨?_, ?_, ?_⟩
      · exact remove_core _ _ _ _ _ _ hj G hJ _ _ rfl _ _
          (searchSpec_findIdx _ _ _) (searchSpec_findIdx _ _ _) rfl
      · exact remove_pinv _ _ _ _ _ hj G hP
      · obtain ⟨hf1, hf2⟩ := hF
        refine ⟨?_, ?_⟩
        · intro k hk
          simp only [List.length_set]
          rw [G]
          cases List.mem_cons.mp hk with
          | inl e => subst e; exact ⟨hi, by simp⟩
          | inr e => have := hf1 k e; exact ⟨this.1, by split <;> simp [this.2]⟩
        · refine List.nodup_cons.mpr ⟨?_, hf2⟩
          intro hmem
          have := (hf1 i hmem).2
          rw [hj] at this; cases this


/-! ### insert -/

theorem insert_core (g g' : Nat → Option Job) (cur prev idx : Nat) (job : Job)
    (hg : ∀ k, g' k = if k = idx then some job else g k)
    (hold : g idx = none ∨ ∃ old, g idx = some old ∧ old.isSuspended = false)
    (h : JInv g cur prev)
    (exCur exPrev : Option Bool)
    (hc : exCur = if (g cur).isSome then some (((g cur).map (·.isSuspended)).getD false) else none)
    (hp : exPrev = if prev ≠ cur ∧ (g prev).isSome then some (((g prev).map (·.isSuspended)).getD false) else none) :
    JInv g' (reselectInsert exCur exPrev job.isSuspended idx cur prev).1
            (reselectInsert exCur exPrev job.isSuspended idx cur prev).2 := by
  obtain ⟨h1, h2, h3, h4⟩ := h
  subst hc hp
  unfold reselectInsert JInv
  have hgi := hg idx
  have hgc := hg cur
  have hgp := hg prev
  rcases hold with hn | ⟨old, ho, hos⟩
  · cases hgcur : g cur <;> cases hgprev : g prev <;> cases hs : job.isSuspended <;>
      simp only [hgcur, hgprev, Option.isSome, Option.map, Option.getD] <;> grind
  · cases hgcur : g cur <;> cases hgprev : g prev <;> cases hs : job.isSuspended <;>
      simp only [hgcur, hgprev, Option.isSome, Option.map, Option.getD] <;> grind


theorem slabInsert_spec (es : Slab) (free : List Nat) (job : Job) (hF : FInv es free) :
    gets es (slabInsert es free job).1 = none ∧
    (∀ k, gets (slabInsert es free job).2.1 k = if k = (slabInsert es free job).1 then some job else gets es k) ∧
    FInv (slabInsert es free job).2.1 (slabInsert es free job).2.2 := by
  obtain ⟨hf1, hf2⟩ := hF
  unfold slabInsert
  cases free with
  | nil =>
    simp only
    refine ⟨gets_ge _ _ (Nat.le_refl _), fun k => gets_append_one _ _ _, ?_, by simp⟩
    intro k hk; cases hk
  | cons a rest =>
    simp only
    have ha := hf1 a (by simp)
    have hnd := List.nodup_cons.mp hf2
    refine ⟨ha.2, fun k => gets_set _ _ _ _ ha.1, ?_, hnd.2⟩
    intro k hk
    have hk' := hf1 k (List.mem_cons_of_mem _ hk)
    simp only [List.length_set]
    refine ⟨hk'.1, ?_⟩
    rw [gets_set _ _ _ _ ha.1]
    have : k ≠ a := fun e => hnd.1 (e ▸ hk)
    simp [this, hk'.2]

theorem alive_of_stopped (st : PState) (h : st.isAlive = false) : st.isStopped = false := by
  cases st <;> simp_all [PState.isAlive, PState.isStopped]

theorem exCur_eq (s : JobList) :
    s.currentJob.map (suspAt s.entries) =
      if (gets s.entries s.cur).isSome then some (((gets s.entries s.cur).map (·.isSuspended)).getD false) else none := by
  unfold JobList.currentJob suspAt
  split <;> simp

theorem exPrev_eq (s : JobList) :
    s.previousJob.map (suspAt s.entries) =
      if s.prev ≠ s.cur ∧ (gets s.entries s.prev).isSome then
        some (((gets s.entries s.prev).map (·.isSuspended)).getD false) else none := by
  unfold JobList.previousJob suspAt
  split <;> simp

theorem insert_inv (s : JobList) (job : Job) (h : Inv s) (hpre : insertPre s job.pid = true) :
    Inv (s.insert job).2 := by
  obtain ⟨hJ, hP, hF⟩ := h
  unfold JobList.insert
  unfold insertPre at hpre
  cases hl : lookup s.pids job.pid with
  | none =>
    simp only
    obtain ⟨hs1, hs2, hs3⟩ := slabInsert_spec s.entries s.free job hF
    refine ⟨?_, ?_, hs3⟩
    · exact insert_core _ _ _ _ _ job hs2 (Or.inl hs1) hJ _ _ (exCur_eq s) (exPrev_eq s)
    · intro p i
      simp only
      rw [lookup_insertKV, hs2 i]
      have h1 := hP p i
      have h2 := hP job.pid i
      have h3 := hP p (slabInsert s.entries s.free job).1
      grind
  | some k =>
    simp only
    rw [hl] at hpre
    obtain ⟨old, ho1, ho2⟩ := (hP job.pid k).mp hl
    simp only [ho1, Bool.not_eq_true'] at hpre
    have hk := gets_some_lt ho1
    have G := fun x => gets_set s.entries k x (some job) hk
    refine ⟨?_, ?_, ?_⟩
    · exact insert_core _ _ _ _ _ job G (Or.inr ⟨old, ho1, alive_of_stopped _ hpre⟩) hJ _ _
        (exCur_eq s) (exPrev_eq s)
    · intro p i
      simp only
      rw [G i]
      have h1 := hP p i
      have h2 := hP job.pid i
      grind
    · obtain ⟨hf1, hf2⟩ := hF
      refine ⟨?_, hf2⟩
      intro x hx
      have := hf1 x hx
      simp only [List.length_set]
      refine ⟨this.1, ?_⟩
      rw [G x]
      have : x ≠ k := by intro e; subst e; rw [ho1] at this; cases this.2
      simp [this, (hf1 x hx).2]


/-! ### update_status -/

theorem update_core (es' : Slab) (g : Nat → Option Job) (cur prev idx : Nat) (job job' : Job)
    (hj : g idx = some job)
    (hg : ∀ k, gets es' k = if k = idx then some job' else g k)
    (h : JInv g cur prev) :
    JInv (gets es') (reselectUpdate es' job.isSuspended job'.isSuspended idx cur prev).1
                    (reselectUpdate es' job.isSuspended job'.isSuspended idx cur prev).2 := by
  obtain ⟨h1, h2, h3, h4⟩ := h
  have sA := searchSpec_findIdx es' prev (·.isSuspended)
  have sB := searchSpec_findIdx es' cur (·.isSuspended)
  obtain ⟨sA1, sA2⟩ := sA
  obtain ⟨sB1, sB2⟩ := sB
  unfold reselectUpdate suspAt anySuspendedButCurrent JInv
  have hgi := hg idx
  have hgc := hg cur
  have hgp := hg prev
  cases hw : job.isSuspended <;> cases hn : job'.isSuspended <;>
    cases hgcur : gets es' cur <;> cases hgprev : gets es' prev <;>
    cases hx : findIdx es' prev (·.isSuspended) 0 <;> cases hy : findIdx es' cur (·.isSuspended) 0 <;>
    simp only [Option.isSome, Option.map, Option.getD] <;> grind


theorem update_inv (s : JobList) (pid : Nat) (st : PState) (h : Inv s) : Inv (s.updateStatus pid st).2 := by
  obtain ⟨hJ, hP, hF⟩ := h
  unfold JobList.updateStatus
  cases hl : lookup s.pids pid with
  | none => exact ⟨hJ, hP, hF⟩
  | some idx =>
    simp only
    cases hg0 : gets s.entries idx with
    | none => exact ⟨hJ, hP, hF⟩
    | some job =>
      simp only
      have hk := gets_some_lt hg0
      have G := fun x => gets_set s.entries idx x
        (some { job with state := st, changed := job.changed || decide (job.expected ≠ some st), expected := none }) hk
      refine ⟨?_, ?_, ?_⟩
      · exact update_core _ _ _ _ _ job _ hg0 G hJ
      · intro p i
        simp only
        rw [G i]
        have h1 := hP p i
        grind
      · obtain ⟨hf1, hf2⟩ := hF
        refine ⟨?_, hf2⟩
        intro x hx
        have := hf1 x hx
        simp only [List.length_set]
        refine ⟨this.1, ?_⟩
        rw [G x]
        have : x ≠ idx := by intro e; subst e; rw [hg0] at this; cases this.2
        simp [this, (hf1 x hx).2]

/-! ### set_current_job -/

theorem setCurrent_inv (s s' : JobList) (i : Nat) (h : Inv s) (hs : s.setCurrentJob i = .ok s') : Inv s' := by
  obtain ⟨hJ, hP, hF⟩ := h
  unfold JobList.setCurrentJob at hs
  cases hg0 : gets s.entries i with
  | none => simp [hg0] at hs
  | some job =>
    simp only [hg0] at hs
    split at hs
    · cases hs
    · rename_i hc
      have hc' : job.isSuspended = true ∨ ∀ k j, gets s.entries k = some j → j.isSuspended = false := by
        cases hjs : job.isSuspended with
        | true => exact Or.inl rfl
        | false =>
          right
          intro k j hk
          cases hjj : j.isSuspended with
          | false => rfl
          | true =>
            exfalso
            apply hc
            simp only [hjs, Bool.not_false, Bool.true_and]
            exact (anySuspended_iff _).mpr ⟨k, j, hk, hjj⟩
      split at hs
      · cases hs
        refine ⟨?_, hP, hF⟩
        obtain ⟨h1, h2, h3, h4⟩ := hJ
        unfold JInv
        simp only
        grind
      · cases hs; exact ⟨hJ, hP, hF⟩

/-! ### operations that keep pid and suspension of every slot -/

theorem shape_inv (s : JobList) (es' : Slab)
    (hlen : es'.length = s.entries.length)
    (hshape : ∀ k, (gets es' k).map (fun j => (j.pid, j.isSuspended)) =
                   (gets s.entries k).map (fun j => (j.pid, j.isSuspended)))
    (h : Inv s) : Inv { s with entries := es' } := by
  obtain ⟨⟨h1, h2, h3, h4⟩, hP, hF⟩ := h
  have key : ∀ k j', gets es' k = some j' → ∃ j, gets s.entries k = some j ∧ j.pid = j'.pid ∧ j.isSuspended = j'.isSuspended := by
    intro k j' hk
    have := hshape k
    rw [hk] at this
    cases hh : gets s.entries k with
    | none => rw [hh] at this; cases this
    | some j => rw [hh] at this; simp at this; exact ⟨j, rfl, this.1.symm, this.2.symm⟩
  have key2 : ∀ k j, gets s.entries k = some j → ∃ j', gets es' k = some j' ∧ j.pid = j'.pid ∧ j.isSuspended = j'.isSuspended := by
    intro k j hk
    have := hshape k
    rw [hk] at this
    cases hh : gets es' k with
    | none => rw [hh] at this; cases this
    | some j' => rw [hh] at this; simp at this; exact ⟨j', rfl, this.1.symm, this.2.symm⟩
  refine ⟨?_, ?_, ?_⟩
  · unfold JInv
    simp only
    grind
  · intro p i
    simp only
    have := hP p i
    grind
  · obtain ⟨hf1, hf2⟩ := hF
    refine ⟨?_, hf2⟩
    intro x hx
    have := hf1 x hx
    simp only
    refine ⟨by omega, ?_⟩
    cases hh : gets es' x with
    | none => rfl
    | some j' => obtain ⟨j, hj, _⟩ := key x j' hh; rw [this.2] at hj; cases hj

theorem mapJobs_inv (s : JobList) (f : Job → Job)
    (hf : ∀ j, (f j).pid = j.pid ∧ (f j).isSuspended = j.isSuspended) (h : Inv s) :
    Inv { s with entries := s.entries.map (fun o => o.map f) } := by
  apply shape_inv s _ (by simp) _ h
  intro k
  rw [gets_map]
  cases gets s.entries k with
  | none => rfl
  | some j => simp [hf j]

theorem setSlot_inv (s : JobList) (i : Nat) (j j' : Job) (hj : gets s.entries i = some j)
    (hf : j'.pid = j.pid ∧ j'.isSuspended = j.isSuspended) (h : Inv s) :
    Inv { s with entries := s.entries.set i (some j') } := by
  apply shape_inv s _ (by simp) _ h
  intro k
  rw [gets_set _ _ _ _ (gets_some_lt hj)]
  by_cases hk : k = i
  · subst hk; simp [hj, hf]
  · simp [hk]


/-! ### extract_if / remove_if -/

theorem extractLoop_inv (pred : Nat → Job → Bool) (report : Bool) (fuel idx len : Nat) (s : JobList)
    (acc : List Nat) (h : Inv s) : Inv (extractLoop pred report fuel idx len s acc).2 := by
  induction fuel generalizing idx len s acc with
  | zero => unfold extractLoop; exact h
  | succ fuel ih =>
    cases len with
    | zero => unfold extractLoop; exact h
    | succ len =>
      unfold extractLoop
      cases hg : gets s.entries idx with
      | none => simp only; exact ih _ _ _ _ h
      | some j =>
        simp only
        have h1 : Inv (if report then { s with entries := s.entries.set idx (some { j with changed := false }) } else s) := by
          cases report with
          | false => exact h
          | true => exact setSlot_inv s idx j _ hg ⟨rfl, rfl⟩ h
        split
        · exact ih _ _ _ _ (remove_inv _ _ h1)
        · exact ih _ _ _ _ h1

theorem removeIf_inv (s : JobList) (pred : Nat → Job → Bool) (report : Bool) (h : Inv s) :
    Inv (s.removeIf pred report).2 := extractLoop_inv _ _ _ _ _ _ _ h

/-! ### slot-wise effect of the removing operations (for index stability) -/

/-- every slot of `s'` is vacant or holds the pid it held in `s` -/
def Sub (s s' : JobList) : Prop :=
  ∀ k, gets s'.entries k = none ∨ ∃ j j', gets s.entries k = some j ∧ gets s'.entries k = some j' ∧ j'.pid = j.pid

theorem Sub.refl (s : JobList) : Sub s s := by
  intro k
  cases h : gets s.entries k with
  | none => exact Or.inl rfl
  | some j => exact Or.inr ⟨j, j, rfl, rfl, rfl⟩

theorem Sub.trans {a b c : JobList} (h1 : Sub a b) (h2 : Sub b c) : Sub a c := by
  intro k
  rcases h2 k with h | ⟨j, j', hb, hc, hp⟩
  · exact Or.inl h
  · rcases h1 k with h | ⟨i, i', ha, hb', hp'⟩
    · rw [h] at hb; cases hb
    · rw [hb'] at hb; cases hb
      exact Or.inr ⟨i, j', ha, hc, by rw [hp, hp']⟩

theorem remove_sub (s : JobList) (i : Nat) : Sub s (s.remove i).2 := by
  unfold JobList.remove
  cases hg : gets s.entries i with
  | none => exact Sub.refl s
  | some job =>
    simp only
    have hi := gets_some_lt hg
    intro k
    by_cases hz : slabLen (s.entries.set i none) = 0
    · simp only [hz, if_true]; exact Or.inl (gets_nil k)
    · simp only [hz, if_false]
      rw [gets_set _ _ _ _ hi]
      by_cases hk : k = i
      · simp [hk]
      · simp only [hk, if_false]
        cases hh : gets s.entries k with
        | none => exact Or.inl rfl
        | some j => exact Or.inr ⟨j, j, rfl, rfl, rfl⟩

theorem extractLoop_sub (pred : Nat → Job → Bool) (report : Bool) (fuel idx len : Nat) (s : JobList)
    (acc : List Nat) : Sub s (extractLoop pred report fuel idx len s acc).2 := by
  induction fuel generalizing idx len s acc with
  | zero => unfold extractLoop; exact Sub.refl s
  | succ fuel ih =>
    cases len with
    | zero => unfold extractLoop; exact Sub.refl s
    | succ len =>
      unfold extractLoop
      cases hg : gets s.entries idx with
      | none => simp only; exact ih _ _ _ _
      | some j =>
        simp only
        have h1 : Sub s (if report then { s with entries := s.entries.set idx (some { j with changed := false }) } else s) := by
          cases report with
          | false => exact Sub.refl s
          | true =>
            intro k
            simp only [if_true]
            rw [gets_set _ _ _ _ (gets_some_lt hg)]
            by_cases hk : k = idx
            · subst hk; exact Or.inr ⟨j, { j with changed := false }, hg, by simp, rfl⟩
            · simp only [hk, if_false]
              cases hh : gets s.entries k with
              | none => exact Or.inl rfl
              | some j2 => exact Or.inr ⟨j2, j2, rfl, rfl, rfl⟩
        split
        · exact (h1.trans (remove_sub _ _)).trans (ih _ _ _ _)
        · exact h1.trans (ih _ _ _ _)


theorem remove_lastAsync (s : JobList) (i : Nat) : (s.remove i).2.lastAsync = s.lastAsync := by
  unfold JobList.remove; cases gets s.entries i <;> rfl

theorem extractLoop_lastAsync (pred : Nat → Job → Bool) (report : Bool) (fuel idx len : Nat) (s : JobList)
    (acc : List Nat) : (extractLoop pred report fuel idx len s acc).2.lastAsync = s.lastAsync := by
  induction fuel generalizing idx len s acc with
  | zero => unfold extractLoop; rfl
  | succ fuel ih =>
    cases len with
    | zero => unfold extractLoop; rfl
    | succ len =>
      unfold extractLoop
      cases hg : gets s.entries idx with
      | none => simp only; exact ih _ _ _ _
      | some j =>
        simp only
        split
        · rw [ih, remove_lastAsync]; cases report <;> rfl
        · rw [ih]; cases report <;> rfl

end YashModel.Job
