/-
  C12 — property theorems about the built-ins that work on the job table (`jobs`, `bg`, `fg`,
  `wait`), job-ID operands and `cmd &`; property theorems and non-vacuity examples ONLY.
  (That every one of these steps preserves the invariant is `inv_step` in `Theorems.lean`;
  helper lemmas are in `BuiltinSteps.lean`.)

  Property text: "`%%`, `%+`, `%-`, `%n` and `$!` therefore always designate the jobs the
  documentation says they do."  Documentation: `docs/src/interactive/job_control.md` ("In job IDs
  and `jobs` output, the current job is marked with `+`, and the previous job with `-`"),
  `docs/src/builtins/jobs.md` ("When the built-in reports a finished job …, it removes the job
  from the job list"), `bg.md` ("The (last) resumed job's process ID is set to the `!` special
  parameter"), `fg.md` ("If the resumed job finishes, it is removed from the job list.  If the job
  gets suspended again, it is set as the current job").
-/
import YashModel.Job.Theorems
namespace YashModel.Job

/-! ### job-ID operands -/

/-- ★ the operand forms of the documentation: `%`, `%%`, `%+` parse to the current job, `%-` to the
    previous job, `%n` (decimal digits, `1 ≤ n < 2^64`) to job number `n` -/
theorem parse_designators :
    parseJobId ['%'] = some .current ∧ parseJobId ['%', '%'] = some .current ∧
    parseJobId ['%', '+'] = some .current ∧ parseJobId ['%', '-'] = some .previous ∧
    (∀ ds : Str, ds ≠ [] → ds.all isDigitC = true → 0 < digitsVal ds → digitsVal ds ≤ 18446744073709551615 →
      parseJobId ('%' :: ds) = some (.number (digitsVal ds))) := by
  refine ⟨by decide, by decide, by decide, by decide, ?_⟩
  intro ds hne hall hpos hmax
  cases ds with
  | nil => exact absurd rfl hne
  | cons c cs =>
    have hc : isDigitC c = true := by
      simp only [List.all_cons, Bool.and_eq_true] at hall; exact hall.1
    obtain ⟨h1, h2, h3, h4⟩ := digit_not_special c hc
    have hnz : ¬ digitsVal (c :: cs) = 0 := by omega
    have hle : ¬ 18446744073709551615 < digitsVal (c :: cs) := by omega
    simp only [parseJobId, parseTail, parseNonZeroUsize, stripPlus]
    simp [h1, h2, h3, h4, hall, hnz, hle]

/-- ★ what an operand resolves to, through the code path shared by `wait` (`search::resolve`),
    `bg`/`fg` (`resume_job_by_id`) and `jobs`: `%`, `%%`, `%+` the current job, `%-` the previous
    job, `%n` the job in slot `n-1` — each exactly when that job exists -/
theorem operand_designates (s : JobList) :
    (∀ op, op = ['%'] ∨ op = ['%', '%'] ∨ op = ['%', '+'] → waitResolve s (.jobId op) = .ok s.currentJob) ∧
    waitResolve s (.jobId ['%', '-']) = .ok s.previousJob ∧
    (∀ ds : Str, ds ≠ [] → ds.all isDigitC = true → 0 < digitsVal ds → digitsVal ds ≤ 18446744073709551615 →
      waitResolve s (.jobId ('%' :: ds)) =
        .ok (if (s.get (digitsVal ds - 1)).isSome then some (digitsVal ds - 1) else none)) := by
  obtain ⟨p1, p2, p3, p4, p5⟩ := parse_designators
  refine ⟨?_, ?_, ?_⟩
  · intro op hop
    have : parseJobId op = some .current := by rcases hop with e | e | e <;> subst e <;> assumption
    simp only [waitResolve, this, JobId.find]
    cases s.currentJob <;> rfl
  · simp only [waitResolve, p4, JobId.find]
    cases s.previousJob <;> rfl
  · intro ds h1 h2 h3 h4
    have aux : ∀ (o : Option Job) (n : Nat),
        (match (match o with | some _ => Except.ok n | none => Except.error FindErr.notFound : Except FindErr Nat) with
          | .ok i => Except.ok (some i)
          | .error .notFound => Except.ok none
          | .error .ambiguous => Except.error ()) =
        (Except.ok (if o.isSome then some n else none) : Except Unit (Option Nat)) := by
      intro o n; cases o <;> rfl
    simp only [waitResolve, p5 ds h1 h2 h3 h4, JobId.find, JobList.get]
    exact aux _ _

/-! ### the markers of the report format -/

/-- ★ the marker chosen for job `i` is `+` iff `i` is the current job, `-` iff it is the previous
    job, blank iff it is neither — for every table -/
theorem marker_iff (s : JobList) (i : Nat) :
    ((markerOf s.currentJob s.previousJob i).char = '+' ↔ s.currentJob = some i) ∧
    ((markerOf s.currentJob s.previousJob i).char = '-' ↔ s.previousJob = some i) ∧
    ((markerOf s.currentJob s.previousJob i).char = ' ' ↔ s.currentJob ≠ some i ∧ s.previousJob ≠ some i) := by
  have excl : s.currentJob = some i → s.previousJob = some i → False := by
    unfold JobList.currentJob JobList.previousJob
    intro a b
    split at a <;> split at b <;> simp_all
  unfold markerOf
  by_cases hc : s.currentJob = some i
  · have hp : s.previousJob ≠ some i := fun e => excl hc e
    rw [if_pos hc]
    refine ⟨⟨fun _ => hc, fun _ => rfl⟩, ⟨fun e => absurd e (by decide), fun e => absurd e hp⟩,
      ⟨fun e => absurd e (by decide), fun e => absurd hc e.1⟩⟩
  · by_cases hp : s.previousJob = some i
    · rw [if_neg hc, if_pos hp]
      refine ⟨⟨fun e => absurd e (by decide), fun e => absurd e hc⟩, ⟨fun _ => hp, fun _ => rfl⟩,
        ⟨fun e => absurd e (by decide), fun e => absurd hp e.2⟩⟩
    · rw [if_neg hc, if_neg hp]
      refine ⟨⟨fun e => absurd e (by decide), fun e => absurd e hc⟩,
        ⟨fun e => absurd e (by decide), fun e => absurd e hp⟩, ⟨fun _ => ⟨hc, hp⟩, fun _ => rfl⟩⟩

/-- ★ every line `jobs` prints in the default or `-l` format is `[<i+1>] <m> …` where `m` is `+`
    iff job `i` is the current job and `-` iff it is the previous job (as of the call) -/
theorem jobs_line_marker (s : JobList) (showPid : Bool) (i : Nat) (job : Job) :
    ∃ m rest,
      accLine s.currentJob s.previousJob showPid false i job =
        ['['] ++ natStr (i + 1) ++ [']', ' ', m, ' '] ++ rest ++ ['\n'] ∧
      (m = '+' ↔ s.currentJob = some i) ∧ (m = '-' ↔ s.previousJob = some i) := by
  cases showPid with
  | false =>
    refine ⟨(markerOf s.currentJob s.previousJob i).char, padRight 20 (stateText job.state) ++ [' '] ++ job.name,
      ?_, (marker_iff s i).1, (marker_iff s i).2.1⟩
    simp [accLine, Report.render, reportOf]
  | true =>
    refine ⟨(markerOf s.currentJob s.previousJob i).char,
      padLeft 5 (natStr job.pid) ++ [' '] ++ padRight 20 (stateText job.state) ++ [' '] ++ job.name,
      ?_, (marker_iff s i).1, (marker_iff s i).2.1⟩
    simp [accLine, Report.render, reportOf]

/-- ★ a successful `jobs` prints exactly one such line per reported job, in order, and finishes by
    `jobsFinish` over the reported indices -/
theorem jobs_output (s : JobList) (args : List Str) (h : (jobsBuiltin s args).1.status = 0) :
    ∃ opts operands idxs,
      parseArgs ['l', 'p'] args = some (opts, operands) ∧ jobsTargets s operands = .ok idxs ∧
      (jobsBuiltin s args).1.stdout =
        idxs.flatMap (fun i => match gets s.entries i with
          | some job => accLine s.currentJob s.previousJob (opts.contains 'l') (opts.contains 'p') i job
          | none => []) ∧
      (jobsBuiltin s args).2 = jobsFinish s idxs := by
  cases hp : parseArgs ['l', 'p'] args with
  | none => exfalso; unfold jobsBuiltin at h; simp [hp] at h
  | some r =>
    obtain ⟨opts, operands⟩ := r
    by_cases hlp : (opts.contains 'l' && opts.contains 'p') = true
    · exfalso; unfold jobsBuiltin at h; simp only [hp, hlp, if_true] at h; cases h
    · cases ht : jobsTargets s operands with
      | error e => exfalso; unfold jobsBuiltin at h; simp only [hp, hlp, ht, if_false] at h; cases h
      | ok idxs =>
        refine ⟨opts, operands, idxs, rfl, ht, ?_, ?_⟩ <;>
          (unfold jobsBuiltin; simp only [hp, hlp, ht, if_false]; rfl)

/-- ★ on a consistent non-empty table, `jobs` without operands lists the current job (so exactly
    one line carries `+`), and with two or more jobs the previous job (exactly one `-`) -/
theorem jobs_lists_current_and_previous (s : JobList) (h : Inv s) :
    ((∃ i j, s.get i = some j) → ∃ c, s.currentJob = some c ∧ c ∈ matchingIdx s.entries (fun _ => true) 0) ∧
    ((∃ i i' j j', i ≠ i' ∧ s.get i = some j ∧ s.get i' = some j') →
      ∃ p, s.previousJob = some p ∧ p ∈ matchingIdx s.entries (fun _ => true) 0) := by
  have hc := consistent_of_inv s h
  constructor
  · intro hne
    obtain ⟨c, j, h1, h2⟩ := hc.current_exists hne
    exact ⟨c, h1, (mem_matchingIdx _ _ 0 c).mpr ⟨Nat.zero_le _, j, h2, rfl⟩⟩
  · intro hne
    obtain ⟨p, j, h1, h2, _⟩ := hc.previous_exists hne
    exact ⟨p, h1, (mem_matchingIdx _ _ 0 p).mpr ⟨Nat.zero_le _, j, h2, rfl⟩⟩

/-! ### `jobs` removes exactly the finished jobs it reported -/

/-- ★ after `jobs` has reported the jobs `idxs`, slot by slot: a reported job that had finished is
    gone, a reported job that is alive only has its `state_changed` flag cleared, every other slot
    is untouched — no job is removed that was not reported, none that is not finished -/
theorem jobs_removes_exactly_reported (idxs : List Nat) (s : JobList) (k : Nat) :
    gets (jobsFinish s idxs).entries k =
      match gets s.entries k with
      | none => none
      | some j =>
        if k ∈ idxs then (if j.state.isAlive then some { j with changed := false } else none)
        else some j := by
  unfold jobsFinish
  induction idxs generalizing s with
  | nil => simp only [List.foldl_nil]; cases gets s.entries k <;> simp
  | cons i rest ih =>
    simp only [List.foldl_cons]
    rw [ih (jobsFinish1 s i), jobsFinish1_gets]
    by_cases hk : k = i
    · subst hk
      simp only [if_true, List.mem_cons, true_or]
      cases hg : gets s.entries k with
      | none => rfl
      | some j =>
        simp only
        cases ha : j.state.isAlive with
        | true =>
          simp only [if_true, ha]
          split <;> rfl
        | false => simp only [Bool.false_eq_true, if_false]
    · simp only [hk, if_false, List.mem_cons, false_or]

/-! ### `bg` -/

/-- ★ `bg` on the job-controlled, owned job in slot `index`: the line `[n] name` is written, `$!`
    becomes the job's pid ("the resumed job's process ID is set to the `!` special parameter"), the
    table changes in that slot only, where a job that is alive now expects `Running` (the recorded
    state stays until `update_status` hears about the `SIGCONT`, see `bg_then_running`), the
    invariant holds, and the resumed job is the current job — unless it is not suspended while some
    job is, in which case the current job stays a suspended one as the invariant demands -/
theorem bg_resumed (s : JobList) (index : Nat) (job : Job) (h : Inv s)
    (hg : gets s.entries index = some job) (ho : job.owned = true) (hc : job.jc = true) :
    (bgResume s index).1 = .ok (['['] ++ natStr (index + 1) ++ [']', ' '] ++ job.name ++ ['\n']) ∧
    (bgResume s index).2.lastAsync = job.pid ∧
    (∀ k, gets (bgResume s index).2.entries k =
      if k = index then some (if job.state.isAlive then { job with expected := some .running } else job)
      else gets s.entries k) ∧
    Inv (bgResume s index).2 ∧
    ((bgResume s index).2.currentJob = some index ∨
      (job.isSuspended = false ∧ ∃ c jc, (bgResume s index).2.get c = some jc ∧ jc.isSuspended = true)) := by
  rw [bgResume_ok s index job hg ho hc]
  have hi := gets_some_lt hg
  -- the table just before `set_current_job`
  have hent : ∀ k, gets (bgTable s index job).entries k =
      if k = index then some (if job.state.isAlive then { job with expected := some .running } else job)
      else gets s.entries k := by
    intro k
    unfold bgTable
    rw [(setCurrentOk_entries _ _).1]
    cases ha : job.state.isAlive with
    | true =>
      simp only [if_true, JobList.setLastAsync, JobList.expect, hg]
      exact gets_set _ _ _ _ hi
    | false =>
      simp only [Bool.false_eq_true, if_false, JobList.setLastAsync]
      by_cases hk : k = index
      · subst hk; simp [hg]
      · simp [hk]
  refine ⟨rfl, ?_, hent, bgTable_inv s index job h, ?_⟩
  · unfold bgTable
    rw [(setCurrentOk_entries _ _).2.1]
    rfl
  · -- `set_current_job(index).ok()`
    have hidx := hent index
    simp only [if_true] at hidx
    unfold bgTable at hidx ⊢
    rw [(setCurrentOk_entries _ _).1] at hidx
    rcases setCurrentOk_current _ index _ hidx with hcur | ⟨hns, hany⟩
    · exact Or.inl hcur
    · right
      have hsusp : (if job.state.isAlive then ({ job with expected := some .running } : Job) else job).isSuspended
          = job.isSuspended := by split <;> rfl
      refine ⟨by rw [← hsusp]; exact hns, ?_⟩
      obtain ⟨c, jc, hc1, hc2⟩ := (anySuspended_iff _).mp hany
      refine ⟨c, jc, ?_, hc2⟩
      unfold JobList.get
      rw [(setCurrentOk_entries _ _).1]
      exact hc1

/-- ★ … and once the `SIGCONT` is reported (`update_status(pid, Running)`), the resumed job is
    `Running` in the table, its `state_changed` flag is what it was (the resumption is not
    reported a second time), nothing is expected any more, and the invariant holds — so the
    current job is again a suspended one whenever a suspended job is left -/
theorem bg_then_running (s : JobList) (index : Nat) (job : Job) (h : Inv s)
    (hg : gets s.entries index = some job) (ho : job.owned = true) (hc : job.jc = true)
    (ha : job.state.isAlive = true) :
    let s2 := ((bgResume s index).2.updateStatus job.pid .running).2
    Inv s2 ∧
    s2.get index = some { job with state := .running, expected := none } ∧
    ((∃ i j, s2.get i = some j ∧ j.isSuspended = true) →
      ∃ c j, s2.currentJob = some c ∧ s2.get c = some j ∧ j.isSuspended = true) := by
  intro s2
  obtain ⟨_, _, hent, hinv, _⟩ := bg_resumed s index job h hg ho hc
  have hinv2 : Inv s2 := update_inv _ _ _ hinv
  refine ⟨hinv2, ?_, (consistent_of_inv s2 hinv2).current_suspended⟩
  have hslot := hent index
  simp only [if_true, ha] at hslot
  have hl : lookup (bgResume s index).2.pids job.pid = some index :=
    (hinv.p job.pid index).mpr ⟨_, hslot, rfl⟩
  obtain ⟨hget, _, _⟩ := update_get _ job.pid index .running _ hl hslot
  have := hget index
  simp only [if_true] at this
  show gets s2.entries index = _
  rw [this]
  simp

/-! ### `fg` -/

/-- ★ `fg` on the job-controlled, owned job in slot `index`, where `final` is the state the job
    ends in (its recorded state if it had already finished, else the state `outcome` in which the
    resumed process halts): "If the resumed job finishes, it is removed from the job list.  If
    the job gets suspended again, it is set as the current job."  The invariant holds afterwards. -/
theorem fg_result (s : JobList) (index : Nat) (job : Job) (outcome : PState) (h : Inv s)
    (hg : gets s.entries index = some job) (ho : job.owned = true) (hc : job.jc = true) :
    let final := if job.state.isAlive then outcome else job.state
    let s' := (fgResume s index outcome).2
    Inv s' ∧
    (final.isStopped = true →
      s'.currentJob = some index ∧ ∃ j', s'.get index = some j' ∧ j'.state = final ∧ j'.pid = job.pid) ∧
    (final.isStopped = false → s'.get index = none) := by
  intro final s'
  refine ⟨fgResume_inv s index outcome h, ?_, ?_⟩
  all_goals
    show _ → _
    intro hf
    simp only [s', final] at hf ⊢
    unfold fgResume
    simp only [hg, ho, hc, Bool.not_true, Bool.false_eq_true, if_false]
  · -- suspended again
    cases ha : job.state.isAlive with
    | false =>
      -- a job that is not alive is not stopped
      simp only [ha, Bool.false_eq_true, if_false] at hf
      have := alive_of_stopped job.state ha
      rw [this] at hf; cases hf
    | true =>
      simp only [ha, if_true] at hf ⊢
      simp only [hf, if_true]
      have hl0 : lookup s.pids job.pid = some index := (h.p job.pid index).mpr ⟨job, hg, rfl⟩
      -- the table after the `Running` report, if there is one
      have key : ∃ s1 j1, (if job.state.isStopped = true then (s.updateStatus job.pid .running).2 else s) = s1 ∧
          lookup s1.pids job.pid = some index ∧ gets s1.entries index = some j1 ∧ j1.isSuspended = false ∧
          j1.pid = job.pid := by
        cases hs : job.state.isStopped with
        | true =>
          obtain ⟨g1, g2, _⟩ := update_get s job.pid index .running job hl0 hg
          exact ⟨(s.updateStatus job.pid .running).2,
            { job with state := .running, changed := job.changed || decide (job.expected ≠ some .running),
                       expected := none },
            by simp, by rw [g2]; exact hl0, by rw [g1 index]; simp, rfl, rfl⟩
        | false => exact ⟨s, job, by simp, hl0, hg, hs, rfl⟩
      obtain ⟨s1, j1, e1, hl1, hg1, hs1, hp1⟩ := key
      rw [e1]
      refine ⟨update_suspends_current s1 job.pid index outcome j1 hl1 hg1 hs1 hf, ?_⟩
      obtain ⟨g1, _, _⟩ := update_get s1 job.pid index outcome j1 hl1 hg1
      exact ⟨{ j1 with state := outcome, changed := j1.changed || decide (j1.expected ≠ some outcome),
                       expected := none },
        by unfold JobList.get; rw [g1 index]; simp, rfl, hp1⟩
  · -- finished
    cases ha : job.state.isAlive with
    | false =>
      simp only [Bool.false_eq_true, if_false]
      unfold JobList.get
      rw [remove_gets]; simp
    | true =>
      simp only [ha, if_true] at hf ⊢
      simp only [hf, Bool.false_eq_true, if_false]
      unfold JobList.get
      rw [remove_gets]; simp

/-- ★ "If omitted, the built-in resumes the current job" (`bg.md`, `fg.md`), and an operand that is
    a job ID resumes the job `JobId::find` returns for it: with job control on, `bg` / `fg` without
    operands act on `current_job()`, with one job-ID operand on the job it designates -/
theorem bg_fg_target (s : JobList) (inter : Bool) (outcome : PState) :
    (∀ i, s.currentJob = some i →
      (bgBuiltin s true []).2 = (bgResume s i).2 ∧ (fgBuiltin s true inter outcome []).2 = (fgResume s i outcome).2) ∧
    (s.currentJob = none → (bgBuiltin s true []).2 = s ∧ (fgBuiltin s true inter outcome []).2 = s) ∧
    (∀ op id i, op.head? = some '%' → parseJobId op = some id → id.find s = .ok i →
      (bgBuiltin s true [op]).2 = (bgResume s i).2 ∧ (fgBuiltin s true inter outcome [op]).2 = (fgResume s i outcome).2) := by
  refine ⟨?_, ?_, ?_⟩
  · intro i hi
    constructor
    · simp only [bgBuiltin, parseArgs, hi, Bool.not_true, Bool.false_eq_true, if_false, List.isEmpty_nil, if_true]
      cases bgResume s i with
      | mk r s' => cases r <;> rfl
    · simp only [fgBuiltin, parseArgs, hi, Bool.not_true, Bool.false_eq_true, if_false]
      cases fgResume s i outcome with
      | mk r s' => cases r <;> rfl
  · intro hn
    constructor
    · simp [bgBuiltin, parseArgs, hn]
    · simp [fgBuiltin, parseArgs, hn]
  · intro op id i hop hid hfind
    cases op with
    | nil => simp at hop
    | cons c cs =>
      simp only [List.head?_cons, Option.some.injEq] at hop
      subst hop
      constructor
      · simp only [bgBuiltin, parseArgs_percent, Bool.not_true, Bool.false_eq_true, if_false, List.isEmpty_cons,
          bgLoop, bgResumeId, hid, hfind]
        cases bgResume s i with
        | mk r s' => cases r <;> rfl
      · simp only [fgBuiltin, parseArgs_percent, Bool.not_true, Bool.false_eq_true, if_false, hid, hfind]
        cases fgResume s i outcome with
        | mk r s' => cases r <;> rfl

/-! ### `cmd &` -/

/-- ★ after `name &` with child `pid` (fresh, or the pid of a finished job): `$!` is `pid`, and
    `pid` designates exactly the inserted job — running, named `name`, in the slot whose number the
    interactive shell prints — through the pid index (`wait $!`); the invariant holds -/
theorem amp_designates (s : JobList) (pid : Nat) (m i : Bool) (name : Str) (h : Inv s)
    (hpre : insertPre s pid = true) :
    let idx := (s.insert (asyncJob pid m name)).1
    let s' := (ampersand s pid m i name).2
    Inv s' ∧ s'.lastAsync = pid ∧ lookup s'.pids s'.lastAsync = some idx ∧
    s'.get idx = some (asyncJob pid m name) ∧
    (∀ k j, s'.get k = some j → j.pid = pid → k = idx) ∧
    (ampersand s pid m i name).1.errs =
      (if i then ["async:" ++ toString (idx + 1) ++ ":" ++ toString pid] else []) := by
  intro idx s'
  have hinv : Inv s' := ampersand_inv s pid m i name h hpre
  have hget : s'.get idx = some (asyncJob pid m name) := insert_get s (asyncJob pid m name) h
  have hla : s'.lastAsync = pid := rfl
  refine ⟨hinv, hla, ?_, hget, ?_, rfl⟩
  · rw [hla]; exact (hinv.p pid idx).mpr ⟨_, hget, rfl⟩
  · intro k j hk hp
    exact (consistent_of_inv s' hinv).pid_unique k idx j _ hk hget (by rw [hp]; rfl)

/-! ### a foreground job that was suspended (`handle_job_status`) -/

/-- ★ where `insert` puts a job that is already suspended (the doc comment of `JobList::insert`):
    it becomes the current job iff there is no current job or the current job is not suspended;
    otherwise the current job stays, and the new job becomes the previous job iff there is no
    previous job or the previous job is not suspended; otherwise both stay.
    (So the statement of docs/src/interactive/job_control.md "When a job is suspended, it becomes
    the current job" holds for `update_status` — `update_suspends_current` — but NOT for a
    foreground job suspended while another suspended job is the current job; see notes/C12.md.) -/
theorem insert_suspended_selection (s : JobList) (job : Job) (h : Inv s)
    (hpre : insertPre s job.pid = true) (hs : job.isSuspended = true) :
    let idx := (s.insert job).1
    let s' := (s.insert job).2
    ((∀ c jc, s.currentJob = some c → s.get c = some jc → jc.isSuspended = false) → s'.currentJob = some idx) ∧
    (∀ c jc, s.currentJob = some c → s.get c = some jc → jc.isSuspended = true →
      s'.currentJob = some c ∧
      ((∀ p jp, s.previousJob = some p → s.get p = some jp → jp.isSuspended = false) → s'.previousJob = some idx) ∧
      (∀ p jp, s.previousJob = some p → s.get p = some jp → jp.isSuspended = true → s'.previousJob = some p)) := by
  intro idx s'
  obtain ⟨G, hold, hcur, hprev⟩ := insert_shape s job h hpre
  obtain ⟨A, B⟩ := insert_sel_core (gets s.entries) (gets s'.entries) s.cur s.prev idx job G hold hs _ _
    (exCur_eq s) (exPrev_eq s) s'.cur s'.prev hcur hprev
  constructor
  · intro hnc
    have := A (by
      intro jc hjc
      exact hnc s.cur jc (by simp [JobList.currentJob, hjc]) hjc)
    show (if (gets s'.entries s'.cur).isSome = true then some s'.cur else none) = some idx
    rw [if_pos this.2.1, this.1]
  · intro c jc hc hgc hsc
    have hcc : c = s.cur := by
      unfold JobList.currentJob at hc
      split at hc
      · cases hc; rfl
      · cases hc
    subst hcc
    obtain ⟨b1, b2, b3, b4⟩ := B jc hgc hsc
    have hcj : s'.currentJob = some s.cur := by
      show (if (gets s'.entries s'.cur).isSome = true then some s'.cur else none) = some s.cur
      rw [if_pos b2, b1]
    refine ⟨hcj, ?_, ?_⟩
    · intro hnp
      have := b3 (by
        intro jp hne hjp
        exact hnp s.prev jp (by simp [JobList.previousJob, hne, hjp]) hjp)
      show (if s'.prev ≠ s'.cur ∧ (gets s'.entries s'.prev).isSome = true then some s'.prev else none) = some idx
      rw [if_pos ⟨this.2.1, this.2.2⟩, this.1]
    · intro p jp hp hgp hsp
      have hpp : p = s.prev ∧ s.prev ≠ s.cur := by
        unfold JobList.previousJob at hp
        split at hp
        · rename_i hh; cases hp; exact ⟨rfl, hh.1⟩
        · cases hp
      obtain ⟨e, hne⟩ := hpp
      subst e
      have := b4 jp hne hgp hsp
      show (if s'.prev ≠ s'.cur ∧ (gets s'.entries s'.prev).isSome = true then some s'.prev else none) = some s.prev
      rw [if_pos ⟨this.2.1, this.2.2⟩, this.1]

/-- ★ the documentation clause "When a job is suspended, it becomes the current job, and the previous
    current job becomes the previous job", characterised exactly in the model.
    `update_status` path (a job of the list goes from not suspended to suspended): always true.
    `insert` path (a job is entered already suspended, e.g. by `handle_job_status` for a foreground
    job): the new job is the current job IFF the current job was not suspended (or there was none),
    and then the former current job is the previous job.  So the clause fails exactly when a
    suspended job is inserted while the current job is suspended — the KNOWN FINDING of C12. -/
theorem doc_suspended_becomes_current (s : JobList) (h : Inv s) :
    (∀ pid idx st job, lookup s.pids pid = some idx → gets s.entries idx = some job →
      job.isSuspended = false → st.isStopped = true →
      (s.updateStatus pid st).2.currentJob = some idx ∧
      ∀ c, s.currentJob = some c → c ≠ idx → (s.updateStatus pid st).2.previousJob = some c) ∧
    (∀ job, insertPre s job.pid = true → job.isSuspended = true →
      ((s.insert job).2.currentJob = some (s.insert job).1 ↔
        ¬ ∃ c jc, s.currentJob = some c ∧ s.get c = some jc ∧ jc.isSuspended = true) ∧
      ((s.insert job).2.currentJob = some (s.insert job).1 →
        ∀ c, s.currentJob = some c → c ≠ (s.insert job).1 → (s.insert job).2.previousJob = some c)) := by
  constructor
  · intro pid idx st job hl hg hr hs
    exact ⟨update_suspends_current s pid idx st job hl hg hr hs,
      fun c hc hne => update_suspends_previous s pid idx st job hl hg hr hs c hc hne⟩
  · intro job hpre hs
    obtain ⟨G, hold, hcur, hprev⟩ := insert_shape s job h hpre
    obtain ⟨A, B⟩ := insert_sel_core (gets s.entries) (gets (s.insert job).2.entries) s.cur s.prev (s.insert job).1
      job G hold hs _ _ (exCur_eq s) (exPrev_eq s) (s.insert job).2.cur (s.insert job).2.prev hcur hprev
    obtain ⟨S1, S2⟩ := insert_suspended_selection s job h hpre hs
    -- the current job of `s`, if any, is `s.cur`
    have curOf : ∀ c, s.currentJob = some c → c = s.cur ∧ (gets s.entries s.cur).isSome = true := by
      intro c hc
      unfold JobList.currentJob at hc
      split at hc
      · rename_i hh; cases hc; exact ⟨rfl, hh⟩
      · cases hc
    by_cases hsus : ∃ c jc, s.currentJob = some c ∧ s.get c = some jc ∧ jc.isSuspended = true
    · obtain ⟨c, jc, hc, hgc, hsc⟩ := hsus
      have hkeep := (S2 c jc hc hgc hsc).1
      -- the slot of the new job did not hold a suspended job, so it is not `c`
      have hne : c ≠ (s.insert job).1 := by
        intro e
        rcases hold with hn | ⟨old, ho, hos⟩
        · rw [← e] at hn; unfold JobList.get at hgc; rw [hn] at hgc; cases hgc
        · rw [← e] at ho; unfold JobList.get at hgc; rw [ho] at hgc; cases hgc; rw [hos] at hsc; cases hsc
      constructor
      · constructor
        · intro hnew; rw [hkeep] at hnew; cases hnew; exact absurd rfl hne
        · intro hno; exact absurd ⟨c, jc, hc, hgc, hsc⟩ hno
      · intro hnew; rw [hkeep] at hnew; cases hnew; exact absurd rfl hne
    · have hnot : ∀ c jc, s.currentJob = some c → s.get c = some jc → jc.isSuspended = false := by
        intro c jc hc hgc
        cases hsc : jc.isSuspended with
        | false => rfl
        | true => exact absurd ⟨c, jc, hc, hgc, hsc⟩ hsus
      refine ⟨⟨fun _ => hsus, fun _ => S1 hnot⟩, ?_⟩
      intro _ c hc hne
      obtain ⟨e, hsome⟩ := curOf c hc
      subst e
      have := A (by
        intro jc hjc
        exact hnot s.cur jc hc hjc)
      obtain ⟨p1, p2, p3⟩ := this.2.2 hsome hne
      show (if (s.insert job).2.prev ≠ (s.insert job).2.cur ∧ (gets (s.insert job).2.entries (s.insert job).2.prev).isSome = true
            then some (s.insert job).2.prev else none) = some s.cur
      rw [if_pos ⟨p2, p3⟩, p1]

/-- ★ `handle_job_status`: a process result that is `Stopped` inserts the job (job-controlled, under
    the given name, in that state) and interrupts an interactive shell; any other result leaves the
    table alone, and interrupts only for `SIGINT` in an interactive shell -/
theorem hjs_table (s : JobList) (pid : Nat) (r : PState) (i : Bool) (name : Str) :
    (r.isStopped = true →
      handleJobStatus s pid r i name =
        ((i, r.exitStatus), (s.insert { pid := pid, state := r, jc := true, name := name }).2)) ∧
    (r.isStopped = false →
      (handleJobStatus s pid r i name).2 = s ∧
      ((handleJobStatus s pid r i name).1.1 = true ↔ i = true ∧ ∃ core, r = .signaled 2 core)) := by
  unfold handleJobStatus
  constructor
  · intro hr; simp [hr]
  · intro hr
    simp only [hr, Bool.false_eq_true, if_false, true_and]
    cases r <;> simp

/-- ★ `jobs` whose report cannot be written reports the failure and does not touch the table
    ("Remove finished jobs and mark reported jobs as reported only if there was no error") -/
theorem jobs_closed (s : JobList) (args : List Str)
    (h0 : (jobsBuiltin s args).1.status = 0) (hne : (jobsBuiltin s args).1.stdout ≠ []) :
    jobsClosed s args = ({ status := 1, errs := ["stdout"] }, s) := by
  unfold jobsClosed
  simp [h0, hne]

/-- ★ the interactive flag changes the result of `fg`, never the table -/
theorem fg_interactive_table (s : JobList) (m : Bool) (outcome : PState) (args : List Str) :
    (fgBuiltin s m true outcome args).2 = (fgBuiltin s m false outcome args).2 := by
  unfold fgBuiltin
  cases parseArgs [] args with
  | none => rfl
  | some r =>
    obtain ⟨opts, operands⟩ := r
    simp only
    cases m with
    | false => rfl
    | true =>
      simp only [Bool.not_true, Bool.false_eq_true, if_false]
      split
      · rfl
      · rename_i index _
        cases fgResume s index outcome with
        | mk r s' => cases r <;> rfl

/-! ### `wait` -/

/-- ★ `wait` removes a job only by `job_status`: every slot is vacant afterwards or holds the job
    (same pid) it held before, `$!` is untouched and the invariant holds -/
theorem wait_table (s : JobList) (args : List Str) (h : Inv s) :
    Inv (waitBuiltin s args).2 ∧ Sub s (waitBuiltin s args).2 ∧
    (waitBuiltin s args).2.lastAsync = s.lastAsync :=
  ⟨waitBuiltin_inv s args h, waitBuiltin_sub s args, waitBuiltin_lastAsync s args⟩

/-- ★ one `job_status` step of `wait`: a job is removed exactly when it is disowned or finished,
    and then the exit status is 127 resp. the job's; an owned job that is alive stays (`Continue`) -/
theorem wait_job_status (s : JobList) (index : Nat) (job : Job) (hg : gets s.entries index = some job) :
    (job.owned = false → jobStatus s index = (some 127, (s.remove index).2)) ∧
    (job.owned = true → job.state.isAlive = false →
      jobStatus s index = (some job.state.exitStatus, (s.remove index).2)) ∧
    (job.owned = true → job.state.isAlive = true → jobStatus s index = (none, s)) := by
  unfold jobStatus
  simp only [hg]
  refine ⟨?_, ?_, ?_⟩
  · intro ho; simp [ho]
  · intro ho ha; simp [ho, ha]
  · intro ho ha; simp [ho, ha]

/-! ### the hypotheses are met by non-trivial histories -/

/-- three named jobs (one suspended, one finished), then `jobs`, `bg %-`, `fg`, `sleep &`, `wait`:
    the history satisfies `PathPre`, the table stays consistent and the built-ins do real work -/
def builtinHistory : List Op :=
  [.insertJob 101 .running true "ab".toList, .insertJob 102 (.stopped 120) true "abc".toList,
   .insertJob 103 (.exited 3) true "b".toList, .jobs [], .bg true ["%-".toList],
   .fg true false (.stopped 116) [], .amp 104 true true "a".toList, .update 101 (.exited 0), .wait ["%1".toList]]

example : PathPre JobList.empty builtinHistory := by
  simp [builtinHistory, PathPre]
  decide

example :
    invB (run JobList.empty builtinHistory) = true ∧ (run JobList.empty builtinHistory).len = 2 ∧
    (run JobList.empty builtinHistory).lastAsync = 104 := by
  decide

/-- `jobs` on the first three jobs prints the three lines with `-`, `+` and no marker, and removes
    the finished job only -/
example :
    let s := run JobList.empty (builtinHistory.take 3)
    (jobsBuiltin s []).1.stdout =
      ("[1] - Running              ab\n[2] + Stopped(SIGTSTP)     abc\n[3]   Done(3)              b\n").toList ∧
    (jobsBuiltin s []).2.len = 2 := by
  decide

/-- hypotheses of `bg_resumed` / `fg_result` / `amp_designates` on that table -/
example :
    let s := run JobList.empty (builtinHistory.take 3)
    (∃ job, gets s.entries 1 = some job ∧ job.owned = true ∧ job.jc = true ∧ job.state.isAlive = true) ∧
    insertPre s 104 = true := by
  decide

end YashModel.Job
