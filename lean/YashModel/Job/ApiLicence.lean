/-
  Wave 3, third pass — helper lemmas for `api_licences_on_model`: the Spec-column checks of the wave-3 operations
  (`docCheckApi`: `removalSpec`, `reportOneSpec`, `sameTable`) hold on every step of the model.
-/
import YashModel.Job.ApiTheorems
namespace YashModel.Job

theorem matchingIdx_sorted (es : Slab) (p : Job → Bool) (off : Nat) : (matchingIdx es p off).Pairwise (· < ·) := by
  induction es generalizing off with
  | nil => simp [matchingIdx]
  | cons o t ih =>
    cases o with
    | none => simp only [matchingIdx]; exact ih _
    | some j =>
      simp only [matchingIdx]
      split
      · refine List.pairwise_cons.mpr ⟨fun a ha => ?_, ih _⟩
        have := ((mem_matchingIdx t p (off + 1) a).mp ha).1
        omega
      · exact ih _

theorem mem_selectedIdx (s : JobList) (pred : Nat → Job → Bool) (i : Nat) :
    i ∈ selectedIdx s pred ↔ Selected s pred i := by
  unfold selectedIdx occupied Selected
  rw [List.mem_filter, mem_matchingIdx]
  constructor
  · rintro ⟨⟨_, j, hj, _⟩, hp⟩
    simp only [Nat.sub_zero] at hj
    rw [hj] at hp
    exact ⟨j, hj, hp⟩
  · rintro ⟨j, hj, hp⟩
    refine ⟨⟨Nat.zero_le _, j, by simpa using hj, rfl⟩, ?_⟩
    rw [hj]; exact hp

theorem selectedIdx_sorted (s : JobList) (pred : Nat → Job → Bool) : (selectedIdx s pred).Pairwise (· < ·) :=
  (matchingIdx_sorted _ _ _).filter _

/-- strictly ascending lists with the same members are the same list -/
theorem sorted_ext : ∀ (l1 l2 : List Nat), l1.Pairwise (· < ·) → l2.Pairwise (· < ·) →
    (∀ k, k ∈ l1 ↔ k ∈ l2) → l1 = l2
  | [], [], _, _, _ => rfl
  | [], b :: _, _, _, h => by have := (h b).mpr (List.mem_cons_self ..); simp at this
  | a :: _, [], _, _, h => by have := (h a).mp (List.mem_cons_self ..); simp at this
  | a :: t1, b :: t2, h1, h2, h => by
    obtain ⟨ha, ht1⟩ := List.pairwise_cons.mp h1
    obtain ⟨hb, ht2⟩ := List.pairwise_cons.mp h2
    have hab : a = b := by
      have m1 := (h a).mp (List.mem_cons_self ..)
      have m2 := (h b).mpr (List.mem_cons_self ..)
      rcases List.mem_cons.mp m1 with e | m1
      · exact e
      · rcases List.mem_cons.mp m2 with e | m2
        · exact e.symm
        · have := hb a m1; have := ha b m2; omega
    subst hab
    congr 1
    refine sorted_ext t1 t2 ht1 ht2 (fun k => ?_)
    constructor
    · intro hk
      rcases List.mem_cons.mp ((h k).mp (List.mem_cons_of_mem _ hk)) with e | m
      · have := ha k hk; omega
      · exact m
    · intro hk
      rcases List.mem_cons.mp ((h k).mpr (List.mem_cons_of_mem _ hk)) with e | m
      · have := hb k hk; omega
      · exact m

/-- the drained iterator yields `selectedIdx` -/
theorem removeIf_returns_selectedIdx (s : JobList) (pred : Nat → Job → Bool) (report : Bool) :
    (s.removeIf pred report).1 = selectedIdx s pred := by
  obtain ⟨hm, hs⟩ := removeIf_result s pred report
  exact sorted_ext _ _ hs (selectedIdx_sorted s pred) (fun k => by rw [hm, mem_selectedIdx])

theorem contains_selectedIdx (s : JobList) (pred : Nat → Job → Bool) (i : Nat) (j : Job)
    (hj : gets s.entries i = some j) : (selectedIdx s pred).contains i = pred i j := by
  cases hp : pred i j with
  | true => exact List.contains_iff_mem.mpr ((mem_selectedIdx s pred i).mpr ⟨j, hj, hp⟩)
  | false =>
    apply Bool.eq_false_iff.mpr
    intro hc
    obtain ⟨j', hj', hp'⟩ := (mem_selectedIdx s pred i).mp (List.contains_iff_mem.mp hc)
    rw [hj] at hj'; cases hj'; rw [hp] at hp'; cases hp'

theorem slotsOk_of (s s' : JobList) (sel : List Nat) (report : Bool) (visited : Nat → Bool)
    (h : ∀ i, gets s'.entries i = match gets s.entries i with
        | none => none
        | some j => if sel.contains i then none
                    else some (if report && visited i then { j with changed := false } else j)) :
    slotsOk s s' sel report visited = true := by
  unfold slotsOk
  rw [List.all_eq_true]
  intro i _
  rw [h i]
  exact beq_self_eq_true _

theorem curRule_of (s s' : JobList) (sel : List Nat)
    (h1 : ∀ c, s.currentJob = some c → sel.contains c = false → s'.currentJob = some c)
    (h2 : ∀ c p, s.currentJob = some c → sel.contains c = true → s.previousJob = some p → sel.contains p = false →
        s'.currentJob = some p)
    (h3 : ∀ c p, s.currentJob = some c → sel.contains c = false → s.previousJob = some p → sel.contains p = false →
        s'.previousJob = some p) :
    curRule s s' sel = none := by
  unfold curRule
  cases hcur : s.currentJob with
  | none => rfl
  | some c =>
    simp only
    cases hc : sel.contains c with
    | false =>
      simp only [Bool.not_false, if_true, h1 c hcur hc, bne_self_eq_false, Bool.false_eq_true, if_false]
      cases hprev : s.previousJob with
      | none => rfl
      | some p =>
        simp only
        cases hp : sel.contains p with
        | true => simp
        | false => simp [h3 c p hcur hc hprev hp]
    | true =>
      simp only [Bool.not_true, Bool.false_eq_true, if_false]
      cases hprev : s.previousJob with
      | none => rfl
      | some p =>
        simp only
        cases hp : sel.contains p with
        | true => simp
        | false => simp [h2 c p hcur hc hprev hp]

/-- the current / previous clauses of `remove_if_effect` in the form `curRule` wants, for any list `sel` that
    agrees with the predicate on the occupied slots -/
theorem curRule_drain (s : JobList) (pred : Nat → Job → Bool) (report : Bool) (h : Inv s) (sel : List Nat)
    (hsel : ∀ i j, gets s.entries i = some j → sel.contains i = pred i j) :
    curRule s (s.removeIf pred report).2 sel = none := by
  obtain ⟨_, _, _, _, hc1, hc2, hc3, _⟩ := remove_if_effect s pred report h
  simp only [JobList.removeIfDrop] at hc1 hc2 hc3
  apply curRule_of
  · intro c hcur hc
    obtain ⟨_, jc, hjc⟩ := (currentJob_eq_some s c).mp hcur
    exact hc1 c jc hcur hjc (by rw [← hsel c jc hjc]; exact hc)
  · intro c p hcur hc hprev hp
    obtain ⟨_, jc, hjc⟩ := (currentJob_eq_some s c).mp hcur
    obtain ⟨_, _, jp, hjp⟩ := (previousJob_eq_some s p).mp hprev
    exact hc2 c jc p jp hcur hjc (by rw [← hsel c jc hjc]; exact hc) hprev hjp (by rw [← hsel p jp hjp]; exact hp)
  · intro c p hcur hc hprev hp
    obtain ⟨_, jc, hjc⟩ := (currentJob_eq_some s c).mp hcur
    obtain ⟨_, _, jp, hjp⟩ := (previousJob_eq_some s p).mp hprev
    exact hc3 c jc p jp hcur hjc (by rw [← hsel c jc hjc]; exact hc) hprev hjp (by rw [← hsel p jp hjp]; exact hp)

theorem removalSpec_drain (s : JobList) (pred : Nat → Job → Bool) (report : Bool) (h : Inv s)
    (ret : Option (List Nat)) (hret : ret = none ∨ ret = some (selectedIdx s pred)) :
    removalSpec s (s.removeIf pred report).2 pred report none ret = none := by
  obtain ⟨_, _, hslot, hla, _⟩ := remove_if_effect s pred report h
  simp only [JobList.removeIfDrop] at hslot hla
  unfold removalSpec
  simp only
  rw [slotsOk_of, curRule_drain s pred report h _ (contains_selectedIdx s pred)]
  · have hret' : (ret.isSome && ret != some (selectedIdx s pred)) = false := by
      rcases hret with rfl | rfl <;> simp
    simp [hret', hla]
  · intro i
    have := hslot i
    unfold JobList.get at this
    rw [this]
    cases hg : gets s.entries i with
    | none => rfl
    | some j => simp only [contains_selectedIdx s pred i j hg, visitedAt, Bool.and_true]

theorem sameTable_refl (a : JobList) : sameTable a a = true := by
  unfold sameTable
  simp

theorem reportOneSpec_model (s : JobList) (i : Nat) (h : Inv s) : reportOneSpec s (s.reportOne i) i = true := by
  obtain ⟨_, hc, hp, hl, hg⟩ := report_one_effect s i h
  unfold reportOneSpec
  simp only [hc, hp, hl, beq_self_eq_true, Bool.and_true]
  rw [List.all_eq_true]
  intro k _
  have := hg k
  unfold JobList.get at this
  rw [this]
  exact beq_self_eq_true _

theorem mem_selS_pure (p : Nat → Job → Bool) (es : Slab) (off k : Nat) :
    k ∈ selS (fun (_ : Unit) i j => (p i j, ())) () es off ↔ off ≤ k ∧ ∃ j, gets es (k - off) = some j ∧ p k j = true := by
  induction es generalizing off with
  | nil => simp [selS, gets_nil]
  | cons o t ih =>
    have shift : ∀ (o : Option Job), off + 1 ≤ k → gets (o :: t) (k - off) = gets t (k - (off + 1)) := by
      intro o hle
      have : k - off = (k - (off + 1)) + 1 := by omega
      rw [this, gets_cons_succ]
    cases o with
    | none =>
      simp only [selS]
      rw [ih]
      constructor
      · rintro ⟨hle, j, hj, hp⟩; exact ⟨by omega, j, by rw [shift _ hle]; exact hj, hp⟩
      · rintro ⟨hle, j, hj, hp⟩
        by_cases he : k = off
        · subst he; simp [gets_cons_zero] at hj
        · have hle' : off + 1 ≤ k := by omega
          exact ⟨hle', j, by rw [← shift _ hle']; exact hj, hp⟩
    | some j0 =>
      simp only [selS]
      by_cases hp0 : p off j0 = true
      · simp only [hp0, if_true, List.mem_cons]
        rw [ih]
        constructor
        · rintro (rfl | ⟨hle, j, hj, hp⟩)
          · exact ⟨Nat.le_refl _, j0, by simp [gets_cons_zero], hp0⟩
          · exact ⟨by omega, j, by rw [shift _ hle]; exact hj, hp⟩
        · rintro ⟨hle, j, hj, hp⟩
          by_cases he : k = off
          · exact Or.inl he
          · have hle' : off + 1 ≤ k := by omega
            exact Or.inr ⟨hle', j, by rw [← shift _ hle']; exact hj, hp⟩
      · simp only [hp0, Bool.false_eq_true, if_false]
        rw [ih]
        constructor
        · rintro ⟨hle, j, hj, hp⟩; exact ⟨by omega, j, by rw [shift _ hle]; exact hj, hp⟩
        · rintro ⟨hle, j, hj, hp⟩
          by_cases he : k = off
          · subst he
            simp [gets_cons_zero] at hj
            subst hj; exact absurd hp hp0
          · have hle' : off + 1 ≤ k := by omega
            exact ⟨hle', j, by rw [← shift _ hle']; exact hj, hp⟩

theorem selS_pure_sorted (p : Nat → Job → Bool) (es : Slab) (off : Nat) :
    (selS (fun (_ : Unit) i j => (p i j, ())) () es off).Pairwise (· < ·) := by
  induction es generalizing off with
  | nil => simp [selS]
  | cons o t ih =>
    cases o with
    | none => simp only [selS]; exact ih _
    | some j =>
      simp only [selS]
      split
      · refine List.pairwise_cons.mpr ⟨fun a ha => ?_, ih _⟩
        have := selS_ge _ _ _ _ _ ha
        omega
      · exact ih _

/-- one run of a pure closure over the table selects `selectedIdx` -/
theorem selS_pure_eq (s : JobList) (p : Nat → Job → Bool) :
    selS (fun (_ : Unit) i j => (p i j, ())) () s.entries 0 = selectedIdx s p :=
  sorted_ext _ _ (selS_pure_sorted p _ 0) (selectedIdx_sorted s p) (fun k => by
    rw [mem_selS_pure, mem_selectedIdx]; simp [Selected])

/-- the conclusion of `extractLoopN_cut` for a result `(l, r)` -/
def CutAt (s : JobList) (pred : Nat → Job → Bool) (report : Bool) (total : Nat) (l : List Nat) (r : JobList) : Prop :=
  ∃ k len', LoopInv s pred report k len' r ∧ (∀ x, x ∈ l ↔ Hit s pred k x) ∧
    ((l = [] ∧ k = 0 ∧ total = 0) ∨
     ((∀ i, k ≤ i → gets s.entries i = none) ∧ l.length < total) ∨
     (l.getLast? = some (k - 1) ∧ 1 ≤ k ∧ l.length = total))

theorem cutAt_budget (s : JobList) (pred : Nat → Job → Bool) (report : Bool) (idx len : Nat) (t : JobList)
    (acc : List Nat) (L : LoopInv s pred report idx len t) (hacc : ∀ k, k ∈ acc ↔ Hit s pred idx k)
    (hlast : (acc = [] ∧ idx = 0) ∨ (∃ a rest, acc = a :: rest ∧ idx = a + 1)) :
    CutAt s pred report (acc.length + 0) acc.reverse t := by
  refine ⟨idx, len, L, fun x => by rw [List.mem_reverse, hacc], ?_⟩
  rcases hlast with ⟨h1, h2⟩ | ⟨a, rest, h1, h2⟩
  · subst h1; subst h2; exact Or.inl ⟨rfl, rfl, rfl⟩
  · subst h1
    refine Or.inr (Or.inr ⟨?_, by omega, by simp⟩)
    simp [h2]

theorem cutAt_end (s : JobList) (pred : Nat → Job → Bool) (report : Bool) (n idx len : Nat) (t : JobList)
    (acc : List Nat) (L : LoopInv s pred report idx len t) (hacc : ∀ k, k ∈ acc ↔ Hit s pred idx k)
    (hn : 0 < n) (hend : ∀ i, idx ≤ i → gets s.entries i = none) :
    CutAt s pred report (acc.length + n) acc.reverse t :=
  ⟨idx, len, L, fun x => by rw [List.mem_reverse, hacc], Or.inr (Or.inl ⟨hend, by rw [List.length_reverse]; omega⟩)⟩

/-- where an iterator advanced `n` more times stops, what it has yielded, and the loop invariant there -/
theorem extractLoopN_cut (s : JobList) (pred : Nat → Job → Bool) (report : Bool) (fuel n idx len : Nat) (t : JobList)
    (acc : List Nat) (L : LoopInv s pred report idx len t) (hf : s.entries.length + 1 ≤ fuel + idx)
    (hacc : ∀ k, k ∈ acc ↔ Hit s pred idx k)
    (hlast : n = 0 → (acc = [] ∧ idx = 0) ∨ (∃ a rest, acc = a :: rest ∧ idx = a + 1)) :
    CutAt s pred report (acc.length + n) (extractLoopN pred report fuel n idx len t acc).1
      (extractLoopN pred report fuel n idx len t acc).2 := by
  induction fuel generalizing n idx len t acc with
  | zero =>
    unfold extractLoopN
    by_cases hn : n = 0
    · subst hn; exact cutAt_budget s pred report idx len t acc L hacc (hlast rfl)
    · exact cutAt_end s pred report n idx len t acc L hacc (by omega) (fun i hi => gets_ge _ _ (by omega))
  | succ fuel ih =>
    cases n with
    | zero => unfold extractLoopN; exact cutAt_budget s pred report idx len t acc L hacc (hlast rfl)
    | succ n =>
    cases len with
    | zero =>
      unfold extractLoopN
      refine cutAt_end s pred report (n + 1) idx 0 t acc L hacc (by omega) (fun i hi => ?_)
      rw [← L.hi i hi]
      exact slabLen_drop_zero _ _ L.cnt.symm i hi
    | succ len =>
      unfold extractLoopN
      cases hg : gets t.entries idx with
      | none =>
        simp only
        have hs : gets s.entries idx = none := by rw [← L.hi idx (Nat.le_refl _)]; exact hg
        exact ih _ _ _ _ _ (L.skip hg) (by omega)
          (fun k => by rw [hacc, hit_succ_skip s pred idx (fun j hj => by rw [hs] at hj; cases hj)])
          (fun h => by omega)
      | some j =>
        simp only
        have hs : gets s.entries idx = some j := by rw [← L.hi idx (Nat.le_refl _)]; exact hg
        cases hp : pred idx j with
        | true =>
          simp only [if_true]
          have := ih n (idx + 1) len _ (idx :: acc) (L.drop hg hp) (by omega)
            (fun k => by
              rw [List.mem_cons, hit_succ_drop s pred idx j hs hp, hacc]
              constructor
              · rintro (h | h)
                · exact Or.inr h
                · exact Or.inl h
              · rintro (h | h)
                · exact Or.inr h
                · exact Or.inl h)
            (fun _ => Or.inr ⟨idx, acc, rfl, rfl⟩)
          rw [List.length_cons, Nat.add_assoc, Nat.add_comm 1 n] at this
          exact this
        | false =>
          simp only [Bool.false_eq_true, if_false]
          exact ih _ _ _ _ _ (L.keep hg hp) (by omega)
            (fun k => by rw [hacc, hit_succ_skip s pred idx (fun j' hj' => by rw [hs] at hj'; cases hj'; exact hp)])
            (fun h => by omega)

theorem removalSpec_take (s : JobList) (n : Nat) (pred : Nat → Job → Bool) (report : Bool) :
    removalSpec s (s.extractTake n pred report).2 pred report (some n) (some (s.extractTake n pred report).1) = none := by
  have hcut := extractLoopN_cut s pred report (s.entries.length + 1) n 0 s.len s []
    (LoopInv.init s pred report) (by omega) (fun k => by simp [Hit]) (fun _ => Or.inl ⟨rfl, rfl⟩)
  have hret : (s.extractTake n pred report).1 = (selectedIdx s pred).take n := by
    rw [extract_take_returns, removeIf_returns_selectedIdx]
  have hla : (s.extractTake n pred report).2.lastAsync = s.lastAsync := extractLoopN_lastAsync _ _ _ _ _ _ _ _
  unfold JobList.extractTake at hret hla ⊢
  generalize extractLoopN pred report (s.entries.length + 1) n 0 s.len s [] = r at hcut hret hla ⊢
  obtain ⟨l, s'⟩ := r
  simp only [List.length_nil, Nat.zero_add] at hcut hret hla ⊢
  obtain ⟨k, len', L, hmem, hcase⟩ := hcut
  subst hret
  -- membership in the yielded list
  have hcont : ∀ i, ((selectedIdx s pred).take n).contains i = true ↔ Hit s pred k i := by
    intro i; rw [List.contains_iff_mem]; exact hmem i
  -- where the Spec thinks the iterator stopped
  have hvis : (∀ i, i < k → visitedAt (takeCut (selectedIdx s pred) n) i = true) ∧
      (∀ i, k ≤ i → gets s.entries i = none ∨
        visitedAt (takeCut (selectedIdx s pred) n) i = false) := by
    rcases hcase with ⟨_, hk, hn⟩ | ⟨hend, hlen⟩ | ⟨hlast, hk, hlen⟩
    · subst hk; subst hn
      exact ⟨fun i hi => by omega, fun i _ => Or.inr (by simp [takeCut, visitedAt])⟩
    · have hlt : (selectedIdx s pred).length < n := by
        rw [List.length_take] at hlen; omega
      have hn : n ≠ 0 := by omega
      have : takeCut (selectedIdx s pred) n = none := by simp [takeCut, hn, hlt]
      rw [this]
      exact ⟨fun _ _ => rfl, fun i hi => Or.inl (hend i hi)⟩
    · have hn : n ≠ 0 := by
        intro h0; subst h0; simp at hlast
      have hge : ¬ (selectedIdx s pred).length < n := by
        rw [List.length_take] at hlen; omega
      have : takeCut (selectedIdx s pred) n = some k := by
        simp only [takeCut, hn, hge, if_false, hlast, Option.map_some]
        congr 1; omega
      rw [this]
      exact ⟨fun i hi => by simpa [visitedAt] using hi, fun i hi => Or.inr (by simp [visitedAt]; omega)⟩
  have hsurv : ∀ i j, gets s.entries i = some j → ¬ Hit s pred k i → ∃ j', gets s'.entries i = some j' := by
    intro i j hj hn
    by_cases hi : i < k
    · have := L.lo i hi
      rw [hj] at this
      have hp : pred i j = false := by
        cases hp : pred i j with
        | false => rfl
        | true => exact absurd ⟨hi, j, hj, hp⟩ hn
      simp only [procSlot, hp, Bool.false_eq_true, if_false] at this
      exact ⟨_, this⟩
    · exact ⟨j, by rw [L.hi i (by omega)]; exact hj⟩
  unfold removalSpec
  simp only
  rw [slotsOk_of, curRule_of]
  · simp [hla]
  · intro c hcur hc
    obtain ⟨hcc, jc, hjc⟩ := (currentJob_eq_some s c).mp hcur
    have hn : ¬ Hit s pred k c := fun hh => by rw [(hcont c).mpr hh] at hc; cases hc
    rw [currentJob_eq_some]
    exact ⟨by rw [L.curKeep (by rw [hcc]; exact hn), hcc], hsurv c jc hjc hn⟩
  · intro c p hcur hc hprev hp
    obtain ⟨hcc, jc, hjc⟩ := (currentJob_eq_some s c).mp hcur
    obtain ⟨hpp, _, jp, hjp⟩ := (previousJob_eq_some s p).mp hprev
    have hn : ¬ Hit s pred k p := fun hh => by rw [(hcont p).mpr hh] at hp; cases hp
    rw [currentJob_eq_some]
    exact ⟨by rw [L.curMoved (by rw [hcc]; exact (hcont c).mp hc) (by rw [hpp]; exact hn), hpp], hsurv p jp hjp hn⟩
  · intro c p hcur hc hprev hp
    obtain ⟨hcc, jc, hjc⟩ := (currentJob_eq_some s c).mp hcur
    obtain ⟨hpp, hne, jp, hjp⟩ := (previousJob_eq_some s p).mp hprev
    have hn : ¬ Hit s pred k c := fun hh => by rw [(hcont c).mpr hh] at hc; cases hc
    have hn' : ¬ Hit s pred k p := fun hh => by rw [(hcont p).mpr hh] at hp; cases hp
    have e1 := L.curKeep (by rw [hcc]; exact hn)
    have e2 := L.prevKeep (by rw [hcc]; exact hn) (by rw [hpp]; exact hn')
    rw [previousJob_eq_some]
    exact ⟨by rw [e2, hpp], by rw [e1, e2]; exact hne, hsurv p jp hjp hn'⟩
  · intro i
    by_cases hi : i < k
    · rw [L.lo i hi]
      cases hg : gets s.entries i with
      | none => rfl
      | some j =>
        have hc : ((selectedIdx s pred).take n).contains i = pred i j := by
          cases hp : pred i j with
          | true => exact (hcont i).mpr ⟨hi, j, hg, hp⟩
          | false =>
            apply Bool.eq_false_iff.mpr
            intro hh
            obtain ⟨_, j', hj', hp'⟩ := (hcont i).mp hh
            rw [hg] at hj'; cases hj'; rw [hp] at hp'; cases hp'
        simp only [procSlot, hc]
        rw [hvis.1 i hi, Bool.and_true]
    · rw [L.hi i (by omega)]
      cases hg : gets s.entries i with
      | none => rfl
      | some j =>
        have hc : ((selectedIdx s pred).take n).contains i = false := by
          apply Bool.eq_false_iff.mpr
          intro hh
          exact hi ((hcont i).mp hh).1
        rcases hvis.2 i (by omega) with hnone | hv
        · rw [hg] at hnone; cases hnone
        · simp only [hc]
          rw [hv]
          simp

end YashModel.Job
