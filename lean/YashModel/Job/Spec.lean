/-
  Spec for C12: the consistency conditions of the property text as a decidable check on a job
  list (used by the driver to print the verdict on the model's own run), plus the precondition on
  `insert` (a live child's pid cannot be handed out again by the OS).
-/
import YashModel.Job.Model
namespace YashModel.Job

/-- indices of occupied slots -/
def occupied (es : Slab) : List Nat := matchingIdx es (fun _ => true) 0

def suspendedIdx (es : Slab) : List Nat := matchingIdx es (·.isSuspended) 0

def pidsOf (es : Slab) : List Nat := es.filterMap (fun o => o.map (·.pid))

def nodupB : List Nat → Bool
  | [] => true
  | a :: t => !t.contains a && nodupB t

/-- the five clauses of the property statement, evaluated through the public view
    (`currentJob`, `previousJob`, iteration, `find_by_pid`) -/
def invB (s : JobList) : Bool :=
  let occ := occupied s.entries
  let sus := suspendedIdx s.entries
  -- a non-empty table has a current job
  (occ.isEmpty || s.currentJob.isSome) &&
  -- two or more jobs imply a previous job distinct from it
  (occ.length < 2 || (s.previousJob.isSome && s.previousJob ≠ s.currentJob)) &&
  -- whenever suspended jobs exist the current job is suspended
  (sus.isEmpty || (match s.currentJob with | some c => sus.contains c | none => false)) &&
  -- with two or more the previous job is too
  (sus.length < 2 || (match s.previousJob with | some p => sus.contains p | none => false)) &&
  -- each process ID designates at most one job, and the pid index agrees with the table
  nodupB (pidsOf s.entries) &&
  occ.all (fun i => match gets s.entries i with
                    | some j => lookup s.pids j.pid == some i
                    | none => false)

/-- `Pre (insert j)`: pid fresh or designating a job that is not alive -/
def insertPre (s : JobList) (pid : Nat) : Bool :=
  match lookup s.pids pid with
  | none => true
  | some i => match gets s.entries i with
    | some j => !j.state.isAlive
    | none => true

def opPre (s : JobList) : Op → Bool
  | .insert pid _ => insertPre s pid
  | _ => true

/-- "a job's number never changes while the job exists": every pid present before is, after the
    step, either at the same index or absent. -/
def stableB (s s' : JobList) : Bool :=
  (occupied s.entries).all fun i =>
    match gets s.entries i with
    | none => true
    | some j =>
      (match gets s'.entries i with
       | some j' => j'.pid == j.pid
       | none => false) || !(pidsOf s'.entries).contains j.pid

end YashModel.Job
