/-
  Spec for C12: the consistency conditions of the property text as a decidable check on a job
  list (used by the driver to print the verdict on the model's own run), plus the precondition on
  `insert` (a live child's pid cannot be handed out again by the OS).
-/
import YashModel.Job.Model
import YashModel.Job.Builtins
namespace YashModel.Job

/-- indices of occupied slots -/
def occupied (es : Slab) : List Nat := matchingIdx es (fun _ => true) 0

def suspendedIdx (es : Slab) : List Nat := matchingIdx es (·.isSuspended) 0

def pidsOf (es : Slab) : List Nat := es.filterMap (fun o => o.map (·.pid))

def nodupB : List Nat → Bool
  | [] => true
  | a :: t => !t.contains a && nodupB t

/-- the five clauses of the property statement, evaluated through the public view
    (`currentJob`, `previousJob`, iteration, `find_by_pid`) -/
def invB (s : JobList) : Bool :=
  let occ := occupied s.entries
  let sus := suspendedIdx s.entries
  -- a non-empty table has a current job
  (occ.isEmpty || s.currentJob.isSome) &&
  -- two or more jobs imply a previous job distinct from it
  (occ.length < 2 || (s.previousJob.isSome && s.previousJob ≠ s.currentJob)) &&
  -- whenever suspended jobs exist the current job is suspended
  (sus.isEmpty || (match s.currentJob with | some c => sus.contains c | none => false)) &&
  -- with two or more the previous job is too
  (sus.length < 2 || (match s.previousJob with | some p => sus.contains p | none => false)) &&
  -- each process ID designates at most one job, and the pid index agrees with the table
  nodupB (pidsOf s.entries) &&
  occ.all (fun i => match gets s.entries i with
                    | some j => lookup s.pids j.pid == some i
                    | none => false)

/-- `Pre (insert j)`: pid fresh or designating a job that is not alive -/
def insertPre (s : JobList) (pid : Nat) : Bool :=
  match lookup s.pids pid with
  | none => true
  | some i => match gets s.entries i with
    | some j => !j.state.isAlive
    | none => true

def opPre (s : JobList) : Op → Bool
  | .insert pid _ => insertPre s pid
  | .insertJob pid _ _ _ => insertPre s pid
  | .amp pid _ _ _ => insertPre s pid
  | .hjs pid r _ _ => !r.isStopped || insertPre s pid
  | .addJob pid _ => insertPre s pid
  | .ajs pid r _ _ => !r.isStopped || insertPre s pid
  | _ => true

/-- "a job's number never changes while the job exists": every pid present before is, after the
    step, either at the same index or absent. -/
def stableB (s s' : JobList) : Bool :=
  (occupied s.entries).all fun i =>
    match gets s.entries i with
    | none => true
    | some j =>
      (match gets s'.entries i with
       | some j' => j'.pid == j.pid
       | none => false) || !(pidsOf s'.entries).contains j.pid


/-! ### what the documentation says about job IDs, `jobs`, `bg`, `fg`, `cmd &`

  `docs/src/interactive/job_control.md` ("Job IDs", "Current and previous jobs"),
  `docs/src/builtins/{jobs,bg,fg}.md`, `docs/src/language/parameters/special.md` (`!`). -/

/-- indices of the jobs whose command string satisfies `p` -/
def jobsWhere (s : JobList) (p : List Char → Bool) : List Nat := matchingIdx s.entries (fun j => p j.name) 0

def uniqueOf : List Nat → Option Nat
  | [i] => some i
  | _ => none

/-- "Job IDs": `%`, `%%`, `%+` the current job; `%-` the previous job; `%n` job number `n`;
    `%foo` the job whose command string starts with `foo`; `%?foo` … contains `foo`.
    Outer `none`: not a job ID (no leading `%`).  Inner `none`: no such job, or not exactly one. -/
def docDesignates (s : JobList) (op : List Char) : Option (Option Nat) :=
  match op with
  | '%' :: t =>
    if t = [] ∨ t = ['%'] ∨ t = ['+'] then some s.currentJob
    else if t = ['-'] then some s.previousJob
    else match t with
      | '?' :: sub => some (uniqueOf (jobsWhere s (fun n => containsL n sub)))
      | _ =>
        if t.all isDigitC ∧ digitsVal t ≠ 0 then
          some (if (s.get (digitsVal t - 1)).isSome then some (digitsVal t - 1) else none)
        else some (uniqueOf (jobsWhere s (fun n => isPrefixOfL t n)))
  | _ => none

/-- the lines of a text: split at every `\n` (a text that ends with `\n` has an empty last line) -/
def splitLines : List Char → List (List Char)
  | [] => [[]]
  | c :: t =>
    if c = '\n' then [] :: splitLines t
    else match splitLines t with
      | l :: ls => (c :: l) :: ls
      | [] => [[c]]

/-- `[<digits>] <m>…` : the job number and the marker character of one report line -/
def headOf (l : List Char) : Option (Nat × Char) :=
  match l with
  | '[' :: r =>
    match r.dropWhile isDigitC with
    | ']' :: ' ' :: m :: _ => some (digitsVal (r.takeWhile isDigitC), m)
    | _ => none
  | _ => none

/-- the `(number, marker)` pairs of the lines of a `jobs` report (default and `-l` format);
    characterised by `reportHeads_jobsPrint` (ExtTheorems.lean) -/
def reportHeads (out : List Char) : List (Nat × Char) := (splitLines out).filterMap headOf

/-- "`jobs` output: the current job is marked with `+`, and the previous job with `-`" -/
def markersOk (s : JobList) (out : List Char) : Bool :=
  (reportHeads out).all fun (n, m) =>
    (m == '+') == (s.currentJob == some (n - 1)) && (m == '-') == (s.previousJob == some (n - 1)) &&
    (m == '+' || m == '-' || m == ' ')

/-- "When the built-in reports a finished job, it removes the job from the job list": the jobs
    reported (`idxs`) that were finished are gone, every other job is still at its index -/
def jobsRemovalOk (s s' : JobList) (idxs : List Nat) : Bool :=
  (occupied s.entries).all fun i =>
    match s.get i with
    | none => true
    | some j =>
      if idxs.contains i && !j.state.isAlive then (s'.get i).isNone
      else (match s'.get i with | some j' => j'.pid == j.pid && j'.state == j.state | none => false)

/-- "When a job is suspended, it becomes the current job, and the previous current job becomes the
    previous job" (job_control.md, "Current and previous jobs").  `becameSuspended s op` is the pid
    of the job that becomes suspended in the step `op` from `s`, with `true` if it is entered into
    the list already suspended (`insert`, also through `handle_job_status`) and `false` if a job of
    the list goes from not suspended to suspended (`update_status`). -/
def becameSuspended (s : JobList) : Op → Option (Nat × Bool)
  | .insert pid st => if st.isStopped then some (pid, true) else none
  | .insertJob pid st _ _ => if st.isStopped then some (pid, true) else none
  | .hjs pid r _ _ => if r.isStopped then some (pid, true) else none
  | .addJob pid st => if st.isStopped then some (pid, true) else none
  | .ajs pid r _ _ => if r.isStopped then some (pid, true) else none
  | .update pid st =>
    if st.isStopped then
      match (lookup s.pids pid).bind s.get with
      | some j => if j.isSuspended then none else some (pid, false)
      | none => none
    else none
  | _ => none

/-- the clause on the step `s → s'`: the job with that pid is the current job, and the job that
    was the current job (if it is another one and still in the list) is the previous job -/
def suspendedBecomesCurrent (s s' : JobList) (pid : Nat) : Bool :=
  match lookup s'.pids pid with
  | none => false
  | some j =>
    s'.currentJob == some j &&
    (match s.currentJob with
     | none => true
     | some c => c == j || (s'.get c).isNone || s'.previousJob == some c)

/-- the message of the KNOWN FINDING (KNOWN_FINDINGS.txt): the clause fails on the `insert` path -/
def knownInsertMsg : String := "doc-suspended-becomes-current@insert"

/-- every job of `s` other than the one in slot `except` is still in its slot, unchanged, and no slot
    of `s'` is new: the step touched at most the job in `except` -/
def othersUntouched (s s' : JobList) (except : Option Nat) : Bool :=
  ((occupied s.entries).all fun i => except == some i || s'.get i == s.get i) &&
  ((occupied s'.entries).all fun i => (s.get i).isSome)

/-- "`fg` … If the resumed job finishes, it is removed from the job list" and job_control.md "Job
    list": a job that terminated in the background stays in the list until `jobs` or `wait`
    retrieves its status.  So `fg` may touch only the job it resumes (`target`), and may remove it
    only if it ends in a state that is not alive (`final`). -/
def fgLicence (s s' : JobList) (target : Option Nat) (final : Option PState) : Bool :=
  othersUntouched s s' target &&
  (match target with
   | none => true
   | some t => (s'.get t).isSome || (s.get t).isNone || (match final with | some f => !f.isAlive | none => false))

/-- `bg` removes nothing and records no state change -/
def bgLicence (s s' : JobList) : Bool :=
  ((occupied s.entries).all fun i =>
    match s.get i, s'.get i with
    | some j, some j' => j'.pid == j.pid && j'.state == j.state
    | _, _ => false) &&
  ((occupied s'.entries).all fun i => (s.get i).isSome)

/-- `wait` removes only jobs that have finished or are not owned; every other job is untouched -/
def waitLicence (s s' : JobList) : Bool :=
  ((occupied s.entries).all fun i =>
    match s.get i with
    | none => true
    | some j => s'.get i == some j || ((s'.get i).isNone && (!j.state.isAlive || !j.owned))) &&
  ((occupied s'.entries).all fun i => (s.get i).isSome)

/-- the prompt report (`input::reporter::report`) removes nothing and touches only the `state_changed`
    flags: with `interactive` and `monitor` on every job is as before with the flag cleared, otherwise
    nothing differs; no slot is new -/
def promptLicence (s s' : JobList) (on : Bool) : Bool :=
  ((occupied s.entries).all fun i =>
    s'.get i == (if on then (s.get i).map (fun j => { j with changed := false }) else s.get i)) &&
  ((occupied s'.entries).all fun i => (s.get i).isSome)

/-- indices of the jobs whose state has changed since the last report -/
def changedIdx (s : JobList) : List Nat := matchingIdx s.entries (·.changed) 0

/-- `update_all_subshell_statuses` removes nothing and adds nothing: every slot holds the same pid, in
    the recorded state or in the state one of the events reports for that pid -/
def syncLicence (s s' : JobList) (evs : List Ev) : Bool :=
  ((occupied s.entries).all fun i =>
    match s.get i, s'.get i with
    | some j, some j' => j'.pid == j.pid && (j'.state == j.state || evs.contains (j.pid, j'.state))
    | _, _ => false) &&
  ((occupied s'.entries).all fun i => (s.get i).isSome)

/-- `wait` while the system reports `evs`: a job keeps its slot and pid (its state the recorded one or
    one an event reports for its pid), or it is gone — and then it was not owned, or had finished, or
    an event reports for its pid a state that is not alive; no slot is new -/
def waitEvLicence (s s' : JobList) (evs : List Ev) : Bool :=
  ((occupied s.entries).all fun i =>
    match s.get i with
    | none => true
    | some j =>
      match s'.get i with
      | some j' => j'.pid == j.pid && (j'.state == j.state || evs.contains (j.pid, j'.state))
      | none => !j.owned || !j.state.isAlive || evs.any (fun e => e.1 == j.pid && !e.2.isAlive)) &&
  ((occupied s'.entries).all fun i => (s.get i).isSome)

/-- "Signaling jobs": `kill %job` signals the process group of the job the job ID designates; the
    built-in refuses a job that is not owned, not job-controlled or finished -/
def killCheck (s : JobList) (arg : Str) : Option String :=
  match arg with
  | '%' :: _ =>
    (match killTarget s arg, ((docDesignates s arg).join).bind s.get with
     | .ok (true, p), some j =>
       if j.pid = p ∧ j.state.isAlive ∧ j.owned ∧ j.jc then none else some "kill-designation"
     | .ok _, _ => some "kill-designation"
     | .error e, none => if e = "nf" ∨ e = "amb" then none else some "kill-designation"
     | .error e, some j =>
       if e = "nf" ∨ e = "amb" then some "kill-designation"
       else if j.state.isAlive ∧ j.owned ∧ j.jc then some "kill-refused" else none)
  | _ => none

/-! ### wave 3: what the doc comments of `remove_if` / `extract_if` / `remove` / `add` / `state_reported` /
    `add_job_if_suspended` promise, as checks on one step `s → s'` -/

/-- the job numbers whose job the predicate selects, ascending ("Jobs are iterated in the order of indices") -/
def selectedIdx (s : JobList) (pred : Nat → Job → Bool) : List Nat :=
  (occupied s.entries).filter fun i => match gets s.entries i with | some j => pred i j | none => false

/-- slot by slot: a selected job is gone, any other job is the same job (`state_changed` cleared iff the closure
    reports and the iterator got that far), a vacant slot stays vacant -/
def slotsOk (s s' : JobList) (sel : List Nat) (report : Bool) (visited : Nat → Bool) : Bool :=
  (List.range (max s.entries.length s'.entries.length)).all fun i =>
    gets s'.entries i ==
      (match gets s.entries i with
       | none => none
       | some j => if sel.contains i then none
                   else some (if report && visited i then { j with changed := false } else j))

/-- `remove`: a current job that stays is still the current job; if it goes and the previous job stays, that one is
    the current job; if both stay the previous job stays -/
def curRule (s s' : JobList) (sel : List Nat) : Option String :=
  match s.currentJob with
  | none => none
  | some c =>
    if !sel.contains c then
      if s'.currentJob != some c then some "rmif-current"
      else match s.previousJob with
        | some p => if !sel.contains p && s'.previousJob != some p then some "rmif-previous" else none
        | none => none
    else match s.previousJob with
      | some p => if !sel.contains p && s'.currentJob != some p then some "rmif-current" else none
      | none => none

/-- where an iterator advanced `n` times stops: behind its `n`-th removal (`none`: it ran to the end) -/
def takeCut (selAll : List Nat) (n : Nat) : Option Nat :=
  if n = 0 then some 0 else if selAll.length < n then none else (selAll.take n).getLast?.map (· + 1)

/-- has the iterator got as far as slot `i`? -/
def visitedAt (cut : Option Nat) (i : Nat) : Bool :=
  match cut with | some c => decide (i < c) | none => true

/-- `remove_if` (`take = none`, `returned = none`), `extract_if` drained (`returned` = what the iterator yielded)
    or advanced `n` times and dropped (`take = some n`): the selected jobs (the first `n` of them) are gone and are
    what was yielded; every other job is in its slot unchanged, `state_changed` cleared iff the closure reports
    and the iterator got that far ("the remaining jobs are retained in the list"); nothing is added; the
    current / previous rule of `remove`; `$!` is not touched. -/
def removalSpec (s s' : JobList) (pred : Nat → Job → Bool) (report : Bool) (take : Option Nat)
    (returned : Option (List Nat)) : Option String :=
  let selAll := selectedIdx s pred
  let sel := match take with | some n => selAll.take n | none => selAll
  let cut : Option Nat := match take with | none => none | some n => takeCut selAll n
  let visited : Nat → Bool := visitedAt cut
  if !slotsOk s s' sel report visited then some "rmif-table"
  else if returned.isSome && returned != some sel then some "rmif-result"
  else if s'.lastAsync != s.lastAsync then some "rmif-async"
  else curRule s s' sel

/-- the visible table: slots, current and previous job, `$!`, the pid index of every job -/
def sameTable (a b : JobList) : Bool :=
  let n := max a.entries.length b.entries.length
  (List.range n).all (fun i => gets a.entries i == gets b.entries i) &&
  a.currentJob == b.currentJob && a.previousJob == b.previousJob && a.lastAsync == b.lastAsync &&
  (pidsOf a.entries ++ pidsOf b.entries).all (fun p => lookup a.pids p == lookup b.pids p)

/-- `get_mut(i).state_reported()`: only the `state_changed` flag of slot `i` -/
def reportOneSpec (s s' : JobList) (i : Nat) : Bool :=
  let n := max s.entries.length s'.entries.length
  (List.range n).all (fun k =>
    gets s'.entries k == (if k = i then (gets s.entries i).map (fun j => { j with changed := false }) else gets s.entries k)) &&
  s'.currentJob == s.currentJob && s'.previousJob == s.previousJob && s'.lastAsync == s.lastAsync

/-- the wave-3 operations -/
def docCheckApi (s s' : JobList) : Op → Option String
  | .removeIf p r => removalSpec s s' p.eval r none none
  | .extractIf p r => removalSpec s s' p.eval r none (some (s.removeIf p.eval r).1)
  | .extractTake n p r => removalSpec s s' p.eval r (some n) (some (s.extractTake n p.eval r).1)
  -- a closure that counts: exactly the first `k` selected jobs go
  | .removeIfFirst k p r =>
    removalSpec s s' (fun i _ => ((selectedIdx s p.eval).take k).contains i) r none none
  | .reportOne i => if reportOneSpec s s' i then none else some "rep1-table"
  -- "This function is an alias for `insert`"
  | .addJob pid st => if sameTable s' (s.insert { pid := pid, state := st }).2 then none else some "add-differs-from-insert"
  -- "If the process result indicates that the process is stopped, this function adds a job …  The job is marked as
  -- job-controlled and its state is derived from the process result.  The job name is set to the result of the
  -- `name` closure.  If the process is not stopped, this function does not add a job."
  | .ajs pid r _ name =>
    if r.isStopped then
      (match (lookup s'.pids pid).bind s'.get with
       | some j => if j.pid = pid ∧ j.state = r ∧ j.jc = true ∧ j.name = name then none else some "ajs-job"
       | none => some "ajs-job")
    else if sameTable s' s then none else some "ajs-table"
  | _ => none

/-- per-operation documentation checks evaluated on the model's own step `s → s'` with output `o` -/
def docCheck (s s' : JobList) (op : Op) (o : Out) : Option String :=
  match op with
  | .jobs args =>
    if o.status ≠ 0 then none
    else if !markersOk s o.stdout && !((parseArgs ['l', 'p'] args).map (·.1.contains 'p')).getD false then some "marker"
    else
      match (parseArgs ['l', 'p'] args) with
      | some (_, operands) =>
        let idxs := if operands.isEmpty then some (occupied s.entries)
                    else operands.mapM (fun op => (docDesignates s (if op.head? = some '%' then op else '%' :: op)).join)
        (match idxs with
         | some idxs => if jobsRemovalOk s s' idxs then none else some "jobs-removal"
         | none => some "jobs-designation")
      | none => none
  | .wait _ => if waitLicence s s' then none else some "wait-removal"
  | .bg _ args =>
    -- "The (last) resumed job's process ID is set to the `!` special parameter."  With several
    -- operands an earlier one changes what `%+`/`%-` mean for a later one (the resumed job becomes
    -- the current job), so the check is made for at most one operand.
    if !bgLicence s s' then some "bg-removal"
    else if o.status ≠ 0 then none
    else
      let target : Option (Option Nat) :=
        match (parseArgs [] args) with
        | some (_, []) => some s.currentJob
        | some (_, [op]) => some (docDesignates s op).join
        | _ => none
      (match target with
       | none => none
       | some t =>
         match t.bind s.get with
         | some j => if s'.lastAsync = j.pid then none else some "bg-async"
         | none => some "bg-designation")
  | .fg _ _ outcome args =>
    if o.errs ≠ [] then (if othersUntouched s s' none then none else some "fg-others")
    else
      let target : Option Nat :=
        match (parseArgs [] args) with
        | some (_, []) => s.currentJob
        | some (_, [op]) => (docDesignates s op).join
        | _ => none
      (match target with
       | none => some "fg-designation"
       | some i =>
         match s.get i with
         | none => some "fg-designation"
         | some j =>
           -- "If the resumed job finishes, it is removed from the job list.  If the job gets
           -- suspended again, it is set as the current job."
           let final := if j.state.isAlive then outcome else j.state
           if !fgLicence s s' (some i) (some final) then some "fg-others"
           else if final.isStopped then (if s'.currentJob = some i then none else some "fg-current")
           else if (s'.get i).isNone then none else some "fg-removal")
  | .wres arg =>
    (match waitSpecOf arg with
     | some (.jobId op) =>
       let m : Option Nat := match waitResolve s (.jobId op) with | .ok r => r | .error _ => none
       if (docDesignates s op).join = m then none else some "wres-designation"
     | _ => none)
  | .amp pid _ _ name =>
    -- `$!` is the process ID of the last asynchronous command, which is a job in the list
    (match lookup s'.pids s'.lastAsync with
     | some i =>
       (match s'.get i with
        | some j => if s'.lastAsync = pid ∧ j.pid = pid ∧ j.name = name ∧ j.state = .running then none else some "amp-job"
        | none => some "amp-job")
     | none => some "amp-async")
  | .prompt m i =>
    if !promptLicence s s' (m && i) then some "prompt-table"
    else if !markersOk s o.stdout then some "marker"
    else if (reportHeads o.stdout).map (·.1 - 1) ≠ (if m && i then changedIdx s else []) then some "prompt-jobs"
    else none
  | .sync evs => if syncLicence s s' evs then none else some "sync-table"
  | .waitEv evs _ => if waitEvLicence s s' evs then none else some "wait-removal"
  | .kres arg => killCheck s arg
  | .removeIf p r => docCheckApi s s' (.removeIf p r)
  | .extractIf p r => docCheckApi s s' (.extractIf p r)
  | .extractTake n p r => docCheckApi s s' (.extractTake n p r)
  | .reportOne i => docCheckApi s s' (.reportOne i)
  | .removeIfFirst k p r => docCheckApi s s' (.removeIfFirst k p r)
  | .addJob pid st =>
    (match docCheckApi s s' (.addJob pid st) with
     | some m => some m
     | none =>
       if st.isStopped ∧ !suspendedBecomesCurrent s s' pid then some knownInsertMsg else none)
  | .ajs pid r i name =>
    (match docCheckApi s s' (.ajs pid r i name) with
     | some m => some m
     | none =>
       if r.isStopped ∧ !suspendedBecomesCurrent s s' pid then some knownInsertMsg else none)
  | op =>
    (match becameSuspended s op with
     | none => none
     | some (pid, viaInsert) =>
       if suspendedBecomesCurrent s s' pid then none
       else some (if viaInsert then knownInsertMsg else "doc-suspended-becomes-current@update"))

end YashModel.Job
