/-
  C12 — proof-deepening round: property theorems ONLY (helper lemmas: `DocLemmas.lean`).

  * the number `jobs` prints is the number `%n` accepts (also in a table with holes),
  * `%name` / `%?name` designate the unique job whose command string starts with / contains the text,
  * the doc-derived Spec function `docDesignates` meets a declarative description (`DocDesignates`)
    and the model's operand resolution equals it (`model_meets_doc`),
  * a job keeps its number through a whole history (`index_stable_history`),
  * what the driver runs (`step`, `run`) is what the theorems about `bg` / `fg` / `jobs` speak about.
-/
import YashModel.Job.BuiltinTheorems
import YashModel.Job.DocLemmas
namespace YashModel.Job

/-! ### `%n` and the number that is printed -/

/-- ★ The job in slot `i` is printed as `[i+1]` (`jobs_line_marker`), and the operand `%<i+1>` written
    with that decimal text designates slot `i` again — exactly when slot `i` is occupied, whatever
    the slots below it hold (holes included): `%n` is the job NUMBER, not the n-th live job. -/
theorem printed_number_designates (s : JobList) (i : Nat) (hmax : i + 1 ≤ usizeMax) :
    parseJobId ('%' :: natStr (i + 1)) = some (.number (i + 1)) ∧
    (∀ j, s.get i = some j → waitResolve s (.jobId ('%' :: natStr (i + 1))) = .ok (some i)) ∧
    (s.get i = none → waitResolve s (.jobId ('%' :: natStr (i + 1))) = .ok none) := by
  have hv := digitsVal_natStr (i + 1)
  have hp := parse_designators.2.2.2.2 (natStr (i + 1)) (natStr_ne_nil _) (natStr_all_digits _)
    (by rw [hv]; omega) (by rw [hv]; exact hmax)
  have hr := (operand_designates s).2.2 (natStr (i + 1)) (natStr_ne_nil _) (natStr_all_digits _)
    (by rw [hv]; omega) (by rw [hv]; exact hmax)
  rw [hv] at hp hr
  simp only [Nat.add_sub_cancel] at hr
  refine ⟨hp, ?_, ?_⟩
  · intro j hj; rw [hr, hj]; rfl
  · intro hn; rw [hr, hn]; rfl

/-! ### `%name`, `%?name` -/

/-- ★ `%name` designates slot `i` iff the job there is the ONLY job whose command string starts with
    `name`; `%?name` the same with "contains"; no job matches ⇔ "not found" -/
theorem jobid_name_designates (s : JobList) (t : Str) :
    (∀ i, (JobId.prefix_ t).find s = .ok i ↔
      (∃ j, s.get i = some j ∧ ∃ c, j.name = t ++ c) ∧
      ∀ k j, s.get k = some j → (∃ c, j.name = t ++ c) → k = i) ∧
    (∀ i, (JobId.substring t).find s = .ok i ↔
      (∃ j, s.get i = some j ∧ ∃ x y, j.name = x ++ t ++ y) ∧
      ∀ k j, s.get k = some j → (∃ x y, j.name = x ++ t ++ y) → k = i) ∧
    ((JobId.prefix_ t).find s = .error .notFound ↔ ∀ k j, s.get k = some j → ¬ ∃ c, j.name = t ++ c) ∧
    ((JobId.substring t).find s = .error .notFound ↔ ∀ k j, s.get k = some j → ¬ ∃ x y, j.name = x ++ t ++ y) := by
  refine ⟨?_, ?_, ?_, ?_⟩
  · intro i
    simp only [JobId.find, findOne_ok_iff, isPrefixOfL_iff, JobList.get]
  · intro i
    simp only [JobId.find, findOne_ok_iff, containsL_iff, JobList.get]
  · simp only [JobId.find, findOne_notFound_iff, JobList.get, ← isPrefixOfL_iff, Bool.not_eq_true]
  · simp only [JobId.find, findOne_notFound_iff, JobList.get, ← containsL_iff, Bool.not_eq_true]

/-! ### the model's operand resolution equals the documentation's designation -/

/-- ★ END TO END: for every table and every operand `%…`, what the model of the code resolves it to
    (`parse` + `JobId::find`, the path shared by `wait`, `bg`, `fg`, `jobs`) is what the
    documentation-derived Spec function says it designates.  The only hypothesis: a digits-only
    operand is at most `usize::MAX` (above it the code falls back to a name prefix, the
    documentation has no such job number). -/
theorem model_meets_doc (s : JobList) (t : Str)
    (hov : t.all isDigitC = true → digitsVal t ≤ usizeMax) :
    resolved s ('%' :: t) = (docDesignates s ('%' :: t)).join := by
  rw [resolved_eq]
  by_cases h1 : t = [] ∨ t = ['%'] ∨ t = ['+']
  · have hpt : parseTail t = .current := by unfold parseTail; rw [if_pos h1]
    have hdoc : docDesignates s ('%' :: t) = some s.currentJob := by unfold docDesignates; simp only [h1, if_true]
    rw [hpt, hdoc]
    simp only [JobId.find, Option.join]
    cases s.currentJob <;> rfl
  · by_cases h2 : t = ['-']
    · have hpt : parseTail t = .previous := by unfold parseTail; rw [if_neg h1, if_pos h2]
      have hdoc : docDesignates s ('%' :: t) = some s.previousJob := by
        subst h2; unfold docDesignates; simp
      rw [hpt, hdoc]
      simp only [JobId.find, Option.join]
      cases s.previousJob <;> rfl
    · cases t with
      | nil => exact absurd (Or.inl rfl) h1
      | cons c cs =>
        by_cases hq : c = '?'
        · subst hq
          have hpt : parseTail ('?' :: cs) = .substring cs := by
            unfold parseTail; rw [if_neg h1, if_neg h2]; rfl
          have hdoc : docDesignates s ('%' :: '?' :: cs) = some (uniqueOf (jobsWhere s fun n => containsL n cs)) := by
            unfold docDesignates; simp only [h1, h2, if_false]
          rw [hpt, hdoc]
          simp only [JobId.find, Option.join, jobsWhere]
          exact findOne_uniqueOf _ _
        · have hdoc : docDesignates s ('%' :: c :: cs) =
              if (c :: cs).all isDigitC = true ∧ digitsVal (c :: cs) ≠ 0 then
                some (if (s.get (digitsVal (c :: cs) - 1)).isSome = true then some (digitsVal (c :: cs) - 1) else none)
              else some (uniqueOf (jobsWhere s fun n => isPrefixOfL (c :: cs) n)) := by
            unfold docDesignates
            simp only [h1, h2, if_false]
            split
            · rename_i e; cases e; exact absurd rfl hq
            · rfl
          by_cases hp : c = '+'
          · subst hp
            have hpt : parseTail ('+' :: cs) = .prefix_ ('+' :: cs) := by
              unfold parseTail; rw [if_neg h1, if_neg h2]; rfl
            have hnd : ¬ ((('+' :: cs).all isDigitC = true) ∧ digitsVal ('+' :: cs) ≠ 0) := by
              intro h; have := h.1; simp [isDigitC] at this
            rw [hpt, hdoc, if_neg hnd]
            simp only [JobId.find, Option.join, jobsWhere]
            exact findOne_uniqueOf _ _
          · -- neither `?` nor `+`: the number parse decides
            have hpt : parseTail (c :: cs) =
                (match parseNonZeroUsize (c :: cs) with
                  | some n => JobId.number n
                  | none => JobId.prefix_ (c :: cs)) := by
              unfold parseTail; rw [if_neg h1, if_neg h2]
              split
              · rename_i e; cases e; exact absurd rfl hq
              · rename_i e; cases e; exact absurd rfl hp
              · rfl
            have hds : stripPlus (c :: cs) = c :: cs := by
              unfold stripPlus
              split
              · rename_i e; cases e; exact absurd rfl hp
              · rfl
            have hpn : parseNonZeroUsize (c :: cs) =
                if (c :: cs).all isDigitC = true ∧ digitsVal (c :: cs) ≠ 0 ∧ digitsVal (c :: cs) ≤ usizeMax
                then some (digitsVal (c :: cs)) else none := by
              unfold parseNonZeroUsize usizeMax
              simp only [hds, List.isEmpty_cons, Bool.false_or]
              by_cases hall : (c :: cs).all isDigitC = true
              · by_cases hz : digitsVal (c :: cs) = 0
                · simp [hall, hz]
                · by_cases hgt : 18446744073709551615 < digitsVal (c :: cs)
                  · have : ¬ digitsVal (c :: cs) ≤ 18446744073709551615 := by omega
                    simp [hall, hz, hgt, this]
                  · have : digitsVal (c :: cs) ≤ 18446744073709551615 := by omega
                    simp [hall, hz, hgt, this]
              · simp [hall]
            rw [hpt, hdoc, hpn]
            by_cases hall : (c :: cs).all isDigitC = true
            · have hle := hov hall
              by_cases hz : digitsVal (c :: cs) = 0
              · have e1 : ¬ ((c :: cs).all isDigitC = true ∧ digitsVal (c :: cs) ≠ 0 ∧ digitsVal (c :: cs) ≤ usizeMax) :=
                  fun h => h.2.1 hz
                have e2 : ¬ ((c :: cs).all isDigitC = true ∧ digitsVal (c :: cs) ≠ 0) := fun h => h.2 hz
                rw [if_neg e1, if_neg e2]
                simp only [JobId.find, Option.join, jobsWhere]
                exact findOne_uniqueOf _ _
              · rw [if_pos ⟨hall, hz, hle⟩, if_pos ⟨hall, hz⟩]
                have aux : ∀ (o : Option Job) (n : Nat),
                    (match (match o with | some _ => Except.ok n | none => Except.error FindErr.notFound : Except FindErr Nat) with
                      | .ok i => some i
                      | .error _ => none) =
                    (some (if o.isSome = true then some n else none)).bind id := by
                  intro o n; cases o <;> rfl
                simp only [JobId.find, Option.join, JobList.get]
                exact aux _ _
            · have e1 : ¬ ((c :: cs).all isDigitC = true ∧ digitsVal (c :: cs) ≠ 0 ∧ digitsVal (c :: cs) ≤ usizeMax) :=
                fun h => hall h.1
              have e2 : ¬ ((c :: cs).all isDigitC = true ∧ digitsVal (c :: cs) ≠ 0) := fun h => hall h.1
              rw [if_neg e1, if_neg e2]
              simp only [JobId.find, Option.join, jobsWhere]
              exact findOne_uniqueOf _ _

/-! ### the Spec function `docDesignates` meets its declarative description -/

/-- docs/src/interactive/job_control.md, "Job IDs", as a relation: the operand designates the job in
    slot `i`.  `%`, `%%`, `%+`: the current job.  `%-`: the previous job.  `%n` (decimal digits,
    `n ≥ 1`): job number `n`, i.e. slot `n-1`, if there is such a job.  `%?foo`: the one job whose
    command string contains `foo`.  `%foo` (anything else): the one job whose command string starts
    with `foo`. -/
inductive DocDesignates (s : JobList) : Str → Nat → Prop
  | current (t : Str) (i : Nat) :
      t = [] ∨ t = ['%'] ∨ t = ['+'] → s.currentJob = some i → DocDesignates s ('%' :: t) i
  | previous (i : Nat) : s.previousJob = some i → DocDesignates s ['%', '-'] i
  | number (ds : Str) :
      ds ≠ [] → ds.all isDigitC = true → digitsVal ds ≠ 0 → (∃ j, s.get (digitsVal ds - 1) = some j) →
      DocDesignates s ('%' :: ds) (digitsVal ds - 1)
  | substring (sub : Str) (i : Nat) (j : Job) :
      s.get i = some j → (∃ x y, j.name = x ++ sub ++ y) →
      (∀ k j', s.get k = some j' → (∃ x y, j'.name = x ++ sub ++ y) → k = i) →
      DocDesignates s ('%' :: '?' :: sub) i
  | namePrefix (t : Str) (i : Nat) (j : Job) :
      t ≠ [] → t ≠ ['%'] → t ≠ ['+'] → t ≠ ['-'] → t.head? ≠ some '?' →
      ¬ (t.all isDigitC = true ∧ digitsVal t ≠ 0) →
      s.get i = some j → (∃ c, j.name = t ++ c) →
      (∀ k j', s.get k = some j' → (∃ c, j'.name = t ++ c) → k = i) →
      DocDesignates s ('%' :: t) i

/-- ★ the Spec function used in the Spec column computes exactly the relation read off the
    documentation; an operand without a leading `%` is not a job ID -/
theorem docDesignates_spec (s : JobList) (op : Str) (i : Nat) :
    ((docDesignates s op).join = some i ↔ DocDesignates s op i) ∧
    (docDesignates s op = none ↔ op.head? ≠ some '%') := by
  constructor
  · constructor
    · intro h
      cases op with
      | nil => simp [docDesignates] at h
      | cons c0 t =>
        by_cases hc0 : c0 = '%'
        · subst hc0
          rw [docDesignates_eq] at h
          simp only [Option.join, Option.bind_some, id] at h
          by_cases h1 : t = [] ∨ t = ['%'] ∨ t = ['+']
          · rw [if_pos h1] at h; exact .current t i h1 h
          · rw [if_neg h1] at h
            by_cases h2 : t = ['-']
            · rw [if_pos h2] at h; subst h2; exact .previous i h
            · rw [if_neg h2] at h
              by_cases hq : t.head? = some '?'
              · rw [if_pos hq] at h
                cases t with
                | nil => simp at hq
                | cons c cs =>
                  simp only [List.head?_cons, Option.some.injEq] at hq
                  subst hq
                  obtain ⟨⟨j, hj, hp⟩, hu⟩ := (uniqueOf_iff _ _ i).mp h
                  refine .substring cs i j hj ((containsL_iff _ _).mp hp) ?_
                  intro k j' hk hx
                  exact hu k j' hk ((containsL_iff _ _).mpr hx)
              · rw [if_neg hq] at h
                by_cases hd : t.all isDigitC = true ∧ digitsVal t ≠ 0
                · rw [if_pos hd] at h
                  by_cases ho : (s.get (digitsVal t - 1)).isSome = true
                  · rw [if_pos ho] at h
                    cases h
                    have hne : t ≠ [] := fun e => h1 (Or.inl e)
                    obtain ⟨j, hj⟩ := Option.isSome_iff_exists.mp ho
                    exact .number t hne hd.1 hd.2 ⟨j, hj⟩
                  · rw [if_neg ho] at h; cases h
                · rw [if_neg hd] at h
                  obtain ⟨⟨j, hj, hp⟩, hu⟩ := (uniqueOf_iff _ _ i).mp h
                  refine .namePrefix t i j (fun e => h1 (Or.inl e)) (fun e => h1 (Or.inr (Or.inl e)))
                    (fun e => h1 (Or.inr (Or.inr e))) h2 hq hd hj ((isPrefixOfL_iff _ _).mp hp) ?_
                  intro k j' hk hx
                  exact hu k j' hk ((isPrefixOfL_iff _ _).mpr hx)
        · exfalso
          have : docDesignates s (c0 :: t) = none := by
            unfold docDesignates
            split
            · rename_i e; cases e; exact absurd rfl hc0
            · rfl
          rw [this] at h; cases h
    · intro h
      cases h with
      | current t i h1 hc => rw [docDesignates_eq, if_pos h1]; simpa [Option.join] using hc
      | previous i hp => rw [docDesignates_eq]; simpa [Option.join] using hp
      | number ds hne hall hz hocc =>
        obtain ⟨j, hj⟩ := hocc
        rw [docDesignates_eq]
        cases ds with
        | nil => exact absurd rfl hne
        | cons c cs =>
          have hc : isDigitC c = true := by
            simp only [List.all_cons, Bool.and_eq_true] at hall; exact hall.1
          obtain ⟨d1, d2, d3, d4⟩ := digit_not_special c hc
          have h1 : ¬ (c :: cs = [] ∨ c :: cs = ['%'] ∨ c :: cs = ['+']) := by
            simp [d1, d2]
          have h2 : ¬ c :: cs = ['-'] := by simp [d3]
          have hq : ¬ (c :: cs).head? = some '?' := by simp [d4]
          rw [if_neg h1, if_neg h2, if_neg hq, if_pos ⟨hall, hz⟩, hj]
          rfl
      | substring sub i j hj hx hu =>
        rw [docDesignates_eq]
        have h1 : ¬ ('?' :: sub = [] ∨ '?' :: sub = ['%'] ∨ '?' :: sub = ['+']) := by simp
        have h2 : ¬ '?' :: sub = ['-'] := by simp
        rw [if_neg h1, if_neg h2, if_pos (by simp)]
        simp only [Option.join, Option.bind_some, id, List.tail_cons, jobsWhere]
        refine (uniqueOf_iff _ _ i).mpr ⟨⟨j, hj, (containsL_iff _ _).mpr hx⟩, ?_⟩
        intro k j' hk hp
        exact hu k j' hk ((containsL_iff _ _).mp hp)
      | namePrefix t i j n1 n2 n3 n4 hq hd hj hx hu =>
        rw [docDesignates_eq]
        have h1 : ¬ (t = [] ∨ t = ['%'] ∨ t = ['+']) := by
          rintro (e | e | e)
          · exact n1 e
          · exact n2 e
          · exact n3 e
        rw [if_neg h1, if_neg n4, if_neg hq, if_neg hd]
        simp only [Option.join, Option.bind_some, id, jobsWhere]
        refine (uniqueOf_iff _ _ i).mpr ⟨⟨j, hj, (isPrefixOfL_iff _ _).mpr hx⟩, ?_⟩
        intro k j' hk hp
        exact hu k j' hk ((isPrefixOfL_iff _ _).mp hp)
  · cases op with
    | nil => simp [docDesignates]
    | cons c0 t =>
      by_cases hc0 : c0 = '%'
      · subst hc0; rw [docDesignates_eq]; simp
      · have : docDesignates s (c0 :: t) = none := by
          unfold docDesignates
          split
          · rename_i e; cases e; exact absurd rfl hc0
          · rfl
        simp [this, hc0]

/-! ### what the driver runs -/

/-- The driver (`Main.lean`, `runLine`) folds `step` over the operations of a case from the empty
    table and prints `opResult`, which calls the same functions (`jobsBuiltin`, `bgBuiltin`, …) that
    `step` calls; so the tables it prints are exactly the `run JobList.empty ops`. -/
def Reachable (s : JobList) : Prop := ∃ ops, PathPre JobList.empty ops ∧ s = run JobList.empty ops

theorem pathPre_append (s : JobList) (ops : List Op) (op : Op) (h : PathPre s ops)
    (hop : opPre (run s ops) op = true) : PathPre s (ops ++ [op]) := by
  induction ops generalizing s with
  | nil => exact ⟨hop, trivial⟩
  | cons o rest ih => exact ⟨h.1, ih _ h.2 hop⟩

/-- ★ every table the driver can print satisfies the invariant, hence the property text, and stays
    reachable under every further operation (built-ins included) that respects the precondition -/
theorem reachable_consistent (s : JobList) (h : Reachable s) :
    Inv s ∧ Consistent s ∧ ∀ op, opPre s op = true → Reachable (step s op) := by
  obtain ⟨ops, hp, e⟩ := h
  subst e
  have hinv := inv_reachable ops _ inv_init hp
  refine ⟨hinv, consistent_of_inv _ hinv, ?_⟩
  intro op hop
  refine ⟨ops ++ [op], pathPre_append _ ops op hp hop, ?_⟩
  simp [run, List.foldl_append]

/-- ★ "a job's number never changes while the job exists", over a whole history: if the pid of the
    job in slot `i` is in the table after every prefix of the history, the job is still in slot `i`
    at the end -/
theorem index_stable_history (ops : List Op) (s : JobList) (h : Inv s) (hp : PathPre s ops)
    (i : Nat) (j : Job) (hi : s.get i = some j)
    (hlive : ∀ k, k ≤ ops.length → ∃ i' j', (run s (ops.take k)).get i' = some j' ∧ j'.pid = j.pid) :
    ∃ j', (run s ops).get i = some j' ∧ j'.pid = j.pid := by
  induction ops generalizing s j with
  | nil => exact ⟨j, hi, rfl⟩
  | cons op rest ih =>
    have hst := index_stable s op h hp.1 i j hi
    obtain ⟨i1, j1, hj1, hp1⟩ := hlive 1 (by simp)
    have hrun1 : run s ((op :: rest).take 1) = step s op := by simp [run]
    rw [hrun1] at hj1
    rcases hst with ⟨j', hj', hpid⟩ | habs
    · have := ih (step s op) (inv_step s op h hp.1) hp.2 j' hj' (by
        intro k hk
        obtain ⟨i2, j2, h2, hp2⟩ := hlive (k + 1) (by simp; omega)
        refine ⟨i2, j2, ?_, by rw [hp2, hpid]⟩
        simpa [run] using h2)
      obtain ⟨j'', h1, h2⟩ := this
      exact ⟨j'', by simpa [run] using h1, by rw [h2, hpid]⟩
    · exact absurd hp1 (habs i1 j1 hj1)

/-- ★ `bg` / `fg` without operands, as the driver runs them (`step`), on a reachable table whose
    current job is owned and job-controlled: `bg` sets `$!` to its pid and changes that slot only;
    `fg` leaves it as the current job if it is suspended again and removes it otherwise -/
theorem step_bg_fg_current (s : JobList) (hr : Reachable s) (i : Nat) (job : Job)
    (hc : s.currentJob = some i) (hg : s.get i = some job) (ho : job.owned = true) (hjc : job.jc = true)
    (inter : Bool) (outcome : PState) :
    ((step s (.bg true [])).lastAsync = job.pid ∧
     (∀ k, (step s (.bg true [])).get k =
        if k = i then some (if job.state.isAlive then { job with expected := some .running } else job) else s.get k) ∧
     Inv (step s (.bg true []))) ∧
    (let final := if job.state.isAlive then outcome else job.state
     (final.isStopped = true → (step s (.fg true inter outcome [])).currentJob = some i) ∧
     (final.isStopped = false → (step s (.fg true inter outcome [])).get i = none) ∧
     Inv (step s (.fg true inter outcome []))) := by
  have hinv := (reachable_consistent s hr).1
  obtain ⟨tb, _, _⟩ := bg_fg_target s inter outcome
  obtain ⟨eb, ef⟩ := tb i hc
  obtain ⟨_, b2, b3, b4, _⟩ := bg_resumed s i job hinv hg ho hjc
  obtain ⟨f1, f2, f3⟩ := fg_result s i job outcome hinv hg ho hjc
  refine ⟨⟨?_, ?_, ?_⟩, ?_⟩
  · show (bgBuiltin s true []).2.lastAsync = _; rw [eb]; exact b2
  · intro k; show gets (bgBuiltin s true []).2.entries k = _; rw [eb]; exact b3 k
  · show Inv (bgBuiltin s true []).2; rw [eb]; exact b4
  · show (_ → (fgBuiltin s true inter outcome []).2.currentJob = _) ∧
      (_ → (fgBuiltin s true inter outcome []).2.get i = none) ∧ Inv (fgBuiltin s true inter outcome []).2
    rw [ef]
    exact ⟨fun h => (f2 h).1, f3, f1⟩

/-- ★ `jobs` without operands, as the driver runs it: afterwards exactly the finished jobs are gone
    and every job that is alive has been marked as reported -/
theorem step_jobs_all (s : JobList) (k : Nat) :
    (step s (.jobs [])).get k =
      match s.get k with
      | none => none
      | some j => if j.state.isAlive then some { j with changed := false } else none := by
  have e : (step s (.jobs [])) = jobsFinish s (matchingIdx s.entries (fun _ => true) 0) := by
    simp [step, jobsBuiltin, parseArgs, jobsTargets]
  rw [e]
  unfold JobList.get
  rw [jobs_removes_exactly_reported]
  cases hg : gets s.entries k with
  | none => rfl
  | some j =>
    have : k ∈ matchingIdx s.entries (fun _ => true) 0 :=
      (mem_matchingIdx _ _ 0 k).mpr ⟨Nat.zero_le _, j, by simpa using hg, rfl⟩
    simp [this]

/-! ### the Spec check of "a suspended job becomes the current job" -/

/-- ★ the Boolean check of `Spec.lean` says what the sentence of the documentation says: the job with
    that pid is the current job, and the job that was the current job — if it is another one and is
    still in the list — is the previous job -/
theorem suspendedBecomesCurrent_iff (s s' : JobList) (pid : Nat) :
    suspendedBecomesCurrent s s' pid = true ↔
      ∃ j, lookup s'.pids pid = some j ∧ s'.currentJob = some j ∧
        ∀ c, s.currentJob = some c → c ≠ j → (∃ jc, s'.get c = some jc) → s'.previousJob = some c := by
  unfold suspendedBecomesCurrent
  cases lookup s'.pids pid with
  | none => simp
  | some j =>
    cases hc : s.currentJob with
    | none => simp
    | some c =>
      simp only [Bool.and_eq_true, Bool.or_eq_true, beq_iff_eq, Option.isNone_iff_eq_none, Option.some.injEq,
        exists_eq_left']
      constructor
      · rintro ⟨h1, h2⟩
        refine ⟨h1, ?_⟩
        intro c' e hne hex
        cases e
        rcases h2 with (h | h) | h
        · exact absurd h hne
        · obtain ⟨jc, hjc⟩ := hex; rw [h] at hjc; cases hjc
        · exact h
      · rintro ⟨h1, h2⟩
        refine ⟨h1, ?_⟩
        by_cases e : c = j
        · exact Or.inl (Or.inl e)
        · cases hg : s'.get c with
          | none => exact Or.inl (Or.inr rfl)
          | some jc => exact Or.inr (h2 c rfl e ⟨jc, hg⟩)

/-- the clause on the table after `insert` of a suspended job -/
theorem insert_clause (s : JobList) (h : Inv s) (job : Job) (hpre : insertPre s job.pid = true)
    (hs : job.isSuspended = true) :
    suspendedBecomesCurrent s (s.insert job).2 job.pid = true ↔
      ¬ ∃ c jc, s.currentJob = some c ∧ s.get c = some jc ∧ jc.isSuspended = true := by
  have hinv' := insert_inv s job h hpre
  have hget := insert_get s job h
  have hl : lookup (s.insert job).2.pids job.pid = some (s.insert job).1 :=
    (hinv'.p job.pid _).mpr ⟨job, hget, rfl⟩
  obtain ⟨hiff, hprev⟩ := (doc_suspended_becomes_current s h).2 job hpre hs
  rw [suspendedBecomesCurrent_iff]
  constructor
  · rintro ⟨j, hj, hcur, _⟩
    rw [hl] at hj; cases hj
    exact hiff.mp hcur
  · intro hno
    have hcur := hiff.mpr hno
    exact ⟨_, hl, hcur, fun c hc hne _ => hprev hcur c hc hne⟩

/-- the verdict of the clause for an `insert` of `job` -/
def insertVerdict (s : JobList) (job : Job) : Option String :=
  if job.state.isStopped then
    (if suspendedBecomesCurrent s (s.insert job).2 job.pid then none else some knownInsertMsg)
  else none

theorem insertVerdict_spec (s : JobList) (h : Inv s) (job : Job) (hpre : insertPre s job.pid = true) :
    (insertVerdict s job = some knownInsertMsg ↔
      job.state.isStopped = true ∧ ∃ c jc, s.currentJob = some c ∧ s.get c = some jc ∧ jc.isSuspended = true) ∧
    (insertVerdict s job = none ∨ insertVerdict s job = some knownInsertMsg) := by
  unfold insertVerdict
  cases hst : job.state.isStopped with
  | false => simp
  | true =>
    have hcl := insert_clause s h job hpre hst
    simp only [if_true]
    by_cases hsus : ∃ c jc, s.currentJob = some c ∧ s.get c = some jc ∧ jc.isSuspended = true
    · have : suspendedBecomesCurrent s (s.insert job).2 job.pid = false := by
        cases hb : suspendedBecomesCurrent s (s.insert job).2 job.pid with
        | false => rfl
        | true => exact absurd hsus (hcl.mp hb)
      rw [this]
      exact ⟨⟨fun _ => ⟨trivial, hsus⟩, fun _ => by simp⟩, Or.inr (by simp)⟩
    · have : suspendedBecomesCurrent s (s.insert job).2 job.pid = true := hcl.mpr hsus
      rw [this]
      exact ⟨⟨fun e => by simp at e, fun e => absurd e.2 hsus⟩, Or.inl (by simp)⟩

/-- ★ the Spec column on the model's own steps: `update_status` never fails the clause; an `insert`
    (directly, with a name, or through `handle_job_status`) fails it — with the message of the KNOWN
    FINDING and no other — exactly when the inserted job is suspended and the current job is too -/
theorem spec_suspended_clause_on_model (s : JobList) (h : Inv s) (o : Out) :
    (∀ pid st, docCheck s (step s (.update pid st)) (.update pid st) o = none) ∧
    (∀ pid st, docCheck s (step s (.insert pid st)) (.insert pid st) o =
      insertVerdict s { pid := pid, state := st }) ∧
    (∀ pid st jc name, docCheck s (step s (.insertJob pid st jc name)) (.insertJob pid st jc name) o =
      insertVerdict s { pid := pid, state := st, jc := jc, name := name }) ∧
    (∀ pid r i name, docCheck s (step s (.hjs pid r i name)) (.hjs pid r i name) o =
      if r.isStopped then insertVerdict s { pid := pid, state := r, jc := true, name := name } else none) := by
  refine ⟨?_, ?_, ?_, ?_⟩
  · intro pid st
    simp only [docCheck, becameSuspended]
    cases hst : st.isStopped with
    | false => simp
    | true =>
      simp only [if_true]
      cases hl : lookup s.pids pid with
      | none => simp
      | some idx =>
        simp only [Option.bind_some]
        cases hg : s.get idx with
        | none => simp
        | some job =>
          simp only
          cases hsus : job.isSuspended with
          | true => simp
          | false =>
            simp only [Bool.false_eq_true, if_false]
            have hgg : gets s.entries idx = some job := hg
            obtain ⟨hcur, hprev⟩ := (doc_suspended_becomes_current s h).1 pid idx st job hl hgg hsus hst
            have hpids : (s.updateStatus pid st).2.pids = s.pids := (update_get s pid idx st job hl hgg).2.1
            have : suspendedBecomesCurrent s (step s (.update pid st)) pid = true := by
              rw [suspendedBecomesCurrent_iff]
              refine ⟨idx, ?_, hcur, fun c hc hne _ => hprev c hc hne⟩
              show lookup (s.updateStatus pid st).2.pids pid = some idx
              rw [hpids]; exact hl
            simp [this]
  · intro pid st
    simp only [docCheck, becameSuspended, insertVerdict, step]
    cases st.isStopped <;> simp
  · intro pid st jc name
    simp only [docCheck, becameSuspended, insertVerdict, step]
    cases st.isStopped <;> simp
  · intro pid r i name
    cases hr : r.isStopped with
    | false => simp [docCheck, becameSuspended, hr]
    | true => simp [docCheck, becameSuspended, insertVerdict, step, handleJobStatus, hr]

/-! ### which jobs `fg`, `bg` and `wait` may remove -/

/-- ★ `fg` touches only the job it resumes.  For every table that satisfies the invariant, every
    argument list and every halted `outcome`: either the table is unchanged, or there is ONE slot
    `index` — every other job keeps its entry (pid, state, flags, name) and its number, no slot is
    new; the resumed job stays in its slot (same pid) or is removed, and it is removed only if it
    ended in a state that is not alive.  In particular a job that finished in the background and
    has not been reported by `jobs` or retrieved by `wait` survives every `fg` (docs: "Job list";
    `fg.md`: "If the resumed job finishes, it is removed from the job list"). -/
theorem fg_touches_only_resumed_job (s : JobList) (h : Inv s) (m i : Bool) (outcome : PState)
    (args : List Str) (hout : outcome ≠ .running) :
    (fgBuiltin s m i outcome args).2 = s ∨
    ∃ index job, s.get index = some job ∧
      (∀ k, k ≠ index → (fgBuiltin s m i outcome args).2.get k = s.get k) ∧
      ((fgBuiltin s m i outcome args).2.get index = none →
        (if job.state.isAlive then outcome else job.state).isAlive = false) ∧
      (∀ j', (fgBuiltin s m i outcome args).2.get index = some j' → j'.pid = job.pid) := by
  rcases fgBuiltin_table s m i outcome args with e | ⟨index, e⟩
  · exact Or.inl e
  · rw [e]
    cases hg : gets s.entries index with
    | none => left; unfold fgResume; simp [hg]
    | some job =>
      right
      obtain ⟨h1, h2⟩ := fgResume_slots s h index outcome job hg hout
      refine ⟨index, job, hg, h1, h2, ?_⟩
      intro j' hj'
      rcases fgResume_sub s index outcome index with hn | ⟨a, a', ha, ha', hp⟩
      · unfold JobList.get at hj'; rw [hn] at hj'; cases hj'
      · unfold JobList.get at hj'; rw [ha'] at hj'; cases hj'
        rw [hg] at ha; cases ha; exact hp

/-- ★ `bg` removes nothing and records no state change: every slot holds the same pid in the same
    state afterwards (only `expected_state`, `$!` and the current-job selection change) -/
theorem bg_removes_nothing (s : JobList) (m : Bool) (args : List Str) (k : Nat) :
    ((bgBuiltin s m args).2.get k).map (fun j => (j.pid, j.state)) = (s.get k).map (fun j => (j.pid, j.state)) :=
  bgBuiltin_sameStates s m args k

/-- ★ `wait` removes a job only if it has finished or is not owned; every other slot is exactly as before -/
theorem wait_removes_only_finished (s : JobList) (args : List Str) (k : Nat) :
    (waitBuiltin s args).2.get k = s.get k ∨
    ((waitBuiltin s args).2.get k = none ∧ ∃ j, s.get k = some j ∧ (j.state.isAlive = false ∨ j.owned = false)) := by
  -- the property holds relative to the first table along every `job_status` step
  have step1 : ∀ (t : JobList) (i : Nat), (∀ k, t.get k = s.get k ∨
        (t.get k = none ∧ ∃ j, s.get k = some j ∧ (j.state.isAlive = false ∨ j.owned = false))) →
      ∀ k, (jobStatus t i).2.get k = s.get k ∨
        ((jobStatus t i).2.get k = none ∧ ∃ j, s.get k = some j ∧ (j.state.isAlive = false ∨ j.owned = false)) := by
    intro t i ht k
    unfold jobStatus
    cases hg : gets t.entries i with
    | none => exact ht k
    | some job =>
      simp only
      by_cases hk : k = i
      · subst hk
        have hsk : s.get k = some job := by
          rcases ht k with e | ⟨e, _⟩
          · rw [← e]; exact hg
          · unfold JobList.get at e; rw [hg] at e; cases e
        cases ho : job.owned with
        | false =>
          simp only [Bool.not_false, if_true]
          right; exact ⟨by unfold JobList.get; rw [remove_gets]; simp, job, hsk, Or.inr ho⟩
        | true =>
          simp only [Bool.not_true, Bool.false_eq_true, if_false]
          cases ha : job.state.isAlive with
          | true => simp only [if_true]; exact ht k
          | false =>
            simp only [Bool.false_eq_true, if_false]
            right; exact ⟨by unfold JobList.get; rw [remove_gets]; simp, job, hsk, Or.inl ha⟩
      · have hrem : (t.remove i).2.get k = t.get k := by
          unfold JobList.get; rw [remove_gets]; simp [hk]
        split
        · rw [hrem]; exact ht k
        · split
          · exact ht k
          · rw [hrem]; exact ht k
  exact waitBuiltin_ind (fun t => ∀ k, t.get k = s.get k ∨
      (t.get k = none ∧ ∃ j, s.get k = some j ∧ (j.state.isAlive = false ∨ j.owned = false)))
    step1 s args (fun k => Or.inl rfl) k

/-! ### non-vacuity: tables with holes, and the three seeded regressions as statements -/

/-- a reachable table with a HOLE: job 1 finished and was reported by `jobs`, job 2 (suspended) and
    job 3 are still there in slots 1 and 2 -/
def holeHistory : List Op :=
  [.insertJob 101 .running true "ab".toList, .insertJob 102 (.stopped 120) true "abc".toList,
   .insertJob 103 .running true "b".toList, .update 101 (.exited 0), .jobs []]

example : PathPre JobList.empty holeHistory := by
  simp [holeHistory, PathPre]
  decide

example : Reachable (run JobList.empty holeHistory) := ⟨holeHistory, by simp [holeHistory, PathPre]; decide, rfl⟩

/-- seed "`%n` counts live jobs": in the table with the hole `%2` is slot 1 (the job printed as
    `[2]`), `%1` designates nothing, `%3` is slot 2; `printed_number_designates` says so for every table -/
example :
    let s := run JobList.empty holeHistory
    s.get 0 = none ∧ (s.get 1).isSome ∧ (s.get 2).isSome ∧
    resolved s "%1".toList = none ∧ resolved s "%2".toList = some 1 ∧ resolved s "%3".toList = some 2 ∧
    (docDesignates s "%2".toList).join = some 1 ∧
    (jobsBuiltin s ["%2".toList]).1.stdout = "[2] + Stopped(SIGTSTP)     abc\n".toList ∧
    resolved s "%?b".toList = none ∧ resolved s "%ab".toList = some 1 ∧ resolved s "%b".toList = some 2 := by
  decide

/-- hypotheses of `index_stable_history` on that history: the pid 102 of slot 1 is present after every
    prefix of the remaining operations -/
example :
    let s := run JobList.empty (holeHistory.take 2)
    (∃ j, s.get 1 = some j ∧ j.pid = 102) ∧
    ∀ k, k ≤ 3 → (run s ((holeHistory.drop 2).take k)).get 1 ≠ none := by
  refine ⟨by decide, ?_⟩
  intro k hk
  have : k = 0 ∨ k = 1 ∨ k = 2 ∨ k = 3 := by omega
  rcases this with e | e | e | e <;> subst e <;> decide

/-- seed "insert with a reused pid loses the previous job": two running jobs, the current one
    finishes, a SUSPENDED job with the same pid is inserted — there still is a previous job,
    distinct from the current job (`consistent_reachable.previous_exists`) -/
example :
    let ops := [Op.insert 101 .running, .insert 102 .running, .update 101 (.exited 0), .insert 101 (.stopped 20)]
    PathPre JobList.empty ops ∧
    (run JobList.empty (ops.take 3)).currentJob = some 0 ∧
    (run JobList.empty ops).currentJob = some 0 ∧ (run JobList.empty ops).previousJob = some 1 := by
  refine ⟨by simp [PathPre]; decide, by decide, by decide, by decide⟩

/-- seed "a stopped current job is killed": two suspended jobs, the current one goes
    Stopped → Signaled directly — the other suspended job becomes the current job
    (`consistent_reachable.current_suspended`) -/
example :
    let ops := [Op.insert 101 .running, .insert 102 .running, .update 101 (.stopped 19), .update 102 (.stopped 19),
                .update 102 (.signaled 9 false)]
    PathPre JobList.empty ops ∧
    (run JobList.empty (ops.take 4)).currentJob = some 1 ∧
    (run JobList.empty ops).currentJob = some 0 ∧ invB (run JobList.empty ops) = true := by
  refine ⟨by simp [PathPre]; decide, by decide, by decide, by decide⟩

/-- `model_meets_doc` is not vacuous at the edges of the number parse, and the hypothesis is needed:
    above `usize::MAX` the code looks for a name, the documentation for a job number -/
example :
    let s := (JobList.empty.insert { pid := 7, state := .running, name := "18446744073709551616x".toList }).2
    resolved s "%18446744073709551616".toList = some 0 ∧
    (docDesignates s "%18446744073709551616".toList).join = none ∧
    resolved s "%+1".toList = none ∧ (docDesignates s "%+1".toList).join = none ∧
    resolved s "%01".toList = some 0 ∧ (docDesignates s "%01".toList).join = some 0 := by
  decide

/-- seed "`fg` purges every finished job": job 1 finished in the background and has not been
    reported; `fg` of job 2 leaves it in slot 0 (`fg_touches_only_resumed_job`), and `wait %1`
    still retrieves its status afterwards -/
example :
    let ops := [Op.insertJob 103 (.exited 0) false "a".toList, .insertJob 102 (.stopped 19) true "b".toList,
                .fg true false (.stopped 121) []]
    PathPre JobList.empty ops ∧
    (run JobList.empty ops).get 0 = (run JobList.empty (ops.take 2)).get 0 ∧
    ((run JobList.empty ops).get 0).isSome ∧
    (waitBuiltin (run JobList.empty ops) ["%1".toList]).1.status = 0 ∧
    fgLicence (run JobList.empty (ops.take 2)) (run JobList.empty ops) (some 1) (some (.stopped 121)) = true := by
  refine ⟨by simp [PathPre]; decide, by decide, by decide, by decide, by decide⟩

end YashModel.Job
