/-
  Impl model of `yash-env/src/job.rs` (`JobList`) and `yash-env/src/job/id.rs` (`JobId::find`).
  The built-ins working on the table, job-ID parsing, the report format and the operation type
  `Op` / `step` are in `Builtins.lean`.

  Import-free and executable.  Data layout follows the Rust code:
  * `Slab<Job>` is `entries : List (Option Job)` plus the LIFO free list of the `slab` crate
    (contract: `insert` reuses the most recently vacated key, otherwise appends; `clear` forgets
    everything),
  * `pids_to_indices : HashMap<Pid, usize>` is an association list used only through
    `lookup` / `insertKV` / `eraseK`,
  * `current_job_index`, `previous_job_index` are raw indices that are only meaningful through
    `currentJob` / `previousJob`, exactly as in the code.
-/
namespace YashModel.Job

/-- `ProcessState`, with `Halted(ProcessResult)` flattened. -/
inductive PState where
  | running
  | stopped (sig : Nat)
  | exited (status : Nat)
  | signaled (sig : Nat) (core : Bool)
  deriving DecidableEq, Repr, Inhabited

def PState.isStopped : PState → Bool
  | .stopped _ => true
  | _ => false

def PState.isAlive : PState → Bool
  | .running => true
  | .stopped _ => true
  | _ => false

structure Job where
  pid : Nat
  state : PState
  expected : Option PState := none
  changed : Bool := true
  owned : Bool := true
  name : List Char := []
  /-- `job_controlled` -/
  jc : Bool := false
  deriving DecidableEq, Repr, Inhabited

def Job.isSuspended (j : Job) : Bool := j.state.isStopped

abbrev Slab := List (Option Job)

/-- `Slab::get` -/
def gets (es : Slab) (i : Nat) : Option Job := (es[i]?).join

/-- association list standing for `HashMap<Pid, usize>` -/
abbrev PidMap := List (Nat × Nat)

def lookup (m : PidMap) (p : Nat) : Option Nat :=
  match m with
  | [] => none
  | (q, i) :: t => if q = p then some i else lookup t p

def eraseK (m : PidMap) (p : Nat) : PidMap :=
  match m with
  | [] => []
  | (q, i) :: t => if q = p then eraseK t p else (q, i) :: eraseK t p

def insertKV (m : PidMap) (p i : Nat) : PidMap := (p, i) :: eraseK m p

structure JobList where
  entries : Slab := []
  free : List Nat := []
  pids : PidMap := []
  cur : Nat := 0
  prev : Nat := 0
  lastAsync : Nat := 0
  deriving Repr

def JobList.empty : JobList := {}

def JobList.get (s : JobList) (i : Nat) : Option Job := gets s.entries i

/-- `Slab::len` : number of occupied entries -/
def slabLen : Slab → Nat
  | [] => 0
  | none :: t => slabLen t
  | some _ :: t => slabLen t + 1

def JobList.len (s : JobList) : Nat := slabLen s.entries

/-- `current_job()` -/
def JobList.currentJob (s : JobList) : Option Nat :=
  if (gets s.entries s.cur).isSome then some s.cur else none

/-- `previous_job()` -/
def JobList.previousJob (s : JobList) : Option Nat :=
  if s.prev ≠ s.cur ∧ (gets s.entries s.prev).isSome then some s.prev else none

/-- first index `≠ cur` (counting from `i`) whose job satisfies `p`;
    `any_suspended_job_but_current` / `any_job_but_current` -/
def findIdx (l : Slab) (cur : Nat) (p : Job → Bool) (i : Nat := 0) : Option Nat :=
  match l with
  | [] => none
  | none :: t => findIdx t cur p (i+1)
  | some j :: t => if i ≠ cur ∧ p j then some i else findIdx t cur p (i+1)

def anySuspendedButCurrent (es : Slab) (cur : Nat) : Option Nat := findIdx es cur (·.isSuspended) 0
def anyButCurrent (es : Slab) (cur : Nat) : Option Nat := findIdx es cur (fun _ => true) 0

/-- `iter().any(|(_, job)| job.is_suspended())` -/
def anySuspended : Slab → Bool
  | [] => false
  | none :: t => anySuspended t
  | some j :: t => j.isSuspended || anySuspended t

inductive SetCurErr | noSuchJob | notSuspended
  deriving DecidableEq, Repr

/-- `set_current_job` -/
def JobList.setCurrentJob (s : JobList) (i : Nat) : Except SetCurErr JobList :=
  match gets s.entries i with
  | none => .error .noSuchJob
  | some j =>
    if !j.isSuspended && anySuspended s.entries then .error .notSuspended
    else if i ≠ s.cur then .ok { s with prev := s.cur, cur := i }
    else .ok s

/-- `Slab::insert` : key and new storage -/
def slabInsert (es : Slab) (free : List Nat) (j : Job) : Nat × Slab × List Nat :=
  match free with
  | k :: rest => (k, es.set k (some j), rest)
  | [] => (es.length, es ++ [some j], [])

/-- `self[index].is_suspended()` -/
def suspAt (es : Slab) (i : Nat) : Bool := ((gets es i).map (·.isSuspended)).getD false

/-- the "reselect the current and previous job" tail of `insert`; returns (cur, prev) -/
def reselectInsert (exCur exPrev : Option Bool) (newSusp : Bool) (index cur prev : Nat) : Nat × Nat :=
  match exCur with
  | none => (index, prev)
  | some c =>
    if c = false ∧ newSusp = true then
      -- set_current_job(index).unwrap(): the new job is suspended, so the call succeeds
      (if index ≠ cur then (index, cur) else (cur, prev))
    else
      match exPrev with
      | none => (cur, index)
      | some p => if p = false ∧ newSusp = true then (cur, index) else (cur, prev)

/-- `JobList::insert` -/
def JobList.insert (s : JobList) (job : Job) : Nat × JobList :=
  let exCur : Option Bool := s.currentJob.map (suspAt s.entries)
  let exPrev : Option Bool := s.previousJob.map (suspAt s.entries)
  match lookup s.pids job.pid with
  | none =>
    let r := slabInsert s.entries s.free job
    let cp := reselectInsert exCur exPrev job.isSuspended r.1 s.cur s.prev
    (r.1, { s with entries := r.2.1, free := r.2.2, pids := insertKV s.pids job.pid r.1,
                   cur := cp.1, prev := cp.2 })
  | some k =>
    let cp := reselectInsert exCur exPrev job.isSuspended k s.cur s.prev
    (k, { s with entries := s.entries.set k (some job), cur := cp.1, prev := cp.2 })

/-- `JobList::remove` -/
def JobList.remove (s : JobList) (i : Nat) : Option Job × JobList :=
  match gets s.entries i with
  | none => (none, s)
  | some job =>
    let es0 := s.entries.set i none
    let pids := eraseK s.pids job.pid
    let (es, fr) : Slab × List Nat :=
      if slabLen es0 = 0 then ([], []) else (es0, i :: s.free)
    let becomes := i = s.cur
    let cur' := if becomes then s.prev else s.cur
    let prev' :=
      if becomes ∨ i = s.prev then
        (anySuspendedButCurrent es cur').getD ((anyButCurrent es cur').getD 0)
      else s.prev
    (some job, { s with entries := es, free := fr, pids := pids, cur := cur', prev := prev' })

/-- `extract_if`/`remove_if` with the predicate given as a decision on (index, job);
    the callback may also call `state_reported` (flag `report`). Returns removed indices. -/
def extractLoop (pred : Nat → Job → Bool) (report : Bool) :
    Nat → Nat → Nat → JobList → List Nat → List Nat × JobList
  | 0, _, _, s, acc => (acc.reverse, s)
  | _, _, 0, s, acc => (acc.reverse, s)
  | fuel+1, idx, len+1, s, acc =>
    match gets s.entries idx with
    | none => extractLoop pred report fuel (idx+1) (len+1) s acc
    | some j =>
      let s1 := if report then { s with entries := s.entries.set idx (some { j with changed := false }) } else s
      if pred idx j then
        extractLoop pred report fuel (idx+1) len (s1.remove idx).2 (idx :: acc)
      else
        extractLoop pred report fuel (idx+1) len s1 acc

def JobList.removeIf (s : JobList) (pred : Nat → Job → Bool) (report : Bool) : List Nat × JobList :=
  extractLoop pred report (s.entries.length + 1) 0 s.len s []

/-- `JobList::remove_if`: `self.extract_if(should_remove).for_each(drop)` — the drain of `extract_if`
    with the removed jobs thrown away -/
def JobList.removeIfDrop (s : JobList) (pred : Nat → Job → Bool) (report : Bool) : JobList :=
  (s.removeIf pred report).2

/-- `extract_if(should_remove).take(n)`: the iterator is advanced `n` times (each `next` scans up to
    and including the next job it removes) and then dropped — "If the returned iterator is dropped
    before iterating all jobs, the remaining jobs are retained in the list."  Same loop as
    `extractLoop` with the number of `next` calls left as second counter. -/
def extractLoopN (pred : Nat → Job → Bool) (report : Bool) :
    Nat → Nat → Nat → Nat → JobList → List Nat → List Nat × JobList
  | 0, _, _, _, s, acc => (acc.reverse, s)
  | _, 0, _, _, s, acc => (acc.reverse, s)
  | _, _, _, 0, s, acc => (acc.reverse, s)
  | fuel+1, n+1, idx, len+1, s, acc =>
    match gets s.entries idx with
    | none => extractLoopN pred report fuel (n+1) (idx+1) (len+1) s acc
    | some j =>
      let s1 := if report then { s with entries := s.entries.set idx (some { j with changed := false }) } else s
      if pred idx j then
        extractLoopN pred report fuel n (idx+1) len (s1.remove idx).2 (idx :: acc)
      else
        extractLoopN pred report fuel (n+1) (idx+1) len s1 acc

def JobList.extractTake (s : JobList) (n : Nat) (pred : Nat → Job → Bool) (report : Bool) : List Nat × JobList :=
  extractLoopN pred report (s.entries.length + 1) n 0 s.len s []


/-- `extract_if` / `remove_if` with an `FnMut` closure that carries its own state `σ` ("remove the first k jobs
    that …"): same loop as `extractLoop`, the state threaded through the calls in the order of the indices -/
def extractLoopS {σ : Type} (f : σ → Nat → Job → Bool × σ) (report : Bool) :
    Nat → Nat → Nat → σ → JobList → List Nat → List Nat × JobList
  | 0, _, _, _, s, acc => (acc.reverse, s)
  | _, _, 0, _, s, acc => (acc.reverse, s)
  | fuel+1, idx, len+1, st, s, acc =>
    match gets s.entries idx with
    | none => extractLoopS f report fuel (idx+1) (len+1) st s acc
    | some j =>
      let s1 := if report then { s with entries := s.entries.set idx (some { j with changed := false }) } else s
      if (f st idx j).1 then
        extractLoopS f report fuel (idx+1) len (f st idx j).2 (s1.remove idx).2 (idx :: acc)
      else
        extractLoopS f report fuel (idx+1) len (f st idx j).2 s1 acc

def JobList.removeIfS {σ : Type} (s : JobList) (f : σ → Nat → Job → Bool × σ) (st : σ) (report : Bool) :
    List Nat × JobList :=
  extractLoopS f report (s.entries.length + 1) 0 s.len st s []

/-- the decisions of the closure, read off the table the call starts from: the closure is run over the jobs in
    the order of the indices (counting from `i`), every job as it is at the start -/
def selS {σ : Type} (f : σ → Nat → Job → Bool × σ) : σ → Slab → Nat → List Nat
  | _, [], _ => []
  | st, none :: t, i => selS f st t (i+1)
  | st, some j :: t, i => if (f st i j).1 then i :: selS f (f st i j).2 t (i+1) else selS f (f st i j).2 t (i+1)

/-- the `FnMut` closure "remove the first `k` jobs that satisfy `p`": its state is the number still to remove -/
def firstK (p : Nat → Job → Bool) : Nat → Nat → Job → Bool × Nat :=
  fun c i j => if c > 0 ∧ p i j = true then (true, c - 1) else (false, c)

/-- removal predicates the harness can name (the closure passed to `remove_if` / `extract_if`); the
    theorems about `removeIf` quantify over every function `Nat → Job → Bool`, this is only the
    syntax of the case language -/
inductive RmPred where
  | done            -- `!job.state.is_alive()`
  | changedDone     -- `job.state_changed && !job.state.is_alive()`
  | all
  | nothing
  | suspended       -- `job.state.is_stopped()`
  | running         -- `job.state == Running`
  | alive
  | unowned         -- `!job.is_owned`
  | mask (m : Nat)  -- bit `index` of `m`
  | pid (p : Nat)   -- `job.pid == p`
  deriving DecidableEq, Repr

def RmPred.eval : RmPred → Nat → Job → Bool
  | .done, _, j => !j.state.isAlive
  | .changedDone, _, j => j.changed && !j.state.isAlive
  | .all, _, _ => true
  | .nothing, _, _ => false
  | .suspended, _, j => j.state.isStopped
  | .running, _, j => j.state == .running
  | .alive, _, j => j.state.isAlive
  | .unowned, _, j => !j.owned
  | .mask m, i, _ => m.testBit i
  | .pid p, _, j => j.pid == p

/-- the "reselect the current and previous job" tail of `update_status`; returns (cur, prev) -/
def reselectUpdate (es : Slab) (was now : Bool) (index cur prev : Nat) : Nat × Nat :=
  if was = false ∧ now = true then
    (if index ≠ cur then (index, cur) else (cur, prev))
  else if was = true ∧ now = false then
    if prev ≠ cur ∧ (gets es prev).isSome then        -- `previous_job()` is `Some(prev)`
      if index = cur ∧ suspAt es prev = true then
        (prev, (anySuspendedButCurrent es prev).getD index)
      else if index = prev then
        (cur, (anySuspendedButCurrent es cur).getD index)
      else (cur, prev)
    else (cur, prev)
  else (cur, prev)

/-- `update_status` -/
def JobList.updateStatus (s : JobList) (pid : Nat) (st : PState) : Option Nat × JobList :=
  match lookup s.pids pid with
  | none => (none, s)
  | some index =>
    match gets s.entries index with
    | none => (none, s)   -- `self.jobs[index]` would panic; unreachable under the invariant
    | some job =>
      let job' : Job := { job with state := st,
                                   changed := job.changed || decide (job.expected ≠ some st),
                                   expected := none }
      let es := s.entries.set index (some job')
      let cp := reselectUpdate es job.isSuspended job'.isSuspended index s.cur s.prev
      (some index, { s with entries := es, cur := cp.1, prev := cp.2 })

/-- `disown_all` -/
def JobList.disownAll (s : JobList) : JobList :=
  { s with entries := s.entries.map (fun o => o.map (fun j => { j with owned := false })) }

/-- `iter_mut` + `state_reported` on every job -/
def JobList.reportAll (s : JobList) : JobList :=
  { s with entries := s.entries.map (fun o => o.map (fun j => { j with changed := false })) }

/-- `get_mut(i).state_reported()` -/
def JobList.reportOne (s : JobList) (i : Nat) : JobList :=
  match gets s.entries i with
  | none => s
  | some j => { s with entries := s.entries.set i (some { j with changed := false }) }

/-- `JobList::add` (deprecated since 0.15.0): "This function is an alias for `insert`" -/
def JobList.add (s : JobList) (job : Job) : Nat × JobList := s.insert job

/-- `get_mut(i).expect(st)` -/
def JobList.expect (s : JobList) (i : Nat) (st : Option PState) : JobList :=
  match gets s.entries i with
  | none => s
  | some j => { s with entries := s.entries.set i (some { j with expected := st }) }

def JobList.setLastAsync (s : JobList) (pid : Nat) : JobList := { s with lastAsync := pid }

/-! ### Job IDs (`job/id.rs`) -/

inductive JobId where
  | current | previous | number (n : Nat) | prefix_ (s : List Char) | substring (s : List Char)
  deriving DecidableEq, Repr

inductive FindErr | notFound | ambiguous
  deriving DecidableEq, Repr

def isPrefixOfL : List Char → List Char → Bool
  | [], _ => true
  | _ :: _, [] => false
  | a :: as, b :: bs => a == b && isPrefixOfL as bs

def containsL (hay needle : List Char) : Bool :=
  match hay with
  | [] => needle.isEmpty
  | _ :: t => isPrefixOfL needle hay || containsL t needle

def matchingIdx (l : Slab) (p : Job → Bool) (i : Nat := 0) : List Nat :=
  match l with
  | [] => []
  | none :: t => matchingIdx t p (i+1)
  | some j :: t => if p j then i :: matchingIdx t p (i+1) else matchingIdx t p (i+1)

def findOne (es : Slab) (p : Job → Bool) : Except FindErr Nat :=
  match matchingIdx es p 0 with
  | [] => .error .notFound
  | [i] => .ok i
  | _ => .error .ambiguous

/-- `JobId::find`; `number n` carries the 1-based job number (`NonZeroUsize`). -/
def JobId.find (id : JobId) (s : JobList) : Except FindErr Nat :=
  match id with
  | .current => match s.currentJob with | some i => .ok i | none => .error .notFound
  | .previous => match s.previousJob with | some i => .ok i | none => .error .notFound
  | .number n => match gets s.entries (n - 1) with | some _ => .ok (n - 1) | none => .error .notFound
  | .prefix_ p => findOne s.entries (fun j => isPrefixOfL p j.name)
  | .substring p => findOne s.entries (fun j => containsL j.name p)

end YashModel.Job
