/-
  C12 — extension round: property theorems ONLY (helper lemmas: `ExtSteps.lean`, `ExtLemmas.lean`).

  * the constants and tables the model uses are the ones re-extracted from /repo (`tables_agree`,
    `sigName_spec`),
  * `Env::update_all_subshell_statuses` touches exactly the jobs the system reports (`sync_effect`),
  * the report an interactive shell prints before the prompt (`input::reporter::report`) prints the
    jobs whose state changed, with the markers of the table, clears their flags and removes nothing
    (`prompt_report`),
  * `wait` while the system reports state changes returns the exit status of the awaited job's final
    state and removes exactly that job (`wait_returns_job_status`); with no change pending it is
    the `wait` of the earlier rounds (`waitBuiltinEv_nil`),
  * `kill %job` signals the process group of the job the documentation designates, and only a job
    that is owned, job-controlled and alive (`kill_target_designates`),
  * `$!` expands to the recorded process ID and is unset before the first asynchronous command
    (`bang_designates`).
-/
import YashModel.Job.DocTheorems
import YashModel.Job.ExtLemmas
namespace YashModel.Job

open Generated.JobTables in
/-- ★ the numbers and characters typed into the hand-written model are the ones of the code: stated over
    `Generated/JobTables.lean`, which tools/tables/job.py rewrites from /repo on every run, so an edit
    of `ExitStatus::from(signal)`, `ExitStatus::{NOT_FOUND, NOEXEC, …}`, `VirtualSystem::SIGINT`,
    `Marker::as_char` or the field widths of `Display for Report` breaks this proof -/
theorem tables_agree :
    (∀ sg c, (PState.signaled sg c).exitStatus = sg + signalExitOffset) ∧
    (∀ sg, (PState.stopped sg).exitStatus = sg + signalExitOffset) ∧
    (∀ n, (PState.exited n).exitStatus = n) ∧
    (∀ i, (jobStatus JobList.empty i).1 = some exitNotFound) ∧
    (∀ s, (ampersandFail s).1.divert = some exitNoexec) ∧
    (∀ s m i name pid, (ampersand s pid m i name).1.status = exitSuccess) ∧
    (∀ s, (jobsBuiltin s [['-', 'x']]).1.status = exitError ∧ (bgBuiltin s false []).1.status = exitFailure) ∧
    (∀ c, shouldInterrupt true (.signaled SIGINT c) = true) ∧
    (∀ sg c, sg ≠ SIGINT → shouldInterrupt true (.signaled sg c) = false) ∧
    Marker.none.char = markerNone ∧ Marker.current.char = markerCurrent ∧ Marker.previous.char = markerPrevious ∧
    (∀ r : Report, r.render =
      ['['] ++ natStr r.number ++ [']', ' ', r.marker.char, ' '] ++
      (match r.pid with | some p => padLeft pidWidth (natStr p) ++ [' '] | none => []) ++
      padRight stateWidth (stateText r.state) ++ [' '] ++ r.name) := by
  refine ⟨fun _ _ => rfl, fun _ => rfl, fun _ => rfl, ?_, fun _ => rfl, fun _ _ _ _ _ => rfl, ?_, ?_, ?_,
    rfl, rfl, rfl, fun _ => rfl⟩
  · intro i; simp [jobStatus, JobList.empty, gets_nil, exitNotFound]
  · intro s; exact ⟨rfl, rfl⟩
  · intro c; simp [shouldInterrupt, PState.isStopped, SIGINT]
  · intro sg c h
    simp only [shouldInterrupt, PState.isStopped, Bool.false_or, Bool.true_and, SIGINT] at h ⊢
    simpa using h

open Generated.JobTables in
/-- ★ `sigName` (the name `jobs` prints in `Stopped(SIG…)` / `Killed(SIG…)`) in declarative form: every
    row of the re-extracted `sig2str` table is hit (no number occurs twice, so first-match order does not
    matter); the ends of the real-time range are `RTMIN` / `RTMAX`; inside it `RTMIN+k` up to the
    midpoint and `RTMAX-k` above; every other number is `???` -/
theorem sigName_spec :
    (∀ p ∈ sig2strTable, sigName p.1 = p.2.toList) ∧
    sigName SIGRTMIN = "RTMIN".toList ∧ sigName SIGRTMAX = "RTMAX".toList ∧
    (∀ n, SIGRTMIN < n → n < SIGRTMAX →
      sigName n = if n ≤ (SIGRTMIN + SIGRTMAX) / 2 then "RTMIN+".toList ++ natStr (n - SIGRTMIN)
                  else "RTMAX-".toList ++ natStr (SIGRTMAX - n)) ∧
    (∀ n, (∀ p ∈ sig2strTable, p.1 ≠ n) → n < SIGRTMIN ∨ SIGRTMAX < n → sigName n = "???".toList) := by
  refine ⟨by decide, by decide, by decide, ?_, ?_⟩
  · intro n h1 h2
    have hnone : sig2strTable.find? (·.1 = n) = none := by
      rw [List.find?_eq_none]
      intro p hp
      have hlt : p.1 < SIGRTMIN := sig2str_below_rt p hp
      simp only [decide_eq_true_eq]
      omega
    unfold sigName
    rw [hnone]
    have a : n ≠ SIGRTMIN := by omega
    have b : n ≠ SIGRTMAX := by omega
    simp only [a, b, if_false, h1, h2, and_self, if_true]
  · intro n hnot hout
    have hnone : sig2strTable.find? (·.1 = n) = none := by
      rw [List.find?_eq_none]
      intro p hp
      simpa using hnot p hp
    unfold sigName
    rw [hnone]
    have hr : SIGRTMIN ≤ SIGRTMAX := by decide
    have a : n ≠ SIGRTMIN := by
      intro e; subst e
      rcases hout with h | h
      · exact Nat.lt_irrefl _ h
      · exact absurd hr (Nat.not_le.mpr h)
    have b : n ≠ SIGRTMAX := by
      intro e; subst e
      rcases hout with h | h
      · exact absurd hr (Nat.not_le.mpr h)
      · exact Nat.lt_irrefl _ h
    have c : ¬ (SIGRTMIN < n ∧ n < SIGRTMAX) := by
      rintro ⟨c1, c2⟩
      rcases hout with h | h
      · exact Nat.lt_asymm c1 h
      · exact Nat.lt_asymm c2 h
    simp only [a, b, c, if_false]

/-! ### `Env::update_all_subshell_statuses` -/

/-- ★ the status changes the system reports touch exactly the jobs they are about: whatever the events
    (any number, any order, also events for unknown pids), no job is removed or added — every slot
    holds the pid it held — and a job none of the events mentions is untouched, field by field -/
theorem sync_effect (s : JobList) (evs : List Ev) (h : Inv s) :
    Inv (updateAll s evs) ∧
    (∀ k, ((updateAll s evs).get k).map (·.pid) = (s.get k).map (·.pid)) ∧
    (∀ k j, s.get k = some j → (∀ ev ∈ evs, ev.1 ≠ j.pid) → (updateAll s evs).get k = some j) ∧
    (updateAll s evs).lastAsync = s.lastAsync := by
  refine ⟨updateAll_inv s evs h, updateAll_pids s evs, ?_, updateAll_lastAsync s evs⟩
  intro k j hk hne
  exact updateAll_untouched evs s h k j hk hne

/-! ### the report before the prompt (`input::reporter::report`) -/

/-- ★ With `interactive` and `monitor` on, the report is one `Accumulator` line (default format, markers of
    the table at that moment — `jobs_line_marker`, `marker_iff` apply to each) per job whose state has
    changed since the last report, in job-number order; afterwards every job is exactly as before with
    `state_changed` cleared — nothing is removed, also not a finished job (it stays until `jobs` or
    `wait` retrieves it) — and current job, previous job, pid index and `$!` are untouched.  With
    either option off nothing is printed and nothing changes. -/
theorem prompt_report (s : JobList) :
    (promptReport s true true).1 =
      (matchingIdx s.entries (·.changed) 0).flatMap (fun i =>
        match s.get i with
        | some job => accLine s.currentJob s.previousJob false false i job
        | none => []) ∧
    (∀ i, i ∈ matchingIdx s.entries (·.changed) 0 ↔ ∃ j, s.get i = some j ∧ j.changed = true) ∧
    (∀ k, (promptReport s true true).2.get k = (s.get k).map (fun j => { j with changed := false })) ∧
    (promptReport s true true).2.currentJob = s.currentJob ∧
    (promptReport s true true).2.previousJob = s.previousJob ∧
    (promptReport s true true).2.pids = s.pids ∧
    (promptReport s true true).2.lastAsync = s.lastAsync ∧
    (∀ m i, (m && i) = false → promptReport s m i = ([], s)) := by
  refine ⟨rfl, ?_, ?_, ?_, ?_, ?_, ?_, ?_⟩
  · intro i
    rw [mem_matchingIdx]
    simp [JobList.get]
  · intro k
    exact promptReport_gets s k
  · exact (promptReport_selection s).1
  · exact (promptReport_selection s).2.1
  · exact (promptReport_selection s).2.2
  · exact promptReport_lastAsync s true true
  · intro m i hmi
    unfold promptReport
    cases m <;> cases i <;> simp_all

/-! ### `wait` while the system reports state changes -/

/-- ★ with no state change pending, `wait` as the system-driven model runs it is the `wait` of the
    earlier rounds (no child left: waiting for a job that is alive fails with "no job to wait for") -/
theorem waitBuiltinEv_nil (s : JobList) (args : List Str) : waitBuiltinEv s [] args = waitBuiltin s args := by
  unfold waitBuiltinEv waitBuiltin
  cases parseArgs [] args with
  | none => rfl
  | some r =>
    obtain ⟨opts, operands⟩ := r
    simp only
    cases operands.mapM waitSpecOf with
    | none => rfl
    | some specs =>
      simp only
      split
      · rfl
      · split
        · simp only [waitWhile, waitAllTest]
          cases waitAll s with
          | mk b s' => cases b <;> rfl
        · rw [waitSeqEv_nil]

/-- ★ `wait %n` / `wait pid` for a job the shell owns, in slot `i`, while the system reports the state
    changes `evs`: if the built-in's loop ends with an exit status, then that is the exit status of a
    state that is not alive — the recorded one if the job had already finished, otherwise one that an
    event reports for this job's pid — and the job has been removed from slot `i`; if the loop ends
    with "no job to wait for" (no child left), the job is still in slot `i` under its pid, alive.
    Events about other jobs in between never change the answer. -/
theorem wait_returns_job_status (evs : List Ev) (s : JobList) (h : Inv s) (i : Nat) (job : Job)
    (hg : s.get i = some job) (ho : job.owned = true) :
    (∀ st s' rest, waitWhile (fun t => jobStatus t i) evs s = (some st, s', rest) →
      s'.get i = none ∧ Inv s' ∧
      ∃ fin : PState, fin.isAlive = false ∧ st = fin.exitStatus ∧
        (fin = job.state ∨ (job.pid, fin) ∈ evs)) ∧
    (∀ s' rest, waitWhile (fun t => jobStatus t i) evs s = (none, s', rest) →
      Inv s' ∧ ∃ j', s'.get i = some j' ∧ j'.pid = job.pid ∧ j'.state.isAlive = true) :=
  waitWhile_jobStatus evs s h i job hg ho

/-! ### `kill %job` -/

/-- ★ "Signaling jobs": for an operand `%…` the `kill` built-in passes to kill(2) the NEGATED pid — the
    process group — of exactly the job the job ID designates (`resolved` = `parse` + `find`, which
    `model_meets_doc` equates with the documentation's `docDesignates`), and only if that job is
    owned, job-controlled and alive; in every other case nothing is signalled -/
theorem kill_target_designates (s : JobList) (t : Str) (neg : Bool) (n : Nat) :
    killTarget s ('%' :: t) = .ok (neg, n) ↔
      neg = true ∧ ∃ i job, resolved s ('%' :: t) = some i ∧ s.get i = some job ∧ job.pid = n ∧
        job.owned = true ∧ job.jc = true ∧ job.state.isAlive = true := by
  rw [resolved_eq]
  simp only [killTarget]
  cases hf : (parseTail t).find s with
  | error e => simp
  | ok index =>
    simp only
    cases hg : gets s.entries index with
    | none =>
      simp only [reduceCtorEq, false_iff, not_and, not_exists]
      intro _ i job hi hj
      cases hi
      unfold JobList.get at hj; rw [hg] at hj; cases hj
    | some job =>
      simp only
      cases ho : job.owned <;> cases hj : job.jc <;> cases ha : job.state.isAlive <;>
        simp [JobList.get, hg, ho, hj, ha]

/-- `kill_target_designates` in the words of the documentation -/
theorem kill_target_doc (s : JobList) (t : Str) (hov : t.all isDigitC = true → digitsVal t ≤ usizeMax)
    (n : Nat) :
    killTarget s ('%' :: t) = .ok (true, n) ↔
      ∃ i job, (docDesignates s ('%' :: t)).join = some i ∧ s.get i = some job ∧ job.pid = n ∧
        job.owned = true ∧ job.jc = true ∧ job.state.isAlive = true := by
  rw [kill_target_designates, model_meets_doc s t hov]
  simp

/-! ### `$!` -/

/-- ★ `$!` expands to the process ID recorded by `set_last_async_pid` and is unset while that is 0; after
    `name &` with child `pid ≠ 0` it is `pid`, which designates the new job through the pid index
    (`amp_designates`); operations other than `cmd &`, `bg` and `set_last_async_pid` never change it -/
theorem bang_designates (s : JobList) :
    (∀ p, bangValue s = some p ↔ s.lastAsync = p ∧ p ≠ 0) ∧
    (bangValue s = none ↔ s.lastAsync = 0) ∧
    (∀ pid m i name, pid ≠ 0 → bangValue (ampersand s pid m i name).2 = some pid) ∧
    (∀ op, (match op with | .setAsync _ | .amp _ _ _ _ | .bg _ _ => False | _ => True) →
      bangValue (step s op) = bangValue s) := by
  refine ⟨?_, ?_, ?_, ?_⟩
  · intro p
    unfold bangValue
    by_cases h : s.lastAsync = 0
    · rw [if_neg (fun hn => hn h)]
      constructor
      · intro e; cases e
      · rintro ⟨e, hp⟩; exact absurd (e.symm.trans h) hp
    · rw [if_pos h]
      constructor
      · intro e; cases e; exact ⟨rfl, h⟩
      · rintro ⟨e, _⟩; rw [e]
  · unfold bangValue; by_cases h : s.lastAsync = 0 <;> simp [h]
  · intro pid m i name hp
    simp [bangValue, ampersand, JobList.setLastAsync, hp]
  · intro op hop
    unfold bangValue
    rw [last_async]
    cases op <;> simp_all

/-! ### the scanner of the Spec column reads what the report says (closes "Still open (1)") -/

/-- ★ `reportHeads` — the text scanner with which the Spec column (and, in Rust, the oracle) reads a `jobs`
    report or a prompt report back — returns, for the text the model prints for the slots `idxs`, exactly
    one pair per reported job: its job NUMBER (slot + 1, read back from the decimal digits) and the
    marker character chosen by `Accumulator::add`.  Hypothesis: no job name contains a line break
    (the example below shows what happens otherwise). -/
theorem reportHeads_jobsPrint (s : JobList) (showPid : Bool) (idxs : List Nat)
    (hn : ∀ i job, s.get i = some job → '\n' ∉ job.name) :
    reportHeads (jobsPrint s showPid false idxs) =
      idxs.filterMap (fun i => (s.get i).map (fun _ => (i + 1, (markerOf s.currentJob s.previousJob i).char))) := by
  induction idxs with
  | nil => simp [jobsPrint, reportHeads, splitLines, headOf]
  | cons i rest ih =>
    cases hg : gets s.entries i with
    | none =>
      have hcons : jobsPrint s showPid false (i :: rest) = jobsPrint s showPid false rest := by
        simp [jobsPrint, hg]
      rw [hcons]
      have : s.get i = none := hg
      simp only [List.filterMap_cons, this, Option.map_none]
      exact ih
    | some job =>
      have hcons : jobsPrint s showPid false (i :: rest) =
          accLine s.currentJob s.previousJob showPid false i job ++ jobsPrint s showPid false rest := by
        simp [jobsPrint, hg]
      rw [hcons]
      have hgi : s.get i = some job := hg
      simp only [List.filterMap_cons, hgi, Option.map_some]
      have hline : accLine s.currentJob s.previousJob showPid false i job =
          (reportOf s.currentJob s.previousJob showPid i job).render ++ ['\n'] := by simp [accLine]
      have hnn : '\n' ∉ (reportOf s.currentJob s.previousJob showPid i job).render :=
        render_no_nl _ (hn i job hgi) (marker_char_ne_nl _)
      have hsplit : splitLines ((reportOf s.currentJob s.previousJob showPid i job).render ++ ['\n'] ++
            jobsPrint s showPid false rest) =
          (reportOf s.currentJob s.previousJob showPid i job).render :: splitLines (jobsPrint s showPid false rest) := by
        rw [List.append_assoc]
        exact splitLines_line _ _ hnn
      unfold reportHeads at ih ⊢
      rw [hline, hsplit, List.filterMap_cons, headOf_render, ih]
      rfl

/-- ★ the documentation clause "the current job is marked with `+`, the previous job with `-`", as the
    Spec column checks it on a text (`markersOk`: every `[n] m` line has `m = '+'` iff job `n` is the
    current job, `m = '-'` iff it is the previous job, and `m` is one of `+`, `-`, blank), holds for
    every report the model prints — `jobs` (default and `-l` format, any operand list) and the prompt
    report — on every table.  With `reportHeads_jobsPrint` the check is not vacuous: the scanner sees one
    line per reported job. -/
theorem markersOk_reports (s : JobList) (showPid : Bool) (idxs : List Nat)
    (hn : ∀ i job, s.get i = some job → '\n' ∉ job.name) :
    markersOk s (jobsPrint s showPid false idxs) = true ∧
    markersOk s (promptReport s true true).1 = true := by
  have key : ∀ (sp : Bool) (l : List Nat), markersOk s (jobsPrint s sp false l) = true := by
    intro sp l
    unfold markersOk
    rw [reportHeads_jobsPrint s sp l hn, List.all_eq_true]
    intro x hx
    obtain ⟨i, _, hi⟩ := List.mem_filterMap.mp hx
    cases hg : s.get i with
    | none => rw [hg] at hi; cases hi
    | some job =>
      rw [hg] at hi
      simp only [Option.map_some, Option.some.injEq] at hi
      subst hi
      simp only [Nat.add_sub_cancel]
      unfold markerOf
      by_cases hc : s.currentJob = some i
      · have hp : s.previousJob ≠ some i := by
          intro e
          have := (marker_iff s i).1.mpr hc
          have h2 := (marker_iff s i).2.1.mpr e
          rw [this] at h2; exact absurd h2 (by decide)
        simp [hc, hp, Marker.char]
      · by_cases hp : s.previousJob = some i
        · simp [hc, hp, Marker.char]
        · simp [hc, hp, Marker.char]
  exact ⟨key showPid idxs, key false _⟩

/-! ### the removal licences of the Spec column hold on the model's own steps (part of "Still open (3)") -/

/-- ★ The Boolean licences that `docCheck` (Spec column) evaluates after `jobs`, `bg`, `wait` and the
    prompt report are TRUE on every step the model makes, for every table and every argument list:
    `jobs` removes exactly the finished jobs among the reported ones (`jobsRemovalOk`), `bg` removes
    nothing and changes no state (`bgLicence`), `wait` removes only finished or disowned jobs and leaves
    every other entry as it was (`waitLicence`), the prompt report only clears `state_changed`
    (`promptLicence`).  So a failure of one of these checks in a run can only come from the real code
    disagreeing with the model (which the run reports as such), never from the model itself. -/
theorem licences_on_model (s : JobList) :
    (∀ idxs, jobsRemovalOk s (jobsFinish s idxs) idxs = true) ∧
    (∀ m args, bgLicence s (bgBuiltin s m args).2 = true) ∧
    (∀ args, waitLicence s (waitBuiltin s args).2 = true) ∧
    (∀ m i, promptLicence s (promptReport s m i).2 (m && i) = true) ∧
    (∀ args o, docCheck s (step s (.wait args)) (.wait args) o = none) := by
  have hwait : ∀ args, waitLicence s (waitBuiltin s args).2 = true := by
    intro args
    unfold waitLicence
    rw [Bool.and_eq_true]
    constructor
    · rw [occupied_all]
      intro k j hk
      have hk' : s.get k = some j := hk
      rw [hk']
      simp only
      rcases wait_removes_only_finished s args k with e | ⟨e, j', hj', hfin⟩
      · rw [e, hk']; simp
      · rw [e]
        rw [hk'] at hj'; cases hj'
        rcases hfin with h | h <;> simp [h]
    · exact noNew_of_sub _ _ (waitBuiltin_sub s args)
  refine ⟨?_, ?_, hwait, ?_, ?_⟩
  · intro idxs
    unfold jobsRemovalOk
    rw [occupied_all]
    intro k j hk
    have hk' : s.get k = some j := hk
    have hfin := jobs_removes_exactly_reported idxs s k
    rw [hk] at hfin
    simp only at hfin
    rw [hk']
    simp only
    by_cases hm : k ∈ idxs
    · cases ha : j.state.isAlive with
      | true =>
        simp only [hm, if_true, ha] at hfin
        simp [JobList.get, hfin, ha]
      | false =>
        simp only [hm, if_true, ha, Bool.false_eq_true, if_false] at hfin
        simp [JobList.get, hfin, ha, hm]
    · simp only [hm, if_false] at hfin
      simp [JobList.get, hfin, hm]
  · intro m args
    unfold bgLicence
    rw [Bool.and_eq_true]
    constructor
    · rw [occupied_all]
      intro k j hk
      have hk' : s.get k = some j := hk
      have := bg_removes_nothing s m args k
      rw [hk'] at this
      cases hb : (bgBuiltin s m args).2.get k with
      | none => rw [hb] at this; cases this
      | some j' =>
        rw [hb] at this
        simp only [Option.map_some, Option.some.injEq, Prod.mk.injEq] at this
        rw [hk']
        simp [this.1, this.2]
    · exact noNew_of_sub _ _ (bgBuiltin_sub s m args)
  · intro m i
    unfold promptLicence
    rw [Bool.and_eq_true]
    constructor
    · rw [occupied_all]
      intro k j hk
      cases m <;> cases i
      · simp [promptReport]
      · simp [promptReport]
      · simp [promptReport]
      · simp only [Bool.and_self, if_true]
        rw [promptReport_gets]; simp
    · exact noNew_of_sub _ _ (promptReport_sub s m i)
  · intro args o
    simp only [docCheck, step, hwait args, if_true]

/-- the hypothesis of `reportHeads_jobsPrint` is needed: a job name with a line break that looks like a
    report line makes the scanner see a line that `jobs` did not print for a job -/
example :
    let s := (JobList.empty.insert { pid := 7, state := .running, name := "x\n[9] + y".toList }).2
    reportHeads (jobsPrint s false false [0]) = [(1, '+'), (9, '+')] := by
  decide

/-! ### the `jobs[index]` / `unwrap` of the code cannot panic -/

/-- ★ `JobId::find` only returns occupied slots, for every kind of job ID and every table — so the
    indexing `jobs[index]` in `kill::send::resolve_target` and the `get(index).unwrap()` of `bg` / `fg`
    (the `"panic"` branches of `killTarget`, `bgResume`, `fgResume`, which the model totalises) are
    never reached through an operand; likewise the prompt report only calls `get_mut(index).unwrap()` on
    indices it got from `iter()` -/
theorem find_ok_occupied (s : JobList) :
    (∀ id i, JobId.find id s = .ok i → ∃ j, s.get i = some j) ∧
    (∀ t, killTarget s ('%' :: t) ≠ .error "panic") ∧
    (∀ op, (bgResumeId s op).1 ≠ .error "panic") ∧
    (∀ i, i ∈ matchingIdx s.entries (·.changed) 0 → ∃ j, s.get i = some j) := by
  have hfind : ∀ id i, JobId.find id s = .ok i → ∃ j, s.get i = some j := by
    intro id i h
    cases id with
    | current =>
      simp only [JobId.find, JobList.currentJob] at h
      split at h
      · rename_i hs
        split at hs
        · rename_i hsome
          cases hs; cases h
          exact Option.isSome_iff_exists.mp hsome
        · cases hs
      · cases h
    | previous =>
      simp only [JobId.find, JobList.previousJob] at h
      split at h
      · rename_i hs
        split at hs
        · rename_i hsome
          cases hs; cases h
          exact Option.isSome_iff_exists.mp hsome.2
        · cases hs
      · cases h
    | number n =>
      simp only [JobId.find] at h
      split at h
      · rename_i j hj
        cases h; exact ⟨j, hj⟩
      · cases h
    | prefix_ p =>
      obtain ⟨⟨j, hj, _⟩, _⟩ := (findOne_ok_iff _ _ i).mp h
      exact ⟨j, hj⟩
    | substring p =>
      obtain ⟨⟨j, hj, _⟩, _⟩ := (findOne_ok_iff _ _ i).mp h
      exact ⟨j, hj⟩
  refine ⟨hfind, ?_, ?_, ?_⟩
  · intro t
    simp only [killTarget]
    cases hf : (parseTail t).find s with
    | error e => cases e <;> simp [findErrClass]
    | ok index =>
      obtain ⟨j, hj⟩ := hfind _ _ hf
      have hj' : gets s.entries index = some j := hj
      simp only [hj']
      split
      · simp
      · split
        · simp
        · split <;> simp
  · intro op
    unfold bgResumeId
    cases parseJobId op with
    | none => simp
    | some id =>
      simp only
      cases hf : id.find s with
      | error e => cases e <;> simp [findErrClass]
      | ok index =>
        obtain ⟨j, hj⟩ := hfind _ _ hf
        have hj' : gets s.entries index = some j := hj
        simp only [bgResume, hj']
        split
        · simp
        · split <;> simp
  · intro i hi
    obtain ⟨_, j, hj, _⟩ := (mem_matchingIdx _ _ 0 i).mp hi
    exact ⟨j, by simpa [JobList.get] using hj⟩

example : sigName 203 = "RTMIN+2".toList ∧ sigName 205 = "RTMIN+4".toList ∧ sigName 206 = "RTMAX-3".toList ∧
    sigName 130 = "???".toList ∧ sigName 200 = "???".toList ∧ sigName 210 = "???".toList ∧
    sigName 120 = "TSTP".toList := by decide

/-! ### non-vacuity -/

/-- a history that uses every operation of this round on a table with three jobs; it respects the
    precondition, so `reachable_consistent` applies to every table along it -/
def extHistory : List Op :=
  [.insertJob 101 .running true "ab".toList, .insertJob 102 (.stopped 120) true "abc".toList,
   .amp 103 true false "b".toList, .sync [(101, .exited 3), (102, .running)], .prompt true true,
   .kres "%-".toList, .bang, .waitEv [(103, .stopped 121), (103, .running), (103, .signaled 9 false)] ["%3".toList]]

example : PathPre JobList.empty extHistory := by
  simp [extHistory, PathPre]
  decide

/-- the prompt report of that history: job 1 `Done(3)` (previous job, `-`), job 2 `Running` (current job, `+`);
    job 3 was started with `state_changed = false` and is not reported; afterwards no flag is set and
    the finished job 1 is still in the list -/
example :
    let s := run JobList.empty (extHistory.take 4)
    (promptReport s true true).1 = "[1] - Done(3)              ab\n[2] + Running              abc\n".toList ∧
    ((promptReport s true true).2.get 0).isSome ∧ matchingIdx (promptReport s true true).2.entries (·.changed) 0 = [] ∧
    (match killTarget (promptReport s true true).2 "%-".toList with | .error e => e | .ok _ => "") = "finished" ∧
    (match killTarget (promptReport s true true).2 "%abc".toList with | .ok r => some r | .error _ => none) = some (true, 102) ∧
    bangValue s = some 103 ∧ bangValue JobList.empty = none := by
  decide

/-- hypotheses and conclusion of `wait_returns_job_status` on that history: job 3 (pid 103, owned, running) is
    awaited while the system reports `Stopped`, `Running`, `Killed(SIGKILL)` for it — the result is
    9 + 384 and slot 2 is vacant; with only the first two events the answer is "no job to wait for"
    and the job is still there -/
example :
    let s := run JobList.empty (extHistory.take 7)
    (∃ job, s.get 2 = some job ∧ job.owned = true ∧ job.pid = 103 ∧ job.state = .running) ∧
    (waitWhile (fun t => jobStatus t 2) [(103, .stopped 121), (103, .running), (103, .signaled 9 false)] s).1 = some 393 ∧
    ((waitWhile (fun t => jobStatus t 2) [(103, .stopped 121), (103, .running), (103, .signaled 9 false)] s).2.1.get 2) = none ∧
    (waitWhile (fun t => jobStatus t 2) [(103, .stopped 121), (103, .running)] s).1 = none ∧
    (waitBuiltinEv s [(103, .stopped 121), (103, .running), (103, .signaled 9 false)] ["%3".toList]).1.status = 393 := by
  decide

/-- hypothesis and conclusion of `reportHeads_jobsPrint` / `markersOk_reports` on that history (no name
    has a line break): the scanner reads `[1] -`, `[2] +`, `[3]  ` back from `jobs -l` of the three jobs -/
example :
    let s := run JobList.empty (extHistory.take 4)
    (∀ i, i < 3 → ∃ job, s.get i = some job ∧ !job.name.contains '\n') ∧
    reportHeads (jobsPrint s true false [0, 1, 2]) = [(1, '-'), (2, '+'), (3, ' ')] ∧
    markersOk s (jobsPrint s true false [0, 1, 2]) = true := by
  refine ⟨?_, by decide, by decide⟩
  intro i hi
  have : i = 0 ∨ i = 1 ∨ i = 2 := by omega
  rcases this with e | e | e <;> subst e <;> exact ⟨_, rfl, by decide⟩

/-- `sync_effect` is not vacuous: in that history the change of jobs 1 and 2 leaves job 3 untouched, and
    the job that was resumed (102: `Stopped` → `Running`) stops being the current job's rival —
    the invariant's clause "current job is suspended if any is" is re-established by selection -/
example :
    let s := run JobList.empty (extHistory.take 3)
    (updateAll s [(101, .exited 3), (102, .running)]).get 2 = s.get 2 ∧
    ((updateAll s [(101, .exited 3), (102, .running)]).get 0).map (·.state) = some (.exited 3) ∧
    invB (updateAll s [(101, .exited 3), (102, .running)]) = true ∧
    eventApplies s (104, .running) = false ∧ eventApplies s (101, .running) = false := by
  decide

end YashModel.Job
