/-
  Preservation lemmas for the built-ins (`jobs`, `bg`, `fg`, `wait`) and `cmd &` (C12): every one
  of them is a composition of `JobList` operations, so the invariant, the slot-wise relation `Sub`
  and the value of `$!` follow from the per-operation lemmas of `Steps.lean`.
-/
import YashModel.Job.Steps
namespace YashModel.Job

/-! ### small operations -/

theorem expect_inv (s : JobList) (i : Nat) (st : Option PState) (h : Inv s) : Inv (s.expect i st) := by
  unfold JobList.expect
  cases hg : gets s.entries i with
  | none => exact h
  | some j => exact setSlot_inv s i j _ hg ⟨rfl, rfl⟩ h

theorem setLastAsync_inv (s : JobList) (p : Nat) (h : Inv s) : Inv (s.setLastAsync p) :=
  ⟨h.j, h.p, h.f⟩

theorem setCurrentOk_inv (s : JobList) (i : Nat) (h : Inv s) : Inv (s.setCurrentOk i) := by
  unfold JobList.setCurrentOk
  cases hs : s.setCurrentJob i with
  | error e => exact h
  | ok s' => exact setCurrent_inv s s' i h hs

theorem setCurrent_fields (s s' : JobList) (k : Nat) (hs : s.setCurrentJob k = .ok s') :
    s'.entries = s.entries ∧ s'.lastAsync = s.lastAsync ∧ s'.pids = s.pids := by
  unfold JobList.setCurrentJob at hs
  split at hs
  · cases hs
  · split at hs
    · cases hs
    · split at hs <;> cases hs <;> exact ⟨rfl, rfl, rfl⟩

theorem setCurrentOk_entries (s : JobList) (i : Nat) :
    (s.setCurrentOk i).entries = s.entries ∧ (s.setCurrentOk i).lastAsync = s.lastAsync ∧
    (s.setCurrentOk i).pids = s.pids := by
  unfold JobList.setCurrentOk
  cases hs : s.setCurrentJob i with
  | error e => exact ⟨rfl, rfl, rfl⟩
  | ok s' => exact setCurrent_fields s s' i hs

/-! ### `Sub` for the non-removing operations -/

theorem sub_of_entries_eq {s s' : JobList} (h : s'.entries = s.entries) : Sub s s' := by
  intro k
  rw [h]
  cases hh : gets s.entries k with
  | none => exact Or.inl rfl
  | some j => exact Or.inr ⟨j, j, rfl, rfl, rfl⟩

theorem sub_setSlot (s : JobList) (i : Nat) (j j' : Job) (hj : gets s.entries i = some j) (hp : j'.pid = j.pid) :
    Sub s { s with entries := s.entries.set i (some j') } := by
  intro k
  simp only
  rw [gets_set _ _ _ _ (gets_some_lt hj)]
  by_cases hk : k = i
  · subst hk; exact Or.inr ⟨j, j', hj, by simp, hp⟩
  · simp only [hk, if_false]
    cases hh : gets s.entries k with
    | none => exact Or.inl rfl
    | some j2 => exact Or.inr ⟨j2, j2, rfl, rfl, rfl⟩

theorem expect_sub (s : JobList) (i : Nat) (st : Option PState) : Sub s (s.expect i st) := by
  unfold JobList.expect
  cases hg : gets s.entries i with
  | none => exact Sub.refl s
  | some j => exact sub_setSlot s i j _ hg rfl

theorem update_sub (s : JobList) (pid : Nat) (st : PState) : Sub s (s.updateStatus pid st).2 := by
  unfold JobList.updateStatus
  cases lookup s.pids pid with
  | none => exact Sub.refl s
  | some idx =>
    simp only
    cases hg : gets s.entries idx with
    | none => exact Sub.refl s
    | some job =>
      simp only
      intro k
      simp only
      rw [gets_set _ _ _ _ (gets_some_lt hg)]
      by_cases hk : k = idx
      · subst hk; exact Or.inr ⟨job, _, hg, if_pos rfl, rfl⟩
      · simp only [hk, if_false]
        cases hh : gets s.entries k with
        | none => exact Or.inl rfl
        | some j2 => exact Or.inr ⟨j2, j2, rfl, rfl, rfl⟩

theorem update_lastAsync (s : JobList) (pid : Nat) (st : PState) :
    (s.updateStatus pid st).2.lastAsync = s.lastAsync := by
  unfold JobList.updateStatus
  cases lookup s.pids pid with
  | none => rfl
  | some idx => simp only; cases gets s.entries idx <;> rfl

theorem expect_lastAsync (s : JobList) (i : Nat) (st : Option PState) : (s.expect i st).lastAsync = s.lastAsync := by
  unfold JobList.expect; cases gets s.entries i <;> rfl

/-! ### `jobs` -/

theorem jobsFinish1_inv (s : JobList) (i : Nat) (h : Inv s) : Inv (jobsFinish1 s i) := by
  unfold jobsFinish1
  cases hg : gets s.entries i with
  | none => exact h
  | some j =>
    simp only
    split
    · exact setSlot_inv s i j _ hg ⟨rfl, rfl⟩ h
    · exact remove_inv s i h

theorem jobsFinish1_sub (s : JobList) (i : Nat) : Sub s (jobsFinish1 s i) := by
  unfold jobsFinish1
  cases hg : gets s.entries i with
  | none => exact Sub.refl s
  | some j =>
    simp only
    split
    · exact sub_setSlot s i j _ hg rfl
    · exact remove_sub s i

theorem jobsFinish1_lastAsync (s : JobList) (i : Nat) : (jobsFinish1 s i).lastAsync = s.lastAsync := by
  unfold jobsFinish1
  cases gets s.entries i with
  | none => rfl
  | some j => simp only; split; rfl; exact remove_lastAsync s i

theorem jobsFinish_inv (idxs : List Nat) (s : JobList) (h : Inv s) : Inv (jobsFinish s idxs) := by
  unfold jobsFinish
  induction idxs generalizing s with
  | nil => exact h
  | cons i rest ih => exact ih _ (jobsFinish1_inv s i h)

theorem jobsFinish_sub (idxs : List Nat) (s : JobList) : Sub s (jobsFinish s idxs) := by
  unfold jobsFinish
  induction idxs generalizing s with
  | nil => exact Sub.refl s
  | cons i rest ih => exact (jobsFinish1_sub s i).trans (ih _)

theorem jobsFinish_lastAsync (idxs : List Nat) (s : JobList) : (jobsFinish s idxs).lastAsync = s.lastAsync := by
  unfold jobsFinish
  induction idxs generalizing s with
  | nil => rfl
  | cons i rest ih => simp only [List.foldl_cons]; rw [ih, jobsFinish1_lastAsync]

/-- the table after `jobs` is the one before, or `jobsFinish` of it over the reported indices -/
theorem jobsBuiltin_table (s : JobList) (args : List Str) :
    (jobsBuiltin s args).2 = s ∨ ∃ idxs, (jobsBuiltin s args).2 = jobsFinish s idxs := by
  unfold jobsBuiltin
  cases parseArgs ['l', 'p'] args with
  | none => exact Or.inl rfl
  | some r =>
    obtain ⟨opts, operands⟩ := r
    simp only
    split
    · exact Or.inl rfl
    · cases jobsTargets s operands with
      | error e => exact Or.inl rfl
      | ok idxs => exact Or.inr ⟨idxs, rfl⟩

theorem jobsBuiltin_inv (s : JobList) (args : List Str) (h : Inv s) : Inv (jobsBuiltin s args).2 := by
  rcases jobsBuiltin_table s args with e | ⟨idxs, e⟩ <;> rw [e]
  · exact h
  · exact jobsFinish_inv idxs s h

theorem jobsBuiltin_sub (s : JobList) (args : List Str) : Sub s (jobsBuiltin s args).2 := by
  rcases jobsBuiltin_table s args with e | ⟨idxs, e⟩ <;> rw [e]
  · exact Sub.refl s
  · exact jobsFinish_sub idxs s

theorem jobsBuiltin_lastAsync (s : JobList) (args : List Str) : (jobsBuiltin s args).2.lastAsync = s.lastAsync := by
  rcases jobsBuiltin_table s args with e | ⟨idxs, e⟩ <;> rw [e]
  exact jobsFinish_lastAsync idxs s

/-! ### `bg` -/

/-- the table part of a successful `bg::resume_job_by_index` -/
def bgTable (s : JobList) (index : Nat) (job : Job) : JobList :=
  ((if job.state.isAlive then s.expect index (some .running) else s).setLastAsync job.pid).setCurrentOk index

theorem bgResume_table (s : JobList) (index : Nat) :
    (bgResume s index).2 = s ∨
    ∃ job, gets s.entries index = some job ∧ job.owned = true ∧ job.jc = true ∧
      (bgResume s index).2 = bgTable s index job ∧ ∃ line, (bgResume s index).1 = .ok line := by
  unfold bgResume
  cases hg : gets s.entries index with
  | none => exact Or.inl rfl
  | some job =>
    simp only
    cases ho : job.owned with
    | false => exact Or.inl rfl
    | true =>
      cases hc : job.jc with
      | false => exact Or.inl rfl
      | true => exact Or.inr ⟨job, rfl, ho, hc, rfl, _, rfl⟩

theorem bgTable_inv (s : JobList) (index : Nat) (job : Job) (h : Inv s) : Inv (bgTable s index job) := by
  unfold bgTable
  apply setCurrentOk_inv
  apply setLastAsync_inv
  split
  · exact expect_inv s index _ h
  · exact h

theorem bgTable_sub (s : JobList) (index : Nat) (job : Job) : Sub s (bgTable s index job) := by
  unfold bgTable
  have h1 : Sub s (if job.state.isAlive then s.expect index (some .running) else s) := by
    split
    · exact expect_sub s index _
    · exact Sub.refl s
  refine h1.trans (sub_of_entries_eq ?_)
  rw [(setCurrentOk_entries _ _).1]
  rfl

theorem bgResume_inv (s : JobList) (index : Nat) (h : Inv s) : Inv (bgResume s index).2 := by
  rcases bgResume_table s index with e | ⟨job, _, _, _, e, _⟩ <;> rw [e]
  · exact h
  · exact bgTable_inv s index job h

theorem bgResume_sub (s : JobList) (index : Nat) : Sub s (bgResume s index).2 := by
  rcases bgResume_table s index with e | ⟨job, _, _, _, e, _⟩ <;> rw [e]
  · exact Sub.refl s
  · exact bgTable_sub s index job

theorem bgResumeId_inv (s : JobList) (op : Str) (h : Inv s) : Inv (bgResumeId s op).2 := by
  unfold bgResumeId
  cases parseJobId op with
  | none => exact h
  | some id =>
    simp only
    cases id.find s with
    | error e => exact h
    | ok index => exact bgResume_inv s index h

theorem bgResumeId_sub (s : JobList) (op : Str) : Sub s (bgResumeId s op).2 := by
  unfold bgResumeId
  cases parseJobId op with
  | none => exact Sub.refl s
  | some id =>
    simp only
    cases id.find s with
    | error e => exact Sub.refl s
    | ok index => exact bgResume_sub s index

theorem bgLoop_inv (ops : List Str) (s : JobList) (out : Str) (errs : List String) (h : Inv s) :
    Inv (bgLoop ops s out errs).2 := by
  induction ops generalizing s out errs with
  | nil => exact h
  | cons op rest ih =>
    unfold bgLoop
    have h1 := bgResumeId_inv s op h
    cases hr : bgResumeId s op with
    | mk r s' =>
      rw [hr] at h1
      cases r with
      | ok line => exact ih _ _ _ h1
      | error e => exact ih _ _ _ h1

theorem bgLoop_sub (ops : List Str) (s : JobList) (out : Str) (errs : List String) :
    Sub s (bgLoop ops s out errs).2 := by
  induction ops generalizing s out errs with
  | nil => exact Sub.refl s
  | cons op rest ih =>
    unfold bgLoop
    have h1 := bgResumeId_sub s op
    cases hr : bgResumeId s op with
    | mk r s' =>
      rw [hr] at h1
      cases r with
      | ok line => exact h1.trans (ih _ _ _)
      | error e => exact h1.trans (ih _ _ _)

theorem bgBuiltin_inv (s : JobList) (m : Bool) (args : List Str) (h : Inv s) : Inv (bgBuiltin s m args).2 := by
  unfold bgBuiltin
  cases parseArgs [] args with
  | none => exact h
  | some r =>
    obtain ⟨opts, operands⟩ := r
    simp only
    cases m with
    | false => exact h
    | true =>
      simp only [Bool.not_true, Bool.false_eq_true, if_false]
      split
      · cases s.currentJob with
        | none => exact h
        | some index =>
          simp only
          have h1 := bgResume_inv s index h
          cases hr : bgResume s index with
          | mk r s' => rw [hr] at h1; cases r <;> exact h1
      · exact bgLoop_inv _ _ _ _ h

theorem bgBuiltin_sub (s : JobList) (m : Bool) (args : List Str) : Sub s (bgBuiltin s m args).2 := by
  unfold bgBuiltin
  cases parseArgs [] args with
  | none => exact Sub.refl s
  | some r =>
    obtain ⟨opts, operands⟩ := r
    simp only
    cases m with
    | false => exact Sub.refl s
    | true =>
      simp only [Bool.not_true, Bool.false_eq_true, if_false]
      split
      · cases s.currentJob with
        | none => exact Sub.refl s
        | some index =>
          simp only
          have h1 := bgResume_sub s index
          cases hr : bgResume s index with
          | mk r s' => rw [hr] at h1; cases r <;> exact h1
      · exact bgLoop_sub _ _ _ _

/-! ### `fg` -/

theorem fgResume_inv (s : JobList) (index : Nat) (outcome : PState) (h : Inv s) : Inv (fgResume s index outcome).2 := by
  unfold fgResume
  cases hg : gets s.entries index with
  | none => exact h
  | some job =>
    simp only
    split
    · exact h
    · split
      · exact h
      · split
        · simp only
          have h1 : Inv (if job.state.isStopped then (s.updateStatus job.pid .running).2 else s) := by
            split
            · exact update_inv s _ _ h
            · exact h
          have h2 := update_inv _ job.pid outcome h1
          split
          · exact h2
          · exact remove_inv _ _ h2
        · exact remove_inv s index h

theorem fgResume_sub (s : JobList) (index : Nat) (outcome : PState) : Sub s (fgResume s index outcome).2 := by
  unfold fgResume
  cases hg : gets s.entries index with
  | none => exact Sub.refl s
  | some job =>
    simp only
    split
    · exact Sub.refl s
    · split
      · exact Sub.refl s
      · split
        · simp only
          have h1 : Sub s (if job.state.isStopped then (s.updateStatus job.pid .running).2 else s) := by
            split
            · exact update_sub s _ _
            · exact Sub.refl s
          have h2 := h1.trans (update_sub _ job.pid outcome)
          split
          · exact h2
          · exact h2.trans (remove_sub _ _)
        · exact remove_sub s index

theorem fgResume_lastAsync (s : JobList) (index : Nat) (outcome : PState) :
    (fgResume s index outcome).2.lastAsync = s.lastAsync := by
  unfold fgResume
  cases hg : gets s.entries index with
  | none => rfl
  | some job =>
    simp only
    split
    · rfl
    · split
      · rfl
      · split
        · simp only
          have h1 : (if job.state.isStopped then (s.updateStatus job.pid .running).2 else s).lastAsync = s.lastAsync := by
            split
            · exact update_lastAsync s _ _
            · rfl
          split
          · rw [update_lastAsync, h1]
          · rw [remove_lastAsync, update_lastAsync, h1]
        · exact remove_lastAsync s index

/-- the table after `fg` is the one before, or `fgResume` of it at some index -/
theorem fgBuiltin_table (s : JobList) (m i : Bool) (outcome : PState) (args : List Str) :
    (fgBuiltin s m i outcome args).2 = s ∨ ∃ index, (fgBuiltin s m i outcome args).2 = (fgResume s index outcome).2 := by
  unfold fgBuiltin
  cases parseArgs [] args with
  | none => exact Or.inl rfl
  | some r =>
    obtain ⟨opts, operands⟩ := r
    simp only
    cases m with
    | false => exact Or.inl rfl
    | true =>
      simp only [Bool.not_true, Bool.false_eq_true, if_false]
      split
      · exact Or.inl rfl
      · rename_i index _
        cases hr : fgResume s index outcome with
        | mk r s' =>
          have : s' = (fgResume s index outcome).2 := by rw [hr]
          cases r with
          | ok lr => exact Or.inr ⟨index, this⟩
          | error e => exact Or.inr ⟨index, this⟩

theorem fgBuiltin_inv (s : JobList) (m i : Bool) (outcome : PState) (args : List Str) (h : Inv s) :
    Inv (fgBuiltin s m i outcome args).2 := by
  rcases fgBuiltin_table s m i outcome args with e | ⟨k, e⟩ <;> rw [e]
  · exact h
  · exact fgResume_inv s k outcome h

theorem fgBuiltin_sub (s : JobList) (m i : Bool) (outcome : PState) (args : List Str) :
    Sub s (fgBuiltin s m i outcome args).2 := by
  rcases fgBuiltin_table s m i outcome args with e | ⟨k, e⟩ <;> rw [e]
  · exact Sub.refl s
  · exact fgResume_sub s k outcome

theorem fgBuiltin_lastAsync (s : JobList) (m i : Bool) (outcome : PState) (args : List Str) :
    (fgBuiltin s m i outcome args).2.lastAsync = s.lastAsync := by
  rcases fgBuiltin_table s m i outcome args with e | ⟨k, e⟩ <;> rw [e]
  exact fgResume_lastAsync s k outcome

/-! ### `wait` -/

theorem jobStatus_table (s : JobList) (i : Nat) : (jobStatus s i).2 = s ∨ (jobStatus s i).2 = (s.remove i).2 := by
  unfold jobStatus
  cases gets s.entries i with
  | none => exact Or.inl rfl
  | some job =>
    simp only
    split
    · exact Or.inr rfl
    · split
      · exact Or.inl rfl
      · exact Or.inr rfl

theorem jobStatus_inv (s : JobList) (i : Nat) (h : Inv s) : Inv (jobStatus s i).2 := by
  rcases jobStatus_table s i with e | e <;> rw [e]
  · exact h
  · exact remove_inv s i h

theorem jobStatus_sub (s : JobList) (i : Nat) : Sub s (jobStatus s i).2 := by
  rcases jobStatus_table s i with e | e <;> rw [e]
  · exact Sub.refl s
  · exact remove_sub s i

theorem jobStatus_lastAsync (s : JobList) (i : Nat) : (jobStatus s i).2.lastAsync = s.lastAsync := by
  rcases jobStatus_table s i with e | e <;> rw [e]
  exact remove_lastAsync s i

/-- a property of tables that every `job_status` call preserves is preserved by the loops of `wait` -/
theorem waitSeq_ind (P : JobList → Prop) (hP : ∀ s i, P s → P (jobStatus s i).2)
    (l : List (Option Nat)) (s : JobList) (last : Nat) (h : P s) : P (waitSeq l s last).2 := by
  induction l generalizing s last with
  | nil => exact h
  | cons o rest ih =>
    cases o with
    | none => unfold waitSeq; exact ih _ _ h
    | some i =>
      unfold waitSeq
      have h1 := hP s i h
      cases hr : jobStatus s i with
      | mk r s' =>
        rw [hr] at h1
        cases r with
        | some st => exact ih _ _ h1
        | none => exact h1

theorem waitAllLoop_ind (P : JobList → Prop) (hP : ∀ s i, P s → P (jobStatus s i).2)
    (l : List Nat) (s : JobList) (h : P s) : P (waitAllLoop l s).2 := by
  induction l generalizing s with
  | nil => exact h
  | cons i rest ih =>
    unfold waitAllLoop
    have h1 := hP s i h
    cases hr : jobStatus s i with
    | mk r s' =>
      rw [hr] at h1
      cases r with
      | some st => exact ih _ h1
      | none => exact h1

theorem waitBuiltin_ind (P : JobList → Prop) (hP : ∀ s i, P s → P (jobStatus s i).2)
    (s : JobList) (args : List Str) (h : P s) : P (waitBuiltin s args).2 := by
  unfold waitBuiltin
  cases parseArgs [] args with
  | none => exact h
  | some r =>
    obtain ⟨opts, operands⟩ := r
    simp only
    cases operands.mapM waitSpecOf with
    | none => exact h
    | some specs =>
      simp only
      split
      · exact h
      · split
        · have h1 : P (waitAll s).2 := by
            unfold waitAll
            cases lastOccupied s.entries with
            | none => exact h
            | some m => exact waitAllLoop_ind P hP _ s h
          cases hr : waitAll s with
          | mk b s' => rw [hr] at h1; cases b <;> exact h1
        · have h1 := waitSeq_ind P hP (resolveAll s specs).1 s 0 h
          cases hr : waitSeq (resolveAll s specs).1 s 0 with
          | mk r s' => rw [hr] at h1; cases r <;> exact h1

theorem waitBuiltin_inv (s : JobList) (args : List Str) (h : Inv s) : Inv (waitBuiltin s args).2 :=
  waitBuiltin_ind Inv jobStatus_inv s args h

theorem waitBuiltin_sub (s : JobList) (args : List Str) : Sub s (waitBuiltin s args).2 :=
  waitBuiltin_ind (Sub s) (fun s' i h => h.trans (jobStatus_sub s' i)) s args (Sub.refl s)

theorem waitBuiltin_lastAsync (s : JobList) (args : List Str) : (waitBuiltin s args).2.lastAsync = s.lastAsync :=
  waitBuiltin_ind (fun t => t.lastAsync = s.lastAsync) (fun s' i h => by rw [jobStatus_lastAsync]; exact h) s args rfl

/-! ### `cmd &` -/

theorem ampersand_inv (s : JobList) (pid : Nat) (m i : Bool) (name : Str) (h : Inv s)
    (hpre : insertPre s pid = true) : Inv (ampersand s pid m i name).2 := by
  unfold ampersand
  exact setLastAsync_inv _ _ (insert_inv s (asyncJob pid m name) h hpre)

theorem insert_lastAsync (s : JobList) (job : Job) : (s.insert job).2.lastAsync = s.lastAsync := by
  unfold JobList.insert; cases lookup s.pids job.pid <;> rfl

/-- the shape of the table after `insert`: the new slot, what it replaced, the reselection -/
theorem insert_shape (s : JobList) (job : Job) (h : Inv s) (hpre : insertPre s job.pid = true) :
    (∀ k, gets (s.insert job).2.entries k = if k = (s.insert job).1 then some job else gets s.entries k) ∧
    (gets s.entries (s.insert job).1 = none ∨
      ∃ old, gets s.entries (s.insert job).1 = some old ∧ old.isSuspended = false) ∧
    (s.insert job).2.cur = (reselectInsert (s.currentJob.map (suspAt s.entries)) (s.previousJob.map (suspAt s.entries))
      job.isSuspended (s.insert job).1 s.cur s.prev).1 ∧
    (s.insert job).2.prev = (reselectInsert (s.currentJob.map (suspAt s.entries)) (s.previousJob.map (suspAt s.entries))
      job.isSuspended (s.insert job).1 s.cur s.prev).2 := by
  unfold JobList.insert
  unfold insertPre at hpre
  cases hl : lookup s.pids job.pid with
  | none =>
    simp only
    obtain ⟨hs1, hs2, _⟩ := slabInsert_spec s.entries s.free job h.f
    exact ⟨hs2, Or.inl hs1, trivial, trivial⟩
  | some k =>
    simp only
    rw [hl] at hpre
    obtain ⟨old, ho1, _⟩ := (h.p job.pid k).mp hl
    simp only [ho1, Bool.not_eq_true'] at hpre
    exact ⟨fun x => gets_set s.entries k x (some job) (gets_some_lt ho1),
      Or.inr ⟨old, ho1, alive_of_stopped _ hpre⟩, trivial, trivial⟩

/-- where the reselection of `insert` puts a suspended new job, over abstract slot functions -/
theorem insert_sel_core (g g' : Nat → Option Job) (cur prev idx : Nat) (job : Job)
    (hg : ∀ k, g' k = if k = idx then some job else g k)
    (hold : g idx = none ∨ ∃ old, g idx = some old ∧ old.isSuspended = false)
    (hs : job.isSuspended = true)
    (exCur exPrev : Option Bool)
    (hc : exCur = if (g cur).isSome then some (((g cur).map (·.isSuspended)).getD false) else none)
    (hp : exPrev = if prev ≠ cur ∧ (g prev).isSome then some (((g prev).map (·.isSuspended)).getD false) else none)
    (cur' prev' : Nat)
    (hc' : cur' = (reselectInsert exCur exPrev job.isSuspended idx cur prev).1)
    (hp' : prev' = (reselectInsert exCur exPrev job.isSuspended idx cur prev).2) :
    ((∀ jc, g cur = some jc → jc.isSuspended = false) →
      cur' = idx ∧ (g' cur').isSome = true ∧
      ((g cur).isSome = true → cur ≠ idx → prev' = cur ∧ prev' ≠ cur' ∧ (g' prev').isSome = true)) ∧
    (∀ jc, g cur = some jc → jc.isSuspended = true →
      cur' = cur ∧ (g' cur').isSome = true ∧
      ((∀ jp, prev ≠ cur → g prev = some jp → jp.isSuspended = false) →
        prev' = idx ∧ prev' ≠ cur' ∧ (g' prev').isSome = true) ∧
      (∀ jp, prev ≠ cur → g prev = some jp → jp.isSuspended = true →
        prev' = prev ∧ prev' ≠ cur' ∧ (g' prev').isSome = true)) := by
  subst hc hp hc' hp'
  unfold reselectInsert
  have hgi := hg idx
  have hgc := hg cur
  have hgp := hg prev
  rw [hs]
  rcases hold with hn | ⟨old, ho, hos⟩
  · cases hgcur : g cur <;> cases hgprev : g prev <;>
      simp only [hgcur, hgprev, Option.isSome, Option.map, Option.getD] <;>
      by_cases hpc : prev = cur <;> by_cases hic : idx = cur <;> by_cases hip : idx = prev <;>
      simp only [hpc, hic, hip, ne_eq, not_true_eq_false, not_false_eq_true, false_and, true_and, if_true, if_false] <;>
      grind
  · cases hgcur : g cur <;> cases hgprev : g prev <;>
      simp only [hgcur, hgprev, Option.isSome, Option.map, Option.getD] <;>
      by_cases hpc : prev = cur <;> by_cases hic : idx = cur <;> by_cases hip : idx = prev <;>
      simp only [hpc, hic, hip, ne_eq, not_true_eq_false, not_false_eq_true, false_and, true_and, if_true, if_false] <;>
      grind

/-! ### round 3: `handle_job_status`, `jobs` without standard output, `iter_mut().next_back()` -/

theorem jobsClosed_table (s : JobList) (args : List Str) :
    (jobsClosed s args).2 = s ∨ (jobsClosed s args).2 = (jobsBuiltin s args).2 := by
  unfold jobsClosed
  split
  · exact Or.inl rfl
  · exact Or.inr rfl

theorem jobsClosed_inv (s : JobList) (args : List Str) (h : Inv s) : Inv (jobsClosed s args).2 := by
  rcases jobsClosed_table s args with e | e <;> rw [e]
  · exact h
  · exact jobsBuiltin_inv s args h

theorem jobsClosed_sub (s : JobList) (args : List Str) : Sub s (jobsClosed s args).2 := by
  rcases jobsClosed_table s args with e | e <;> rw [e]
  · exact Sub.refl s
  · exact jobsBuiltin_sub s args

theorem jobsClosed_lastAsync (s : JobList) (args : List Str) : (jobsClosed s args).2.lastAsync = s.lastAsync := by
  rcases jobsClosed_table s args with e | e <;> rw [e]
  exact jobsBuiltin_lastAsync s args

theorem reportLast_inv (s : JobList) (h : Inv s) : Inv s.reportLast := by
  unfold JobList.reportLast
  cases lastOccupied s.entries with
  | none => exact h
  | some i =>
    simp only
    cases hg : gets s.entries i with
    | none => exact h
    | some j => exact setSlot_inv s i j _ hg ⟨rfl, rfl⟩ h

theorem reportLast_sub (s : JobList) : Sub s s.reportLast := by
  unfold JobList.reportLast
  cases lastOccupied s.entries with
  | none => exact Sub.refl s
  | some i =>
    simp only
    cases hg : gets s.entries i with
    | none => exact Sub.refl s
    | some j => exact sub_setSlot s i j _ hg rfl

theorem reportLast_lastAsync (s : JobList) : s.reportLast.lastAsync = s.lastAsync := by
  unfold JobList.reportLast
  cases lastOccupied s.entries with
  | none => rfl
  | some i => simp only; cases gets s.entries i <;> rfl

theorem handleJobStatus_inv (s : JobList) (pid : Nat) (r : PState) (i : Bool) (name : Str) (h : Inv s)
    (hpre : (!r.isStopped || insertPre s pid) = true) : Inv (handleJobStatus s pid r i name).2 := by
  unfold handleJobStatus
  cases hs : r.isStopped with
  | false => exact h
  | true =>
    simp only [if_true]
    rw [hs] at hpre
    exact insert_inv s _ h (by simpa using hpre)

theorem handleJobStatus_lastAsync (s : JobList) (pid : Nat) (r : PState) (i : Bool) (name : Str) :
    (handleJobStatus s pid r i name).2.lastAsync = s.lastAsync := by
  unfold handleJobStatus
  split
  · exact insert_lastAsync s _
  · rfl

/-! ### slot-wise effect of single operations (for the exact statements about `jobs`, `bg`, `fg`, `cmd &`) -/

theorem remove_gets (s : JobList) (i k : Nat) :
    gets (s.remove i).2.entries k = if k = i then none else gets s.entries k := by
  unfold JobList.remove
  cases hg : gets s.entries i with
  | none =>
    simp only
    by_cases hk : k = i
    · subst hk; simp [hg]
    · simp [hk]
  | some job =>
    simp only
    have hi := gets_some_lt hg
    by_cases hz : slabLen (s.entries.set i none) = 0
    · simp only [hz, if_true]
      rw [gets_nil]
      have := (slabLen_zero_iff _).mp hz k
      rw [gets_set _ _ _ _ hi] at this
      exact this.symm
    · simp only [hz, if_false]
      exact gets_set _ _ _ _ hi

theorem insert_get (s : JobList) (job : Job) (h : Inv s) :
    gets (s.insert job).2.entries (s.insert job).1 = some job := by
  unfold JobList.insert
  cases hl : lookup s.pids job.pid with
  | none =>
    simp only
    obtain ⟨_, hs2, _⟩ := slabInsert_spec s.entries s.free job h.f
    rw [hs2]; simp
  | some k =>
    simp only
    obtain ⟨old, ho1, _⟩ := (h.p job.pid k).mp hl
    rw [gets_set _ _ _ _ (gets_some_lt ho1)]; simp

/-- `update_status` on the job at `idx`: the new slot content, everything else in place -/
theorem update_get (s : JobList) (pid idx : Nat) (st : PState) (job : Job)
    (hl : lookup s.pids pid = some idx) (hg : gets s.entries idx = some job) :
    (∀ k, gets (s.updateStatus pid st).2.entries k =
      if k = idx then some { job with state := st, changed := job.changed || decide (job.expected ≠ some st), expected := none }
      else gets s.entries k) ∧
    (s.updateStatus pid st).2.pids = s.pids ∧
    (s.updateStatus pid st).2.cur =
      (reselectUpdate (s.entries.set idx (some { job with state := st, changed := job.changed || decide (job.expected ≠ some st), expected := none }))
        job.isSuspended st.isStopped idx s.cur s.prev).1 := by
  unfold JobList.updateStatus
  rw [hl]
  dsimp only
  rw [hg]
  exact ⟨fun k => gets_set _ _ _ _ (gets_some_lt hg), rfl, rfl⟩

/-- a job that becomes suspended becomes the current job -/
theorem update_suspends_current (s : JobList) (pid idx : Nat) (st : PState) (job : Job)
    (hl : lookup s.pids pid = some idx) (hg : gets s.entries idx = some job)
    (hr : job.isSuspended = false) (hs : st.isStopped = true) :
    (s.updateStatus pid st).2.currentJob = some idx := by
  obtain ⟨h1, _, h3⟩ := update_get s pid idx st job hl hg
  unfold JobList.currentJob
  rw [h3]
  have : (reselectUpdate (s.entries.set idx (some { job with state := st, changed := job.changed || decide (job.expected ≠ some st), expected := none }))
        job.isSuspended st.isStopped idx s.cur s.prev).1 = idx := by
    unfold reselectUpdate
    simp only [hr, hs, and_self, if_true]
    split <;> simp_all
  rw [this, h1 idx]
  simp

/-- … and the job that was the current job becomes the previous job -/
theorem update_suspends_previous (s : JobList) (pid idx : Nat) (st : PState) (job : Job)
    (hl : lookup s.pids pid = some idx) (hg : gets s.entries idx = some job)
    (hr : job.isSuspended = false) (hs : st.isStopped = true)
    (c : Nat) (hc : s.currentJob = some c) (hne : c ≠ idx) :
    (s.updateStatus pid st).2.previousJob = some c := by
  have hcc : c = s.cur ∧ (gets s.entries s.cur).isSome = true := by
    unfold JobList.currentJob at hc
    split at hc
    · rename_i hh; cases hc; exact ⟨rfl, hh⟩
    · cases hc
  obtain ⟨e, hsome⟩ := hcc
  subst e
  unfold JobList.updateStatus
  rw [hl]
  dsimp only
  rw [hg]
  dsimp only
  unfold JobList.previousJob reselectUpdate
  have hi := gets_some_lt hg
  have hne' : idx ≠ s.cur := fun e => hne e.symm
  have hr' : job.state.isStopped = false := hr
  simp only [Job.isSuspended, hr', hs, and_self, if_true, hne', ne_eq, not_false_eq_true]
  rw [gets_set _ _ _ _ hi]
  simp [hne, hne', hsome]

theorem bgResume_ok (s : JobList) (index : Nat) (job : Job)
    (hg : gets s.entries index = some job) (ho : job.owned = true) (hc : job.jc = true) :
    bgResume s index =
      (.ok (['['] ++ natStr (index + 1) ++ [']', ' '] ++ job.name ++ ['\n']), bgTable s index job) := by
  unfold bgResume bgTable
  simp only [hg, ho, hc, Bool.not_true, Bool.false_eq_true, if_false]

theorem setCurrentOk_current (s : JobList) (i : Nat) (j : Job) (hg : gets s.entries i = some j) :
    (s.setCurrentOk i).currentJob = some i ∨ (j.isSuspended = false ∧ anySuspended s.entries = true) := by
  unfold JobList.setCurrentOk JobList.setCurrentJob
  simp only [hg]
  by_cases hc : (!j.isSuspended && anySuspended s.entries) = true
  · right
    simp only [Bool.and_eq_true, Bool.not_eq_true'] at hc
    exact hc
  · left
    simp only [hc, if_false]
    by_cases hi : i = s.cur
    · subst hi
      simp [JobList.currentJob, hg]
    · simp [hi, JobList.currentJob, hg]

theorem jobsFinish1_gets (s : JobList) (i k : Nat) :
    gets (jobsFinish1 s i).entries k =
      if k = i then
        (match gets s.entries i with
         | none => none
         | some j => if j.state.isAlive then some { j with changed := false } else none)
      else gets s.entries k := by
  unfold jobsFinish1
  cases hg : gets s.entries i with
  | none =>
    simp only
    by_cases hk : k = i
    · subst hk; simp [hg]
    · simp [hk]
  | some j =>
    simp only
    cases ha : j.state.isAlive with
    | true =>
      simp only [if_true]
      exact gets_set _ _ _ _ (gets_some_lt hg)
    | false =>
      simp only [Bool.false_eq_true, if_false]
      rw [remove_gets]

theorem digit_not_special (c : Char) (h : isDigitC c = true) : c ≠ '%' ∧ c ≠ '+' ∧ c ≠ '-' ∧ c ≠ '?' := by
  refine ⟨?_, ?_, ?_, ?_⟩ <;> (intro e; subst e; revert h; decide)

/-- an argument that starts with `%` is the first operand -/
theorem parseArgs_percent (allowed : List Char) (cs : Str) (rest : List Str) :
    parseArgs allowed (('%' :: cs) :: rest) = some ([], ('%' :: cs) :: rest) := by
  cases cs with
  | nil => rfl
  | cons c cs => simp [parseArgs]

theorem mem_matchingIdx (es : Slab) (p : Job → Bool) (off i : Nat) :
    i ∈ matchingIdx es p off ↔ off ≤ i ∧ ∃ j, gets es (i - off) = some j ∧ p j = true := by
  induction es generalizing off with
  | nil => simp [matchingIdx, gets_nil]
  | cons h t ih =>
    have shift : ∀ (o : Option Job), off + 1 ≤ i → gets (o :: t) (i - off) = gets t (i - (off + 1)) := by
      intro o hle
      have : i - off = (i - (off + 1)) + 1 := by omega
      rw [this, gets_cons_succ]
    cases h with
    | none =>
      simp only [matchingIdx, ih]
      constructor
      · rintro ⟨hle, j, hj, hp⟩
        exact ⟨by omega, j, by rw [shift _ hle]; exact hj, hp⟩
      · rintro ⟨hle, j, hj, hp⟩
        by_cases he : i = off
        · subst he; simp [gets_cons_zero] at hj
        · have hle' : off + 1 ≤ i := by omega
          exact ⟨hle', j, by rw [shift _ hle'] at hj; exact hj, hp⟩
    | some j0 =>
      simp only [matchingIdx]
      by_cases hp0 : p j0 = true
      · simp only [hp0, if_true, List.mem_cons, ih]
        constructor
        · rintro (e | ⟨hle, j, hj, hp⟩)
          · subst e; exact ⟨Nat.le_refl _, j0, by simp [gets_cons_zero], hp0⟩
          · exact ⟨by omega, j, by rw [shift _ hle]; exact hj, hp⟩
        · rintro ⟨hle, j, hj, hp⟩
          by_cases he : i = off
          · exact Or.inl he
          · have hle' : off + 1 ≤ i := by omega
            exact Or.inr ⟨hle', j, by rw [shift _ hle'] at hj; exact hj, hp⟩
      · have hp0' : p j0 = false := by simpa using hp0
        simp only [hp0', Bool.false_eq_true, if_false, ih]
        constructor
        · rintro ⟨hle, j, hj, hp⟩
          exact ⟨by omega, j, by rw [shift _ hle]; exact hj, hp⟩
        · rintro ⟨hle, j, hj, hp⟩
          by_cases he : i = off
          · subst he; simp [gets_cons_zero] at hj; subst hj; exact absurd hp hp0
          · have hle' : off + 1 ≤ i := by omega
            exact ⟨hle', j, by rw [shift _ hle'] at hj; exact hj, hp⟩

end YashModel.Job
