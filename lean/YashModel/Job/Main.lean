/-
  Driver for C12.  stdin: one history per line (`ops` separated by `;`), stdout:
  `<model observation>\t<spec verdict>`.
-/
import YashModel.Common.Proto
import YashModel.Job.Model
import YashModel.Job.Spec
open YashModel YashModel.Job YashModel.Proto

def parseState (t : String) : Option PState :=
  match t.toList with
  | ['R'] => some .running
  | 'S' :: r => (String.ofList r).toNat?.map .stopped
  | 'E' :: r => (String.ofList r).toNat?.map .exited
  | 'K' :: r => (String.ofList r).toNat?.map (fun n => .signaled n false)
  | _ => none

def showState : PState → String
  | .running => "R"
  | .stopped n => s!"S{n}"
  | .exited n => s!"E{n}"
  | .signaled n _ => s!"K{n}"

def parseOp (t : String) : Option Op :=
  match words t with
  | ["ins", p, st] => do pure (.insert (← p.toNat?) (← parseState st))
  | ["upd", p, st] => do pure (.update (← p.toNat?) (← parseState st))
  | ["cur", i] => do pure (.setCurrent (← i.toNat?))
  | ["rm", i] => do pure (.remove (← i.toNat?))
  | ["rmdone", r] => do pure (.removeIfDone ((← r.toNat?) != 0))
  | ["rmchg"] => some .removeIfChanged
  | ["rep"] => some .report
  | ["exp", i, "-"] => do pure (.expect (← i.toNat?) none)
  | ["exp", i, st] => do pure (.expect (← i.toNat?) (some (← parseState st)))
  | ["disown"] => some .disown
  | ["async", p] => do pure (.setAsync (← p.toNat?))
  | _ => none

def optNat : Option Nat → String
  | some n => toString n
  | none => "-"

def bit (b : Bool) : String := if b then "1" else "0"

def showJobs (es : Slab) : String :=
  let rec go (l : Slab) (i : Nat) (acc : List String) : List String :=
    match l with
    | [] => acc.reverse
    | none :: t => go t (i+1) acc
    | some j :: t =>
      let e := match j.expected with | some st => showState st | none => "-"
      go t (i+1) (s!"{i}:{j.pid}:{showState j.state}:{bit j.changed}:{bit j.owned}:{e}" :: acc)
  ",".intercalate (go es 0 [])

def showFind (r : Except FindErr Nat) : String :=
  match r with
  | .ok i => toString i
  | .error .notFound => "nf"
  | .error .ambiguous => "amb"

/-- result of the operation itself -/
def opResult (s : JobList) : Op → String
  | .insert pid st => toString (s.insert { pid := pid, state := st }).1
  | .update pid st => optNat (s.updateStatus pid st).1
  | .setCurrent i => match s.setCurrentJob i with
    | .ok _ => "ok" | .error .noSuchJob => "nosuch" | .error .notSuspended => "notsusp"
  | .remove i => optNat ((s.remove i).1.map (·.pid))
  | .removeIfDone r => ".".intercalate ((s.removeIf (fun _ j => !j.state.isAlive) r).1.map toString)
  | .removeIfChanged => ".".intercalate ((s.removeIf (fun _ j => j.changed && !j.state.isAlive) false).1.map toString)
  | _ => "-"

def pidsMentioned (ops : List Op) : List Nat :=
  let ps := ops.filterMap fun
    | .insert p _ => some p
    | .update p _ => some p
    | .setAsync p => some p
    | _ => none
  ps.eraseDups

def observe (s : JobList) (r : String) (pids : List Nat) : String :=
  let finds := [JobId.current, .previous, .number 1, .number 2, .number 3, .number 4, .number 5].map
    (fun id => showFind (id.find s))
  let px := pids.map (fun p => s!"{p}:{optNat (lookup s.pids p)}")
  s!"r={r} jobs={showJobs s.entries} len={s.len} cur={optNat s.currentJob} prev={optNat s.previousJob} async={s.lastAsync} find={",".intercalate finds} pidx={",".intercalate px}"

def runLine (line : String) : String :=
  let parts := (splitTrim line ";").filter (· ≠ "")
  match parts.mapM parseOp with
  | none => "bad-case\t-"
  | some ops =>
    let pids := pidsMentioned ops
    let rec go (s : JobList) (ops : List Op) (k : Nat) (obs : List String) (verdict : Option String) (pre : Bool)
        : List String × Option String × Bool :=
      match ops with
      | [] => (obs.reverse, verdict, pre)
      | op :: rest =>
        let pre' := pre && opPre s op
        let r := opResult s op
        let s' := step s op
        let v := match verdict with
          | some v => some v
          | none =>
            if !pre' then none
            else if !invB s' then some s!"FAIL:inv@{k}"
            else if !stableB s s' then some s!"FAIL:index@{k}"
            else none
        go s' rest (k+1) (observe s' r pids :: obs) v pre'
    let (obs, verdict, pre) := go JobList.empty ops 0 [] none true
    let spec := match verdict with
      | some v => v
      | none => if pre then "ok" else "ok-until-pre"
    " | ".intercalate obs ++ "\t" ++ spec

def main : IO Unit := mainLoop runLine
