/-
  Driver for C12.  stdin: one history per line (`ops` separated by `;`), stdout:
  `<model observation>\t<spec verdict>`.
-/
import YashModel.Common.Proto
import YashModel.Job.Model
import YashModel.Job.Builtins
import YashModel.Job.Spec
open YashModel YashModel.Job YashModel.Proto

def parseState (t : String) : Option PState :=
  match t.toList with
  | ['R'] => some .running
  | 'S' :: r => (String.ofList r).toNat?.map .stopped
  | 'E' :: r => (String.ofList r).toNat?.map .exited
  | 'K' :: r => (String.ofList r).toNat?.map (fun n => .signaled n false)
  | 'C' :: r => (String.ofList r).toNat?.map (fun n => .signaled n true)
  | _ => none

def showState : PState → String
  | .running => "R"
  | .stopped n => s!"S{n}"
  | .exited n => s!"E{n}"
  | .signaled n false => s!"K{n}"
  | .signaled n true => s!"C{n}"

/-- an argument token of a built-in: `''` is the empty string, `\s` a space; long options are not
    modelled -/
def parseArg (t : String) : Option Str :=
  if t = "''" then some []
  else if t.startsWith "--" ∧ t.length > 2 then none
  else some (t.replace "\\s" " ").toList

/-- an argument of a command run through the shell's parser (`subjobs`, `subwait`): only characters that need no quoting -/
def parseSafeArg (t : String) : Option Str :=
  if t.length > 0 ∧ t.toList.all (fun c => c.isAlphanum || c == '%' || c == '-' || c == '+') then some t.toList else none

def parseBool (t : String) : Option Bool :=
  if t = "1" then some true else if t = "0" then some false else none

def parseName (t : String) : Str := if t = "-" then [] else t.toList

/-- `101:E0,102:S120` (`-` = no event) -/
def parseEvs (t : String) : Option (List Ev) :=
  if t = "-" then some []
  else (t.splitOn ",").mapM fun e =>
    match e.splitOn ":" with
    | [p, st] => do pure ((← p.toNat?), (← parseState st))
    | _ => none

/-- the predicate of `rmif` / `xif` / `xtake`: `done`, `chg`, `all`, `none`, `susp`, `run`, `alive`,
    `unowned`, `m<bit mask over indices>`, `p<pid>` -/
def parsePred (t : String) : Option RmPred :=
  match t.toList with
  | 'm' :: r => (String.ofList r).toNat?.map .mask
  | 'p' :: r => (String.ofList r).toNat?.map .pid
  | _ =>
    if t = "done" then some .done else if t = "chg" then some .changedDone
    else if t = "all" then some .all else if t = "none" then some .nothing
    else if t = "susp" then some .suspended else if t = "run" then some .running
    else if t = "alive" then some .alive else if t = "unowned" then some .unowned else none

def parseOp (t : String) : Option Op :=
  match words t with
  | ["sync", evs] => do
    -- `wait(-1)` of the virtual system hands the pending changes out in the order of the process IDs
    let e ← parseEvs evs
    if (e.zip e.tail).all (fun (a, b) => a.1 < b.1) then pure (.sync e) else none
  | ["prompt", m, i] => do pure (.prompt (← parseBool m) (← parseBool i))
  | "waitb" :: evs :: args => do pure (.waitEv (← parseEvs evs) (← args.mapM parseArg))
  | ["kres", a] => do pure (.kres (← parseArg a))
  | ["bang"] => some .bang
  | ["job", p, st, jc, name] => do pure (.insertJob (← p.toNat?) (← parseState st) (← parseBool jc) (parseName name))
  | "jobs" :: args => do pure (.jobs (← args.mapM parseArg))
  | "bg" :: m :: args => do pure (.bg (← parseBool m) (← args.mapM parseArg))
  | "fg" :: m :: out :: args => do
    -- `m` = monitor + 2*(a terminal exists) + 4*(interactive); the terminal does not change the result
    let o ← parseState out
    let n ← m.toNat?
    if o = .running ∨ n > 7 then none else pure (.fg (n % 2 == 1) (n / 4 == 1) o (← args.mapM parseArg))
  | ["hjs", p, r, i, name] => do
    let o ← parseState r
    if o = .running then none else pure (.hjs (← p.toNat?) o (← parseBool i) (parseName name))
  | "jobsx" :: args => do pure (.jobsClosed (← args.mapM parseArg))
  | ["ampfail"] => some .ampFail
  | ["replast"] => some .reportLast
  | "wait" :: args => do pure (.wait (← args.mapM parseArg))
  | ["wres", a] => do pure (.wres (← parseArg a))
  | ["amp", p, m, i, name] => do pure (.amp (← p.toNat?) (← parseBool m) (← parseBool i) (parseName name))
  | ["ins", p, st] => do pure (.insert (← p.toNat?) (← parseState st))
  | ["upd", p, st] => do pure (.update (← p.toNat?) (← parseState st))
  | ["cur", i] => do pure (.setCurrent (← i.toNat?))
  | ["rm", i] => do pure (.remove (← i.toNat?))
  | ["rmdone", r] => do pure (.removeIfDone ((← r.toNat?) != 0))
  | ["rmchg"] => some .removeIfChanged
  | ["rep"] => some .report
  | ["exp", i, "-"] => do pure (.expect (← i.toNat?) none)
  | ["exp", i, st] => do pure (.expect (← i.toNat?) (some (← parseState st)))
  | ["disown"] => some .disown
  | ["async", p] => do pure (.setAsync (← p.toNat?))
  | ["rmif", p, r] => do pure (.removeIf (← parsePred p) (← parseBool r))
  | ["xif", p, r] => do pure (.extractIf (← parsePred p) (← parseBool r))
  | ["xtake", n, p, r] => do pure (.extractTake (← n.toNat?) (← parsePred p) (← parseBool r))
  | ["promptx", m, i] => do pure (.promptClosed (← parseBool m) (← parseBool i))
  | "subjobs" :: args => do pure (.subJobs (← args.mapM parseSafeArg))
  | "subwait" :: args => do pure (.subWait (← args.mapM parseSafeArg))
  | ["rmfirst", k, p, r] => do pure (.removeIfFirst (← k.toNat?) (← parsePred p) (← parseBool r))
  | ["add", p, st] => do pure (.addJob (← p.toNat?) (← parseState st))
  | ["rep1", i] => do pure (.reportOne (← i.toNat?))
  | ["ajs", p, r, i, name] => do
    let o ← parseState r
    if o = .running then none else pure (.ajs (← p.toNat?) o (← parseBool i) (parseName name))
  | _ => none

def optNat : Option Nat → String
  | some n => toString n
  | none => "-"

def bit (b : Bool) : String := if b then "1" else "0"

def showJobs (es : Slab) : String :=
  let rec go (l : Slab) (i : Nat) (acc : List String) : List String :=
    match l with
    | [] => acc.reverse
    | none :: t => go t (i+1) acc
    | some j :: t =>
      let e := match j.expected with | some st => showState st | none => "-"
      go t (i+1) (s!"{i}:{j.pid}:{showState j.state}:{bit j.changed}:{bit j.owned}:{e}:{bit j.jc}:{encChars j.name}" :: acc)
  ",".intercalate (go es 0 [])

def showFind (r : Except FindErr Nat) : String :=
  match r with
  | .ok i => toString i
  | .error .notFound => "nf"
  | .error .ambiguous => "amb"

/-- `<exit status>:<hex of standard output>:<error classes>` -/
def showOut (o : Out) : String :=
  let d := match o.divert with | some n => s!"!intr{n}" | none => ""
  s!"{o.status}{d}:{encChars o.stdout}:{if o.errs.isEmpty then "-" else "+".intercalate o.errs}"

/-- result of the operation itself -/
def opResult (s : JobList) : Op → String
  | .insert pid st => toString (s.insert { pid := pid, state := st }).1
  | .update pid st => optNat (s.updateStatus pid st).1
  | .setCurrent i => match s.setCurrentJob i with
    | .ok _ => "ok" | .error .noSuchJob => "nosuch" | .error .notSuspended => "notsusp"
  | .remove i => optNat ((s.remove i).1.map (·.pid))
  | .removeIfDone r => ".".intercalate ((s.removeIf (fun _ j => !j.state.isAlive) r).1.map toString)
  | .removeIfChanged => ".".intercalate ((s.removeIf (fun _ j => j.changed && !j.state.isAlive) false).1.map toString)
  | .insertJob pid st jc name => toString (s.insert { pid := pid, state := st, jc := jc, name := name }).1
  | .jobs args => showOut (jobsBuiltin s args).1
  | .bg m args => showOut (bgBuiltin s m args).1
  | .fg m i out args => showOut (fgBuiltin s m i out args).1
  | .extractIf p r => ".".intercalate ((s.removeIf p.eval r).1.map toString)
  | .extractTake n p r => ".".intercalate ((s.extractTake n p.eval r).1.map toString)
  | .addJob pid st => toString (s.add { pid := pid, state := st }).1
  | .ajs pid r i name => (let x := (addJobIfSuspended s pid r i name).1; s!"{if x.1 then "intr" else "cont"}:{x.2}")
  | .hjs pid r i name => (let x := (handleJobStatus s pid r i name).1; s!"{if x.1 then "intr" else "cont"}:{x.2}")
  | .jobsClosed args => showOut (jobsClosed s args).1
  | .ampFail => showOut (ampersandFail s).1
  | .wait args => showOut (waitBuiltin s args).1
  | .wres arg =>
    (match waitSpecOf arg with
     | none => "bad"
     | some sp => match waitResolve s sp with
       | .ok (some i) => s!"some:{i}"
       | .ok none => "none"
       | .error _ => "amb")
  | .amp pid m i name => showOut (ampersand s pid m i name).1
  | .prompt m i => encChars (promptReport s m i).1
  | .promptClosed m i => encChars (promptReportClosed s m i).1
  | .subJobs args => showOut (subJobs s args)
  | .subWait args => showOut (subWait s args)
  | .waitEv evs args => showOut (waitBuiltinEv s evs args).1
  | .kres arg =>
    (match killTarget s arg with
     | .ok (neg, n) => s!"pid:{if neg then "-" else ""}{n}"
     | .error e => s!"err:{e}")
  | .bang => (match bangValue s with | some p => toString p | none => "unset")
  | _ => "-"

/-- the output of the built-in steps, for the documentation checks of `Spec.lean` -/
def opOut (s : JobList) : Op → Out
  | .jobs args => (jobsBuiltin s args).1
  | .bg m args => (bgBuiltin s m args).1
  | .fg m i out args => (fgBuiltin s m i out args).1
  | .wait args => (waitBuiltin s args).1
  | .amp pid m i name => (ampersand s pid m i name).1
  | .prompt m i => { status := 0, stdout := (promptReport s m i).1 }
  | .waitEv evs args => (waitBuiltinEv s evs args).1
  | _ => { status := 0 }

def pidsMentioned (ops : List Op) : List Nat :=
  let ps := ops.flatMap fun
    | .sync evs => evs.map (·.1)
    | .waitEv evs _ => evs.map (·.1)
    | op => (match op with
    | .insert p _ => some p
    | .update p _ => some p
    | .setAsync p => some p
    | .insertJob p _ _ _ => some p
    | .amp p _ _ _ => some p
    | .hjs p _ _ _ => some p
    | .addJob p _ => some p
    | .ajs p _ _ _ => some p
    | _ => none).toList
  ps.eraseDups

def observe (s : JobList) (r : String) (pids : List Nat) : String :=
  let finds := [JobId.current, .previous, .number 1, .number 2, .number 3, .number 4, .number 5,
                .prefix_ ['a'], .substring ['b']].map
    (fun id => showFind (id.find s))
  let px := pids.map (fun p => s!"{p}:{optNat (lookup s.pids p)}")
  s!"r={r} jobs={showJobs s.entries} len={s.len} cur={optNat s.currentJob} prev={optNat s.previousJob} async={s.lastAsync} find={",".intercalate finds} pidx={",".intercalate px}"

/-- FNV-1a (64 bit) of the UTF-8 bytes -/
def fnv (s : String) : UInt64 :=
  s.toUTF8.foldl (fun h b => (h ^^^ b.toUInt64) * 1099511628211) 14695981039346656037

/-- compact observation (case marked `@ `, used by the breadth-first families whose every prefix is
    a case of its own): hash of the earlier steps, how many of them had a previous job, last step -/
def compactObs (obs : List String) : String :=
  match obs.reverse with
  | [] => ""
  | last :: revInit =>
    let init := revInit.reverse
    let withPrev := (init.filter (fun o => (o.splitOn " prev=- ").length == 1)).length
    s!"h={(fnv (" | ".intercalate init)).toNat}:{withPrev} | {last}"

def runLine (line0 : String) : String :=
  let compact := line0.startsWith "@ "
  let line1 := if compact then (line0.drop 2).toString else line0
  -- the harness marks a case whose only failure is the known finding (KNOWN_FINDINGS.txt) with this suffix
  let line := if line1.endsWith "; !kf-insert-suspended" then (line1.dropEnd 22).toString else line1
  let parts := (splitTrim line ";").filter (· ≠ "")
  match parts.mapM parseOp with
  | none => "bad-case\t-"
  | some ops =>
    let pids := pidsMentioned ops
    -- `verdict`: the first failure other than the known finding; `known`: the first occurrence of the
    -- known finding (reported only if nothing else fails, so that it never hides another failure)
    let rec go (s : JobList) (ops : List Op) (k : Nat) (obs : List String) (verdict known : Option String) (pre : Bool)
        : List String × Option String × Option String × Bool :=
      match ops with
      | [] => (obs.reverse, verdict, known, pre)
      | op :: rest =>
        let pre' := pre && opPre s op
        let r := opResult s op
        let s' := step s op
        let f : Option String :=
          if !pre' then none
          else if !invB s' then some "inv"
          else if !stableB s s' then some "index"
          else docCheck s s' op (opOut s op)
        let isKnown := f == some knownInsertMsg
        let v := match verdict, f with
          | some v, _ => some v
          | none, some what => if isKnown then none else some s!"FAIL:{what}@{k}"
          | none, none => none
        let kn := match known with
          | some x => some x
          | none => if isKnown then some s!"FAIL:{knownInsertMsg}@{k}" else none
        go s' rest (k+1) (observe s' r pids :: obs) v kn pre'
    let (obs, verdict, known, pre) := go JobList.empty ops 0 [] none none true
    let spec := match verdict, known with
      | some v, _ => v
      | none, some v => v
      | none, none => if pre then "ok" else "ok-until-pre"
    (if compact then compactObs obs else " | ".intercalate obs) ++ "\t" ++ spec

def main : IO Unit := mainLoop runLine
