/-
  Wave 3 — the loop invariant of `extract_if` (`LoopInv`) and what it says once every job has been visited
  (`Effect`): the slot-wise effect of `remove_if` / `extract_if` and what happens to the current / previous job.
-/
import YashModel.Job.ApiSteps
namespace YashModel.Job

/-- what `remove_if` / `extract_if` do to one slot: a job the predicate selects is gone, any other job is
    the same job (with `state_changed` cleared if the closure calls `state_reported`) -/
def procSlot (pred : Nat → Job → Bool) (report : Bool) (i : Nat) : Option Job → Option Job
  | none => none
  | some j => if pred i j then none else some (if report then { j with changed := false } else j)

theorem gets_drop (es : Slab) (n k : Nat) : gets (es.drop n) k = gets es (n + k) := by
  simp [gets, List.getElem?_drop]

theorem slabLen_drop_none (es : Slab) (idx : Nat) (h : gets es idx = none) :
    slabLen (es.drop idx) = slabLen (es.drop (idx + 1)) := by
  by_cases hl : idx < es.length
  · rw [List.drop_eq_getElem_cons hl]
    have : es[idx] = none := by
      have : es[idx]? = some es[idx] := List.getElem?_eq_getElem hl
      cases he : es[idx] with
      | none => rfl
      | some j => simp [gets, this, he] at h
    rw [this]; rfl
  · rw [List.drop_eq_nil_of_le (by omega), List.drop_eq_nil_of_le (by omega)]

theorem slabLen_drop_some (es : Slab) (idx : Nat) (j : Job) (h : gets es idx = some j) :
    slabLen (es.drop idx) = slabLen (es.drop (idx + 1)) + 1 := by
  have hl := gets_some_lt h
  rw [List.drop_eq_getElem_cons hl]
  have : es[idx] = some j := by
    have : es[idx]? = some es[idx] := List.getElem?_eq_getElem hl
    simp [gets, this] at h
    exact h
  rw [this]; rfl

theorem slabLen_drop_zero (es : Slab) (idx : Nat) (h : slabLen (es.drop idx) = 0) (i : Nat) (hi : idx ≤ i) :
    gets es i = none := by
  have := (slabLen_zero_iff _).mp h (i - idx)
  rw [gets_drop] at this
  rwa [show idx + (i - idx) = i by omega] at this

theorem slabLen_zero_drop (es : Slab) (n : Nat) (h : slabLen es = 0) : slabLen (es.drop n) = 0 := by
  rw [slabLen_zero_iff]
  intro i
  rw [gets_drop]
  exact (slabLen_zero_iff _).mp h _

theorem remove_cur (s : JobList) (i : Nat) (j : Job) (h : gets s.entries i = some j) :
    (s.remove i).2.cur = if i = s.cur then s.prev else s.cur := by
  unfold JobList.remove; simp only [h]

theorem remove_prev_ne (s : JobList) (i : Nat) (j : Job) (h : gets s.entries i = some j)
    (h1 : i ≠ s.cur) (h2 : i ≠ s.prev) : (s.remove i).2.prev = s.prev := by
  unfold JobList.remove; simp only [h, h1, h2, or_self, if_false]

/-- the removal at `idx` keeps the count of occupied slots behind `idx` -/
theorem remove_drop (s : JobList) (idx : Nat) (j : Job) (h : gets s.entries idx = some j) :
    slabLen ((s.remove idx).2.entries.drop (idx + 1)) = slabLen (s.entries.drop (idx + 1)) := by
  unfold JobList.remove
  simp only [h]
  by_cases hz : slabLen (s.entries.set idx none) = 0
  · simp only [hz, if_true, List.drop_nil]
    have := slabLen_zero_drop _ (idx + 1) hz
    rw [List.drop_set_of_lt (by omega)] at this
    exact this.symm
  · simp only [hz, if_false]
    rw [List.drop_set_of_lt (by omega)]

/-- slot `k` of `s` was removed by the calls before `idx` -/
def Hit (s : JobList) (pred : Nat → Job → Bool) (idx k : Nat) : Prop :=
  k < idx ∧ ∃ j, gets s.entries k = some j ∧ pred k j = true

/-- the loop invariant of `extract_if` at position `idx` with `len` jobs still to visit; `s` is the table the
    call started from, `t` the table now -/
structure LoopInv (s : JobList) (pred : Nat → Job → Bool) (report : Bool) (idx len : Nat) (t : JobList) : Prop where
  lo : ∀ i, i < idx → gets t.entries i = procSlot pred report i (gets s.entries i)
  hi : ∀ i, idx ≤ i → gets t.entries i = gets s.entries i
  cnt : len = slabLen (t.entries.drop idx)
  curKeep : ¬ Hit s pred idx s.cur → t.cur = s.cur
  prevKeep : ¬ Hit s pred idx s.cur → ¬ Hit s pred idx s.prev → t.prev = s.prev
  curMoved : Hit s pred idx s.cur → ¬ Hit s pred idx s.prev → t.cur = s.prev

theorem LoopInv.init (s : JobList) (pred : Nat → Job → Bool) (report : Bool) :
    LoopInv s pred report 0 s.len s :=
  ⟨fun i h => by omega, fun _ _ => rfl, by simp [JobList.len], fun _ => rfl, fun _ _ => rfl,
   fun h => by unfold Hit at h; omega⟩

theorem Hit.succ_iff (s : JobList) (pred : Nat → Job → Bool) (idx k : Nat) :
    Hit s pred (idx + 1) k ↔ Hit s pred idx k ∨ (k = idx ∧ ∃ j, gets s.entries k = some j ∧ pred k j = true) := by
  unfold Hit
  constructor
  · rintro ⟨h1, h2⟩
    by_cases hk : k = idx
    · exact Or.inr ⟨hk, h2⟩
    · exact Or.inl ⟨by omega, h2⟩
  · rintro (⟨h1, h2⟩ | ⟨h1, h2⟩)
    · exact ⟨by omega, h2⟩
    · exact ⟨by omega, h2⟩

/-- a vacant slot is skipped -/
theorem LoopInv.skip {s : JobList} {pred : Nat → Job → Bool} {report : Bool} {idx len : Nat} {t : JobList}
    (L : LoopInv s pred report idx len t) (hg : gets t.entries idx = none) :
    LoopInv s pred report (idx + 1) len t := by
  have hs : gets s.entries idx = none := by rw [← L.hi idx (Nat.le_refl _)]; exact hg
  have hh : ∀ k, Hit s pred (idx + 1) k ↔ Hit s pred idx k := by
    intro k; rw [Hit.succ_iff]
    constructor
    · rintro (h | ⟨rfl, j, hj, _⟩)
      · exact h
      · rw [hs] at hj; cases hj
    · exact Or.inl
  refine ⟨?_, fun i h => L.hi i (by omega), ?_, ?_, ?_, ?_⟩
  · intro i hi
    by_cases hk : i = idx
    · subst hk; rw [hg, hs]; rfl
    · exact L.lo i (by omega)
  · rw [L.cnt]; exact slabLen_drop_none _ _ hg
  · rw [hh]; exact L.curKeep
  · rw [hh, hh]; exact L.prevKeep
  · rw [hh, hh]; exact L.curMoved

/-- a job the predicate does not select stays (with the flag cleared if the closure reports it) -/
theorem LoopInv.keep {s : JobList} {pred : Nat → Job → Bool} {report : Bool} {idx len : Nat} {t : JobList} {j : Job}
    (L : LoopInv s pred report idx (len + 1) t) (hg : gets t.entries idx = some j) (hp : pred idx j = false) :
    LoopInv s pred report (idx + 1) len
      (if report then { t with entries := t.entries.set idx (some { j with changed := false }) } else t) := by
  have hs : gets s.entries idx = some j := by rw [← L.hi idx (Nat.le_refl _)]; exact hg
  have hlt := gets_some_lt hg
  have hh : ∀ k, Hit s pred (idx + 1) k ↔ Hit s pred idx k := by
    intro k; rw [Hit.succ_iff]
    constructor
    · rintro (h | ⟨rfl, j', hj, hpj⟩)
      · exact h
      · rw [hs] at hj; cases hj; rw [hp] at hpj; cases hpj
    · exact Or.inl
  have hcnt : len = slabLen (t.entries.drop (idx + 1)) := by
    have := L.cnt; rw [slabLen_drop_some _ _ _ hg] at this; omega
  cases report with
  | false =>
    simp only [Bool.false_eq_true, if_false]
    refine ⟨?_, fun i h => L.hi i (by omega), hcnt, ?_, ?_, ?_⟩
    · intro i hi
      by_cases hk : i = idx
      · subst hk; rw [hg, hs]; simp [procSlot, hp]
      · exact L.lo i (by omega)
    · rw [hh]; exact L.curKeep
    · rw [hh, hh]; exact L.prevKeep
    · rw [hh, hh]; exact L.curMoved
  | true =>
    simp only [if_true]
    refine ⟨?_, ?_, ?_, ?_, ?_, ?_⟩
    · intro i hi
      rw [gets_set _ _ _ _ hlt]
      by_cases hk : i = idx
      · subst hk; rw [hs]; simp [procSlot, hp]
      · simp only [hk, if_false]; exact L.lo i (by omega)
    · intro i hi
      rw [gets_set _ _ _ _ hlt]
      have : i ≠ idx := by omega
      simp only [this, if_false]; exact L.hi i (by omega)
    · rw [List.drop_set_of_lt (by omega)]; exact hcnt
    · rw [hh]; exact L.curKeep
    · rw [hh, hh]; exact L.prevKeep
    · rw [hh, hh]; exact L.curMoved

/-- a job the predicate selects is removed with `JobList::remove` -/
theorem LoopInv.drop {s : JobList} {pred : Nat → Job → Bool} {report : Bool} {idx len : Nat} {t : JobList} {j : Job}
    (L : LoopInv s pred report idx (len + 1) t) (hg : gets t.entries idx = some j) (hp : pred idx j = true) :
    LoopInv s pred report (idx + 1) len
      ((if report then { t with entries := t.entries.set idx (some { j with changed := false }) } else t).remove idx).2 := by
  have hs : gets s.entries idx = some j := by rw [← L.hi idx (Nat.le_refl _)]; exact hg
  have hlt := gets_some_lt hg
  have hh : ∀ k, Hit s pred (idx + 1) k ↔ Hit s pred idx k ∨ k = idx := by
    intro k; rw [Hit.succ_iff]
    constructor
    · rintro (h | ⟨h, _⟩)
      · exact Or.inl h
      · exact Or.inr h
    · rintro (h | rfl)
      · exact Or.inl h
      · exact Or.inr ⟨rfl, j, hs, hp⟩
  -- the table after the optional `state_reported`
  obtain ⟨t1, ht1, hc1, hp1, j1, hg1, hne1, hd1⟩ :
      ∃ t1, t1 = (if report then { t with entries := t.entries.set idx (some { j with changed := false }) } else t) ∧
        t1.cur = t.cur ∧ t1.prev = t.prev ∧ (∃ j1, gets t1.entries idx = some j1 ∧
        (∀ i, i ≠ idx → gets t1.entries i = gets t.entries i) ∧
        slabLen (t1.entries.drop (idx + 1)) = slabLen (t.entries.drop (idx + 1))) := by
    cases report with
    | false => exact ⟨t, by simp, rfl, rfl, j, hg, fun _ _ => rfl, rfl⟩
    | true =>
      refine ⟨{ t with entries := t.entries.set idx (some { j with changed := false }) }, by simp, rfl, rfl,
        { j with changed := false }, ?_, ?_, ?_⟩
      · simp only; rw [gets_set _ _ _ _ hlt]; simp
      · intro i hi; simp only; rw [gets_set _ _ _ _ hlt]; simp [hi]
      · simp only; rw [List.drop_set_of_lt (by omega)]
  rw [← ht1]
  have hcnt : len = slabLen (t.entries.drop (idx + 1)) := by
    have := L.cnt; rw [slabLen_drop_some _ _ _ hg] at this; omega
  have hcur := remove_cur t1 idx j1 hg1
  rw [hc1, hp1] at hcur
  refine ⟨?_, ?_, ?_, ?_, ?_, ?_⟩
  · intro i hi
    rw [remove_gets]
    by_cases hk : i = idx
    · subst hk; rw [hs]; simp [procSlot, hp]
    · simp only [hk, if_false]; rw [hne1 i hk]; exact L.lo i (by omega)
  · intro i hi
    rw [remove_gets]
    have hk : i ≠ idx := by omega
    simp only [hk, if_false]; rw [hne1 i hk]; exact L.hi i (by omega)
  · rw [remove_drop t1 idx j1 hg1, hd1]; exact hcnt
  · intro hn
    rw [hh] at hn
    have h1 : ¬ Hit s pred idx s.cur := fun h => hn (Or.inl h)
    have h2 : s.cur ≠ idx := fun h => hn (Or.inr h)
    have h3 := L.curKeep h1
    rw [hcur, h3]; simp [Ne.symm h2]
  · intro hn hn'
    rw [hh] at hn hn'
    have h1 : ¬ Hit s pred idx s.cur := fun h => hn (Or.inl h)
    have h2 : s.cur ≠ idx := fun h => hn (Or.inr h)
    have h1' : ¬ Hit s pred idx s.prev := fun h => hn' (Or.inl h)
    have h2' : s.prev ≠ idx := fun h => hn' (Or.inr h)
    have h3 := L.curKeep h1
    have h4 := L.prevKeep h1 h1'
    rw [remove_prev_ne t1 idx j1 hg1 (by rw [hc1, h3]; exact Ne.symm h2) (by rw [hp1, h4]; exact Ne.symm h2'), hp1, h4]
  · intro hc hn'
    rw [hh] at hc hn'
    have h1' : ¬ Hit s pred idx s.prev := fun h => hn' (Or.inl h)
    have h2' : s.prev ≠ idx := fun h => hn' (Or.inr h)
    by_cases hhit : Hit s pred idx s.cur
    · have h3 := L.curMoved hhit h1'
      rw [hcur, h3]; simp [Ne.symm h2']
    · have hci : s.cur = idx := by
        rcases hc with h | h
        · exact absurd h hhit
        · exact h
      have h3 := L.curKeep hhit
      have h4 := L.prevKeep hhit h1'
      rw [hcur, h3, h4]; simp [hci]

/-- slot `k` of `s` holds a job the predicate selects -/
def Selected (s : JobList) (pred : Nat → Job → Bool) (k : Nat) : Prop :=
  ∃ j, gets s.entries k = some j ∧ pred k j = true

/-- what the invariant says once every job has been visited -/
structure Effect (s : JobList) (pred : Nat → Job → Bool) (report : Bool) (t : JobList) : Prop where
  slots : ∀ i, gets t.entries i = procSlot pred report i (gets s.entries i)
  curKeep : ¬ Selected s pred s.cur → t.cur = s.cur
  prevKeep : ¬ Selected s pred s.cur → ¬ Selected s pred s.prev → t.prev = s.prev
  curMoved : Selected s pred s.cur → ¬ Selected s pred s.prev → t.cur = s.prev

theorem LoopInv.final {s : JobList} {pred : Nat → Job → Bool} {report : Bool} {idx len : Nat} {t : JobList}
    (L : LoopInv s pred report idx len t) (hend : ∀ i, idx ≤ i → gets s.entries i = none) :
    Effect s pred report t := by
  have hh : ∀ k, Hit s pred idx k ↔ Selected s pred k := by
    intro k
    unfold Hit Selected
    constructor
    · exact fun h => h.2
    · rintro ⟨j, hj, hp⟩
      refine ⟨?_, j, hj, hp⟩
      by_cases hk : k < idx
      · exact hk
      · rw [hend k (by omega)] at hj; cases hj
  refine ⟨?_, ?_, ?_, ?_⟩
  · intro i
    by_cases hi : i < idx
    · exact L.lo i hi
    · rw [L.hi i (by omega), hend i (by omega)]; rfl
  · rw [← hh]; exact L.curKeep
  · rw [← hh, ← hh]; exact L.prevKeep
  · rw [← hh, ← hh]; exact L.curMoved

theorem extractLoop_effect (s : JobList) (pred : Nat → Job → Bool) (report : Bool) (fuel idx len : Nat) (t : JobList)
    (acc : List Nat) (L : LoopInv s pred report idx len t) (hf : s.entries.length + 1 ≤ fuel + idx) :
    Effect s pred report (extractLoop pred report fuel idx len t acc).2 := by
  induction fuel generalizing idx len t acc with
  | zero =>
    unfold extractLoop
    exact L.final (fun i hi => gets_ge _ _ (by omega))
  | succ fuel ih =>
    cases len with
    | zero =>
      unfold extractLoop
      refine L.final (fun i hi => ?_)
      rw [← L.hi i hi]
      exact slabLen_drop_zero _ _ L.cnt.symm i hi
    | succ len =>
      unfold extractLoop
      cases hg : gets t.entries idx with
      | none => simp only; exact ih _ _ _ _ (L.skip hg) (by omega)
      | some j =>
        simp only
        cases hp : pred idx j with
        | true => simp only [if_true]; exact ih _ _ _ _ (L.drop hg hp) (by omega)
        | false => simp only [Bool.false_eq_true, if_false]; exact ih _ _ _ _ (L.keep hg hp) (by omega)

theorem removeIf_effect (s : JobList) (pred : Nat → Job → Bool) (report : Bool) :
    Effect s pred report (s.removeIf pred report).2 :=
  extractLoop_effect s pred report _ 0 _ s [] (LoopInv.init s pred report) (by omega)

/-- `extract_if(..).take(n)`: wherever the iterator is dropped, the invariant holds at some position -/
theorem extractLoopN_loopInv (s : JobList) (pred : Nat → Job → Bool) (report : Bool) (fuel n idx len : Nat)
    (t : JobList) (acc : List Nat) (L : LoopInv s pred report idx len t) :
    ∃ k len', LoopInv s pred report k len' (extractLoopN pred report fuel n idx len t acc).2 := by
  induction fuel generalizing n idx len t acc with
  | zero => unfold extractLoopN; exact ⟨_, _, L⟩
  | succ fuel ih =>
    cases n with
    | zero => unfold extractLoopN; exact ⟨_, _, L⟩
    | succ n =>
    cases len with
    | zero => unfold extractLoopN; exact ⟨_, _, L⟩
    | succ len =>
      unfold extractLoopN
      cases hg : gets t.entries idx with
      | none => simp only; exact ih _ _ _ _ _ (L.skip hg)
      | some j =>
        simp only
        cases hp : pred idx j with
        | true => simp only [if_true]; exact ih _ _ _ _ _ (L.drop hg hp)
        | false => simp only [Bool.false_eq_true, if_false]; exact ih _ _ _ _ _ (L.keep hg hp)


theorem hit_succ_skip (s : JobList) (pred : Nat → Job → Bool) (idx : Nat)
    (h : ∀ j, gets s.entries idx = some j → pred idx j = false) (k : Nat) :
    Hit s pred (idx + 1) k ↔ Hit s pred idx k := by
  rw [Hit.succ_iff]
  constructor
  · rintro (h' | ⟨rfl, j, hj, hp⟩)
    · exact h'
    · rw [h j hj] at hp; cases hp
  · exact Or.inl

theorem hit_succ_drop (s : JobList) (pred : Nat → Job → Bool) (idx : Nat) (j : Job)
    (hs : gets s.entries idx = some j) (hp : pred idx j = true) (k : Nat) :
    Hit s pred (idx + 1) k ↔ Hit s pred idx k ∨ k = idx := by
  rw [Hit.succ_iff]
  constructor
  · rintro (h | ⟨h, _⟩)
    · exact Or.inl h
    · exact Or.inr h
  · rintro (h | rfl)
    · exact Or.inl h
    · exact Or.inr ⟨rfl, j, hs, hp⟩

theorem hit_iff_selected (s : JobList) (pred : Nat → Job → Bool) (idx : Nat)
    (hend : ∀ i, idx ≤ i → gets s.entries i = none) (k : Nat) : Hit s pred idx k ↔ Selected s pred k := by
  unfold Hit Selected
  constructor
  · exact fun h => h.2
  · rintro ⟨j, hj, hp⟩
    refine ⟨?_, j, hj, hp⟩
    by_cases hk : k < idx
    · exact hk
    · rw [hend k (by omega)] at hj; cases hj

/-- the indices `extract_if` yields: exactly the selected slots, in ascending order -/
theorem extractLoop_result (s : JobList) (pred : Nat → Job → Bool) (report : Bool) (fuel idx len : Nat) (t : JobList)
    (acc : List Nat) (L : LoopInv s pred report idx len t) (hf : s.entries.length + 1 ≤ fuel + idx)
    (hacc : ∀ k, k ∈ acc ↔ Hit s pred idx k) (hsort : acc.reverse.Pairwise (· < ·)) :
    (∀ k, k ∈ (extractLoop pred report fuel idx len t acc).1 ↔ Selected s pred k) ∧
    (extractLoop pred report fuel idx len t acc).1.Pairwise (· < ·) := by
  induction fuel generalizing idx len t acc with
  | zero =>
    unfold extractLoop
    refine ⟨fun k => ?_, hsort⟩
    rw [List.mem_reverse, hacc, hit_iff_selected s pred idx (fun i hi => gets_ge _ _ (by omega))]
  | succ fuel ih =>
    cases len with
    | zero =>
      unfold extractLoop
      refine ⟨fun k => ?_, hsort⟩
      rw [List.mem_reverse, hacc, hit_iff_selected s pred idx]
      intro i hi
      rw [← L.hi i hi]
      exact slabLen_drop_zero _ _ L.cnt.symm i hi
    | succ len =>
      unfold extractLoop
      cases hg : gets t.entries idx with
      | none =>
        simp only
        have hs : gets s.entries idx = none := by rw [← L.hi idx (Nat.le_refl _)]; exact hg
        refine ih _ _ _ _ (L.skip hg) (by omega) (fun k => ?_) hsort
        rw [hacc, hit_succ_skip s pred idx (fun j hj => by rw [hs] at hj; cases hj)]
      | some j =>
        simp only
        have hs : gets s.entries idx = some j := by rw [← L.hi idx (Nat.le_refl _)]; exact hg
        cases hp : pred idx j with
        | true =>
          simp only [if_true]
          refine ih _ _ _ _ (L.drop hg hp) (by omega) (fun k => ?_) ?_
          · rw [List.mem_cons, hit_succ_drop s pred idx j hs hp, hacc]
            constructor
            · rintro (h | h)
              · exact Or.inr h
              · exact Or.inl h
            · rintro (h | h)
              · exact Or.inr h
              · exact Or.inl h
          · rw [List.reverse_cons, List.pairwise_append]
            refine ⟨hsort, List.pairwise_singleton _ _, ?_⟩
            intro a ha b hb
            rw [List.mem_singleton] at hb
            subst hb
            exact ((hacc a).mp (List.mem_reverse.mp ha)).1
        | false =>
          simp only [Bool.false_eq_true, if_false]
          refine ih _ _ _ _ (L.keep hg hp) (by omega) (fun k => ?_) hsort
          rw [hacc, hit_succ_skip s pred idx (fun j' hj' => by rw [hs] at hj'; cases hj'; exact hp)]

theorem removeIf_result (s : JobList) (pred : Nat → Job → Bool) (report : Bool) :
    (∀ k, k ∈ (s.removeIf pred report).1 ↔ Selected s pred k) ∧ (s.removeIf pred report).1.Pairwise (· < ·) :=
  extractLoop_result s pred report _ 0 _ s [] (LoopInv.init s pred report) (by omega)
    (fun k => by simp [Hit]) (by simp)


/-- the accumulator only prefixes the yielded indices; the table does not depend on it -/
theorem extractLoop_acc (pred : Nat → Job → Bool) (report : Bool) (fuel idx len : Nat) (t : JobList) (acc : List Nat) :
    extractLoop pred report fuel idx len t acc =
      (acc.reverse ++ (extractLoop pred report fuel idx len t []).1, (extractLoop pred report fuel idx len t []).2) := by
  induction fuel generalizing idx len t acc with
  | zero => unfold extractLoop; simp
  | succ fuel ih =>
    cases len with
    | zero => unfold extractLoop; simp
    | succ len =>
      unfold extractLoop
      cases hg : gets t.entries idx with
      | none => simp only; exact ih _ _ _ _
      | some j =>
        simp only
        split
        · rw [ih _ _ _ (idx :: acc), ih _ _ _ [idx]]; simp
        · exact ih _ _ _ _

/-- `take n` yields the first `n` of the indices the drained iterator yields -/
theorem extractLoopN_take (pred : Nat → Job → Bool) (report : Bool) (fuel n idx len : Nat) (t : JobList) (acc : List Nat) :
    (extractLoopN pred report fuel n idx len t acc).1 =
      acc.reverse ++ (extractLoop pred report fuel idx len t []).1.take n := by
  induction fuel generalizing n idx len t acc with
  | zero => unfold extractLoopN extractLoop; simp
  | succ fuel ih =>
    cases n with
    | zero => unfold extractLoopN; simp
    | succ n =>
    cases len with
    | zero => unfold extractLoopN extractLoop; simp
    | succ len =>
      unfold extractLoopN extractLoop
      cases hg : gets t.entries idx with
      | none => simp only; exact ih _ _ _ _ _
      | some j =>
        simp only
        split
        · rw [ih, extractLoop_acc _ _ _ _ _ _ [idx]]; simp
        · exact ih _ _ _ _ _

theorem selS_ge {σ : Type} (f : σ → Nat → Job → Bool × σ) (st : σ) (es : Slab) (i k : Nat)
    (h : k ∈ selS f st es i) : i ≤ k := by
  induction es generalizing st i with
  | nil => simp [selS] at h
  | cons o t ih =>
    cases o with
    | none => simp only [selS] at h; have := ih _ _ h; omega
    | some j =>
      simp only [selS] at h
      split at h
      · rcases List.mem_cons.mp h with rfl | h'
        · exact Nat.le_refl _
        · have := ih _ _ h'; omega
      · have := ih _ _ h; omega

theorem selS_empty {σ : Type} (f : σ → Nat → Job → Bool × σ) (st : σ) (es : Slab) (i : Nat)
    (h : slabLen es = 0) : selS f st es i = [] := by
  induction es generalizing st i with
  | nil => rfl
  | cons o t ih =>
    cases o with
    | none => simp only [selS]; exact ih _ _ (by simpa [slabLen] using h)
    | some j => simp [slabLen] at h

/-- a stateful closure decides exactly like the pure predicate "the index is among `selS`" -/
theorem extractLoopS_eq {σ : Type} (f : σ → Nat → Job → Bool × σ) (report : Bool) (P : Nat → Bool)
    (fuel idx len : Nat) (st : σ) (t : JobList) (acc : List Nat)
    (hP : ∀ i, idx ≤ i → P i = (selS f st (t.entries.drop idx) idx).contains i) :
    extractLoopS f report fuel idx len st t acc = extractLoop (fun i _ => P i) report fuel idx len t acc := by
  induction fuel generalizing idx len st t acc with
  | zero => unfold extractLoopS extractLoop; rfl
  | succ fuel ih =>
    cases len with
    | zero => unfold extractLoopS extractLoop; rfl
    | succ len =>
      unfold extractLoopS extractLoop
      cases hg : gets t.entries idx with
      | none =>
        simp only
        apply ih
        intro i hi
        rw [hP i (by omega)]
        by_cases hl : idx < t.entries.length
        · rw [List.drop_eq_getElem_cons hl]
          have : t.entries[idx] = none := by
            have h1 : t.entries[idx]? = some t.entries[idx] := List.getElem?_eq_getElem hl
            cases he : t.entries[idx] with
            | none => rfl
            | some j => simp [gets, h1, he] at hg
          rw [this]; simp only [selS]
        · rw [List.drop_eq_nil_of_le (by omega), List.drop_eq_nil_of_le (by omega)]; simp only [selS]
      | some j =>
        simp only
        have hl := gets_some_lt hg
        have hcons : t.entries.drop idx = some j :: t.entries.drop (idx + 1) := by
          rw [List.drop_eq_getElem_cons hl]
          have h1 : t.entries[idx]? = some t.entries[idx] := List.getElem?_eq_getElem hl
          have : t.entries[idx] = some j := by simp [gets, h1] at hg; exact hg
          rw [this]
        have hPi := hP idx (Nat.le_refl _)
        rw [hcons] at hPi
        simp only [selS] at hPi
        cases hd : (f st idx j).1 with
        | true =>
          rw [hd] at hPi
          simp only [if_true, List.contains_cons, beq_self_eq_true, Bool.true_or] at hPi
          simp only [hPi, if_true]
          apply ih
          intro i hi
          rw [hP i (by omega), hcons]
          simp only [selS, hd, if_true]
          have hne : (i == idx) = false := by simp; omega
          rw [List.contains_cons, hne, Bool.false_or]
          -- the slots behind `idx` after the removal
          congr 1
          cases report with
          | false =>
            simp only [Bool.false_eq_true, if_false]
            unfold JobList.remove
            simp only [hg]
            by_cases hz : slabLen (t.entries.set idx none) = 0
            · simp only [hz, if_true, List.drop_nil]
              have := slabLen_zero_drop _ (idx + 1) hz
              rw [List.drop_set_of_lt (by omega)] at this
              rw [selS_empty f _ _ _ this]; rfl
            · simp only [hz, if_false]; rw [List.drop_set_of_lt (by omega)]
          | true =>
            simp only [if_true]
            unfold JobList.remove
            have hg' : gets (t.entries.set idx (some { j with changed := false })) idx = some { j with changed := false } := by
              rw [gets_set _ _ _ _ hl]; simp
            simp only [hg']
            by_cases hz : slabLen ((t.entries.set idx (some { j with changed := false })).set idx none) = 0
            · simp only [hz, if_true, List.drop_nil]
              have := slabLen_zero_drop _ (idx + 1) hz
              rw [List.drop_set_of_lt (by omega), List.drop_set_of_lt (by omega)] at this
              rw [selS_empty f _ _ _ this]; rfl
            · simp only [hz, if_false]; rw [List.drop_set_of_lt (by omega), List.drop_set_of_lt (by omega)]
        | false =>
          rw [hd] at hPi
          simp only [Bool.false_eq_true, if_false] at hPi
          have hnot : P idx = false := by
            rw [hPi]
            apply Bool.eq_false_iff.mpr
            intro hc
            have := selS_ge f _ _ _ _ (List.contains_iff_mem.mp hc)
            omega
          simp only [hnot, Bool.false_eq_true, if_false]
          apply ih
          intro i hi
          rw [hP i (by omega), hcons]
          simp only [selS, hd, Bool.false_eq_true, if_false]
          congr 1
          cases report with
          | false => rfl
          | true => simp only [if_true]; rw [List.drop_set_of_lt (by omega)]

theorem removeIfS_eq {σ : Type} (s : JobList) (f : σ → Nat → Job → Bool × σ) (st : σ) (report : Bool) :
    s.removeIfS f st report = s.removeIf (fun i _ => (selS f st s.entries 0).contains i) report :=
  extractLoopS_eq f report _ _ 0 _ st s [] (fun i _ => by simp)

theorem selS_firstK (p : Nat → Job → Bool) (k : Nat) (es : Slab) (i : Nat) :
    selS (firstK p) k es i = (selS (fun (_ : Unit) i j => (p i j, ())) () es i).take k := by
  induction es generalizing k i with
  | nil => simp [selS]
  | cons o t ih =>
    cases o with
    | none => simp only [selS]; exact ih _ _
    | some j =>
      simp only [selS, firstK]
      by_cases hp : p i j = true
      · cases k with
        | zero => simp [hp]; rw [ih]; simp
        | succ k => simp [hp]; rw [ih]
      · simp [hp]; exact ih _ _

end YashModel.Job
