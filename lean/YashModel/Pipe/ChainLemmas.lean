/-
  C14 — lemmas about the concurrent n-stage chain (Chain.lean): the invariant (recursive over the chain), its
  preservation by every step of every process, conservation, the progress lemma behind `chain_no_deadlock`.
  (Property theorems are in Theorems.lean.)
-/
import YashModel.Pipe.Chain
import YashModel.Pipe.Lemmas
namespace YashModel.Pipe

variable {α : Type}

/-- reachable states of `source | m × cat | sink`: every interleaving of the `m + 2` processes, every read
    buffer and write request of at least one byte at every step -/
inductive CReach (c : Cfg) (m : Nat) (pre post : List α) : Chain α → Prop
  | init : CReach c m pre post (Chain.init m pre post)
  | step {s s' : Chain α} (i n k : Nat) :
      CReach c m pre post s → 1 ≤ n → 1 ≤ k → s.step c i n k = some s' → CReach c m pre post s'

/-- everything but the content of the first input pipe -/
def Chain.body : Chain α → List α
  | .sink _ r _ => r
  | .fwd _ h _ rest => rest.total ++ h

theorem Chain.total_eq (s : Chain α) : s.total = s.body ++ s.inp.content := by
  cases s <;> simp [Chain.total, Chain.body, Chain.inp]

theorem Chain.mapInp_total (s : Chain α) (f : Fifo α → Fifo α) :
    (s.mapInp f).total = s.body ++ (f s.inp).content := by
  cases s <;> simp [Chain.total, Chain.body, Chain.inp, Chain.mapInp]

theorem Chain.mapInp_inp (s : Chain α) (f : Fifo α → Fifo α) : (s.mapInp f).inp = f s.inp := by
  cases s <;> simp [Chain.inp, Chain.mapInp]

theorem Chain.mapInp_received (s : Chain α) (f : Fifo α → Fifo α) : (s.mapInp f).received = s.received := by
  cases s <;> simp [Chain.received, Chain.mapInp]

/-- the invariant, node by node: descriptor counts of every pipe follow the states of its two processes, a
    finished stage has drained its input and holds nothing, a stage that is about to read holds nothing, no
    stage has met EPIPE -/
def Chain.Inv : Chain α → Prop
  | .sink inp _ pc =>
      inp.readers = (if pc = .done then 0 else 1) ∧ (pc = .done → inp.content = [] ∧ inp.writers = 0)
  | .fwd inp hold pc rest =>
      inp.readers = (if pc = .closed then 0 else 1) ∧
      rest.inp.writers = (if pc = .closed then 0 else 1) ∧
      pc ≠ .failed ∧
      (pc = .closed → hold = [] ∧ inp.content = [] ∧ inp.writers = 0) ∧
      (pc = .rd ∨ pc = .rwait → hold = []) ∧
      rest.Inv

theorem Chain.Inv.head_done {s : Chain α} (hi : s.Inv) (h : s.headDone = true) :
    s.inp.content = [] ∧ s.inp.writers = 0 ∧ s.inp.readers = 0 := by
  cases s with
  | sink inp r pc =>
    simp only [Chain.headDone, beq_iff_eq] at h
    simp only [Chain.Inv] at hi
    simp_all [Chain.inp]
  | fwd inp hold pc rest =>
    simp only [Chain.headDone, Bool.or_eq_true, beq_iff_eq] at h
    simp only [Chain.Inv] at hi
    obtain ⟨h1, _, h3, h4, _, _⟩ := hi
    rcases h with h | h
    · simp_all [Chain.inp]
    · exact absurd h h3

theorem Chain.Inv.head_live {s : Chain α} (hi : s.Inv) (h : s.headDone = false) : s.inp.readers = 1 := by
  cases s with
  | sink inp r pc =>
    simp only [Chain.headDone, beq_eq_false_iff_ne, ne_eq] at h
    simp only [Chain.Inv] at hi
    simp_all [Chain.inp]
  | fwd inp hold pc rest =>
    simp only [Chain.headDone, Bool.or_eq_false_iff, beq_eq_false_iff_ne, ne_eq] at h
    simp only [Chain.Inv] at hi
    simp_all [Chain.inp]

theorem Chain.Inv.mapInp {s : Chain α} (hi : s.Inv) (f : Fifo α → Fifo α)
    (hr : (f s.inp).readers = s.inp.readers)
    (hd : s.headDone = true → (f s.inp).content = [] ∧ (f s.inp).writers = 0) : (s.mapInp f).Inv := by
  cases s with
  | sink inp r pc =>
    simp only [Chain.Inv, Chain.mapInp, Chain.inp, Chain.headDone, beq_iff_eq] at *
    exact ⟨by rw [hr]; exact hi.1, hd⟩
  | fwd inp hold pc rest =>
    simp only [Chain.Inv, Chain.mapInp, Chain.inp, Chain.headDone, Bool.or_eq_true, beq_iff_eq] at *
    obtain ⟨h1, h2, h3, h4, h5, h6⟩ := hi
    refine ⟨by rw [hr]; exact h1, h2, h3, fun hc => ?_, h5, h6⟩
    exact ⟨(h4 hc).1, hd (Or.inl hc)⟩

theorem take_nil_of_pos {l : List α} {n : Nat} (hn : 1 ≤ n) (h : l.take n = []) : l = [] := by
  cases l with
  | nil => rfl
  | cons a t =>
    cases n with
    | zero => omega
    | succ m => simp at h

/-- the sink's step keeps the invariant, the writer count of its pipe and every byte -/
theorem sinkStep_inv {inp : Fifo α} {r : List α} {pc : RPc} {n : Nat} {s' : Chain α} (hn : 1 ≤ n)
    (hi : (Chain.sink inp r pc).Inv) (h : sinkStep inp r pc n = some s') :
    s'.Inv ∧ s'.inp.writers = inp.writers ∧ s'.total = r ++ inp.content := by
  simp only [Chain.Inv] at hi
  obtain ⟨h1, h2⟩ := hi
  unfold sinkStep at h
  split at h
  next =>
    split at h
    next p hrd =>
      simp only [Option.some.injEq] at h
      subst h
      simp [Chain.Inv, Chain.inp, Chain.total, h1]
    next bs p hrd =>
      have ⟨hbs, hp, hw0⟩ := read_data hn hrd
      split at h
      next he =>
        have hbs0 : bs = [] := by simpa using he
        have hc : inp.content = [] := take_nil_of_pos hn (by rw [← hbs, hbs0])
        simp only [Option.some.injEq] at h
        subst h
        subst hp
        simp_all [Chain.Inv, Chain.inp, Chain.total, Fifo.closeFd]
      next he =>
        simp only [Option.some.injEq] at h
        subst h
        subst hp
        subst hbs
        simp_all [Chain.Inv, Chain.inp, Chain.total]
  next =>
    split at h
    · simp only [Option.some.injEq] at h
      subst h
      simp_all [Chain.Inv, Chain.inp, Chain.total]
    · simp at h
  next => simp at h

/-- a step of the first process of a chain keeps the invariant, the writer count of its input and every byte -/
theorem fwdStep_inv {c : Cfg} {inp : Fifo α} {hold : List α} {pc : FPc} {rest : Chain α} {n k : Nat}
    {s' : Chain α} (hn : 1 ≤ n) (hi : (Chain.fwd inp hold pc rest).Inv)
    (h : fwdStep c inp hold pc rest n k = some s') :
    s'.Inv ∧ s'.inp.writers = inp.writers ∧ s'.total = rest.total ++ hold ++ inp.content ∧
      s'.received = rest.received := by
  simp only [Chain.Inv] at hi
  obtain ⟨h1, h2, h3, h4, h5, h6⟩ := hi
  unfold fwdStep at h
  split at h
  next =>
    -- rd
    have hh : hold = [] := h5 (Or.inl rfl)
    split at h
    next p hrd =>
      simp only [Option.some.injEq] at h
      subst h
      simp_all [Chain.Inv, Chain.inp, Chain.total, Chain.received]
    next bs p hrd =>
      have ⟨hbs, hp, hw0⟩ := read_data hn hrd
      split at h
      next he =>
        have hbs0 : bs = [] := by simpa using he
        have hc : inp.content = [] := take_nil_of_pos hn (by rw [← hbs, hbs0])
        simp only [Option.some.injEq] at h
        subst h
        subst hp
        have hri : (rest.mapInp (·.closeFd false true)).Inv := by
          refine h6.mapInp _ (by simp [Fifo.closeFd]) (fun hd => ?_)
          have := h6.head_done hd
          simp [Fifo.closeFd, this.1, this.2.1]
        refine ⟨?_, ?_, ?_, ?_⟩
        · simp only [Chain.Inv]
          refine ⟨by simp_all [Fifo.closeFd], by simp_all [Chain.mapInp_inp, Fifo.closeFd], by simp, ?_, by simp, hri⟩
          intro _
          simp_all [Fifo.closeFd]
        · simp [Chain.inp, Fifo.closeFd]
        · simp only [Chain.total, Chain.mapInp_total, Fifo.closeFd]
          rw [Chain.total_eq rest]
          simp [hc, hh]
        · simp [Chain.received, Chain.mapInp_received]
      next he =>
        simp only [Option.some.injEq] at h
        subst h
        subst hp
        subst hbs
        refine ⟨?_, ?_, ?_, ?_⟩
        · simp only [Chain.Inv]
          simp_all
        · simp [Chain.inp]
        · simp [Chain.total, hh]
        · simp [Chain.received]
  next =>
    -- rwait
    split at h
    · simp only [Option.some.injEq] at h
      subst h
      simp_all [Chain.Inv, Chain.inp, Chain.total, Chain.received]
    · simp at h
  next =>
    -- wr
    split at h
    next he =>
      have hh : hold = [] := by simpa using he
      simp only [Option.some.injEq] at h
      subst h
      simp_all [Chain.Inv, Chain.inp, Chain.total, Chain.received]
    next he =>
      have hlive : rest.headDone = false := by
        cases hd : rest.headDone with
        | false => rfl
        | true =>
          have := (h6.head_done hd).2.1
          simp [this] at h2
      have hrd1 := h6.head_live hlive
      split at h
      next p hwr =>
        have ⟨hr0, _⟩ := write_epipe hwr
        omega
      next p hwr =>
        simp only [Option.some.injEq] at h
        subst h
        simp_all [Chain.Inv, Chain.inp, Chain.total, Chain.received]
      next w p hwr =>
        have ⟨hr, hp, hw, hroom, _, _⟩ := write_wrote hwr
        have hri : (rest.mapInp fun _ => p).Inv := by
          refine h6.mapInp _ (by simp [hp]) (fun hd => ?_)
          rw [hlive] at hd
          exact absurd hd (by simp)
        have htot : (rest.mapInp fun _ => p).total ++ hold.drop w = rest.total ++ hold := by
          rw [Chain.mapInp_total, Chain.total_eq rest, hp]
          simp only [List.append_assoc]
          rw [take_take_drop hold k w hw]
        split at h
        next hw0 =>
          subst hw0
          simp only [Option.some.injEq] at h
          subst h
          refine ⟨?_, ?_, ?_, ?_⟩
          · simp only [Chain.Inv]
            refine ⟨by simpa using h1, by rw [Chain.mapInp_inp, hp]; simpa using h2, by simp, by simp, by simp, hri⟩
          · simp [Chain.inp]
          · simp only [Chain.total]
            have := htot
            simp only [List.drop_zero] at this
            rw [this]
          · simp [Chain.received, Chain.mapInp_received]
        next hw0 =>
          simp only [Option.some.injEq] at h
          subst h
          refine ⟨?_, ?_, ?_, ?_⟩
          · simp only [Chain.Inv]
            refine ⟨by simpa using h1, by rw [Chain.mapInp_inp, hp]; simpa using h2, by simp, by simp, by simp, hri⟩
          · simp [Chain.inp]
          · simp only [Chain.total]
            rw [htot]
          · simp [Chain.received, Chain.mapInp_received]
  next =>
    -- wwait
    split at h
    · simp only [Option.some.injEq] at h
      subst h
      simp_all [Chain.Inv, Chain.inp, Chain.total, Chain.received]
    · simp at h
  next => simp at h
  next => simp at h

/-- received data only grows (here: the sink's own step) -/
theorem sinkStep_received {inp : Fifo α} {r : List α} {pc : RPc} {n : Nat} {s' : Chain α}
    (h : sinkStep inp r pc n = some s') : ∃ x, s'.received = r ++ x := by
  unfold sinkStep at h
  split at h
  · split at h
    · simp only [Option.some.injEq] at h; subst h; exact ⟨[], by simp [Chain.received]⟩
    · split at h <;> (simp only [Option.some.injEq] at h; subst h)
      · exact ⟨[], by simp [Chain.received]⟩
      · exact ⟨_, rfl⟩
  · split at h
    · simp only [Option.some.injEq] at h; subst h; exact ⟨[], by simp [Chain.received]⟩
    · simp at h
  · simp at h

/-- ★ every step of every process keeps the invariant, the writer count of the first pipe and every byte of
    the system in order; what the sink holds only grows -/
theorem Chain.step_inv {c : Cfg} {s s' : Chain α} {i n k : Nat} (hn : 1 ≤ n) (hi : s.Inv)
    (h : s.step c i n k = some s') :
    s'.Inv ∧ s'.inp.writers = s.inp.writers ∧ s'.total = s.total ∧ s'.procs = s.procs ∧
      ∃ x, s'.received = s.received ++ x := by
  induction s generalizing i s' with
  | sink inp r pc =>
    cases i with
    | zero =>
      simp only [Chain.step] at h
      have ⟨a, b, d⟩ := sinkStep_inv hn hi h
      refine ⟨a, b, d, ?_, sinkStep_received h⟩
      unfold sinkStep at h
      split at h
      · split at h
        · simp only [Option.some.injEq] at h; subst h; rfl
        · split at h <;> (simp only [Option.some.injEq] at h; subst h; rfl)
      · split at h
        · simp only [Option.some.injEq] at h; subst h; rfl
        · simp at h
      · simp at h
    | succ j => simp [Chain.step] at h
  | fwd inp hold pc rest ih =>
    cases i with
    | zero =>
      simp only [Chain.step] at h
      have ⟨a, b, d, e⟩ := fwdStep_inv hn hi h
      refine ⟨a, b, d, ?_, ⟨[], by simp [e, Chain.received]⟩⟩
      unfold fwdStep at h
      split at h
      · split at h
        · simp only [Option.some.injEq] at h; subst h; rfl
        · split at h <;> (simp only [Option.some.injEq] at h; subst h)
          · cases rest <;> rfl
          · rfl
      · split at h
        · simp only [Option.some.injEq] at h; subst h; rfl
        · simp at h
      · split at h
        · simp only [Option.some.injEq] at h; subst h; rfl
        · split at h
          · simp only [Option.some.injEq] at h; subst h; cases rest <;> rfl
          · simp only [Option.some.injEq] at h; subst h; rfl
          · split at h <;> (simp only [Option.some.injEq] at h; subst h; cases rest <;> rfl)
      · split at h
        · simp only [Option.some.injEq] at h; subst h; rfl
        · simp at h
      · simp at h
      · simp at h
    | succ j =>
      simp only [Chain.step, Option.map_eq_some_iff] at h
      obtain ⟨r', hr', rfl⟩ := h
      simp only [Chain.Inv] at hi
      obtain ⟨h1, h2, h3, h4, h5, h6⟩ := hi
      have ⟨a, b, d, e, x, hx⟩ := ih h6 hr'
      refine ⟨?_, rfl, ?_, ?_, x, ?_⟩
      · simp only [Chain.Inv]
        exact ⟨h1, by rw [b]; exact h2, h3, h4, h5, a⟩
      · simp [Chain.total, d]
      · simp [Chain.procs, e]
      · simpa [Chain.received] using hx

/-! ### the initial state -/

theorem Chain.idle_inp (m : Nat) : (Chain.idle m : Chain α).inp = { content := [], readers := 1, writers := 1 } := by
  cases m <;> rfl

theorem Chain.idle_inv (m : Nat) : (Chain.idle m : Chain α).Inv := by
  induction m with
  | zero => simp [Chain.idle, Chain.Inv]
  | succ m ih =>
    simp only [Chain.idle, Chain.Inv]
    refine ⟨by simp, by simp [Chain.idle_inp], by simp, by simp, by simp, ih⟩

theorem Chain.idle_total (m : Nat) : (Chain.idle m : Chain α).total = [] := by
  induction m with
  | zero => simp [Chain.idle, Chain.total]
  | succ m ih => simp [Chain.idle, Chain.total, ih]

theorem Chain.idle_procs (m : Nat) : (Chain.idle m : Chain α).procs = m + 1 := by
  induction m with
  | zero => rfl
  | succ m ih => simp [Chain.idle, Chain.procs, ih]

theorem Chain.init_inv (m : Nat) (pre post : List α) : (Chain.init m pre post).Inv := by
  simp only [Chain.init, Chain.Inv]
  exact ⟨by simp, by simp [Chain.idle_inp], by simp, by simp, by simp, Chain.idle_inv m⟩

/-- what holds in every reachable state -/
theorem CReach.inv {c : Cfg} {m : Nat} {pre post : List α} {s : Chain α} (hr : CReach c m pre post s) :
    s.Inv ∧ s.inp.writers = 0 ∧ s.total = pre ++ post ∧ s.procs = m + 2 := by
  induction hr with
  | init =>
    refine ⟨Chain.init_inv m pre post, rfl, ?_, ?_⟩
    · simp [Chain.init, Chain.total, Chain.idle_total]
    · simp [Chain.init, Chain.procs, Chain.idle_procs]
  | step i n k _ hn _ hs ih =>
    obtain ⟨a, b, d, e⟩ := ih
    have ⟨a', b', d', e', _⟩ := Chain.step_inv hn a hs
    exact ⟨a', by rw [b', b], by rw [d', d], by rw [e', e]⟩

/-! ### progress -/

theorem Chain.allDone_headDone {s : Chain α} (h : s.allDone = true) : s.headDone = true := by
  cases s with
  | sink inp r pc => simpa [Chain.allDone, Chain.headDone] using h
  | fwd inp hold pc rest =>
    simp only [Chain.allDone, Bool.and_eq_true, beq_iff_eq] at h
    simp [Chain.headDone, h.1]

/-- the progress lemma (induction from the sink backwards): a chain that satisfies the invariant has finished,
    or one of its processes can step whatever sizes are offered, or its first process is alive and blocked on
    an empty input pipe that still has a writer -/
theorem Chain.progress (c : Cfg) (hv : c.Valid) (s : Chain α) (hi : s.Inv) :
    s.allDone = true ∨ (∃ i, i < s.procs ∧ ∀ n k, (s.step c i n k).isSome = true) ∨
      (s.inp.content = [] ∧ 0 < s.inp.writers ∧ s.headDone = false) := by
  induction s with
  | sink inp r pc =>
    cases pc with
    | run =>
      refine Or.inr (Or.inl ⟨0, by simp [Chain.procs], fun n k => ?_⟩)
      simp only [Chain.step, sinkStep]
      split
      · rfl
      · split <;> rfl
    | wait =>
      by_cases hr : inp.readyR = true
      · refine Or.inr (Or.inl ⟨0, by simp [Chain.procs], fun n k => ?_⟩)
        simp [Chain.step, sinkStep, hr]
      · refine Or.inr (Or.inr ?_)
        simp only [Fifo.readyR, Bool.or_eq_true, beq_iff_eq, Bool.not_eq_true', List.isEmpty_eq_false_iff,
          not_or] at hr
        refine ⟨by simpa [Chain.inp] using hr.2, by simp only [Chain.inp]; omega, by simp [Chain.headDone]⟩
    | done => exact Or.inl (by simp [Chain.allDone])
  | fwd inp hold pc rest ih =>
    simp only [Chain.Inv] at hi
    obtain ⟨h1, h2, h3, h4, h5, h6⟩ := hi
    rcases ih h6 with hd | ⟨i, hil, hs⟩ | ⟨he, hw, hl⟩
    · have := (h6.head_done (Chain.allDone_headDone hd)).2.1
      rw [this] at h2
      have hpc : pc = .closed := by
        by_cases e : pc = .closed
        · exact e
        · simp [e] at h2
      exact Or.inl (by simp [Chain.allDone, hpc, hd])
    · refine Or.inr (Or.inl ⟨i + 1, by simp [Chain.procs, hil], fun n k => ?_⟩)
      simp only [Chain.step, Option.isSome_map]
      exact hs n k
    · have hpc : pc ≠ .closed := by
        intro e
        simp [e] at h2
        omega
      cases pc with
      | rd =>
        refine Or.inr (Or.inl ⟨0, by simp [Chain.procs], fun n k => ?_⟩)
        simp only [Chain.step, fwdStep]
        split
        · rfl
        · split <;> rfl
      | rwait =>
        by_cases hr : inp.readyR = true
        · refine Or.inr (Or.inl ⟨0, by simp [Chain.procs], fun n k => ?_⟩)
          simp [Chain.step, fwdStep, hr]
        · refine Or.inr (Or.inr ?_)
          simp only [Fifo.readyR, Bool.or_eq_true, beq_iff_eq, Bool.not_eq_true', List.isEmpty_eq_false_iff,
            not_or] at hr
          refine ⟨by simpa [Chain.inp] using hr.2, by simp only [Chain.inp]; omega, by simp [Chain.headDone]⟩
      | wr =>
        refine Or.inr (Or.inl ⟨0, by simp [Chain.procs], fun n k => ?_⟩)
        simp only [Chain.step, fwdStep]
        split
        · rfl
        · split
          · rfl
          · rfl
          · split <;> rfl
      | wwait =>
        refine Or.inr (Or.inl ⟨0, by simp [Chain.procs], fun n k => ?_⟩)
        have hrw : rest.inp.readyW c = true := by
          simp only [Fifo.readyW, Fifo.room, he, List.length_nil, Nat.sub_zero, Bool.or_eq_true, beq_iff_eq,
            decide_eq_true_eq]
          exact Or.inr hv.2
        simp [Chain.step, fwdStep, hrw]
      | closed => exact absurd rfl hpc
      | failed => exact absurd rfl h3

/-- a finished chain that satisfies the invariant has every byte in the sink -/
theorem Chain.allDone_total {s : Chain α} (hi : s.Inv) (h : s.allDone = true) : s.total = s.received := by
  induction s with
  | sink inp r pc =>
    simp only [Chain.allDone, beq_iff_eq] at h
    simp only [Chain.Inv] at hi
    simp [Chain.total, Chain.received, (hi.2 h).1]
  | fwd inp hold pc rest ih =>
    simp only [Chain.allDone, Bool.and_eq_true, beq_iff_eq] at h
    simp only [Chain.Inv] at hi
    obtain ⟨_, _, _, h4, _, h6⟩ := hi
    have ⟨a, b, _⟩ := h4 h.1
    simp [Chain.total, Chain.received, a, b, ih h6 h.2]

/-! ### the driver's executor takes steps of the system -/

theorem chainScan_step {c : Cfg} {s s' : Chain α} {n k j : Nat}
    (h : chainScan c s n k j = some s') : ∃ i, s.step c i n k = some s' := by
  induction j with
  | zero => simp [chainScan] at h
  | succ j ih =>
    unfold chainScan at h
    split at h
    next s1 hs =>
      simp only [Option.some.injEq] at h
      subst h
      exact ⟨_, hs⟩
    next => exact ih h

theorem chainScan_none {c : Cfg} {s : Chain α} {n k j : Nat}
    (h : chainScan c s n k j = none) : ∀ i, i < j → s.step c i n k = none := by
  induction j with
  | zero => intro i hi; omega
  | succ j ih =>
    unfold chainScan at h
    split at h
    next => simp at h
    next hs =>
      intro i hi
      by_cases e : i = j
      · subst e; exact hs
      · exact ih h i (by omega)

theorem chainPick_step {c : Cfg} {s s' : Chain α} {n k i : Nat}
    (h : chainPick c s n k i = some s') : ∃ j, s.step c j n k = some s' := by
  unfold chainPick at h
  split at h
  next s1 hs =>
    simp only [Option.some.injEq] at h
    subst h
    exact ⟨_, hs⟩
  next => exact chainScan_step h

theorem chainPick_none {c : Cfg} {s : Chain α} {n k i : Nat}
    (h : chainPick c s n k i = none) : ∀ j, j < s.procs → s.step c j n k = none := by
  unfold chainPick at h
  split at h
  next => simp at h
  next => exact chainScan_none h

theorem chainRun_reach {c : Cfg} {m : Nat} {pre post : List α} {n k : Nat} (hn : 1 ≤ n) (hk : 1 ≤ k)
    (fuel x : Nat) (s : Chain α) (hr : CReach c m pre post s) : CReach c m pre post (chainRun c n k fuel x s) := by
  induction fuel generalizing x s with
  | zero => exact hr
  | succ fuel ih =>
    unfold chainRun
    simp only
    split
    next s' hs =>
      obtain ⟨j, hj⟩ := chainPick_step hs
      exact ih _ _ (CReach.step j n k hr hn hk hj)
    next => exact hr

/-! ### no stage meets EPIPE -/

/-- no forwarding stage (nor the source) is in the `failed` state -/
def Chain.noFail : Chain α → Bool
  | .sink _ _ _ => true
  | .fwd _ _ pc rest => pc != .failed && rest.noFail

theorem Chain.Inv.no_fail {s : Chain α} (hi : s.Inv) : s.noFail = true := by
  induction s with
  | sink inp r pc => rfl
  | fwd inp hold pc rest ih =>
    simp only [Chain.Inv] at hi
    simp [Chain.noFail, hi.2.2.1, ih hi.2.2.2.2.2]

/-! ### the writer ∥ reader system of Model.lean is the chain without forwarding stages -/

/-- the writer's states as states of the chain's source -/
def embedPc : WPc → FPc
  | .run => .wr | .wait => .wwait | .closed => .closed | .failed => .failed

/-- a state of Model.lean's writer ∥ reader system as a state of the chain without forwarding stages: the
    writer is the source (its input has no writer and is empty), the reader is the sink, the pipe is the pipe -/
def Sys.embed (s : Sys α) : Chain α :=
  .fwd { content := [], readers := if s.wpc = .closed ∨ s.wpc = .failed then 0 else 1, writers := 0 }
    s.unsent (embedPc s.wpc) (.sink s.pipe s.received s.rpc)

theorem embed_init (payload : List α) : (Sys.init payload).embed = Chain.init 0 payload [] := by
  simp [Sys.embed, Sys.init, Chain.init, Chain.idle, embedPc]

/-- one step of the writer is one or two steps of the source (closing takes two: `write_all` returns, then the
    source reads end of file from its input) -/
theorem embed_stepW {c : Cfg} {s s' : Sys α} {k : Nat} (h : s.stepW c k = some s') :
    s.embed.step c 0 1 k = some s'.embed ∨
    ∃ t, s.embed.step c 0 1 k = some t ∧ t.step c 0 1 k = some s'.embed := by
  unfold Sys.stepW at h
  split at h
  next hw =>
    split at h
    next he =>
      simp only [Option.some.injEq] at h
      subst h
      refine Or.inr ⟨.fwd { content := [], readers := 1, writers := 0 } s.unsent .rd
        (.sink s.pipe s.received s.rpc), ?_, ?_⟩
      · simp [Sys.embed, hw, embedPc, Chain.step, fwdStep, he]
      · simp [Sys.embed, embedPc, Chain.step, fwdStep, Fifo.read, Fifo.closeFd, Chain.mapInp]
    next he =>
      split at h
      next p hwr =>
        simp only [Option.some.injEq] at h
        subst h
        left
        simp [Sys.embed, hw, embedPc, Chain.step, fwdStep, he, Chain.inp, hwr, Fifo.closeFd, Chain.mapInp]
      next p hwr =>
        simp only [Option.some.injEq] at h
        subst h
        left
        simp [Sys.embed, hw, embedPc, Chain.step, fwdStep, he, Chain.inp, hwr]
      next n p hwr =>
        split at h
        all_goals
          simp only [Option.some.injEq] at h
          subst h
          left
          simp_all [Sys.embed, embedPc, Chain.step, fwdStep, Chain.inp, Chain.mapInp]
  next hw =>
    split at h
    next hr =>
      simp only [Option.some.injEq] at h
      subst h
      left
      simp [Sys.embed, hw, embedPc, Chain.step, fwdStep, Chain.inp, hr]
    next => simp at h
  next => simp at h
  next => simp at h

theorem sink_of_stepR {s s' : Sys α} {n : Nat} (h : s.stepR n = some s') :
    sinkStep s.pipe s.received s.rpc n = some (.sink s'.pipe s'.received s'.rpc) ∧
      s'.unsent = s.unsent ∧ s'.wpc = s.wpc := by
  unfold Sys.stepR at h
  unfold sinkStep
  split at h
  next hr =>
    rw [hr]
    split at h
    next p hrd =>
      simp only [Option.some.injEq] at h
      subst h
      simp [hrd]
    next bs p hrd =>
      split at h
      all_goals
        simp only [Option.some.injEq] at h
        subst h
        simp_all
  next hr =>
    rw [hr]
    split at h
    next hrr =>
      simp only [Option.some.injEq] at h
      subst h
      simp [hrr]
    next => simp at h
  next => simp at h

/-- one step of the reader is one step of the sink -/
theorem embed_stepR {c : Cfg} {s s' : Sys α} {n : Nat} (h : s.stepR n = some s') :
    s.embed.step c 1 n 1 = some s'.embed := by
  have ⟨a, b, d⟩ := sink_of_stepR h
  simp [Sys.embed, Chain.step, a, b, d]

/-- every reachable state of the writer ∥ reader system is (through `Sys.embed`) a reachable state of the chain
    with no forwarding stage -/
theorem reach_embed {c : Cfg} {payload : List α} {s : Sys α} (hr : Reach c payload s) :
    CReach c 0 payload [] s.embed := by
  induction hr with
  | init => rw [embed_init]; exact CReach.init
  | step a _ hok hs ih =>
    cases a with
    | w k =>
      have hk : 1 ≤ k := by simpa [Act.ok] using hok
      rcases embed_stepW (c := c) hs with h | ⟨t, h1, h2⟩
      · exact CReach.step 0 1 k ih (Nat.le_refl _) hk h
      · exact CReach.step 0 1 k (CReach.step 0 1 k ih (Nat.le_refl _) hk h1) (Nat.le_refl _) hk h2
    | r n =>
      have hn : 1 ≤ n := by simpa [Act.ok] using hok
      exact CReach.step 1 n 1 ih hn (Nat.le_refl _) (embed_stepR hs)

/-! ### capacity -/

/-- every pipe between two processes of the chain holds at most `PIPE_SIZE` bytes (the source's input — a file —
    is not a pipe of the pipeline) -/
def Chain.CapTail (c : Cfg) : Chain α → Prop
  | .sink _ _ _ => True
  | .fwd _ _ _ rest => rest.inp.content.length ≤ c.pipeSize ∧ rest.CapTail c

theorem Chain.CapTail.mapInp {c : Cfg} {s : Chain α} (h : s.CapTail c) (f : Fifo α → Fifo α) :
    (s.mapInp f).CapTail c := by
  cases s <;> simp [Chain.CapTail, Chain.mapInp] at h ⊢ <;> exact h

theorem read_len {p p' : Fifo α} {n : Nat} {r : RRes α} (h : p.read n = (r, p')) :
    p'.content.length ≤ p.content.length := by
  unfold Fifo.read at h
  split at h
  · simp only [Prod.mk.injEq] at h; rw [← h.2]; exact Nat.le_refl _
  · split at h
    · simp only [Prod.mk.injEq] at h; rw [← h.2]; exact Nat.le_refl _
    · simp only [Prod.mk.injEq] at h; rw [← h.2]; simp

theorem sinkStep_len {inp : Fifo α} {r : List α} {pc : RPc} {n : Nat} {s' : Chain α}
    (h : sinkStep inp r pc n = some s') : s'.inp.content.length ≤ inp.content.length ∧ s'.CapTail c := by
  unfold sinkStep at h
  split at h
  · split at h
    next p hrd => simp only [Option.some.injEq] at h; subst h; simp [Chain.inp, Chain.CapTail]
    next bs p hrd =>
      have := read_len hrd
      split at h <;> (simp only [Option.some.injEq] at h; subst h; simpa [Chain.inp, Chain.CapTail, Fifo.closeFd] using this)
  · split at h
    · simp only [Option.some.injEq] at h; subst h; simp [Chain.inp, Chain.CapTail]
    · simp at h
  · simp at h

/-- every step keeps every pipe of the pipeline within its capacity and never lengthens the first input -/
theorem Chain.step_cap {c : Cfg} {s s' : Chain α} {i n k : Nat} (hc : s.CapTail c)
    (h : s.step c i n k = some s') : s'.CapTail c ∧ s'.inp.content.length ≤ s.inp.content.length := by
  induction s generalizing i s' with
  | sink inp r pc =>
    cases i with
    | zero =>
      simp only [Chain.step] at h
      have := sinkStep_len (c := c) h
      exact ⟨this.2, this.1⟩
    | succ j => simp [Chain.step] at h
  | fwd inp hold pc rest ih =>
    simp only [Chain.CapTail] at hc
    obtain ⟨h1, h2⟩ := hc
    cases i with
    | zero =>
      simp only [Chain.step] at h
      unfold fwdStep at h
      split at h
      · split at h
        next p hrd => simp only [Option.some.injEq] at h; subst h; exact ⟨⟨h1, h2⟩, Nat.le_refl _⟩
        next bs p hrd =>
          have := read_len hrd
          split at h <;> (simp only [Option.some.injEq] at h; subst h)
          · refine ⟨?_, this⟩
            simp only [Chain.CapTail, Chain.mapInp_inp, Fifo.closeFd]
            exact ⟨h1, h2.mapInp _⟩
          · exact ⟨⟨h1, h2⟩, this⟩
      · split at h
        · simp only [Option.some.injEq] at h; subst h; exact ⟨⟨h1, h2⟩, Nat.le_refl _⟩
        · simp at h
      · split at h
        · simp only [Option.some.injEq] at h; subst h; exact ⟨⟨h1, h2⟩, Nat.le_refl _⟩
        · split at h
          next p hwr =>
            simp only [Option.some.injEq] at h; subst h
            refine ⟨?_, Nat.le_refl _⟩
            simp only [Chain.CapTail, Chain.mapInp_inp, Fifo.closeFd]
            exact ⟨h1, h2.mapInp _⟩
          next p hwr => simp only [Option.some.injEq] at h; subst h; exact ⟨⟨h1, h2⟩, Nat.le_refl _⟩
          next w p hwr =>
            have ⟨_, hp, hw, hroom, _, _⟩ := write_wrote hwr
            have hlen : p.content.length ≤ c.pipeSize := by
              rw [hp]
              simp only [List.length_append, List.length_take]
              unfold Fifo.room at hroom
              omega
            split at h <;> (simp only [Option.some.injEq] at h; subst h)
            all_goals
              refine ⟨?_, Nat.le_refl _⟩
              simp only [Chain.CapTail, Chain.mapInp_inp]
              exact ⟨hlen, h2.mapInp _⟩
      · split at h
        · simp only [Option.some.injEq] at h; subst h; exact ⟨⟨h1, h2⟩, Nat.le_refl _⟩
        · simp at h
      · simp at h
      · simp at h
    | succ j =>
      simp only [Chain.step, Option.map_eq_some_iff] at h
      obtain ⟨r', hr', rfl⟩ := h
      have ⟨a, b⟩ := ih h2 hr'
      exact ⟨⟨by omega, a⟩, Nat.le_refl _⟩

theorem Chain.idle_cap (c : Cfg) (m : Nat) : (Chain.idle m : Chain α).CapTail c := by
  induction m with
  | zero => simp [Chain.idle, Chain.CapTail]
  | succ m ih => simp [Chain.idle, Chain.CapTail, Chain.idle_inp, ih]

theorem CReach.cap {c : Cfg} {m : Nat} {pre post : List α} {s : Chain α} (hr : CReach c m pre post s) :
    s.CapTail c := by
  induction hr with
  | init => simp [Chain.init, Chain.CapTail, Chain.idle_inp, Chain.idle_cap]
  | step i n k _ _ _ hs ih => exact (Chain.step_cap ih hs).1

end YashModel.Pipe
