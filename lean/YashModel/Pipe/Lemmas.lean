/-
  C14 — helper lemmas: outcome characterisations of `Fifo.write` / `Fifo.read`, the invariant of the
  writer ∥ reader system and its preservation, the progress measure, trailing-newline lemmas.
  (Property theorems are in Theorems.lean.)
-/
import YashModel.Pipe.Model
import YashModel.Pipe.Spec
namespace YashModel.Pipe

variable {α : Type}

/-! ### `Fifo.write` -/

theorem write_epipe {c : Cfg} {p p' : Fifo α} {buf : List α} (h : p.write c buf = (.epipe, p')) :
    p.readers = 0 ∧ p' = p := by
  unfold Fifo.write at h
  split at h
  · simp_all
  · split at h
    · split at h <;> simp at h
    · simp at h

theorem write_block {c : Cfg} {p p' : Fifo α} {buf : List α} (h : p.write c buf = (.block, p')) :
    p' = p ∧ p.readers ≠ 0 ∧ p.room c < buf.length ∧ (p.room c = 0 ∨ buf.length ≤ c.pipeBuf) := by
  unfold Fifo.write at h
  split at h
  · simp at h
  · split at h
    · split at h
      · simp at h; simp_all
      · simp at h
    · simp at h

theorem write_wrote {c : Cfg} {p p' : Fifo α} {buf : List α} {n : Nat} (h : p.write c buf = (.wrote n, p')) :
    p.readers ≠ 0 ∧ p' = { p with content := p.content ++ buf.take n } ∧ n ≤ buf.length ∧ n ≤ p.room c ∧
      (buf ≠ [] → 1 ≤ n) ∧ (buf.length ≤ c.pipeBuf → n = buf.length) := by
  unfold Fifo.write at h
  split at h
  · simp at h
  · split at h
    · split at h
      · simp at h
      · simp only [Prod.mk.injEq, WRes.wrote.injEq] at h
        obtain ⟨h1, h2⟩ := h
        subst h1
        refine ⟨by assumption, h2.symm, by omega, Nat.le_refl _, fun _ => by omega, fun _ => by omega⟩
    · simp only [Prod.mk.injEq, WRes.wrote.injEq] at h
      obtain ⟨h1, h2⟩ := h
      subst h1
      refine ⟨by assumption, by simp [← h2], Nat.le_refl _, by omega, fun hb => ?_, fun _ => rfl⟩
      cases buf with
      | nil => exact absurd rfl hb
      | cons a t => simp

/-! ### `Fifo.read` -/

theorem read_block {p p' : Fifo α} {n : Nat} (h : p.read n = (.block, p')) :
    p' = p ∧ n ≠ 0 ∧ p.content = [] ∧ 0 < p.writers := by
  unfold Fifo.read at h
  split at h
  · simp at h
  · split at h
    · simp at h
      refine ⟨h.symm, by assumption, ?_, by omega⟩
      exact List.eq_nil_of_length_eq_zero (by omega)
    · simp at h

theorem read_data {p p' : Fifo α} {n : Nat} {bs : List α} (hn : 1 ≤ n) (h : p.read n = (.data bs, p')) :
    bs = p.content.take n ∧ p' = { p with content := p.content.drop n } ∧
      (p.content = [] → p.writers = 0) := by
  unfold Fifo.read at h
  split at h
  · omega
  · split at h
    · simp at h
    · simp only [Prod.mk.injEq, RRes.data.injEq] at h
      refine ⟨h.1.symm, h.2.symm, fun he => ?_⟩
      have : p.content.length = 0 := by simp [he]
      omega

/-! ### the system -/

/-- reachable states of writer ∥ reader on `payload`, every interleaving, every request/buffer
    size ≥ 1 at every step -/
inductive Reach (c : Cfg) (payload : List α) : Sys α → Prop
  | init : Reach c payload (Sys.init payload)
  | step {s s' : Sys α} (a : Act) :
      Reach c payload s → a.ok = true → s.step c a = some s' → Reach c payload s'

/-- the invariant -/
structure Inv (c : Cfg) (payload : List α) (s : Sys α) : Prop where
  cons : s.received ++ s.pipe.content ++ s.unsent = payload
  cap : s.pipe.content.length ≤ c.pipeSize
  rd : s.pipe.readers = if s.rpc = .done then 0 else 1
  wr : s.pipe.writers = if s.wpc = .closed ∨ s.wpc = .failed then 0 else 1
  done_imp : s.rpc = .done → s.wpc = .closed ∧ s.pipe.content = []
  closed_imp : s.wpc = .closed → s.unsent = []
  nofail : s.wpc ≠ .failed

theorem inv_init (c : Cfg) (payload : List α) : Inv c payload (Sys.init payload) := by
  refine ⟨?_, ?_, ?_, ?_, ?_, ?_, ?_⟩ <;> simp [Sys.init]

theorem take_take_drop (u : List α) (k n : Nat) (h : n ≤ (u.take k).length) :
    (u.take k).take n ++ u.drop n = u := by
  have hk : n ≤ k := by
    have := List.length_take_le k u
    omega
  rw [List.take_take, Nat.min_eq_left hk, List.take_append_drop]

theorem inv_stepW {c : Cfg} {payload : List α} {s s' : Sys α} {k : Nat}
    (hi : Inv c payload s) (h : s.stepW c k = some s') : Inv c payload s' := by
  obtain ⟨cons, cap, rd, wr, done_imp, closed_imp, nofail⟩ := hi
  unfold Sys.stepW at h
  split at h
  next hw =>
    -- run
    split at h
    next he =>
      -- unsent empty: close
      simp only [Option.some.injEq] at h
      subst h
      have he' : s.unsent = [] := by simpa using he
      have hrd : s.rpc ≠ .done := fun hd => by
        have := (done_imp hd).1
        simp_all
      refine ⟨?_, ?_, ?_, ?_, ?_, ?_, ?_⟩ <;> simp_all [Fifo.closeFd]
    next he =>
      split at h
      next p hwr =>
        -- epipe: impossible, a reader exists while the writer runs
        have ⟨hr0, _⟩ := write_epipe hwr
        have hrd : s.rpc ≠ .done := fun hd => by
          have := (done_imp hd).1
          simp_all
        simp [hrd] at rd
        omega
      next p hwr =>
        simp only [Option.some.injEq] at h
        subst h
        refine ⟨?_, ?_, ?_, ?_, ?_, ?_, ?_⟩ <;> simp_all
      next n p hwr =>
        have ⟨hr, hp, hn, hroom, _, _⟩ := write_wrote hwr
        have hcons : s.received ++ (s.pipe.content ++ (s.unsent.take k).take n) ++ s.unsent.drop n = payload := by
          rw [← cons]
          simp only [List.append_assoc]
          rw [take_take_drop s.unsent k n hn]
        have hcap : (s.pipe.content ++ (s.unsent.take k).take n).length ≤ c.pipeSize := by
          simp only [List.length_append, List.length_take]
          unfold Fifo.room at hroom
          omega
        have hrd : s.rpc ≠ .done := fun hd => by
          have := (done_imp hd).1
          simp_all
        split at h
        all_goals
          simp only [Option.some.injEq] at h
          subst h
          subst hp
          refine ⟨?_, ?_, ?_, ?_, ?_, ?_, ?_⟩ <;> simp_all
  next hw =>
    split at h
    · simp only [Option.some.injEq] at h
      subst h
      have hrd : s.rpc ≠ .done := fun hd => by
        have := (done_imp hd).1
        simp_all
      refine ⟨?_, ?_, ?_, ?_, ?_, ?_, ?_⟩ <;> simp_all
    · simp at h
  next => simp at h
  next => simp at h

theorem inv_stepR {c : Cfg} {payload : List α} {s s' : Sys α} {n : Nat} (hn : 1 ≤ n)
    (hi : Inv c payload s) (h : s.stepR n = some s') : Inv c payload s' := by
  obtain ⟨cons, cap, rd, wr, done_imp, closed_imp, nofail⟩ := hi
  unfold Sys.stepR at h
  split at h
  next hr =>
    split at h
    next p hrd =>
      simp only [Option.some.injEq] at h
      subst h
      refine ⟨?_, ?_, ?_, ?_, ?_, ?_, ?_⟩ <;> simp_all
    next bs p hrd =>
      have ⟨hbs, hp, hw0⟩ := read_data hn hrd
      split at h
      next he =>
        -- end of file
        have hbs0 : bs = [] := by simpa using he
        have hc : s.pipe.content = [] := by
          rw [hbs0] at hbs
          cases hcc : s.pipe.content with
          | nil => rfl
          | cons a t =>
            rw [hcc] at hbs
            cases n with
            | zero => omega
            | succ m => simp at hbs
        have hw : s.pipe.writers = 0 := hw0 hc
        have hclosed : s.wpc = .closed := by
          rw [wr] at hw
          split at hw
          next hor =>
            cases hor with
            | inl h1 => exact h1
            | inr h2 => exact absurd h2 nofail
          next => omega
        simp only [Option.some.injEq] at h
        subst h
        subst hp
        refine ⟨?_, ?_, ?_, ?_, ?_, ?_, ?_⟩ <;> simp_all [Fifo.closeFd]
      next he =>
        simp only [Option.some.injEq] at h
        subst h
        subst hp
        subst hbs
        have hcons : s.received ++ s.pipe.content.take n ++ s.pipe.content.drop n ++ s.unsent = payload := by
          rw [← cons]
          simp [List.append_assoc]
        have hcap : (s.pipe.content.drop n).length ≤ c.pipeSize := by
          simp only [List.length_drop]
          omega
        refine ⟨?_, ?_, ?_, ?_, ?_, ?_, ?_⟩ <;> simp_all
  next hr =>
    split at h
    · simp only [Option.some.injEq] at h
      subst h
      refine ⟨?_, ?_, ?_, ?_, ?_, ?_, ?_⟩ <;> simp_all
    · simp at h
  next => simp at h

theorem inv_step {c : Cfg} {payload : List α} {s s' : Sys α} {a : Act}
    (hi : Inv c payload s) (ha : a.ok = true) (h : s.step c a = some s') : Inv c payload s' := by
  cases a with
  | w k => exact inv_stepW hi h
  | r n => exact inv_stepR (by simpa [Act.ok] using ha) hi h

theorem inv_reach {c : Cfg} {payload : List α} {s : Sys α} (h : Reach c payload s) : Inv c payload s := by
  induction h with
  | init => exact inv_init c payload
  | step a _ ha hs ih => exact inv_step ih ha hs

/-- executions of exactly `n` steps -/
inductive Exec (c : Cfg) : Sys α → Nat → Sys α → Prop
  | refl (s : Sys α) : Exec c s 0 s
  | step {s s' s'' : Sys α} {n : Nat} (a : Act) :
      a.ok = true → s.step c a = some s' → Exec c s' n s'' → Exec c s (n + 1) s''

theorem exec_reach {c : Cfg} {payload : List α} {s s' : Sys α} {n : Nat}
    (hr : Reach c payload s) (he : Exec c s n s') : Reach c payload s' := by
  induction he with
  | refl => exact hr
  | step a ha hs _ ih => exact ih (Reach.step a hr ha hs)

/-- every state produced by `Sys.run` (the function the model driver executes) is reachable -/
theorem reach_run {c : Cfg} {payload : List α} {s : Sys α} (hr : Reach c payload s) (acts : List Act)
    (hok : ∀ a ∈ acts, a.ok = true) : Reach c payload (s.run c acts) := by
  induction acts generalizing s with
  | nil => exact hr
  | cons a t ih =>
    have hok' : ∀ b ∈ t, b.ok = true := fun b hb => hok b (List.mem_cons_of_mem a hb)
    simp only [Sys.run]
    cases hs : s.step c a with
    | none => simpa using ih hr hok'
    | some s' => simpa using ih (Reach.step a hr (hok a List.mem_cons_self) hs) hok'

/-! ### a reader that stops early -/


/-- reachable states when the reader may also stop early (close its end while running) -/
inductive Reach2 (c : Cfg) (payload : List α) : Sys α → Prop
  | init : Reach2 c payload (Sys.init payload)
  | step {s s' : Sys α} (a : Act) :
      Reach2 c payload s → a.ok = true → s.step c a = some s' → Reach2 c payload s'
  | close {s s' : Sys α} : Reach2 c payload s → s.stepRClose = some s' → Reach2 c payload s'

/-- the part of the invariant that survives an early close -/
def ConsInv (c : Cfg) (payload : List α) (s : Sys α) : Prop :=
  s.received ++ s.pipe.content ++ s.unsent = payload ∧ s.pipe.content.length ≤ c.pipeSize

theorem cons_stepW {c : Cfg} {payload : List α} {s s' : Sys α} {k : Nat}
    (hi : ConsInv c payload s) (h : s.stepW c k = some s') : ConsInv c payload s' := by
  obtain ⟨cons, cap⟩ := hi
  unfold Sys.stepW at h
  split at h
  · split at h
    · simp only [Option.some.injEq] at h; subst h; exact ⟨cons, cap⟩
    · split at h
      · simp only [Option.some.injEq] at h; subst h; exact ⟨cons, cap⟩
      · simp only [Option.some.injEq] at h; subst h; exact ⟨cons, cap⟩
      · rename_i n p hwr
        have ⟨_, hp, hn, hroom, _, _⟩ := write_wrote hwr
        have hcons : s.received ++ (s.pipe.content ++ (s.unsent.take k).take n) ++ s.unsent.drop n = payload := by
          rw [← cons]
          simp only [List.append_assoc]
          rw [take_take_drop s.unsent k n hn]
        have hcap : (s.pipe.content ++ (s.unsent.take k).take n).length ≤ c.pipeSize := by
          simp only [List.length_append, List.length_take]
          unfold Fifo.room at hroom
          omega
        split at h <;> (simp only [Option.some.injEq] at h; subst h; subst hp)
        · rename_i h0
          subst h0
          refine ⟨?_, by simpa using hcap⟩
          simpa using cons
        · exact ⟨hcons, hcap⟩
  · split at h
    · simp only [Option.some.injEq] at h; subst h; exact ⟨cons, cap⟩
    · simp at h
  · simp at h
  · simp at h

theorem cons_stepR {c : Cfg} {payload : List α} {s s' : Sys α} {n : Nat} (hn : 1 ≤ n)
    (hi : ConsInv c payload s) (h : s.stepR n = some s') : ConsInv c payload s' := by
  obtain ⟨cons, cap⟩ := hi
  unfold Sys.stepR at h
  split at h
  · split at h
    · simp only [Option.some.injEq] at h; subst h; exact ⟨cons, cap⟩
    · rename_i bs p hrd
      have ⟨hbs, hp, _⟩ := read_data hn hrd
      split at h
      · rename_i he
        have hbs0 : bs = [] := by simpa using he
        simp only [Option.some.injEq] at h
        subst h; subst hp
        have hd : s.pipe.content.drop n = s.pipe.content := by
          have : s.pipe.content.take n = [] := by rw [← hbs, hbs0]
          have h2 := List.take_append_drop n s.pipe.content
          rw [this] at h2
          simpa using h2
        exact ⟨by simpa [Fifo.closeFd, hd] using cons, by simpa [Fifo.closeFd, hd] using cap⟩
      · simp only [Option.some.injEq] at h
        subst h; subst hp; subst hbs
        refine ⟨?_, ?_⟩
        · rw [← cons]; simp [List.append_assoc]
        · simp only [List.length_drop]; omega
  · split at h
    · simp only [Option.some.injEq] at h; subst h; exact ⟨cons, cap⟩
    · simp at h
  · simp at h

theorem cons_reach2 {c : Cfg} {payload : List α} {s : Sys α} (h : Reach2 c payload s) : ConsInv c payload s := by
  induction h with
  | init => exact ⟨by simp [Sys.init], by simp [Sys.init]⟩
  | step a _ ha hs ih =>
    cases a with
    | w k => exact cons_stepW ih hs
    | r n => exact cons_stepR (by simpa [Act.ok] using ha) ih hs
  | close _ hs ih =>
    unfold Sys.stepRClose at hs
    split at hs
    · simp only [Option.some.injEq] at hs; subst hs; exact ih
    · simp at hs

/-! ### trailing newlines -/

theorem dropWhile_replicate_append [DecidableEq α] (nl : α) (k : Nat) (l : List α) :
    (List.replicate k nl ++ l).dropWhile (· = nl) = l.dropWhile (· = nl) := by
  induction k with
  | zero => simp
  | succ m ih => simp [List.replicate_succ, ih]


theorem dropWhile_eq_append_replicate [DecidableEq α] (nl : α) (l : List α) :
    ∃ k, l = List.replicate k nl ++ l.dropWhile (· = nl) := by
  induction l with
  | nil => exact ⟨0, rfl⟩
  | cons a t ih =>
    by_cases h : a = nl
    · obtain ⟨k, hk⟩ := ih
      refine ⟨k + 1, ?_⟩
      subst h
      simp only [List.dropWhile_cons, decide_true, ↓reduceIte, List.replicate_succ, List.cons_append]
      exact congrArg _ hk
    · exact ⟨0, by simp [h]⟩

theorem dropWhile_head [DecidableEq α] (nl : α) (l : List α) :
    (l.dropWhile (· = nl)).head? ≠ some nl := by
  induction l with
  | nil => simp
  | cons a t ih =>
    by_cases h : a = nl
    · simpa [List.dropWhile_cons, h] using ih
    · simp [h]

end YashModel.Pipe
