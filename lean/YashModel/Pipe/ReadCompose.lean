/-
  C14 ∘ C18 — the two transcriptions of `yash-builtin/src/read/input.rs` agree: on ASCII input the reader of
  Pipe/File.lean (`readLine`, look-ahead after a backslash) and the reader of Input/Model.lean (`readLineGo`, escape
  flag, incremental UTF-8 check) find the same newline and leave the same bytes.  C18's theorems about what `read`
  consumes (`read_logical_line`: exactly the first logical line) thereby hold of C14's reader.
-/
import YashModel.Pipe.File
import YashModel.Input.Theorems
set_option linter.unusedSimpArgs false
namespace YashModel.Pipe

/-- status and rest of C14's reader -/
def convP : ReadLine → Option (Bool × List UInt8)
  | .line _ nl rest => some (nl, rest)
  | .eilseq => none

/-- status and rest of C18's reader -/
def convIn (r : List Input.AChar × Input.RStat × List UInt8) : Option (Bool × List UInt8) :=
  match r.2.1 with
  | .found => some (true, r.2.2)
  | .eof => some (false, r.2.2)
  | .err => none

/-- C14's reader just after an unquoted backslash (the look-ahead inside `readLine`) -/
def readEsc (raw : Bool) (fuel : Nat) (input acc : List UInt8) : ReadLine :=
  match input with
  | [] => .line acc false []
  | b2 :: rest2 =>
    match readCharBytes b2 rest2 with
    | none => .eilseq
    | some (ch2, rest3) =>
      if ch2 = [10] then readLine raw fuel rest3 acc else readLine raw fuel rest3 (acc ++ ch2)

theorem readCharBytes_ascii_lt {b : UInt8} (hb : b < 0x80) (rest : List UInt8) :
    readCharBytes b rest = some ([b], rest) := by
  simp [readCharBytes, utf8SeqLen, hb]

theorem utf8Check_ascii {b : UInt8} (hb : b < 0x80) : Input.utf8Check ([] ++ [b]) = .ok b.toNat := by
  have : b.toNat < 0x80 := by simpa [UInt8.lt_iff_toNat_lt] using hb
  simp [Input.utf8Check, this]

theorem u8_eq_iff (b : UInt8) (n : Nat) (hn : n < 256) : b.toNat = n ↔ b = UInt8.ofNat n := by
  constructor
  · intro h
    apply UInt8.toNat_inj.mp
    simp [h, Nat.mod_eq_of_lt hn]
  · intro h
    subst h
    simp [Nat.mod_eq_of_lt hn]

theorem read_agree_aux (raw : Bool) (input : List UInt8) (h : ∀ b ∈ input, b < 0x80) :
    (∀ fuel acc acc', input.length + 1 ≤ fuel →
      convP (readLine raw fuel input acc) = convIn (Input.readLineGo 10 raw false [] input acc')) ∧
    (∀ fuel acc acc', input.length + 1 ≤ fuel →
      convP (readEsc raw fuel input acc) = convIn (Input.readLineGo 10 raw true [] input acc')) := by
  induction input with
  | nil =>
    refine ⟨fun fuel acc acc' hf => ?_, fun fuel acc acc' hf => ?_⟩
    · cases fuel with
      | zero => omega
      | succ f => simp [readLine, Input.readLineGo, convP, convIn]
    · simp [readEsc, Input.readLineGo, convP, convIn]
  | cons b t ih =>
    have hb : b < 0x80 := h b List.mem_cons_self
    obtain ⟨ihA, ihB⟩ := ih fun x hx => h x (List.mem_cons_of_mem _ hx)
    have hbn : b.toNat < 0x80 := by simpa [UInt8.lt_iff_toNat_lt] using hb
    have e10 : (b.toNat = 10) ↔ (b = 10) := u8_eq_iff b 10 (by omega)
    have e92 : (b.toNat = 92) ↔ (b = 92) := u8_eq_iff b 92 (by omega)
    refine ⟨fun fuel acc acc' hf => ?_, fun fuel acc acc' hf => ?_⟩
    · cases fuel with
      | zero => omega
      | succ f =>
        have hf' : t.length + 1 ≤ f := by simpa using hf
        rw [readLine, readCharBytes_ascii_lt hb, Input.readLineGo, utf8Check_ascii hb]
        simp only [Bool.false_eq_true, if_false, List.cons.injEq, and_true]
        by_cases h10 : b = 10
        · simp [h10, convP, convIn]
        · have h10' : ¬ b.toNat = 10 := fun e => h10 (e10.mp e)
          simp only [h10, h10', if_false]
          by_cases hbs : b = 92 ∧ (!raw) = true
          · have hbs' : b.toNat = 92 ∧ (!raw) = true := ⟨e92.mpr hbs.1, hbs.2⟩
            rw [if_pos hbs, if_pos hbs']
            have := ihB f acc acc' hf'
            unfold readEsc at this
            exact this
          · have hbs' : ¬ (b.toNat = 92 ∧ (!raw) = true) := fun e => hbs ⟨e92.mp e.1, e.2⟩
            rw [if_neg hbs, if_neg hbs']
            exact ihA f _ _ hf'
    · have hf' : t.length + 1 ≤ fuel := by simp at hf; omega
      rw [readEsc, readCharBytes_ascii_lt hb, Input.readLineGo, utf8Check_ascii hb]
      simp only [if_true, List.cons.injEq, and_true]
      by_cases h10 : b = 10
      · have h10' : b.toNat = 10 := e10.mpr h10
        rw [if_pos h10, if_pos h10']
        exact ihA fuel _ _ hf'
      · have h10' : ¬ b.toNat = 10 := fun e => h10 (e10.mp e)
        rw [if_neg h10, if_neg h10']
        exact ihA fuel _ _ hf'

end YashModel.Pipe
