import YashModel.Pipe.WChainLemmas
import YashModel.Pipe.ChainMeasure
set_option linter.unusedSimpArgs false
namespace YashModel.Pipe
variable {α : Type}

/-- cost of a process's waker state: parked and not woken 0 (nobody polls it), parked and woken 2, not parked 1 -/
def pcost (x : PWake) : Nat := if x.parked then (if x.woken then 2 else 0) else 1

def WChain.wcost : WChain α → Nat
  | .sink _ _ _ wk => pcost wk
  | .fwd _ _ _ wk rest => pcost wk + rest.wcost

/-- every legitimate poll lowers this number -/
def WChain.wmeasure (c : Cfg) (s : WChain α) : Nat := 6 * s.erase.measure c + s.wcost

theorem pcost_mild {fw : PWake → PWake} (h : Mild fw) (x : PWake) : pcost (fw x) ≤ pcost x + 2 := by
  obtain ⟨a, b⟩ := h x
  unfold pcost
  rcases b with b | b
  · rw [a, b]; cases x.parked <;> cases x.woken <;> simp
  · rw [b]; omega

theorem pcost_fresh : pcost ({} : PWake) = 1 := rfl
theorem pcost_parked : pcost (PWake.pollSelect false) = 0 := rfl

theorem WChain.mapHead_wcost (s : WChain α) (fi : Fifo α → Fifo α) {fw : PWake → PWake} (h : Mild fw) :
    (s.mapHead fi fw).wcost ≤ s.wcost + 2 := by
  cases s with
  | sink inp r pc wk => simpa [WChain.mapHead, WChain.wcost] using pcost_mild h wk
  | fwd inp hold pc wk rest =>
    have := pcost_mild h wk
    simp only [WChain.mapHead, WChain.wcost]
    omega

/-- what a legitimate poll does to the waker costs: a stutter (the process parks) lowers them; a step of the
    data side raises them by at most 2 (one neighbour to the right woken), and its effect on the left neighbour is
    mild (at most 2 more) -/
def WDropB (b : Nat) (s s' : WChain α) (up : PWake → PWake) (chainStep : Prop) : Prop :=
  Mild up ∧ ((s'.erase = s.erase ∧ s'.wcost + 1 ≤ s.wcost ∧ up = id) ∨ (chainStep ∧ s'.wcost ≤ s.wcost + b))

abbrev WDrop (s s' : WChain α) (up : PWake → PWake) (chainStep : Prop) : Prop := WDropB 2 s s' up chainStep

theorem pollWaiting_legit {wk wk' : PWake} {ready b : Bool} (h : pollWaiting wk false ready = some (b, wk')) :
    1 ≤ pcost wk ∧ (b = true → pcost wk' ≤ pcost wk) ∧ (b = false → pcost wk' + 1 ≤ pcost wk) := by
  have ⟨h1, h2, h3⟩ := pollWaiting_some h
  subst h1
  have hc : 1 ≤ pcost wk := by
    unfold pcost
    cases hp : wk.parked <;> cases hw : wk.woken <;> simp_all
  refine ⟨hc, fun hb => ?_, fun hb => ?_⟩
  · subst hb; rw [h3]; simpa [pcost] using hc
  · subst hb; rw [h3]; simpa [pcost_parked] using hc

theorem mild_read_close {n : Nat} (q : Fifo α) :
    Mild (fun x => closeWake q ((if n = 0 then id else PWake.wake) x)) := by
  split
  · exact (mild_closeWake q).comp mild_id
  · exact (mild_closeWake q).comp mild_wake

theorem mild_read {n : Nat} : Mild (if n = 0 then id else PWake.wake) := by
  split
  · exact mild_id
  · exact mild_wake

theorem wsinkStep_wdrop {inp : Fifo α} {r : List α} {pc : RPc} {wk : PWake} {n : Nat}
    {s' : WChain α} {up : PWake → PWake} (hnl : (WChain.sink inp r pc wk).NL c)
    (h : wsinkStep inp r pc wk n false = some (s', up)) :
    WDrop (.sink inp r pc wk) s' up (sinkStep inp r pc n = some s'.erase) := by
  unfold wsinkStep at h
  split at h
  · -- run: not parked (NL), cost 1 before and after
    have hnp : wk.parked = false := by
      cases hp : wk.parked with
      | false => rfl
      | true => have := hnl.1 hp; simp at this
    have hc : pcost wk = 1 := by simp [pcost, hnp]
    split at h
    next p hrd =>
      simp only [Option.some.injEq, Prod.mk.injEq] at h
      rw [← h.1, ← h.2]
      exact ⟨mild_id, Or.inr ⟨by simp [sinkStep, hrd, WChain.erase], by simp [WChain.wcost, hc, pcost_fresh]⟩⟩
    next bs p hrd =>
      simp only at h
      split at h
      next he =>
        simp only [Option.some.injEq, Prod.mk.injEq] at h
        rw [← h.1, ← h.2]
        exact ⟨mild_read_close _, Or.inr ⟨by simp [sinkStep, hrd, he, WChain.erase],
          by simp [WChain.wcost, hc, pcost_fresh]⟩⟩
      next he =>
        simp only [Option.some.injEq, Prod.mk.injEq] at h
        rw [← h.1, ← h.2]
        exact ⟨mild_read, Or.inr ⟨by simp [sinkStep, hrd, he, WChain.erase], by simp [WChain.wcost, hc, pcost_fresh]⟩⟩
  · split at h
    · simp at h
    · rename_i wk' hp
      have ⟨_, hle, _⟩ := pollWaiting_legit hp
      have hb := (pollWaiting_some hp).1
      simp only [Option.some.injEq, Prod.mk.injEq] at h
      rw [← h.1, ← h.2]
      refine ⟨mild_id, Or.inr ⟨?_, by simp only [WChain.wcost]; have := hle rfl; omega⟩⟩
      simp [sinkStep, ← hb, WChain.erase]
    · rename_i wk' hp
      have ⟨_, _, hlt⟩ := pollWaiting_legit hp
      simp only [Option.some.injEq, Prod.mk.injEq] at h
      rw [← h.1, ← h.2]
      exact ⟨mild_id, Or.inl ⟨rfl, by simp only [WChain.wcost]; exact hlt rfl, rfl⟩⟩
  · simp at h

theorem wfwdStep_wdrop {c : Cfg} {inp : Fifo α} {hold : List α} {pc : FPc} {wk : PWake} {rest : WChain α}
    {n k : Nat} {s' : WChain α} {up : PWake → PWake} (hnl : (WChain.fwd inp hold pc wk rest).NL c)
    (h : wfwdStep c inp hold pc wk rest n k false = some (s', up)) :
    WDrop (.fwd inp hold pc wk rest) s' up (fwdStep c inp hold pc rest.erase n k = some s'.erase) := by
  have hrun : pc ≠ .rwait → pc ≠ .wwait → pcost wk = 1 := by
    intro h1 h2
    have hnp : wk.parked = false := by
      cases hp : wk.parked with
      | false => rfl
      | true => rcases hnl.1 hp with e | e <;> contradiction
    simp [pcost, hnp]
  unfold wfwdStep at h
  split at h
  · -- rd
    have hc := hrun (by simp) (by simp)
    split at h
    next p hrd =>
      simp only [Option.some.injEq, Prod.mk.injEq] at h
      rw [← h.1, ← h.2]
      exact ⟨mild_id, Or.inr ⟨by simp [fwdStep, hrd, WChain.erase], by simp [WChain.wcost, hc, pcost_fresh]⟩⟩
    next bs p hrd =>
      simp only at h
      split at h
      next he =>
        simp only [Option.some.injEq, Prod.mk.injEq] at h
        rw [← h.1, ← h.2]
        have := WChain.mapHead_wcost rest (·.closeFd false true) (mild_closeWake (rest.inp.closeFd false true))
        refine ⟨mild_read_close _, Or.inr ⟨by simp [fwdStep, hrd, he, WChain.erase, WChain.mapHead_erase], ?_⟩⟩
        simp only [WChain.wcost, hc, pcost_fresh]
        omega
      next he =>
        simp only [Option.some.injEq, Prod.mk.injEq] at h
        rw [← h.1, ← h.2]
        exact ⟨mild_read, Or.inr ⟨by simp [fwdStep, hrd, he, WChain.erase], by simp [WChain.wcost, hc, pcost_fresh]⟩⟩
  · -- rwait
    split at h
    · simp at h
    · rename_i wk' hp
      have ⟨_, hle, _⟩ := pollWaiting_legit hp
      have hb := (pollWaiting_some hp).1
      simp only [Option.some.injEq, Prod.mk.injEq] at h
      rw [← h.1, ← h.2]
      refine ⟨mild_id, Or.inr ⟨by simp [fwdStep, ← hb, WChain.erase], ?_⟩⟩
      simp only [WChain.wcost]; have := hle rfl; omega
    · rename_i wk' hp
      have ⟨_, _, hlt⟩ := pollWaiting_legit hp
      simp only [Option.some.injEq, Prod.mk.injEq] at h
      rw [← h.1, ← h.2]
      exact ⟨mild_id, Or.inl ⟨rfl, by simp only [WChain.wcost]; have := hlt rfl; omega, rfl⟩⟩
  · -- wr
    have hc := hrun (by simp) (by simp)
    split at h
    next he =>
      simp only [Option.some.injEq, Prod.mk.injEq] at h
      rw [← h.1, ← h.2]
      exact ⟨mild_id, Or.inr ⟨by simp [fwdStep, he, WChain.erase], by simp [WChain.wcost, hc, pcost_fresh]⟩⟩
    next he =>
      split at h
      next p hwr =>
        simp only [Option.some.injEq, Prod.mk.injEq] at h
        rw [← h.1, ← h.2]
        have := WChain.mapHead_wcost rest (·.closeFd false true) (mild_closeWake (rest.inp.closeFd false true))
        refine ⟨mild_closeWake _, Or.inr ⟨by simp [fwdStep, he, hwr, WChain.erase, WChain.mapHead_erase, WChain.erase_inp], ?_⟩⟩
        simp only [WChain.wcost, hc, pcost_fresh]
        omega
      next p hwr =>
        simp only [Option.some.injEq, Prod.mk.injEq] at h
        rw [← h.1, ← h.2]
        exact ⟨mild_id, Or.inr ⟨by simp [fwdStep, he, hwr, WChain.erase, WChain.erase_inp],
          by simp [WChain.wcost, hc, pcost_fresh]⟩⟩
      next w p hwr =>
        have := WChain.mapHead_wcost rest (fun _ => p) mild_wake
        split at h
        next hw0 =>
          simp only [Option.some.injEq, Prod.mk.injEq] at h
          rw [← h.1, ← h.2]
          refine ⟨mild_id, Or.inr ⟨by simp [fwdStep, he, hwr, hw0, WChain.erase, WChain.mapHead_erase, WChain.erase_inp], ?_⟩⟩
          simp only [WChain.wcost, hc, pcost_fresh]
          omega
        next hw0 =>
          simp only [Option.some.injEq, Prod.mk.injEq] at h
          rw [← h.1, ← h.2]
          refine ⟨mild_id, Or.inr ⟨by simp [fwdStep, he, hwr, hw0, WChain.erase, WChain.mapHead_erase, WChain.erase_inp], ?_⟩⟩
          simp only [WChain.wcost, hc, pcost_fresh]
          omega
  · -- wwait
    split at h
    · simp at h
    · rename_i wk' hp
      have ⟨_, hle, _⟩ := pollWaiting_legit hp
      have hb := (pollWaiting_some hp).1
      simp only [Option.some.injEq, Prod.mk.injEq] at h
      rw [← h.1, ← h.2]
      refine ⟨mild_id, Or.inr ⟨by simp [fwdStep, ← hb, WChain.erase, WChain.erase_inp], ?_⟩⟩
      simp only [WChain.wcost]; have := hle rfl; omega
    · rename_i wk' hp
      have ⟨_, _, hlt⟩ := pollWaiting_legit hp
      simp only [Option.some.injEq, Prod.mk.injEq] at h
      rw [← h.1, ← h.2]
      exact ⟨mild_id, Or.inl ⟨rfl, by simp only [WChain.wcost]; have := hlt rfl; omega, rfl⟩⟩
  · simp at h
  · simp at h

/-- a legitimate poll of any process: stutter with lower waker cost, or a step of the data side with the waker
    costs raised by at most 2 (first process: its right neighbour) or 4 (also its left neighbour), and through `up`
    at most 2 on the process to the left of the chain -/
theorem WChain.step_wdrop {c : Cfg} {s s' : WChain α} {i n k : Nat} {up : PWake → PWake} (hnl : s.NL c)
    (h : s.step c i n k false = some (s', up)) :
    WDropB (if i = 0 then 2 else 4) s s' up (s.erase.step c i n k = some s'.erase) := by
  induction s generalizing i s' up with
  | sink inp r pc wk =>
    cases i with
    | zero =>
      have := wsinkStep_wdrop hnl (by simpa [WChain.step] using h)
      simpa [WChain.erase, Chain.step] using this
    | succ j => simp [WChain.step] at h
  | fwd inp hold pc wk rest ih =>
    cases i with
    | zero =>
      have := wfwdStep_wdrop hnl (by simpa [WChain.step] using h)
      simpa [WChain.erase, Chain.step] using this
    | succ j =>
      simp only [WChain.step] at h
      split at h
      · simp at h
      · rename_i rest' up' hr
        simp only [Option.some.injEq, Prod.mk.injEq] at h
        rw [← h.1, ← h.2]
        obtain ⟨hm, hor⟩ := ih hnl.2.2.2 hr
        have hup : pcost (if j = 0 then up' wk else wk) ≤ pcost wk + 2 := by
          split
          · exact pcost_mild hm wk
          · omega
        rcases hor with ⟨e1, e2, e3⟩ | ⟨e1, e2⟩
        · subst e3
          have hid : (if j = 0 then id wk else wk) = wk := by split <;> rfl
          refine ⟨mild_id, Or.inl ⟨by simp [WChain.erase, e1], ?_, rfl⟩⟩
          simp only [WChain.wcost, hid]; omega
        · refine ⟨mild_id, Or.inr ⟨by simp [WChain.erase, Chain.step, e1], ?_⟩⟩
          simp only [WChain.wcost, Nat.succ_ne_zero, if_false]
          by_cases hj : j = 0
          · subst hj; simp only [if_true] at e2 hup ⊢; omega
          · simp only [hj, if_false] at e2 ⊢; omega

/-- ★ every legitimate poll lowers `WChain.wmeasure` -/
theorem WChain.legit_progress {c : Cfg} (hv : c.Valid) {s s' : WChain α} {i n k : Nat} {up : PWake → PWake}
    (hn : 1 ≤ n) (hk : 1 ≤ k) (hnl : s.NL c) (hi : s.erase.Inv)
    (h : s.step c i n k false = some (s', up)) : s'.wmeasure c < s.wmeasure c := by
  obtain ⟨_, hor⟩ := WChain.step_wdrop hnl h
  unfold WChain.wmeasure
  rcases hor with ⟨e1, e2, _⟩ | ⟨e1, e2⟩
  · rw [e1]; omega
  · have := (Chain.step_drop hv hn hk hi e1).2.1
    split at e2 <;> omega

end YashModel.Pipe
