/-
  C14 — helper lemmas for TwoWriters.lean.
-/
import YashModel.Pipe.TwoWriters
namespace YashModel.Pipe
variable {α : Type}

theorem proj_append (t : Bool) (l m : List (Bool × α)) : proj t (l ++ m) = proj t l ++ proj t m := by
  simp [proj]

theorem proj_tag_same (t : Bool) (l : List α) : proj t (l.map (fun x => (t, x))) = l := by
  induction l with
  | nil => rfl
  | cons a r ih => simpa [proj] using ih

theorem proj_tag_other (t u : Bool) (h : u ≠ t) (l : List α) : proj t (l.map (fun x => (u, x))) = [] := by
  induction l with
  | nil => rfl
  | cons a r ih =>
    have : (u == t) = false := by cases u <;> cases t <;> simp_all
    simpa [proj, this] using ih

theorem length_proj (l : List (Bool × α)) : (proj true l).length + (proj false l).length = l.length := by
  induction l with
  | nil => rfl
  | cons x r ih =>
    obtain ⟨t, v⟩ := x
    cases t <;> simp [proj] at ih ⊢ <;> omega

def Inv2 (pa pb : List α) (s : Sys2 α) : Prop :=
  proj true (s.received ++ s.content) ++ s.unsentA = pa ∧ proj false (s.received ++ s.content) ++ s.unsentB = pb

theorem inv2_step (pa pb : List α) (s : Sys2 α) (a : Act2) (h : Inv2 pa pb s) : Inv2 pa pb (s.step a) := by
  obtain ⟨ha, hb⟩ := h
  cases a with
  | wa n =>
    simp only [Sys2.step, Inv2]
    refine ⟨?_, ?_⟩
    · rw [← ha, ← List.append_assoc s.received, proj_append, proj_tag_same, List.append_assoc, List.take_append_drop]
    · rw [← hb, ← List.append_assoc s.received, proj_append, proj_tag_other false true (by decide), List.append_nil]
  | wb n =>
    simp only [Sys2.step, Inv2]
    refine ⟨?_, ?_⟩
    · rw [← ha, ← List.append_assoc s.received, proj_append, proj_tag_other true false (by decide), List.append_nil]
    · rw [← hb, ← List.append_assoc s.received, proj_append, proj_tag_same, List.append_assoc, List.take_append_drop]
  | r n =>
    simp only [Sys2.step, Inv2]
    rw [List.append_assoc, List.take_append_drop]
    exact ⟨ha, hb⟩

theorem inv2_run (pa pb : List α) (s : Sys2 α) (acts : List Act2) (h : Inv2 pa pb s) : Inv2 pa pb (s.run acts) := by
  induction acts generalizing s with
  | nil => exact h
  | cons a t ih => exact ih _ (inv2_step pa pb s a h)

end YashModel.Pipe
