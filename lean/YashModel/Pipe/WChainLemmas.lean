/-
  C14 — lemmas about the n-stage chain with explicit wakers (WChain.lean): it refines the waker-free chain,
  the "no lost wake-up" invariant (recursive over the chain) and its preservation, legitimate progress.
  (Property theorems are in Theorems.lean.)
-/
import YashModel.Pipe.WChain
import YashModel.Pipe.ChainLemmas
import YashModel.Pipe.OpsLemmas
set_option linter.unusedSimpArgs false
namespace YashModel.Pipe

variable {α : Type}

/-! ### forgetting the wakers gives the chain of Chain.lean -/

theorem WChain.mapHead_erase (s : WChain α) (fi : Fifo α → Fifo α) (fw : PWake → PWake) :
    (s.mapHead fi fw).erase = s.erase.mapInp fi := by
  cases s <;> rfl

theorem WChain.erase_inp (s : WChain α) : s.erase.inp = s.inp := by
  cases s <;> rfl

theorem WChain.mapHead_inp (s : WChain α) (fi : Fifo α → Fifo α) (fw : PWake → PWake) :
    (s.mapHead fi fw).inp = fi s.inp := by
  cases s <;> rfl

theorem pollWaiting_some {wk wk' : PWake} {spur ready b : Bool} (h : pollWaiting wk spur ready = some (b, wk')) :
    b = ready ∧ (wk.parked && !(wk.woken || spur)) = false ∧
      wk' = (if ready then {} else PWake.pollSelect false) := by
  unfold pollWaiting at h
  split at h
  · simp at h
  · rename_i hp
    split at h <;> simp_all

theorem wsinkStep_erase {inp : Fifo α} {r : List α} {pc : RPc} {wk : PWake} {n : Nat} {spur : Bool}
    {s' : WChain α} {up : PWake → PWake} (h : wsinkStep inp r pc wk n spur = some (s', up)) :
    s'.erase = .sink inp r pc ∨ sinkStep inp r pc n = some s'.erase := by
  unfold wsinkStep at h
  unfold sinkStep
  split at h
  · split at h
    next p hrd =>
      simp only [Option.some.injEq, Prod.mk.injEq] at h
      rw [← h.1]; right; simp [hrd, WChain.erase]
    next bs p hrd =>
      simp only at h
      split at h <;> (simp only [Option.some.injEq, Prod.mk.injEq] at h; rw [← h.1]; right; simp_all [WChain.erase])
  · split at h
    · simp at h
    · rename_i wk' hp
      have ⟨hb, _, _⟩ := pollWaiting_some hp
      simp only [Option.some.injEq, Prod.mk.injEq] at h
      rw [← h.1]; right; simp [← hb, WChain.erase]
    · rename_i wk' hp
      simp only [Option.some.injEq, Prod.mk.injEq] at h
      rw [← h.1]; left; rfl
  · simp at h

theorem wfwdStep_erase {c : Cfg} {inp : Fifo α} {hold : List α} {pc : FPc} {wk : PWake} {rest : WChain α}
    {n k : Nat} {spur : Bool} {s' : WChain α} {up : PWake → PWake}
    (h : wfwdStep c inp hold pc wk rest n k spur = some (s', up)) :
    s'.erase = .fwd inp hold pc rest.erase ∨ fwdStep c inp hold pc rest.erase n k = some s'.erase := by
  unfold wfwdStep at h
  unfold fwdStep
  split at h
  · -- rd
    split at h
    next p hrd =>
      simp only [Option.some.injEq, Prod.mk.injEq] at h
      rw [← h.1]; right; simp [hrd, WChain.erase]
    next bs p hrd =>
      simp only at h
      split at h <;> (simp only [Option.some.injEq, Prod.mk.injEq] at h; rw [← h.1]; right;
                      simp_all [WChain.erase, WChain.mapHead_erase])
  · -- rwait
    split at h
    · simp at h
    · rename_i wk' hp
      have ⟨hb, _, _⟩ := pollWaiting_some hp
      simp only [Option.some.injEq, Prod.mk.injEq] at h
      rw [← h.1]; right; simp [← hb, WChain.erase]
    · simp only [Option.some.injEq, Prod.mk.injEq] at h
      rw [← h.1]; left; rfl
  · -- wr
    split at h
    next he =>
      simp only [Option.some.injEq, Prod.mk.injEq] at h
      rw [← h.1]; right; simp [he, WChain.erase]
    next he =>
      rw [← WChain.erase_inp] at h
      split at h
      next p hwr =>
        simp only [Option.some.injEq, Prod.mk.injEq] at h
        rw [← h.1]; right; simp [he, hwr, WChain.erase, WChain.mapHead_erase]
      next p hwr =>
        simp only [Option.some.injEq, Prod.mk.injEq] at h
        rw [← h.1]; right; simp [he, hwr, WChain.erase]
      next w p hwr =>
        split at h <;> (simp only [Option.some.injEq, Prod.mk.injEq] at h; rw [← h.1]; right;
                        simp_all [WChain.erase, WChain.mapHead_erase])
  · -- wwait
    split at h
    · simp at h
    · rename_i wk' hp
      have ⟨hb, _, _⟩ := pollWaiting_some hp
      simp only [Option.some.injEq, Prod.mk.injEq] at h
      rw [← h.1]; right; simp [← hb, WChain.erase, WChain.erase_inp]
    · simp only [Option.some.injEq, Prod.mk.injEq] at h
      rw [← h.1]; left; rfl
  · simp at h
  · simp at h

/-- ★ a poll of the chain with wakers is a step of the waker-free chain on the same data, or changes no data
    (the process parks) -/
theorem WChain.step_erase {c : Cfg} {s s' : WChain α} {i n k : Nat} {spur : Bool} {up : PWake → PWake}
    (h : s.step c i n k spur = some (s', up)) :
    s'.erase = s.erase ∨ s.erase.step c i n k = some s'.erase := by
  induction s generalizing i s' up with
  | sink inp r pc wk =>
    cases i with
    | zero => exact wsinkStep_erase (by simpa [WChain.step] using h)
    | succ j => simp [WChain.step] at h
  | fwd inp hold pc wk rest ih =>
    cases i with
    | zero => exact wfwdStep_erase (by simpa [WChain.step] using h)
    | succ j =>
      simp only [WChain.step] at h
      split at h
      · simp at h
      · rename_i rest' up' hr
        simp only [Option.some.injEq, Prod.mk.injEq] at h
        rw [← h.1]
        rcases ih hr with h1 | h1
        · left; simp [WChain.erase, h1]
        · right; simp [WChain.erase, Chain.step, h1]

/-! ### no lost wake-up, for every stage -/

/-- a process waiting to read pipe `p`: parked and not woken ⇒ registered, and the pipe really not ready -/
def okR (wk : PWake) (p : Fifo α) : Prop :=
  wk.parked = true → wk.woken = false → wk.reg = true ∧ p.readyR = false

def okW (c : Cfg) (wk : PWake) (p : Fifo α) : Prop :=
  wk.parked = true → wk.woken = false → wk.reg = true ∧ p.readyW c = false

/-- the invariant, node by node: only a waiting process is parked; a parked process whose waker has not fired is
    registered in the waker set of the pipe it waits for, and that pipe is not ready for it -/
def WChain.NL (c : Cfg) : WChain α → Prop
  | .sink inp _ pc wk => (wk.parked = true → pc = .wait) ∧ okR wk inp
  | .fwd inp _ pc wk rest =>
      (wk.parked = true → pc = .rwait ∨ pc = .wwait) ∧ (pc = .rwait → okR wk inp) ∧
      (pc = .wwait → okW c wk rest.inp) ∧ rest.NL c

/-- a waker effect never un-parks and either fires the waker or leaves the process alone -/
def Mild (fw : PWake → PWake) : Prop :=
  ∀ x, (fw x).parked = x.parked ∧ ((fw x).woken = true ∨ fw x = x)

/-- … and is safe for a process waiting to read a pipe that changes from `p` to `p'` -/
def SafeR (fw : PWake → PWake) (p p' : Fifo α) : Prop :=
  Mild fw ∧ ∀ x, okR x p → okR (fw x) p'

def SafeW (c : Cfg) (fw : PWake → PWake) (p p' : Fifo α) : Prop :=
  Mild fw ∧ ∀ x, okW c x p → okW c (fw x) p'

theorem mild_id : Mild (id : PWake → PWake) := fun _ => ⟨rfl, Or.inr rfl⟩

theorem mild_wake : Mild PWake.wake := by
  intro x
  unfold PWake.wake
  split <;> simp

theorem mild_closeWake (p : Fifo α) : Mild (closeWake p) := by
  intro x
  unfold closeWake
  split
  · exact mild_wake x
  · exact ⟨rfl, Or.inr rfl⟩

theorem Mild.comp {f g : PWake → PWake} (hf : Mild f) (hg : Mild g) : Mild (fun x => f (g x)) := by
  intro x
  obtain ⟨a1, a2⟩ := hg x
  obtain ⟨b1, b2⟩ := hf (g x)
  refine ⟨by show (f (g x)).parked = x.parked; rw [b1, a1], ?_⟩
  show (f (g x)).woken = true ∨ f (g x) = x
  rcases b2 with b2 | b2
  · exact Or.inl b2
  · rw [b2]
    exact a2

theorem okR_mild {fw : PWake → PWake} (h : Mild fw) {x : PWake} {p : Fifo α} (hx : okR x p) : okR (fw x) p := by
  intro hp hw
  obtain ⟨a, b⟩ := h x
  rcases b with b | b
  · rw [b] at hw; exact absurd hw (by simp)
  · rw [b] at hp hw ⊢; exact hx hp hw

theorem okW_mild {c : Cfg} {fw : PWake → PWake} (h : Mild fw) {x : PWake} {p : Fifo α} (hx : okW c x p) :
    okW c (fw x) p := by
  intro hp hw
  obtain ⟨a, b⟩ := h x
  rcases b with b | b
  · rw [b] at hw; exact absurd hw (by simp)
  · rw [b] at hp hw ⊢; exact hx hp hw

/-- firing the waker is safe whatever happens to the pipe -/
theorem wake_okR (x : PWake) (p p' : Fifo α) (hx : okR x p) : okR x.wake p' := by
  intro hp hw
  unfold PWake.wake at hp hw ⊢
  split at hw
  · simp at hw
  · rename_i hr
    split at hp
    · contradiction
    · have := (hx hp hw).1
      exact absurd this hr

theorem wake_okW (c : Cfg) (x : PWake) (p p' : Fifo α) (hx : okW c x p) : okW c x.wake p' := by
  intro hp hw
  unfold PWake.wake at hp hw ⊢
  split at hw
  · simp at hw
  · rename_i hr
    split at hp
    · contradiction
    · have := (hx hp hw).1
      exact absurd this hr

theorem safeR_wake (p p' : Fifo α) : SafeR PWake.wake p p' := ⟨mild_wake, fun x hx => wake_okR x p p' hx⟩
theorem safeW_wake (c : Cfg) (p p' : Fifo α) : SafeW c PWake.wake p p' :=
  ⟨mild_wake, fun x hx => wake_okW c x p p' hx⟩

/-- closing the writing end: the read-waiter is woken when no writer is left, else nothing changes for it -/
theorem safeR_closeW (p : Fifo α) : SafeR (closeWake (p.closeFd false true)) p (p.closeFd false true) := by
  refine ⟨mild_closeWake _, fun x hx => ?_⟩
  unfold closeWake
  split
  · exact wake_okR x _ _ hx
  · rename_i hc
    intro hp hw
    obtain ⟨a, b⟩ := hx hp hw
    refine ⟨a, ?_⟩
    rw [readyR_false_iff] at b ⊢
    simp only [Fifo.closeFd] at hc ⊢
    omega

/-- closing the reading end: the write-waiter is woken when no reader is left, else nothing changes for it -/
theorem safeW_closeR (c : Cfg) (p : Fifo α) : SafeW c (closeWake (p.closeFd true false)) p (p.closeFd true false) := by
  refine ⟨mild_closeWake _, fun x hx => ?_⟩
  unfold closeWake
  split
  · exact wake_okW c x _ _ hx
  · rename_i hc
    intro hp hw
    obtain ⟨a, b⟩ := hx hp hw
    refine ⟨a, ?_⟩
    rw [readyW_false_iff] at b ⊢
    simp only [Fifo.closeFd] at hc ⊢
    omega

theorem WChain.NL.mapHead {c : Cfg} {s : WChain α} (h : s.NL c) (fi : Fifo α → Fifo α) (fw : PWake → PWake)
    (hs : SafeR fw s.inp (fi s.inp)) : (s.mapHead fi fw).NL c := by
  obtain ⟨hm, hok⟩ := hs
  cases s with
  | sink inp r pc wk =>
    simp only [WChain.NL, WChain.mapHead, WChain.inp] at *
    exact ⟨fun hp => h.1 (by rw [← (hm wk).1]; exact hp), hok wk h.2⟩
  | fwd inp hold pc wk rest =>
    simp only [WChain.NL, WChain.mapHead, WChain.inp] at *
    obtain ⟨h1, h2, h3, h4⟩ := h
    exact ⟨fun hp => h1 (by rw [← (hm wk).1]; exact hp), fun e => hok wk (h2 e), fun e => okW_mild hm (h3 e), h4⟩

theorem pollWaiting_ok {wk wk' : PWake} {spur ready b : Bool} (h : pollWaiting wk spur ready = some (b, wk')) :
    b = ready ∧ (b = true → wk' = {}) ∧ (b = false → wk' = PWake.pollSelect false) := by
  have ⟨h1, _, h3⟩ := pollWaiting_some h
  subst h1
  cases b <;> simp_all

theorem okR_fresh (p : Fifo α) : okR ({} : PWake) p := by intro h; simp at h
theorem okW_fresh (c : Cfg) (p : Fifo α) : okW c ({} : PWake) p := by intro h; simp at h

theorem safeW_id (c : Cfg) (p : Fifo α) : SafeW c id p p := ⟨mild_id, fun _ hx => hx⟩

theorem okR_parked {p : Fifo α} (h : p.readyR = false) : okR (PWake.pollSelect false) p := by
  intro _ _; exact ⟨rfl, h⟩

theorem okW_parked {c : Cfg} {p : Fifo α} (h : p.readyW c = false) : okW c (PWake.pollSelect false) p := by
  intro _ _; exact ⟨rfl, h⟩

/-- the effect of a read that returned (data or end of file, `n ≥ 1`) on the writer of the pipe -/
theorem safeW_read_close (c : Cfg) {n : Nat} (hn : 1 ≤ n) (p p' q : Fifo α) :
    SafeW c (fun x => closeWake q ((if n = 0 then id else PWake.wake) x)) p p' := by
  have hn0 : ¬ n = 0 := by omega
  simp only [hn0, if_false]
  exact ⟨(mild_closeWake q).comp mild_wake, fun x hx => okW_mild (mild_closeWake q) (wake_okW c x p p' hx)⟩

theorem safeW_read (c : Cfg) {n : Nat} (hn : 1 ≤ n) (p p' : Fifo α) :
    SafeW c (if n = 0 then id else PWake.wake) p p' := by
  have hn0 : ¬ n = 0 := by omega
  simp only [hn0, if_false]
  exact safeW_wake c p p'

theorem wsinkStep_nl {c : Cfg} {inp : Fifo α} {r : List α} {pc : RPc} {wk : PWake} {n : Nat} {spur : Bool}
    {s' : WChain α} {up : PWake → PWake} (hn : 1 ≤ n) (hi : (WChain.sink inp r pc wk).NL c)
    (h : wsinkStep inp r pc wk n spur = some (s', up)) : s'.NL c ∧ SafeW c up inp s'.inp := by
  unfold wsinkStep at h
  split at h
  · split at h
    next p hrd =>
      simp only [Option.some.injEq, Prod.mk.injEq] at h
      rw [← h.1, ← h.2]
      exact ⟨⟨by simp, okR_fresh _⟩, safeW_id c inp⟩
    next bs p hrd =>
      simp only at h
      split at h
      · simp only [Option.some.injEq, Prod.mk.injEq] at h
        rw [← h.1, ← h.2]
        exact ⟨⟨by simp, okR_fresh _⟩, safeW_read_close c hn _ _ _⟩
      · simp only [Option.some.injEq, Prod.mk.injEq] at h
        rw [← h.1, ← h.2]
        exact ⟨⟨by simp, okR_fresh _⟩, safeW_read c hn _ _⟩
  · split at h
    · simp at h
    · rename_i wk' hp
      have ⟨_, hb, _⟩ := pollWaiting_ok hp
      simp only [Option.some.injEq, Prod.mk.injEq] at h
      rw [← h.1, ← h.2, hb rfl]
      exact ⟨⟨by simp, okR_fresh _⟩, safeW_id c inp⟩
    · rename_i wk' hp
      have ⟨hr, _, hb⟩ := pollWaiting_ok hp
      simp only [Option.some.injEq, Prod.mk.injEq] at h
      rw [← h.1, ← h.2, hb rfl]
      exact ⟨⟨fun _ => rfl, okR_parked hr.symm⟩, safeW_id c inp⟩
  · simp at h

theorem wfwdStep_nl {c : Cfg} {inp : Fifo α} {hold : List α} {pc : FPc} {wk : PWake} {rest : WChain α}
    {n k : Nat} {spur : Bool} {s' : WChain α} {up : PWake → PWake} (hn : 1 ≤ n)
    (hi : (WChain.fwd inp hold pc wk rest).NL c)
    (h : wfwdStep c inp hold pc wk rest n k spur = some (s', up)) : s'.NL c ∧ SafeW c up inp s'.inp := by
  obtain ⟨h1, h2, h3, h4⟩ := hi
  unfold wfwdStep at h
  split at h
  · -- rd
    split at h
    next p hrd =>
      simp only [Option.some.injEq, Prod.mk.injEq] at h
      rw [← h.1, ← h.2]
      exact ⟨⟨by simp, fun _ => okR_fresh _, by simp, h4⟩, safeW_id c inp⟩
    next bs p hrd =>
      simp only at h
      split at h
      · simp only [Option.some.injEq, Prod.mk.injEq] at h
        rw [← h.1, ← h.2]
        exact ⟨⟨by simp, by simp, by simp, h4.mapHead _ _ (safeR_closeW rest.inp)⟩, safeW_read_close c hn _ _ _⟩
      · simp only [Option.some.injEq, Prod.mk.injEq] at h
        rw [← h.1, ← h.2]
        exact ⟨⟨by simp, by simp, by simp, h4⟩, safeW_read c hn _ _⟩
  · -- rwait
    split at h
    · simp at h
    · rename_i wk' hp
      have ⟨_, hb, _⟩ := pollWaiting_ok hp
      simp only [Option.some.injEq, Prod.mk.injEq] at h
      rw [← h.1, ← h.2, hb rfl]
      exact ⟨⟨by simp, by simp, by simp, h4⟩, safeW_id c inp⟩
    · rename_i wk' hp
      have ⟨hr, _, hb⟩ := pollWaiting_ok hp
      simp only [Option.some.injEq, Prod.mk.injEq] at h
      rw [← h.1, ← h.2, hb rfl]
      exact ⟨⟨fun _ => Or.inl rfl, fun _ => okR_parked hr.symm, by simp, h4⟩, safeW_id c inp⟩
  · -- wr
    split at h
    · simp only [Option.some.injEq, Prod.mk.injEq] at h
      rw [← h.1, ← h.2]
      exact ⟨⟨by simp, fun _ => okR_fresh _, by simp, h4⟩, safeW_id c inp⟩
    · split at h
      next p hwr =>
        simp only [Option.some.injEq, Prod.mk.injEq] at h
        rw [← h.1, ← h.2]
        exact ⟨⟨by simp, by simp, by simp, h4.mapHead _ _ (safeR_closeW rest.inp)⟩, safeW_closeR c inp⟩
      next p hwr =>
        simp only [Option.some.injEq, Prod.mk.injEq] at h
        rw [← h.1, ← h.2]
        exact ⟨⟨by simp, by simp, fun _ => okW_fresh c _, h4⟩, safeW_id c inp⟩
      next w p hwr =>
        split at h
        · simp only [Option.some.injEq, Prod.mk.injEq] at h
          rw [← h.1, ← h.2]
          exact ⟨⟨by simp, by simp, fun _ => okW_fresh c _, h4.mapHead _ _ (safeR_wake _ _)⟩, safeW_id c inp⟩
        · simp only [Option.some.injEq, Prod.mk.injEq] at h
          rw [← h.1, ← h.2]
          exact ⟨⟨by simp, by simp, by simp, h4.mapHead _ _ (safeR_wake _ _)⟩, safeW_id c inp⟩
  · -- wwait
    split at h
    · simp at h
    · rename_i wk' hp
      have ⟨_, hb, _⟩ := pollWaiting_ok hp
      simp only [Option.some.injEq, Prod.mk.injEq] at h
      rw [← h.1, ← h.2, hb rfl]
      exact ⟨⟨by simp, by simp, by simp, h4⟩, safeW_id c inp⟩
    · rename_i wk' hp
      have ⟨hr, _, hb⟩ := pollWaiting_ok hp
      simp only [Option.some.injEq, Prod.mk.injEq] at h
      rw [← h.1, ← h.2, hb rfl]
      exact ⟨⟨fun _ => Or.inr rfl, by simp, fun _ => okW_parked hr.symm, h4⟩, safeW_id c inp⟩
  · simp at h
  · simp at h

/-- ★ every poll of every process (legitimate or spurious) keeps the invariant; its effect on the process to the
    left is safe for that process -/
theorem WChain.step_nl {c : Cfg} {s s' : WChain α} {i n k : Nat} {spur : Bool} {up : PWake → PWake}
    (hn : 1 ≤ n) (hi : s.NL c) (h : s.step c i n k spur = some (s', up)) :
    s'.NL c ∧ SafeW c up s.inp s'.inp ∧ (1 ≤ i → ∀ x, okW c x s.inp → okW c x s'.inp) := by
  induction s generalizing i s' up with
  | sink inp r pc wk =>
    cases i with
    | zero =>
      have := wsinkStep_nl hn hi (by simpa [WChain.step] using h)
      exact ⟨this.1, this.2, fun h0 => by omega⟩
    | succ j => simp [WChain.step] at h
  | fwd inp hold pc wk rest ih =>
    cases i with
    | zero =>
      have := wfwdStep_nl hn hi (by simpa [WChain.step] using h)
      exact ⟨this.1, this.2, fun h0 => by omega⟩
    | succ j =>
      simp only [WChain.step] at h
      split at h
      · simp at h
      · rename_i rest' up' hr
        simp only [Option.some.injEq, Prod.mk.injEq] at h
        rw [← h.1, ← h.2]
        obtain ⟨h1, h2, h3, h4⟩ := hi
        obtain ⟨a, ⟨bm, bo⟩, d⟩ := ih h4 hr
        refine ⟨⟨?_, ?_, ?_, a⟩, safeW_id c inp, fun _ x hx => hx⟩
        · intro hp
          refine h1 ?_
          split at hp
          · rw [← (bm wk).1]; exact hp
          · exact hp
        · intro e
          split
          · exact okR_mild bm (h2 e)
          · exact h2 e
        · intro e
          split
          · exact bo wk (h3 e)
          · rename_i hj
            exact d (by omega) wk (h3 e)

/-! ### legitimate progress -/

/-- a process that can step in the waker-free chain can be polled legitimately in the chain with wakers: if it
    is parked its descriptor is ready, so by the invariant its waker has fired -/
theorem WChain.legit_of_enabled {c : Cfg} {s : WChain α} (hi : s.NL c) {i : Nat}
    (h : ∀ n k, (s.erase.step c i n k).isSome = true) : ∀ n k, (s.step c i n k false).isSome = true := by
  induction s generalizing i with
  | sink inp r pc wk =>
    intro n k
    cases i with
    | zero =>
      have h0 := h n k
      simp only [WChain.erase, Chain.step, sinkStep] at h0
      simp only [WChain.step, wsinkStep]
      cases pc with
      | run =>
        simp only
        split
        · rfl
        · split <;> rfl
      | wait =>
        try simp only at h0 ⊢
        have hr : inp.readyR = true := by
          by_cases e : inp.readyR = true
          · exact e
          · simp [e] at h0
        have hp : ¬(wk.parked = true ∧ wk.woken = false) := by
          rintro ⟨hpk, hwk⟩
          have := hi.2 hpk hwk
          rw [hr] at this
          exact absurd this.2 (by simp)
        simp [pollWaiting, hp, hr]
      | done => simp at h0
    | succ j => simpa [WChain.erase, Chain.step] using h n k
  | fwd inp hold pc wk rest ih =>
    obtain ⟨h1, h2, h3, h4⟩ := hi
    intro n k
    cases i with
    | zero =>
      have h0 := h n k
      simp only [WChain.erase, Chain.step, fwdStep] at h0
      simp only [WChain.step, wfwdStep]
      cases pc with
      | rd =>
        simp only
        split
        · rfl
        · split <;> rfl
      | rwait =>
        try simp only at h0 ⊢
        have hr : inp.readyR = true := by
          by_cases e : inp.readyR = true
          · exact e
          · simp [e] at h0
        have hp : ¬(wk.parked = true ∧ wk.woken = false) := by
          rintro ⟨hpk, hwk⟩
          have := h2 rfl hpk hwk
          rw [hr] at this
          exact absurd this.2 (by simp)
        simp [pollWaiting, hp, hr]
      | wr =>
        simp only
        split
        · rfl
        · split
          · rfl
          · rfl
          · split <;> rfl
      | wwait =>
        simp only [WChain.erase_inp] at h0 ⊢
        have hr : rest.inp.readyW c = true := by
          by_cases e : rest.inp.readyW c = true
          · exact e
          · simp [e] at h0
        have hp : ¬(wk.parked = true ∧ wk.woken = false) := by
          rintro ⟨hpk, hwk⟩
          have := h3 rfl hpk hwk
          rw [hr] at this
          exact absurd this.2 (by simp)
        simp [pollWaiting, hp, hr]
      | closed => simp at h0
      | failed => simp at h0
    | succ j =>
      have hj : ∀ n k, (rest.erase.step c j n k).isSome = true := by
        intro n k
        have := h n k
        simpa [WChain.erase, Chain.step] using this
      have := ih h4 hj n k
      simp only [WChain.step]
      cases hs : rest.step c j n k false with
      | none => rw [hs] at this; simp at this
      | some v => rfl

/-! ### reachable states -/

/-- reachable states of the chain with wakers: every interleaving, sizes ≥ 1, spurious polls included -/
inductive WCReach (c : Cfg) (m : Nat) (pre post : List α) : WChain α → Prop
  | init : WCReach c m pre post (WChain.init m pre post)
  | step {s s' : WChain α} {up : PWake → PWake} (i n k : Nat) (spur : Bool) :
      WCReach c m pre post s → 1 ≤ n → 1 ≤ k → s.step c i n k spur = some (s', up) → WCReach c m pre post s'

theorem WChain.idle_erase (m : Nat) : (WChain.idle m : WChain α).erase = Chain.idle m := by
  induction m with
  | zero => rfl
  | succ m ih => simp [WChain.idle, WChain.erase, Chain.idle, ih]

theorem WChain.idle_nl (c : Cfg) (m : Nat) : (WChain.idle m : WChain α).NL c := by
  induction m with
  | zero => exact ⟨by simp, okR_fresh _⟩
  | succ m ih => exact ⟨by simp, by simp, by simp, ih⟩

theorem WCReach.erase {c : Cfg} {m : Nat} {pre post : List α} {s : WChain α} (hr : WCReach c m pre post s) :
    CReach c m pre post s.erase := by
  induction hr with
  | init => simp only [WChain.init, WChain.erase, WChain.idle_erase]; exact CReach.init
  | step i n k spur _ hn hk hs ih =>
    rcases WChain.step_erase hs with h | h
    · rw [h]; exact ih
    · exact CReach.step i n k ih hn hk h

theorem WCReach.nl {c : Cfg} {m : Nat} {pre post : List α} {s : WChain α} (hr : WCReach c m pre post s) :
    s.NL c := by
  induction hr with
  | init => exact ⟨by simp, by simp, by simp, WChain.idle_nl c m⟩
  | step i n k spur _ hn _ hs ih => exact (WChain.step_nl hn ih hs).1

end YashModel.Pipe
