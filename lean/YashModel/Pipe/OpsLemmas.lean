/-
  C14 — the wake-up law of the operation-sequence machine (Ops.lean) for ALL operation histories: an invariant
  of `OpState` preserved by every operation, from which `lostWakeup` is false after every operation.
  (Property theorems are in Theorems.lean.)
-/
import YashModel.Pipe.Ops
import YashModel.Pipe.Progress
set_option linter.unusedSimpArgs false
namespace YashModel.Pipe

/-! ### waker-set membership -/

theorem mem_insertId {l : List Nat} {i j : Nat} : j ∈ insertId l i ↔ j ∈ l ∨ j = i := by
  unfold insertId
  split
  next h =>
    have hi : i ∈ l := by simpa using h
    constructor
    · exact Or.inl
    · rintro (h | h)
      · exact h
      · subst h; exact hi
  next => simp

theorem mem_foldl_insertId (l f : List Nat) (j : Nat) : j ∈ l.foldl insertId f ↔ j ∈ f ∨ j ∈ l := by
  induction l generalizing f with
  | nil => simp
  | cons a t ih =>
    simp only [List.foldl_cons, ih, mem_insertId, List.mem_cons]
    constructor
    · rintro ((h | h) | h)
      · exact Or.inl h
      · exact Or.inr (Or.inl h)
      · exact Or.inr (Or.inr h)
    · rintro (h | h | h)
      · exact Or.inl (Or.inl h)
      · exact Or.inl (Or.inr h)
      · exact Or.inr h

/-! ### what every transition of the FIFO and its waker sets guarantees -/

variable {α : Type}

/-- a transition `(p, w) → (p', w')` of a FIFO with its waker sets is *wake-safe*: fired wakers stay fired, a
    registered waker stays registered or fires, and readiness for reading (writing) turns true only together
    with the firing of every waker registered for reading (writing) -/
structure Trans (c : Cfg) (p : Fifo α) (w : Wakers) (p' : Fifo α) (w' : Wakers) : Prop where
  fired : ∀ i, i ∈ w.fired → i ∈ w'.fired
  pr : ∀ i, i ∈ w.pendR → i ∈ w'.pendR ∨ i ∈ w'.fired
  pw : ∀ i, i ∈ w.pendW → i ∈ w'.pendW ∨ i ∈ w'.fired
  rr : p.readyR = false → p'.readyR = false ∨ ∀ i, i ∈ w.pendR → i ∈ w'.fired
  rw : p.readyW c = false → p'.readyW c = false ∨ ∀ i, i ∈ w.pendW → i ∈ w'.fired

theorem Trans.refl (c : Cfg) (p : Fifo α) (w : Wakers) : Trans c p w p w :=
  ⟨fun _ h => h, fun _ h => Or.inl h, fun _ h => Or.inl h, fun h => Or.inl h, fun h => Or.inl h⟩

theorem Trans.trans {c : Cfg} {p p' p'' : Fifo α} {w w' w'' : Wakers}
    (a : Trans c p w p' w') (b : Trans c p' w' p'' w'') : Trans c p w p'' w'' := by
  refine ⟨fun i h => b.fired i (a.fired i h), fun i h => ?_, fun i h => ?_, fun h => ?_, fun h => ?_⟩
  · rcases a.pr i h with h | h
    · exact b.pr i h
    · exact Or.inr (b.fired i h)
  · rcases a.pw i h with h | h
    · exact b.pw i h
    · exact Or.inr (b.fired i h)
  · rcases a.rr h with h1 | h1
    · rcases b.rr h1 with h2 | h2
      · exact Or.inl h2
      · refine Or.inr fun i hi => ?_
        rcases a.pr i hi with h3 | h3
        · exact h2 i h3
        · exact b.fired i h3
    · exact Or.inr fun i hi => b.fired i (h1 i hi)
  · rcases a.rw h with h1 | h1
    · rcases b.rw h1 with h2 | h2
      · exact Or.inl h2
      · refine Or.inr fun i hi => ?_
        rcases a.pw i hi with h3 | h3
        · exact h2 i h3
        · exact b.fired i h3
    · exact Or.inr fun i hi => b.fired i (h1 i hi)

theorem readyR_false_iff (p : Fifo α) : p.readyR = false ↔ (p.writers ≠ 0 ∧ p.content.length = 0) := by
  rw [Bool.eq_false_iff, Ne, readyR_iff]
  omega

theorem readyW_false_iff (c : Cfg) (p : Fifo α) :
    p.readyW c = false ↔ (p.readers ≠ 0 ∧ c.pipeSize < c.pipeBuf + p.content.length ∧ c.pipeBuf ≠ 0) := by
  rw [Bool.eq_false_iff, Ne, readyW_iff]
  omega

theorem wakeR_trans (c : Cfg) (p p' : Fifo α) (w : Wakers)
    (hw : p.readyW c = false → p'.readyW c = false) : Trans c p w p' w.wakeR := by
  refine ⟨fun i h => ?_, fun i h => Or.inr ?_, fun i h => Or.inl h, fun _ => Or.inr fun i h => ?_,
    fun h => Or.inl (hw h)⟩ <;>
    simp only [Wakers.wakeR, mem_foldl_insertId] <;> simp [h]

theorem wakeW_trans (c : Cfg) (p p' : Fifo α) (w : Wakers)
    (hr : p.readyR = false → p'.readyR = false) : Trans c p w p' w.wakeW := by
  refine ⟨fun i h => ?_, fun i h => Or.inl h, fun i h => Or.inr ?_, fun h => Or.inl (hr h),
    fun _ => Or.inr fun i h => ?_⟩ <;>
    simp only [Wakers.wakeW, mem_foldl_insertId] <;> simp [h]

theorem wfWrite_trans (c : Cfg) (p : Fifo α) (w : Wakers) (buf : List α) :
    Trans c p w (wfWrite c p w buf none).2.1 (wfWrite c p w buf none).2.2 := by
  unfold wfWrite
  split
  next p' h => rw [(write_epipe h).2]; exact Trans.refl c p w
  next p' h => rw [(write_block h).1]; exact Trans.refl c p w
  next n p' h =>
    have ⟨_, hp, _, _, _, _⟩ := write_wrote h
    refine wakeR_trans c p p' w fun hf => ?_
    rw [readyW_false_iff] at hf ⊢
    rw [hp]
    simp only [List.length_append]
    omega

theorem wfRead_trans (c : Cfg) (p : Fifo α) (w : Wakers) (n : Nat) :
    Trans c p w (wfRead p w n none).2.1 (wfRead p w n none).2.2 := by
  unfold wfRead
  split
  next p' h => rw [(read_block h).1]; exact Trans.refl c p w
  next bs p' h =>
    by_cases hn : n = 0
    · subst hn
      simp only [Fifo.read, if_true, Prod.mk.injEq] at h
      rw [← h.2]
      simp only [if_true]
      exact Trans.refl c p w
    · simp only [hn, if_false]
      have ⟨_, hp, _⟩ := read_data (by omega) h
      refine wakeW_trans c p p' w fun hf => ?_
      rw [readyR_false_iff] at hf ⊢
      rw [hp]
      simp only [List.length_drop]
      omega

theorem mem_wakeRW (w : Wakers) (i : Nat) :
    i ∈ w.wakeR.wakeW.fired ↔ i ∈ w.fired ∨ i ∈ w.pendR ∨ i ∈ w.pendW := by
  simp only [Wakers.wakeR, Wakers.wakeW, mem_foldl_insertId]
  constructor
  · rintro ((h | h) | h)
    · exact Or.inl h
    · exact Or.inr (Or.inl h)
    · exact Or.inr (Or.inr h)
  · rintro (h | h | h)
    · exact Or.inl (Or.inl h)
    · exact Or.inl (Or.inr h)
    · exact Or.inr h

theorem wfClose_trans (c : Cfg) (p : Fifo α) (w : Wakers) (r wr : Bool) :
    Trans c p w (wfClose p w r wr).1 (wfClose p w r wr).2 := by
  unfold wfClose
  simp only
  split
  next h =>
    refine ⟨fun i h => ?_, fun i h => Or.inr ?_, fun i h => Or.inr ?_, fun _ => Or.inr fun i h => ?_,
      fun _ => Or.inr fun i h => ?_⟩ <;> rw [mem_wakeRW] <;> simp [h]
  next h =>
    refine ⟨fun _ h => h, fun _ h => Or.inl h, fun _ h => Or.inl h, fun hf => Or.inl ?_, fun hf => Or.inl ?_⟩
    · rw [readyR_false_iff] at hf ⊢
      simp only [Fifo.closeFd] at h ⊢
      omega
    · rw [readyW_false_iff] at hf ⊢
      simp only [Fifo.closeFd] at h ⊢
      omega

/-! ### the system calls are wake-safe -/

theorem pollWriteW_trans (c : Cfg) (o : Ofd) (p : Fifo α) (w : Wakers) (buf : List α) :
    Trans c p w (o.pollWriteW c p w buf).2.1 (o.pollWriteW c p w buf).2.2 := by
  have t := wfWrite_trans c p w buf
  unfold Ofd.pollWriteW
  split
  · exact Trans.refl c p w
  · split <;> (rename_i h; rw [h] at t; exact t)

theorem pollWriteFullW_trans (c : Cfg) (o : Ofd) (fuel : Nat) (p : Fifo α) (w : Wakers) (rem : List α) (bw : Nat) :
    Trans c p w (o.pollWriteFullW c fuel p w rem bw).2.1 (o.pollWriteFullW c fuel p w rem bw).2.2 := by
  induction fuel generalizing p w rem bw with
  | zero => exact Trans.refl c p w
  | succ fuel ih =>
    unfold Ofd.pollWriteFullW
    split
    · exact Trans.refl c p w
    · have t := pollWriteW_trans c o p w rem
      split
      next n p' w' h =>
        rw [h] at t
        split
        · exact t
        · exact t.trans (ih p' w' _ _)
      next e p' w' h => rw [h] at t; exact t
      next p' w' h => rw [h] at t; exact t

theorem sysWriteW_trans (c : Cfg) (o : Ofd) (p : Fifo α) (w : Wakers) (buf : List α) :
    Trans c p w (o.sysWriteW c p w buf).2.1 (o.sysWriteW c p w buf).2.2 :=
  pollWriteFullW_trans c o _ p w buf 0

theorem sysReadW_trans (c : Cfg) (o : Ofd) (p : Fifo α) (w : Wakers) (n : Nat) :
    Trans c p w (o.sysReadW p w n).2.2.1 (o.sysReadW p w n).2.2.2 := by
  have t := wfRead_trans c p w n
  unfold Ofd.sysReadW
  split
  · exact Trans.refl c p w
  · split <;> (rename_i h; rw [h] at t; exact t)

theorem openFd_trans (c : Cfg) (p : Fifo α) (w : Wakers) (r wr : Bool) : Trans c p w (p.openFd r wr) w := by
  refine ⟨fun _ h => h, fun _ h => Or.inl h, fun _ h => Or.inl h, fun hf => Or.inl ?_, fun hf => Or.inl ?_⟩
  · rw [readyR_false_iff] at hf ⊢
    simp only [Fifo.openFd]
    omega
  · rw [readyW_false_iff] at hf ⊢
    simp only [Fifo.openFd]
    omega

/-! ### the invariant of the operation-sequence machine -/

/-- a parked `select` is accounted for: its waker has fired, or its slot is open and for every set it is in the
    descriptor can be read (written), the FIFO is not ready for it, and its waker is registered in the matching
    waker set -/
def EntryOK (slots : List (Option Ofd)) (f : Fifo Byte) (w : Wakers) (e : Nat × Nat × Bool × Bool) : Prop :=
  e.1 ∈ w.fired ∨ ∃ o, slots.getD e.2.1 none = some o ∧
    (e.2.2.1 = true → o.readable = true ∧ f.readyR = false ∧ e.1 ∈ w.pendR) ∧
    (e.2.2.2 = true → o.writable = true ∧ f.readyW cfg = false ∧ e.1 ∈ w.pendW)

theorem EntryOK.trans {slots : List (Option Ofd)} {f f' : Fifo Byte} {w w' : Wakers} {e : Nat × Nat × Bool × Bool}
    (h : EntryOK slots f w e) (t : Trans cfg f w f' w') : EntryOK slots f' w' e := by
  by_cases hf : e.1 ∈ w'.fired
  · exact Or.inl hf
  · rcases h with h | ⟨o, hs, hr, hw⟩
    · exact absurd (t.fired _ h) hf
    · refine Or.inr ⟨o, hs, fun h1 => ?_, fun h1 => ?_⟩
      · obtain ⟨a, b, d⟩ := hr h1
        refine ⟨a, ?_, ?_⟩
        · rcases t.rr b with h2 | h2
          · exact h2
          · exact absurd (h2 _ d) hf
        · rcases t.pr _ d with h2 | h2
          · exact h2
          · exact absurd h2 hf
      · obtain ⟨a, b, d⟩ := hw h1
        refine ⟨a, ?_, ?_⟩
        · rcases t.rw b with h2 | h2
          · exact h2
          · exact absurd (h2 _ d) hf
        · rcases t.pw _ d with h2 | h2
          · exact h2
          · exact absurd h2 hf

/-- `EntryOK` looks at the waker sets only through the memberships of the entry's own id -/
theorem EntryOK.congr {slots : List (Option Ofd)} {f : Fifo Byte} {w w' : Wakers} {e : Nat × Nat × Bool × Bool}
    (h : EntryOK slots f w e) (hf : e.1 ∈ w.fired → e.1 ∈ w'.fired) (hr : e.1 ∈ w.pendR → e.1 ∈ w'.pendR)
    (hw : e.1 ∈ w.pendW → e.1 ∈ w'.pendW) : EntryOK slots f w' e := by
  rcases h with h | ⟨o, hs, a, b⟩
  · exact Or.inl (hf h)
  · exact Or.inr ⟨o, hs, fun h1 => ⟨(a h1).1, (a h1).2.1, hr (a h1).2.2⟩,
      fun h1 => ⟨(b h1).1, (b h1).2.1, hw (b h1).2.2⟩⟩

/-- … and at the slots only through the readable / writable bits of its own slot -/
theorem EntryOK.slots {slots slots' : List (Option Ofd)} {f : Fifo Byte} {w : Wakers} {e : Nat × Nat × Bool × Bool}
    (h : EntryOK slots f w e)
    (hs : ∀ o, slots.getD e.2.1 none = some o →
      ∃ o', slots'.getD e.2.1 none = some o' ∧ o'.readable = o.readable ∧ o'.writable = o.writable) :
    EntryOK slots' f w e := by
  rcases h with h | ⟨o, ho, a, b⟩
  · exact Or.inl h
  · obtain ⟨o', ho', h1, h2⟩ := hs o ho
    exact Or.inr ⟨o', ho', fun x => by rw [h1]; exact a x, fun x => by rw [h2]; exact b x⟩

structure OInv (st : OpState) : Prop where
  ok : ∀ e, e ∈ st.parked → EntryOK st.slots st.fifo st.wk e
  fresh : ∀ e, e ∈ st.parked → e.1 < st.nextId
  inj : ∀ a, a ∈ st.parked → ∀ b, b ∈ st.parked → a.1 = b.1 → a = b

theorem OInv.init : OInv {} := ⟨by simp, by simp, by simp⟩

/-- the Spec of the wake-up half follows from the invariant -/
theorem OInv.no_lost {st : OpState} (hi : OInv st) : lostWakeup st = false := by
  unfold lostWakeup
  rw [List.any_eq_false]
  rintro ⟨id, k, r, w⟩ hm
  rcases hi.ok _ hm with h | ⟨o, hs, a, b⟩
  · have h' : id ∈ st.wk.fired := h
    simp [h']
  · have hs' : slotGet st k = some o := hs
    have a' : r = true → o.readable = true ∧ st.fifo.readyR = false ∧ id ∈ st.wk.pendR := a
    have b' : w = true → o.writable = true ∧ st.fifo.readyW cfg = false ∧ id ∈ st.wk.pendW := b
    clear hs a b
    simp only [hs']
    cases r <;> cases w <;> simp_all

theorem OInv.of_trans {st : OpState} (hi : OInv st) {f' : Fifo Byte} {w' : Wakers}
    (t : Trans cfg st.fifo st.wk f' w') (a d : List Byte) :
    OInv { st with fifo := f', wk := w', accepted := a, delivered := d } :=
  ⟨fun e he => (hi.ok e he).trans t, hi.fresh, hi.inj⟩

theorem getD_append_some {l : List (Option Ofd)} {k : Nat} {o : Ofd} (x : Option Ofd)
    (h : l.getD k none = some o) : (l ++ [x]).getD k none = some o := by
  rw [List.getD_eq_getElem?_getD] at h ⊢
  have hk : k < l.length := by
    by_cases hk : k < l.length
    · exact hk
    · rw [List.getElem?_eq_none (by omega)] at h
      simp at h
  rw [List.getElem?_append_left hk]
  exact h

theorem getD_set_ne {l : List (Option Ofd)} {k j : Nat} (v : Option Ofd) (h : j ≠ k) :
    (l.set k v).getD j none = l.getD j none := by
  rw [List.getD_eq_getElem?_getD, List.getD_eq_getElem?_getD, List.getElem?_set_ne (Ne.symm h)]

theorem getD_set_same {l : List (Option Ofd)} {k : Nat} {o : Ofd} (v : Ofd)
    (h : l.getD k none = some o) : (l.set k (some v)).getD k none = some v := by
  rw [List.getD_eq_getElem?_getD] at h ⊢
  have hk : k < l.length := by
    by_cases hk : k < l.length
    · exact hk
    · rw [List.getElem?_eq_none (by omega)] at h
      simp at h
  rw [List.getElem?_set_self hk]
  rfl

/-- the waker sets after the harness dropped the `select` futures parked on slot `k` -/
def dropParked (st : OpState) (k : Nat) : Wakers :=
  let gone := (st.parked.filter fun e => e.2.1 == k).map (·.1)
  { pendR := st.wk.pendR.filter (!gone.contains ·), pendW := st.wk.pendW.filter (!gone.contains ·),
    fired := st.wk.fired.filter (!gone.contains ·) }

theorem close_inv (st : OpState) (k : Nat) (hi : OInv st) (f : Fifo Byte) (wk' : Wakers)
    (t : Trans cfg st.fifo (dropParked st k) f wk') :
    OInv { st with fifo := f, wk := wk', parked := st.parked.filter (fun e => e.2.1 != k),
                   slots := st.slots.set k none } := by
  refine ⟨fun e he => ?_, fun e he => hi.fresh e (List.mem_filter.mp he).1,
    fun a ha b hb => hi.inj a (List.mem_filter.mp ha).1 b (List.mem_filter.mp hb).1⟩
  obtain ⟨hep, hek⟩ := List.mem_filter.mp he
  have hek' : e.2.1 ≠ k := by simpa using hek
  have hng : ¬ e.1 ∈ (st.parked.filter fun e => e.2.1 == k).map (·.1) := by
    intro hm
    obtain ⟨e', he', hid⟩ := List.mem_map.mp hm
    obtain ⟨he'p, he'k⟩ := List.mem_filter.mp he'
    have := hi.inj e' he'p e hep hid
    subst this
    exact hek' (by simpa using he'k)
  have h0 : EntryOK st.slots st.fifo (dropParked st k) e := by
    refine (hi.ok e hep).congr (fun h => ?_) (fun h => ?_) (fun h => ?_) <;>
      (simp only [dropParked, List.mem_filter]; exact ⟨h, by simpa using hng⟩)
  refine (h0.trans t).slots fun o ho => ⟨o, ?_, rfl, rfl⟩
  show (st.slots.set k none).getD e.2.1 none = some o
  rw [getD_set_ne _ hek']
  exact ho

theorem mem_insertId_self (l : List Nat) (i : Nat) : i ∈ insertId l i := mem_insertId.mpr (Or.inr rfl)
theorem mem_insertId_of_mem {l : List Nat} {i j : Nat} (h : j ∈ l) : j ∈ insertId l i := mem_insertId.mpr (Or.inl h)

/-- a `select` that is not ready, seen from its entry: every set it is in is really not ready and after the
    registration its waker is in the matching set -/
theorem select_pending {o : Ofd} {f : Fifo Byte} {w w' : Wakers} {r wr : Bool} {id : Nat}
    (h : wfSelect cfg o f w r wr id = (none, w')) :
    w'.fired = w.fired ∧ (∀ j, j ∈ w.pendR → j ∈ w'.pendR) ∧ (∀ j, j ∈ w.pendW → j ∈ w'.pendW) ∧
    (r = true → o.readable = true ∧ f.readyR = false ∧ id ∈ w'.pendR) ∧
    (wr = true → o.writable = true ∧ f.readyW cfg = false ∧ id ∈ w'.pendW) := by
  unfold wfSelect at h
  simp only at h
  split at h
  · simp at h
  · rename_i hnr
    simp only [Prod.mk.injEq, true_and] at h
    subst h
    simp only [Bool.or_eq_true, not_or, Bool.not_eq_true, Bool.and_eq_false_iff] at hnr
    refine ⟨rfl, fun j hj => ?_, fun j hj => ?_, fun hr => ?_, fun hw => ?_⟩
    · simp only; split
      · exact mem_insertId_of_mem hj
      · exact hj
    · simp only; split
      · exact mem_insertId_of_mem hj
      · exact hj
    · subst hr
      have := hnr.1
      simp only [Bool.true_eq_false, false_or, Bool.or_eq_false_iff, Bool.not_eq_false'] at this
      exact ⟨this.1, this.2, by simp [mem_insertId_self]⟩
    · subst hw
      have := hnr.2
      simp only [Bool.true_eq_false, false_or, Bool.or_eq_false_iff, Bool.not_eq_false'] at this
      exact ⟨this.1, this.2, by simp [mem_insertId_self]⟩

/-- ★ every operation of the machine preserves the invariant -/
theorem opStep_inv (st : OpState) (i : Nat) (op : Op) (hi : OInv st) : OInv (opStep st i op).2.1 := by
  cases op with
  | openFd r w =>
    simp only [opStep]
    split
    · exact hi
    · rename_i f hf
      have hf' : f = st.fifo.openFd r w := by
        unfold Fifo.openNonblock at hf
        split at hf
        · simp at hf
        · simpa using hf.symm
      subst hf'
      refine ⟨fun e he => ?_, hi.fresh, hi.inj⟩
      exact ((hi.ok e he).trans (openFd_trans cfg st.fifo st.wk r w)).slots
        fun o ho => ⟨o, getD_append_some _ ho, rfl, rfl⟩
  | setNb k b =>
    simp only [opStep]
    split
    · exact hi
    · rename_i o ho
      refine ⟨fun e he => ?_, hi.fresh, hi.inj⟩
      refine (hi.ok e he).slots fun o' ho' => ?_
      by_cases hk : e.2.1 = k
      · rw [hk] at ho' ⊢
        have : o' = o := by
          have := ho'.symm.trans ho
          simpa using this
        subst this
        exact ⟨_, getD_set_same _ ho', rfl, rfl⟩
      · exact ⟨o', by rw [getD_set_ne _ hk]; exact ho', rfl, rfl⟩
  | selBad => exact hi
  | sel => exact hi
  | write k n =>
    simp only [opStep]
    split
    · exact hi
    · rename_i o ho
      have t := sysWriteW_trans cfg o st.fifo st.wk (opData i n)
      generalize o.sysWriteW cfg st.fifo st.wk (opData i n) = r at t
      obtain ⟨res, f, wk'⟩ := r
      exact hi.of_trans t _ _
  | dwrite k n =>
    simp only [opStep]
    split
    · exact hi
    · rename_i o ho
      have t := pollWriteW_trans cfg o st.fifo st.wk (opData i n)
      generalize o.pollWriteW cfg st.fifo st.wk (opData i n) = r at t
      obtain ⟨res, f, wk'⟩ := r
      exact hi.of_trans t _ _
  | read k n =>
    simp only [opStep]
    split
    · exact hi
    · rename_i o ho
      have t := sysReadW_trans cfg o st.fifo st.wk n
      generalize o.sysReadW st.fifo st.wk n = r at t
      obtain ⟨res, bs, f, wk'⟩ := r
      exact hi.of_trans t _ _
  | dread k n =>
    simp only [opStep]
    split
    · exact hi
    · rename_i o ho
      have t := sysReadW_trans cfg o st.fifo st.wk n
      generalize o.sysReadW st.fifo st.wk n = r at t
      obtain ⟨res, bs, f, wk'⟩ := r
      exact hi.of_trans t _ _
  | close k =>
    simp only [opStep]
    split
    · exact hi
    · rename_i o ho
      have t := wfClose_trans cfg st.fifo (dropParked st k) o.readable o.writable
      simp only [dropParked] at t
      generalize wfClose st.fifo _ o.readable o.writable = r at t
      obtain ⟨f, wk'⟩ := r
      exact close_inv st k hi f wk' t
  | park k r w =>
    simp only [opStep]
    split
    · exact hi
    · rename_i o ho
      split
      · exact hi
      · rename_i wk' hsel
        obtain ⟨hf, hpr, hpw, hr, hw⟩ := select_pending hsel
        refine ⟨fun e he => ?_, fun e he => ?_, fun a ha b hb hab => ?_⟩
        · rcases List.mem_append.mp he with he | he
          · exact (hi.ok e he).congr (fun h => by rw [hf]; exact h) (hpr _) (hpw _)
          · have : e = (st.nextId, k, r, w) := by simpa using he
            subst this
            exact Or.inr ⟨o, ho, hr, hw⟩
        · rcases List.mem_append.mp he with he | he
          · exact Nat.lt_succ_of_lt (hi.fresh e he)
          · have : e = (st.nextId, k, r, w) := by simpa using he
            subst this
            exact Nat.lt_succ_self _
        · rcases List.mem_append.mp ha with ha | ha <;> rcases List.mem_append.mp hb with hb | hb
          · exact hi.inj a ha b hb hab
          · have : b = (st.nextId, k, r, w) := by simpa using hb
            subst this
            have := hi.fresh a ha
            simp only at hab
            omega
          · have : a = (st.nextId, k, r, w) := by simpa using ha
            subst this
            have := hi.fresh b hb
            simp only at hab
            omega
          · have h1 : a = (st.nextId, k, r, w) := by simpa using ha
            have h2 : b = (st.nextId, k, r, w) := by simpa using hb
            rw [h1, h2]
  | poll j =>
    simp only [opStep]
    split
    · exact hi
    · rename_i j' k r w hfind
      have hmem := List.mem_of_find?_eq_some hfind
      have hj' : j' = j := by simpa using List.find?_some hfind
      subst hj'
      split
      · exact hi
      · rename_i o ho
        split
        · -- completed: the entry is dropped, registrations left behind are dead
          refine ⟨fun e he => ?_, fun e he => hi.fresh e (List.mem_filter.mp he).1,
            fun a ha b hb => hi.inj a (List.mem_filter.mp ha).1 b (List.mem_filter.mp hb).1⟩
          obtain ⟨hep, hne⟩ := List.mem_filter.mp he
          have hne' : e.1 ≠ j' := by simpa using hne
          refine (hi.ok e hep).congr (fun h => ?_) (fun h => ?_) (fun h => ?_) <;>
            (simp only [List.mem_filter]; exact ⟨h, by simpa using hne'⟩)
        · rename_i wk' hsel
          obtain ⟨hf, hpr, hpw, hr, hw⟩ := select_pending hsel
          refine ⟨fun e he => ?_, hi.fresh, hi.inj⟩
          by_cases hej : e.1 = j'
          · have := hi.inj e he _ hmem hej
            subst this
            exact Or.inr ⟨o, ho, hr, hw⟩
          · refine (hi.ok e he).congr (fun h => ?_) (hpr _) (hpw _)
            rw [hf]
            simp only [List.mem_filter]
            exact ⟨h, by simpa using hej⟩

theorem opsFrom_inv (ops : List Op) (st : OpState) (i : Nat) (hi : OInv st) : OInv (opsFrom st i ops) := by
  induction ops generalizing st i with
  | nil => exact hi
  | cons op rest ih => exact ih _ _ (opStep_inv st i op hi)

end YashModel.Pipe
