/-
  C14 — lemmas about the chain with head-like stages (HChain.lean): conservation in prefix form as "`push` is
  constant", under the light invariant that a stage about to read holds nothing.
-/
import YashModel.Pipe.HChain
import YashModel.Pipe.ChainLemmas
set_option linter.unusedSimpArgs false
namespace YashModel.Pipe

variable {α : Type}

inductive HReach (c : Cfg) (st : List ((α → List α) × Nat × List α)) (x : List α) : HChain α → Prop
  | init : HReach c st x (HChain.init st x)
  | step {s s' : HChain α} (i n k : Nat) :
      HReach c st x s → s.step c i n k = some s' → HReach c st x s'

theorem HChain.mapInp_inp (s : HChain α) (f : Fifo α → Fifo α) : (s.mapInp f).inp = f s.inp := by
  cases s <;> rfl

theorem HChain.mapInp_push (s : HChain α) (f : Fifo α → Fifo α) (w y : List α)
    (h : (f s.inp).content = s.inp.content ++ w) : (s.mapInp f).push y = s.push (w ++ y) := by
  cases s with
  | sink inp r pc =>
    simp only [HChain.inp] at h
    simp [HChain.mapInp, HChain.push, h]
  | fwd g m inp hold pc rest =>
    simp only [HChain.inp] at h
    simp [HChain.mapInp, HChain.push, h]

theorem HChain.mapInp_push_same (s : HChain α) (f : Fifo α → Fifo α) (y : List α)
    (h : (f s.inp).content = s.inp.content) : (s.mapInp f).push y = s.push y := by
  have := HChain.mapInp_push s f [] y (by simpa using h)
  simpa using this

/-- a stage that is about to read holds nothing (its buffer is overwritten by the next `read`) -/
def HChain.HoldOK : HChain α → Prop
  | .sink _ _ _ => True
  | .fwd _ _ _ hold pc rest => (pc = .rd ∨ pc = .rwait → hold = []) ∧ rest.HoldOK

theorem HChain.HoldOK.mapInp {s : HChain α} (h : s.HoldOK) (f : Fifo α → Fifo α) : (s.mapInp f).HoldOK := by
  cases s with
  | sink inp r pc => trivial
  | fwd g m inp hold pc rest => exact h

theorem read_data' {p p' : Fifo α} {n : Nat} {bs : List α} (h : p.read n = (.data bs, p')) :
    bs = p.content.take n ∧ p'.content = p.content.drop n := by
  unfold Fifo.read at h
  split at h
  · rename_i hn
    simp only [Prod.mk.injEq, RRes.data.injEq] at h
    subst hn
    simp [← h.1, ← h.2]
  · split at h
    · simp at h
    · simp only [Prod.mk.injEq, RRes.data.injEq] at h
      simp [← h.1, ← h.2]

theorem hsinkStep_push {inp : Fifo α} {r : List α} {pc : RPc} {n : Nat} {s' : HChain α}
    (h : hsinkStep inp r pc n = some s') : ∀ y, s'.push y = r ++ inp.content ++ y := by
  intro y
  unfold hsinkStep at h
  split at h
  · split at h
    next p hrd => simp only [Option.some.injEq] at h; subst h; rfl
    next bs p hrd =>
      have ⟨hbs, hp⟩ := read_data' hrd
      split at h
      next he =>
        have hbs0 : bs = [] := by simpa using he
        simp only [Option.some.injEq] at h
        subst h
        have : inp.content.drop n = inp.content := by
          have h2 := List.take_append_drop n inp.content
          rw [← hbs, hbs0] at h2
          simpa using h2
        simp [HChain.push, Fifo.closeFd, hp, this]
      next he =>
        simp only [Option.some.injEq] at h
        subst h
        simp only [HChain.push, hp, hbs, List.append_assoc]
        rw [← List.append_assoc (List.take n inp.content), List.take_append_drop]
  · split at h
    · simp only [Option.some.injEq] at h; subst h; rfl
    · simp at h
  · simp at h

theorem take_split (c y : List α) (n m : Nat) (h : n ≤ m) :
    (c ++ y).take m = c.take n ++ (c.drop n ++ y).take (m - (c.take n).length) := by
  conv => lhs; rw [← List.take_append_drop n c, List.append_assoc]
  rw [List.take_append]
  have : (c.take n).take m = c.take n := by
    rw [List.take_take]
    congr 1
    omega
  rw [this]

theorem hfwdStep_push {c : Cfg} {g : α → List α} {m : Nat} {inp : Fifo α} {hold : List α} {pc : FPc}
    {rest : HChain α} {n k : Nat} {s' : HChain α} (hi : (HChain.fwd g m inp hold pc rest).HoldOK)
    (h : hfwdStep c g m inp hold pc rest n k = some s') :
    s'.HoldOK ∧ ∀ y, s'.push y = rest.push (hold ++ ((inp.content ++ y).take m).flatMap g) := by
  obtain ⟨h5, h6⟩ := hi
  unfold hfwdStep at h
  split at h
  next =>
    have hh : hold = [] := h5 (Or.inl rfl)
    split at h
    next hm0 =>
      simp only [Option.some.injEq] at h
      subst h
      refine ⟨⟨by simp, h6.mapInp _⟩, fun y => ?_⟩
      simp only [HChain.push, Fifo.closeFd]
      exact HChain.mapInp_push_same rest _ _ (by simp [Fifo.closeFd])
    next hm0 =>
      split at h
      next p hrd =>
        simp only [Option.some.injEq] at h
        subst h
        exact ⟨⟨fun _ => hh, h6⟩, fun y => rfl⟩
      next bs p hrd =>
        have ⟨hbs, hp⟩ := read_data' hrd
        split at h
        next he =>
          have hbs0 : bs = [] := by simpa using he
          simp only [Option.some.injEq] at h
          subst h
          have hd : inp.content.drop (min n m) = inp.content := by
            have h2 := List.take_append_drop (min n m) inp.content
            rw [← hbs, hbs0] at h2
            simpa using h2
          refine ⟨⟨by simp, h6.mapInp _⟩, fun y => ?_⟩
          simp only [HChain.push, Fifo.closeFd, hp, hd]
          exact HChain.mapInp_push_same rest _ _ (by simp [Fifo.closeFd])
        next he =>
          simp only [Option.some.injEq] at h
          subst h
          refine ⟨⟨by simp, h6⟩, fun y => ?_⟩
          simp only [HChain.push, hh, List.nil_append, hp, hbs]
          rw [take_split inp.content y (min n m) m (Nat.min_le_right _ _), List.flatMap_append]
  next =>
    split at h
    · simp only [Option.some.injEq] at h
      subst h
      exact ⟨⟨fun _ => h5 (Or.inr rfl), h6⟩, fun y => rfl⟩
    · simp at h
  next =>
    split at h
    next he =>
      have hh : hold = [] := by simpa using he
      simp only [Option.some.injEq] at h
      subst h
      exact ⟨⟨fun _ => hh, h6⟩, fun y => rfl⟩
    next he =>
      split at h
      next p hwr =>
        simp only [Option.some.injEq] at h
        subst h
        refine ⟨⟨by simp, h6.mapInp _⟩, fun y => ?_⟩
        simp only [HChain.push, Fifo.closeFd]
        exact HChain.mapInp_push_same rest _ _ (by simp [Fifo.closeFd])
      next p hwr =>
        simp only [Option.some.injEq] at h
        subst h
        exact ⟨⟨by simp, h6⟩, fun y => rfl⟩
      next w p hwr =>
        have ⟨hr, hp, hw, hroom, _, _⟩ := write_wrote hwr
        have hpush : ∀ z, (rest.mapInp fun _ => p).push (hold.drop w ++ z) = rest.push (hold ++ z) := by
          intro z
          rw [HChain.mapInp_push rest _ ((hold.take k).take w) _ (by simp [hp])]
          rw [← List.append_assoc, take_take_drop hold k w hw]
        split at h
        next hw0 =>
          subst hw0
          simp only [Option.some.injEq] at h
          subst h
          refine ⟨⟨by simp, h6.mapInp _⟩, fun y => ?_⟩
          simp only [HChain.push]
          have := hpush (((inp.content ++ y).take m).flatMap g)
          simpa using this
        next hw0 =>
          simp only [Option.some.injEq] at h
          subst h
          refine ⟨⟨by simp, h6.mapInp _⟩, fun y => ?_⟩
          simp only [HChain.push]
          exact hpush _
  next =>
    split at h
    · simp only [Option.some.injEq] at h
      subst h
      exact ⟨⟨by simp, h6⟩, fun y => rfl⟩
    · simp at h
  next => simp at h
  next => simp at h

theorem HChain.step_push {c : Cfg} {s s' : HChain α} {i n k : Nat} (hi : s.HoldOK)
    (h : s.step c i n k = some s') : s'.HoldOK ∧ ∀ y, s'.push y = s.push y := by
  induction s generalizing i s' with
  | sink inp r pc =>
    cases i with
    | zero =>
      simp only [HChain.step] at h
      refine ⟨?_, fun y => by rw [hsinkStep_push h y]; rfl⟩
      cases s' <;> first | trivial | (exfalso; unfold hsinkStep at h; split at h <;> (try split at h) <;> (try split at h) <;> simp_all)
    | succ j => simp [HChain.step] at h
  | fwd g m inp hold pc rest ih =>
    cases i with
    | zero =>
      simp only [HChain.step] at h
      have ⟨a, d⟩ := hfwdStep_push hi h
      exact ⟨a, fun y => by rw [d y]; rfl⟩
    | succ j =>
      simp only [HChain.step, Option.map_eq_some_iff] at h
      obtain ⟨r', hr', rfl⟩ := h
      have ⟨a, d⟩ := ih hi.2 hr'
      exact ⟨⟨hi.1, a⟩, fun y => by simp only [HChain.push]; exact d _⟩

theorem HChain.stages_holdOK (st : List ((α → List α) × Nat × List α)) : (HChain.stages st).HoldOK := by
  induction st with
  | nil => trivial
  | cons a t ih => obtain ⟨g, m, pre⟩ := a; exact ⟨by simp, ih⟩

theorem HChain.stages_push (st : List ((α → List α) × Nat × List α)) (y : List α) :
    (HChain.stages st).push y = stagesFunH st y := by
  induction st generalizing y with
  | nil => simp [HChain.stages, HChain.push, stagesFunH]
  | cons a t ih =>
    obtain ⟨g, m, pre⟩ := a
    simp [HChain.stages, HChain.push, stagesFunH, ih]

theorem HReach.inv {c : Cfg} {st : List ((α → List α) × Nat × List α)} {x : List α} {s : HChain α}
    (hr : HReach c st x s) : s.HoldOK ∧ s.push [] = stagesFunH st x := by
  induction hr with
  | init =>
    refine ⟨⟨by simp, HChain.stages_holdOK st⟩, ?_⟩
    simp [HChain.init, HChain.push, HChain.stages_push]
  | step i n k _ hs ih =>
    have ⟨a, d⟩ := HChain.step_push ih.1 hs
    exact ⟨a, by rw [d [], ih.2]⟩

mutual
/-- nothing that enters the first input pipe can reach the sink any more: some stage downstream has used up its
    allowance and holds nothing, and below it everything is drained -/
def HChain.absorbing : HChain α → Bool
  | .sink _ _ _ => false
  | .fwd _ m _ hold _ rest => rest.absorbing || (hold.isEmpty && m == 0 && rest.settled)
/-- nothing in flight can reach the sink: pushing nothing gives what the sink holds -/
def HChain.settled : HChain α → Bool
  | .sink inp _ _ => inp.content.isEmpty
  | .fwd _ m inp hold _ rest =>
      rest.absorbing || (hold.isEmpty && (m == 0 || inp.content.isEmpty) && rest.settled)
end

theorem HChain.settled_push (s : HChain α) :
    (s.absorbing = true → ∀ y, s.push y = s.received) ∧ (s.settled = true → s.push [] = s.received) := by
  induction s with
  | sink inp r pc =>
    refine ⟨by simp [HChain.absorbing], fun h => ?_⟩
    have : inp.content = [] := by simpa [HChain.settled] using h
    simp [HChain.push, HChain.received, this]
  | fwd g m inp hold pc rest ih =>
    obtain ⟨ia, is⟩ := ih
    refine ⟨fun h y => ?_, fun h => ?_⟩
    · simp only [HChain.absorbing, Bool.or_eq_true, Bool.and_eq_true, beq_iff_eq, List.isEmpty_iff] at h
      rcases h with h | ⟨⟨hh, hm⟩, hs⟩
      · simp only [HChain.push, HChain.received]; exact ia h _
      · subst hm
        simp only [HChain.push, HChain.received, hh, List.take_zero, List.flatMap_nil, List.append_nil]
        exact is hs
    · simp only [HChain.settled, Bool.or_eq_true, Bool.and_eq_true, beq_iff_eq, List.isEmpty_iff] at h
      rcases h with h | ⟨⟨hh, hm⟩, hs⟩
      · simp only [HChain.push, HChain.received]; exact ia h _
      · have : inp.content.take m = [] := by
          rcases hm with hm | hm
          · subst hm; simp
          · simp [hm]
        simp only [HChain.push, HChain.received, hh, List.append_nil, this, List.flatMap_nil]
        exact is hs

/-! ### no deadlock with head-like stages -/

/-- descriptor counts follow the control states (a stage that has exited — normally, after its allowance, or after
    EPIPE — holds neither end) -/
def HChain.Cnt : HChain α → Prop
  | .sink inp _ pc => inp.readers = (if pc = .done then 0 else 1)
  | .fwd _ _ inp _ pc rest =>
      inp.readers = (if pc = .closed ∨ pc = .failed then 0 else 1) ∧
      rest.inp.writers = (if pc = .closed ∨ pc = .failed then 0 else 1) ∧ rest.Cnt

theorem HChain.Cnt.head {s : HChain α} (h : s.Cnt) : s.inp.readers = (if s.headDone = true then 0 else 1) := by
  cases s with
  | sink inp r pc => simpa [HChain.Cnt, HChain.inp, HChain.headDone] using h
  | fwd g m inp hold pc rest => simpa [HChain.Cnt, HChain.inp, HChain.headDone] using h.1

theorem HChain.Cnt.mapInp {s : HChain α} (h : s.Cnt) (f : Fifo α → Fifo α)
    (hr : (f s.inp).readers = s.inp.readers) : (s.mapInp f).Cnt := by
  cases s with
  | sink inp r pc =>
    simp only [HChain.Cnt, HChain.mapInp, HChain.inp] at *
    rw [hr]; exact h
  | fwd g m inp hold pc rest =>
    simp only [HChain.Cnt, HChain.mapInp, HChain.inp] at *
    exact ⟨by rw [hr]; exact h.1, h.2⟩

theorem read_counts {p p' : Fifo α} {n : Nat} {r : RRes α} (h : p.read n = (r, p')) :
    p'.readers = p.readers ∧ p'.writers = p.writers := by
  unfold Fifo.read at h
  split at h
  · simp only [Prod.mk.injEq] at h; rw [← h.2]; exact ⟨rfl, rfl⟩
  · split at h <;> (simp only [Prod.mk.injEq] at h; rw [← h.2]; exact ⟨rfl, rfl⟩)

theorem HChain.inp_sink (inp : Fifo α) (r : List α) (pc : RPc) : (HChain.sink inp r pc).inp = inp := rfl
theorem HChain.inp_fwd (g : α → List α) (m : Nat) (inp : Fifo α) (h : List α) (pc : FPc) (rest : HChain α) :
    (HChain.fwd g m inp h pc rest).inp = inp := rfl

theorem HChain.step_cnt {c : Cfg} {s s' : HChain α} {i n k : Nat} (hi : s.Cnt)
    (h : s.step c i n k = some s') : s'.Cnt ∧ s'.inp.writers = s.inp.writers := by
  induction s generalizing i s' with
  | sink inp r pc =>
    cases i with
    | zero =>
      simp only [HChain.step] at h
      simp only [HChain.Cnt] at hi
      unfold hsinkStep at h
      split at h
      · split at h
        next p hrd => simp only [Option.some.injEq] at h; subst h; simp_all [HChain.Cnt, HChain.inp_sink, HChain.inp_fwd]
        next bs p hrd =>
          have ⟨a, b⟩ := read_counts hrd
          split at h <;> (simp only [Option.some.injEq] at h; subst h; simp_all [HChain.Cnt, HChain.inp_sink, HChain.inp_fwd, Fifo.closeFd])
      · split at h
        · simp only [Option.some.injEq] at h; subst h; simp_all [HChain.Cnt, HChain.inp_sink, HChain.inp_fwd]
        · simp at h
      · simp at h
    | succ j => simp [HChain.step] at h
  | fwd g m inp hold pc rest ih =>
    simp only [HChain.Cnt] at hi
    obtain ⟨h1, h2, h3⟩ := hi
    cases i with
    | zero =>
      simp only [HChain.step] at h
      have hclose : (rest.mapInp (·.closeFd false true)).Cnt := h3.mapInp _ (by simp [Fifo.closeFd])
      unfold hfwdStep at h
      split at h
      · split at h
        · simp only [Option.some.injEq] at h; subst h
          simp_all [HChain.Cnt, HChain.inp_sink, HChain.inp_fwd, HChain.mapInp_inp, Fifo.closeFd]
        · split at h
          next p hrd => simp only [Option.some.injEq] at h; subst h; simp_all [HChain.Cnt, HChain.inp_sink, HChain.inp_fwd]
          next bs p hrd =>
            have ⟨a, b⟩ := read_counts hrd
            split at h <;> (simp only [Option.some.injEq] at h; subst h;
                            simp_all [HChain.Cnt, HChain.inp_sink, HChain.inp_fwd, HChain.mapInp_inp, Fifo.closeFd])
      · split at h
        · simp only [Option.some.injEq] at h; subst h; simp_all [HChain.Cnt, HChain.inp_sink, HChain.inp_fwd]
        · simp at h
      · split at h
        · simp only [Option.some.injEq] at h; subst h; simp_all [HChain.Cnt, HChain.inp_sink, HChain.inp_fwd]
        · split at h
          next p hwr =>
            simp only [Option.some.injEq] at h; subst h
            simp_all [HChain.Cnt, HChain.inp_sink, HChain.inp_fwd, HChain.mapInp_inp, Fifo.closeFd]
          next p hwr => simp only [Option.some.injEq] at h; subst h; simp_all [HChain.Cnt, HChain.inp_sink, HChain.inp_fwd]
          next w p hwr =>
            have ⟨_, hp, _, _, _, _⟩ := write_wrote hwr
            have hm : (rest.mapInp fun _ => p).Cnt := h3.mapInp _ (by simp [hp])
            split at h <;> (simp only [Option.some.injEq] at h; subst h;
                            simp_all [HChain.Cnt, HChain.inp_sink, HChain.inp_fwd, HChain.mapInp_inp])
      · split at h
        · simp only [Option.some.injEq] at h; subst h; simp_all [HChain.Cnt, HChain.inp_sink, HChain.inp_fwd]
        · simp at h
      · simp at h
      · simp at h
    | succ j =>
      simp only [HChain.step, Option.map_eq_some_iff] at h
      obtain ⟨r', hr', rfl⟩ := h
      have ⟨a, b⟩ := ih h3 hr'
      exact ⟨⟨h1, by rw [b]; exact h2, a⟩, rfl⟩

theorem HChain.allDone_headDone {s : HChain α} (h : s.allDone = true) : s.headDone = true := by
  cases s with
  | sink inp r pc => simpa [HChain.allDone, HChain.headDone] using h
  | fwd g m inp hold pc rest =>
    simp only [HChain.allDone, Bool.and_eq_true] at h
    simpa [HChain.headDone] using h.1

theorem HChain.progress (c : Cfg) (hv : c.Valid) (s : HChain α) (hi : s.Cnt) :
    s.allDone = true ∨ (∃ i, i < s.procs ∧ ∀ n k, (s.step c i n k).isSome = true) ∨
      (s.inp.content = [] ∧ 0 < s.inp.writers ∧ s.headDone = false) := by
  induction s with
  | sink inp r pc =>
    cases pc with
    | run =>
      refine Or.inr (Or.inl ⟨0, by simp [HChain.procs], fun n k => ?_⟩)
      simp only [HChain.step, hsinkStep]
      split
      · rfl
      · split <;> rfl
    | wait =>
      by_cases hr : inp.readyR = true
      · refine Or.inr (Or.inl ⟨0, by simp [HChain.procs], fun n k => ?_⟩)
        simp [HChain.step, hsinkStep, hr]
      · refine Or.inr (Or.inr ?_)
        simp only [Fifo.readyR, Bool.or_eq_true, beq_iff_eq, Bool.not_eq_true', List.isEmpty_eq_false_iff,
          not_or] at hr
        refine ⟨by simpa [HChain.inp] using hr.2, by simp only [HChain.inp]; omega, by simp [HChain.headDone]⟩
    | done => exact Or.inl (by simp [HChain.allDone])
  | fwd g m inp hold pc rest ih =>
    simp only [HChain.Cnt] at hi
    obtain ⟨h1, h2, h3⟩ := hi
    have hstep0 : pc = .rd ∨ pc = .wr → ∀ n k, (HChain.step c (.fwd g m inp hold pc rest) 0 n k).isSome = true := by
      intro hp n k
      rcases hp with hp | hp <;> subst hp <;> simp only [HChain.step, hfwdStep]
      · split
        · rfl
        · split
          · rfl
          · split <;> rfl
      · split
        · rfl
        · split
          · rfl
          · rfl
          · split <;> rfl
    have hwait : pc = .wwait → rest.inp.readyW c = true →
        ∀ n k, (HChain.step c (.fwd g m inp hold pc rest) 0 n k).isSome = true := by
      intro hp hr n k
      subst hp
      simp [HChain.step, hfwdStep, hr]
    have hrwait : pc = .rwait → (∃ i, i < (HChain.fwd g m inp hold pc rest).procs ∧
          ∀ n k, (HChain.step c (.fwd g m inp hold pc rest) i n k).isSome = true) ∨
        (inp.content = [] ∧ 0 < inp.writers) := by
      intro hp
      subst hp
      by_cases hr : inp.readyR = true
      · exact Or.inl ⟨0, by simp [HChain.procs], fun n k => by simp [HChain.step, hfwdStep, hr]⟩
      · simp only [Fifo.readyR, Bool.or_eq_true, beq_iff_eq, Bool.not_eq_true', List.isEmpty_eq_false_iff,
          not_or] at hr
        exact Or.inr ⟨by simpa using hr.2, by omega⟩
    rcases ih h3 with hd | ⟨i, hil, hs⟩ | ⟨he, hw, hl⟩
    · -- everything downstream has exited: the pipe to it has no reader
      have hr0 : rest.inp.readers = 0 := by
        have := h3.head
        rw [HChain.allDone_headDone hd] at this
        simpa using this
      cases pc with
      | rd => exact Or.inr (Or.inl ⟨0, by simp [HChain.procs], hstep0 (Or.inl rfl)⟩)
      | wr => exact Or.inr (Or.inl ⟨0, by simp [HChain.procs], hstep0 (Or.inr rfl)⟩)
      | wwait =>
        refine Or.inr (Or.inl ⟨0, by simp [HChain.procs], hwait rfl ?_⟩)
        simp [Fifo.readyW, hr0]
      | rwait =>
        rcases hrwait rfl with h | ⟨a, b⟩
        · exact Or.inr (Or.inl h)
        · exact Or.inr (Or.inr ⟨a, b, by simp [HChain.headDone]⟩)
      | closed => exact Or.inl (by simp [HChain.allDone, hd])
      | failed => exact Or.inl (by simp [HChain.allDone, hd])
    · refine Or.inr (Or.inl ⟨i + 1, by simp [HChain.procs, hil], fun n k => ?_⟩)
      simp only [HChain.step, Option.isSome_map]
      exact hs n k
    · cases pc with
      | rd => exact Or.inr (Or.inl ⟨0, by simp [HChain.procs], hstep0 (Or.inl rfl)⟩)
      | wr => exact Or.inr (Or.inl ⟨0, by simp [HChain.procs], hstep0 (Or.inr rfl)⟩)
      | wwait =>
        refine Or.inr (Or.inl ⟨0, by simp [HChain.procs], hwait rfl ?_⟩)
        simp only [Fifo.readyW, Fifo.room, he, List.length_nil, Nat.sub_zero, Bool.or_eq_true, beq_iff_eq,
          decide_eq_true_eq]
        exact Or.inr hv.2
      | rwait =>
        rcases hrwait rfl with h | ⟨a, b⟩
        · exact Or.inr (Or.inl h)
        · exact Or.inr (Or.inr ⟨a, b, by simp [HChain.headDone]⟩)
      | closed => simp at h2; omega
      | failed => simp at h2; omega

theorem HChain.stages_inp (st : List ((α → List α) × Nat × List α)) :
    (HChain.stages st).inp = { content := [], readers := 1, writers := 1 } := by
  cases st with
  | nil => rfl
  | cons a t => obtain ⟨g, m, pre⟩ := a; rfl

theorem HChain.stages_cnt (st : List ((α → List α) × Nat × List α)) : (HChain.stages st).Cnt := by
  induction st with
  | nil => simp [HChain.stages, HChain.Cnt]
  | cons a t ih =>
    obtain ⟨g, m, pre⟩ := a
    exact ⟨by simp, by simp [HChain.stages_inp], ih⟩

theorem HReach.cnt {c : Cfg} {st : List ((α → List α) × Nat × List α)} {x : List α} {s : HChain α}
    (hr : HReach c st x s) : s.Cnt ∧ s.inp.writers = 0 := by
  induction hr with
  | init => exact ⟨⟨by simp, by simp [HChain.stages_inp], HChain.stages_cnt st⟩, rfl⟩
  | step i n k _ hs ih =>
    have ⟨a, b⟩ := HChain.step_cnt ih.1 hs
    exact ⟨a, by rw [b, ih.2]⟩

/-! ### the driver's executor takes steps of the system -/

theorem hchainScan_step {c : Cfg} {s s' : HChain α} {n k j : Nat}
    (h : hchainScan c s n k j = some s') : ∃ i, s.step c i n k = some s' := by
  induction j with
  | zero => simp [hchainScan] at h
  | succ j ih =>
    unfold hchainScan at h
    split at h
    next s1 hs =>
      simp only [Option.some.injEq] at h
      subst h
      exact ⟨_, hs⟩
    next => exact ih h

theorem hchainRun_reach {c : Cfg} {st : List ((α → List α) × Nat × List α)} {x : List α} (n k : Nat)
    (fuel y : Nat) (s : HChain α) (hr : HReach c st x s) : HReach c st x (hchainRun c n k fuel y s) := by
  induction fuel generalizing y s with
  | zero => exact hr
  | succ fuel ih =>
    unfold hchainRun
    simp only
    split
    next s' hs =>
      split at hs
      next s1 h1 =>
        simp only [Option.some.injEq] at hs
        subst hs
        exact ih _ _ (HReach.step _ n k hr h1)
      next =>
        obtain ⟨j, hj⟩ := hchainScan_step hs
        exact ih _ _ (HReach.step j n k hr hj)
    next => exact hr

end YashModel.Pipe
