/-
  C14 — the functions the model driver actually runs for transfers and shell-level flows (moved here
  from Main.lean so that theorems can be stated about them): the seeded scheduler that drives
  writer ∥ reader (`runSchedStop`, `transfer`), the decoding + trimming of command substitution
  (`lossyFF`, `substValue`), the Impl model of a flow shape (`flowModel`: every pipe is a scheduled run)
  and its Spec (`flowSpec`: pipes are the identity, `$( )` trims).  Import-free, executable.
-/
import YashModel.Pipe.Model
import YashModel.Pipe.Spec
namespace YashModel.Pipe

variable {α : Type}

def lcg (x : Nat) : Nat := (x * 1103515245 + 12345) % 2147483648

/-- request size of the writer: the rest of the current piece (`wk = 0`: the whole rest) -/
def wReq (total wk : Nat) (s : Sys α) : Nat :=
  if wk = 0 then s.unsent.length + 1 else wk - ((total - s.unsent.length) % wk)

/-- the reader's move: with `stop = some K` it asks for at most what is missing to K and closes at K -/
def stepReader (c : Cfg) (rk : Nat) (stop : Option Nat) (s : Sys α) : Option (Sys α) :=
  let buf := if rk = 0 then 1024 else rk
  match stop with
  | none => s.step c (Act.r buf)
  | some k =>
    if s.rpc == .run && decide (k ≤ s.received.length) then s.stepRClose
    else s.step c (Act.r (min buf (k - s.received.length)))

def stepWriter (c : Cfg) (total wk : Nat) (s : Sys α) : Option (Sys α) := s.step c (Act.w (wReq total wk s))

/-- Runs writer ∥ reader: at every step the seeded generator names a process; if that process
    cannot step the other one is tried; stops when neither can (final state, or deadlock). -/
def runSchedStop (c : Cfg) (total wk rk : Nat) (stop : Option Nat) : Nat → Nat → Sys α → Sys α
  | 0, _, s => s
  | fuel + 1, x, s =>
    let x' := lcg x
    if (x' / 65536) % 2 = 0 then
      match stepWriter c total wk s with
      | some s' => runSchedStop c total wk rk stop fuel x' s'
      | none =>
        match stepReader c rk stop s with
        | some s' => runSchedStop c total wk rk stop fuel x' s'
        | none => s
    else
      match stepReader c rk stop s with
      | some s' => runSchedStop c total wk rk stop fuel x' s'
      | none =>
        match stepWriter c total wk s with
        | some s' => runSchedStop c total wk rk stop fuel x' s'
        | none => s

/-- one pipe transfer under the schedule `seed`, the writer asking for pieces of `wk` bytes (0 = all),
    the reader with buffers of `rk` bytes (0 = 1024); `none` if the run did not reach the final state -/
def transfer (c : Cfg) (seed wk rk : Nat) (x : List α) : Option (List α) :=
  let s := runSchedStop c x.length wk rk none (12 * x.length + 200) seed (Sys.init x)
  if s.final then some s.received else none

/-- `String::from_utf8(result).unwrap_or_else(|e| String::from_utf8_lossy(..))` of `expand_common`, for
    byte strings whose only bytes outside UTF-8 are 0xFF (each becomes U+FFFD = EF BF BD; all other
    bytes, NUL included, are kept) — the only kind of invalid output the generator produces -/
def lossyFF (bs : List Nat) : List Nat := bs.flatMap fun b => if b = 255 then [239, 191, 189] else [b]

/-- command substitution on the bytes the child wrote: lossy decoding, then the trailing newlines go -/
def substValue (bs : List Nat) : List Nat := trimEnd 10 (lossyFF bs)

/-- the Impl model of a flow: every pipe is a run of the writer ∥ reader system under its own schedule;
    `c` = `| cat`, `y` = `| ycat` (odd buffer size), `g` = `( … )`, `s` = `echo "$( … )"`,
    `h` = here-document whose body is `$( … )` -/
def flowModel (c : Cfg) (seed : Nat) : List Char → List Nat → Option (List Nat)
  | [], x => some x
  | ch :: rest, x =>
    if ch = 'c' then (transfer c seed 0 0 x).bind fun y => flowModel c (lcg seed) rest y
    else if ch = 'y' then (transfer c seed 0 (1 + seed % 700) x).bind fun y => flowModel c (lcg seed) rest y
    else if ch = 'g' then flowModel c seed rest x
    else if ch = 's' ∨ ch = 'h' then
      (transfer c seed 0 0 x).bind fun y => flowModel c (lcg seed) rest (substValue y ++ [10])
    else none

/-- the Spec of a flow: pipes and groups are the identity, `$( )` decodes and removes the trailing
    newlines, `echo` / the here-document line add one -/
def flowSpec : List Char → List Nat → List Nat
  | [], x => x
  | ch :: rest, x =>
    if ch = 's' ∨ ch = 'h' then flowSpec rest (specSubst 10 (lossyFF (specTransfer x)) ++ [10])
    else flowSpec rest (specTransfer x)

end YashModel.Pipe
