/-
  C14 — Impl model of the *wake-up* half of the transfer: who registers which waker where, who fires it,
  and when the executor polls a process again.  (Up to the extension round this was the "runtime half" of
  the claim: in Model.lean a suspended process is simply enabled when its descriptor is ready.)

  Transcribed from (current /repo):
    yash-env/src/system/concurrency.rs            `yield_once` (task registered in `state.reads/writes`),
                                                  `select_impl` / `wake_tasks_for_ready_fds`
    yash-env/src/system/concurrency/run_virtual.rs `run_virtual`: poll the task; when it is pending poll
                                                  `select`; `while poll!(&mut select).is_pending() { pending!() }`
    yash-env/src/system/virtual/select.rs         `VirtualSystem::select`: ready descriptors → `Ready`;
                                                  otherwise `register_reader_waker` / `register_writer_waker`
                                                  on the open file description and `Pending`; `drop(waker)`
    yash-env/src/system/virtual/file_body.rs      `poll_read` (`pending_write_wakers.wake_all()` on every
                                                  return that is not `Pending`), `poll_write`
                                                  (`pending_read_wakers.wake_all()` after appending), `close`
                                                  (both sets when `readers == 0 || writers == 0`)
    yash-env/src/waker/set.rs                     `WakerSet::{insert, wake_all}` (wake_all drains the set)

  Two layers, both executable and import-free apart from Model.lean:
    * `Wakers` + `wf*`  : the FIFO's two `WakerSet`s with any number of waiting `select` calls (waker ids) —
                          what the operation sequences of the harness drive (`park` / `poll` operations);
    * `WSys`            : writer ∥ reader of Model.lean, each process inside `run_virtual`: a process that
                          found its descriptor not ready in `select` is *parked* and is polled again only
                          after its waker has fired (or spuriously).
-/
import YashModel.Pipe.Model
import YashModel.Pipe.Flow
namespace YashModel.Pipe

variable {α : Type}

/-! ## the FIFO's waker sets (any number of waiting `select` calls) -/

/-- `pending_read_wakers`, `pending_write_wakers` of `FileBody::Fifo` as lists of waker ids, and the
    wakers that have fired since they were last looked at (the executor's wake flags) -/
structure Wakers where
  pendR : List Nat := []
  pendW : List Nat := []
  fired : List Nat := []
  deriving Repr, DecidableEq

def insertId (l : List Nat) (i : Nat) : List Nat := if l.contains i then l else l ++ [i]

/-- `pending_read_wakers.wake_all()` -/
def Wakers.wakeR (w : Wakers) : Wakers :=
  { w with pendR := [], fired := w.pendR.foldl insertId w.fired }

/-- `pending_write_wakers.wake_all()` -/
def Wakers.wakeW (w : Wakers) : Wakers :=
  { w with pendW := [], fired := w.pendW.foldl insertId w.fired }

/-- `FileBody::poll_write` on a FIFO with its waker side effects: a successful write wakes the
    read-waiters; `Pending` registers the caller's waker (`id = none`: `Weak::new()`, what a non-blocking
    descriptor passes — nothing to wake later) -/
def wfWrite (c : Cfg) (p : Fifo α) (w : Wakers) (buf : List α) (id : Option Nat) : WRes × Fifo α × Wakers :=
  match p.write c buf with
  | (.epipe, p') => (.epipe, p', w)
  | (.block, p') => (.block, p', match id with
      | some i => { w with pendW := insertId w.pendW i }
      | none => w)
  | (.wrote n, p') => (.wrote n, p', w.wakeR)

/-- `FileBody::poll_read` on a FIFO with its waker side effects: a zero-length request returns before
    anything; `Pending` registers; every other return wakes the write-waiters -/
def wfRead (p : Fifo α) (w : Wakers) (n : Nat) (id : Option Nat) : RRes α × Fifo α × Wakers :=
  match p.read n with
  | (.block, p') => (.block, p', match id with
      | some i => { w with pendR := insertId w.pendR i }
      | none => w)
  | (.data bs, p') => (.data bs, p', if n = 0 then w else w.wakeW)

/-- `FileBody::close`: both sets are woken when no reader or no writer is left -/
def wfClose (p : Fifo α) (w : Wakers) (r wr : Bool) : Fifo α × Wakers :=
  let p' := p.closeFd r wr
  (p', if p'.readers = 0 ∨ p'.writers = 0 then w.wakeR.wakeW else w)

/-- one poll of `VirtualSystem::select` on one open file description `o` of the FIFO (`wantR`/`wantW`: in
    the reader / writer set).  `OpenFileDescription::is_ready_for_reading` = `!is_readable || body ready`
    (likewise for writing).  `some (r, w)` = `Ready` with these readiness bits; `none` = `Pending` after
    `register_reader_waker` / `register_writer_waker` with the waker `id` -/
def wfSelect (c : Cfg) (o : Ofd) (p : Fifo α) (w : Wakers) (wantR wantW : Bool) (id : Nat) :
    Option (Bool × Bool) × Wakers :=
  let rr := wantR && (!o.readable || p.readyR)
  let rw := wantW && (!o.writable || p.readyW c)
  if rr || rw then (some (rr, rw), w)
  else (none, { w with pendR := if wantR then insertId w.pendR id else w.pendR,
                       pendW := if wantW then insertId w.pendW id else w.pendW })

/-- `OpenFileDescription::poll_write` with the waker side effects (`Ofd.pollWrite` of Model.lean is its
    projection: `pollWriteW_proj`).  The waker a blocking call would register belongs to the system-call
    future, which the harness drops after one poll: a dead `Weak`, nothing to fire later (`id = none`). -/
def Ofd.pollWriteW (c : Cfg) (o : Ofd) (p : Fifo α) (w : Wakers) (buf : List α) : Res × Fifo α × Wakers :=
  if !o.writable then (.err .EBADF, p, w)
  else match wfWrite c p w buf none with
    | (.epipe, p', w') => (.err .EPIPE, p', w')
    | (.block, p', w') => (if o.nonblocking then .err .EAGAIN else .pending, p', w')
    | (.wrote n, p', w') => (.ok n, p', w')

/-- `OpenFileDescription::poll_write_full` with the waker side effects -/
def Ofd.pollWriteFullW (c : Cfg) (o : Ofd) : Nat → Fifo α → Wakers → List α → Nat → Res × Fifo α × Wakers
  | 0, p, w, _, bw => (.ok bw, p, w)
  | fuel + 1, p, w, rem, bw =>
    if rem.isEmpty then (.ok bw, p, w)
    else match o.pollWriteW c p w rem with
      | (.ok n, p', w') =>
        if o.nonblocking || n == 0 then (.ok (bw + n), p', w')
        else o.pollWriteFullW c fuel p' w' (rem.drop n) (bw + n)
      | (.err e, p', w') => (if bw > 0 then .ok bw else .err e, p', w')
      | (.pending, p', w') => (.pending, p', w')

def Ofd.sysWriteW (c : Cfg) (o : Ofd) (p : Fifo α) (w : Wakers) (buf : List α) : Res × Fifo α × Wakers :=
  o.pollWriteFullW c (buf.length + 1) p w buf 0

/-- `OpenFileDescription::poll_read` with the waker side effects -/
def Ofd.sysReadW (o : Ofd) (p : Fifo α) (w : Wakers) (n : Nat) : Res × List α × Fifo α × Wakers :=
  if !o.readable then (.err .EBADF, [], p, w)
  else match wfRead p w n none with
    | (.block, p', w') => (if o.nonblocking then .err .EAGAIN else .pending, [], p', w')
    | (.data bs, p', w') => (.ok bs.length, bs, p', w')

/-! ## writer ∥ reader, each inside `run_virtual` -/

/-- what the executor and the FIFO's `WakerSet`s know about one virtual process -/
structure PWake where
  /-- the process future returned `Pending` from inside `select` -/
  parked : Bool := false
  /-- its `select` waker is in the FIFO's waker set for the event it waits for -/
  reg : Bool := false
  /-- the waker has fired: the executor will poll the process again -/
  woken : Bool := false
  deriving Repr, DecidableEq

/-- `WakerSet::wake_all` as seen by one process: a registered waker is taken out and fired -/
def PWake.wake (p : PWake) : PWake := if p.reg then { p with reg := false, woken := true } else p

/-- `FileBody::close` wakes only when a count reached zero -/
def closeWake (p : Fifo α) (x : PWake) : PWake := if p.readers = 0 ∨ p.writers = 0 then x.wake else x

/-- one poll of `select` by a process whose task waits for a descriptor: ready → `Ready`, the waker cell
    is dropped (a registration left behind is dead) and the task runs again; not ready → the waker is
    (re-)registered, the wake flag was consumed by this poll, the process future returns `Pending` -/
def PWake.pollSelect (ready : Bool) : PWake :=
  if ready then {} else { parked := true, reg := true, woken := false }

structure WSys (α : Type) where
  base : Sys α
  w : PWake := {}
  r : PWake := {}
  deriving Repr

def WSys.init (payload : List α) : WSys α := { base := Sys.init payload }

/-- The writer process is polled (`spur`: although its waker has not fired — executors may do that).
    * running: one iteration of `write_all` as in `Sys.stepW`; a successful `write` fires the read-waiters,
      the `close` at the end (or after EPIPE) fires both sets if a count reached zero; `EAGAIN` → the task is
      registered in `Concurrent::state.writes` (`wait`), `select` not yet polled;
    * waiting, not parked: first poll of `select`;
    * waiting, parked: the executor polls the process only if its waker fired; `select` is polled again. -/
def WSys.stepW (c : Cfg) (s : WSys α) (k : Nat) (spur : Bool) : Option (WSys α) :=
  match s.base.wpc with
  | .run =>
    match s.base.stepW c k with
    | none => none
    | some b =>
      if s.base.unsent.isEmpty then some { base := b, w := {}, r := closeWake b.pipe s.r }
      else match (s.base.pipe.write c (s.base.unsent.take k)).1 with
        | .epipe => some { base := b, w := {}, r := closeWake b.pipe s.r }
        | .block => some { base := b, w := {}, r := s.r }
        | .wrote _ => some { base := b, w := {}, r := s.r.wake }
  | .wait =>
    if s.w.parked && !(s.w.woken || spur) then none
    else if s.base.pipe.readyW c then (s.base.stepW c k).map fun b => { base := b, w := {}, r := s.r }
    else some { s with w := PWake.pollSelect false }
  | .closed => none
  | .failed => none

/-- The reader process is polled; symmetric (`poll_read` fires the write-waiters on every return that is
    not `Pending`, also on the end-of-file return). -/
def WSys.stepR (s : WSys α) (n : Nat) (spur : Bool) : Option (WSys α) :=
  match s.base.rpc with
  | .run =>
    match s.base.stepR n with
    | none => none
    | some b =>
      match (s.base.pipe.read n).1 with
      | .block => some { base := b, w := s.w, r := {} }
      | .data bs =>
        let w1 := if n = 0 then s.w else s.w.wake
        if bs.isEmpty then some { base := b, w := closeWake b.pipe w1, r := {} }
        else some { base := b, w := w1, r := {} }
  | .wait =>
    if s.r.parked && !(s.r.woken || spur) then none
    else if s.base.pipe.readyR then (s.base.stepR n).map fun b => { base := b, w := s.w, r := {} }
    else some { s with r := PWake.pollSelect false }
  | .done => none

/-- scheduler choice: which process the executor polls, with which request / buffer size, and whether the
    poll is spurious (the process's waker has not fired) -/
inductive WAct where
  | w (k : Nat) (spur : Bool)
  | r (n : Nat) (spur : Bool)
  deriving Repr, DecidableEq

def WAct.ok : WAct → Bool
  | .w k _ => decide (1 ≤ k)
  | .r n _ => decide (1 ≤ n)

/-- a poll the executor really owes the process (its waker fired, or it never parked) -/
def WAct.legit : WAct → Bool
  | .w _ spur => !spur
  | .r _ spur => !spur

def WSys.step (c : Cfg) (s : WSys α) : WAct → Option (WSys α)
  | .w k spur => s.stepW c k spur
  | .r n spur => s.stepR n spur

def WSys.run (c : Cfg) (s : WSys α) : List WAct → WSys α
  | [] => s
  | a :: as => WSys.run c ((s.step c a).getD s) as

/-! ## what the driver runs: a seeded executor that polls a parked process only after its waker fired -/

def wStepWriter (c : Cfg) (total wk : Nat) (s : WSys α) : Option (WSys α) :=
  s.step c (.w (wReq total wk s.base) false)

def wStepReader (c : Cfg) (rk : Nat) (s : WSys α) : Option (WSys α) :=
  s.step c (.r (if rk = 0 then 1024 else rk) false)

/-- like `runSchedStop`, over `WSys` and with legitimate polls only: if a wake-up were lost the run would
    end in a state that is not final -/
def runWSched (c : Cfg) (total wk rk : Nat) : Nat → Nat → WSys α → WSys α
  | 0, _, s => s
  | fuel + 1, x, s =>
    let x' := lcg x
    if (x' / 65536) % 2 = 0 then
      match wStepWriter c total wk s with
      | some s' => runWSched c total wk rk fuel x' s'
      | none =>
        match wStepReader c rk s with
        | some s' => runWSched c total wk rk fuel x' s'
        | none => s
    else
      match wStepReader c rk s with
      | some s' => runWSched c total wk rk fuel x' s'
      | none =>
        match wStepWriter c total wk s with
        | some s' => runWSched c total wk rk fuel x' s'
        | none => s

/-- one pipe transfer between two virtual processes under the schedule `seed`; `none` = stuck -/
def wtransfer (c : Cfg) (seed wk rk : Nat) (x : List α) : Option (List α) :=
  let s := runWSched c x.length wk rk (40 * x.length + 200) seed (WSys.init x)
  if s.base.final then some s.base.received else none

end YashModel.Pipe
