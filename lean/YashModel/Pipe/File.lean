/-
  C14 — Impl model of here-document delivery through a temporary regular file.

  Transcribed from (current /repo):
    yash-semantics/src/redir/here_doc.rs          `open_fd` (`open_tmpfile`), `fill_content`
                                                  (`write_all(content.as_bytes())`, `lseek(Start(0))`)
    yash-env/src/system/virtual/file_body.rs      `poll_read` / `poll_write`, `Regular` arm
    yash-env/src/system/virtual/io.rs             `OpenFileDescription::{poll_read, poll_write, seek}` (offset)

  Import-free, executable.  Bytes are `UInt8`; `utf8` is `str::as_bytes` of the expanded body.
-/
namespace YashModel.Pipe

/-- `content.as_bytes()` of a Rust `String` with these characters -/
def utf8 (cs : List Char) : List UInt8 := cs.flatMap String.utf8EncodeChar

/-- an open file description on a regular file: the file's content and the description's offset -/
structure RegOfd where
  content : List UInt8 := []
  offset : Nat := 0
  deriving Repr, DecidableEq

/-- `open_tmpfile`: a new empty file, offset 0, readable and writable -/
def RegOfd.tmpfile : RegOfd := {}

/-- `poll_write`, `Regular` arm, at the description's offset (not appending): a gap is filled with
    zeros, existing bytes are overwritten, the rest is appended; the whole buffer is always written
    (so `write_all` is one call) and the offset advances by its length -/
def RegOfd.write (o : RegOfd) (buf : List UInt8) : RegOfd :=
  let c1 := o.content ++ List.replicate (o.offset - o.content.length) 0
  { content := c1.take o.offset ++ buf ++ c1.drop (o.offset + buf.length), offset := o.offset + buf.length }

/-- `poll_read`, `Regular` arm: nothing at or beyond the end; otherwise `min n (len - offset)` bytes
    from the offset, which advances by the count -/
def RegOfd.read (o : RegOfd) (n : Nat) : List UInt8 × RegOfd :=
  let bs := (o.content.drop o.offset).take n
  (bs, { o with offset := o.offset + bs.length })

/-- `std::io::SeekFrom` -/
inductive SeekFrom where
  | start (k : Nat)
  | current (d : Int)
  | fromEnd (d : Int)
  deriving Repr, DecidableEq

/-- `OpenFileDescription::seek` on a regular file; `none` = EINVAL (negative result) -/
def RegOfd.seek (o : RegOfd) : SeekFrom → Option RegOfd
  | .start k => some { o with offset := k }
  | .current d => if 0 ≤ (o.offset : Int) + d then some { o with offset := ((o.offset : Int) + d).toNat } else none
  | .fromEnd d =>
    if 0 ≤ (o.content.length : Int) + d then some { o with offset := ((o.content.length : Int) + d).toNat } else none

/-- `here_doc::open_fd` + `fill_content`: temporary file, `write_all(body)`, `lseek(fd, Start(0))` -/
def heredocFill (body : List UInt8) : Option RegOfd := (RegOfd.tmpfile.write body).seek (.start 0)

/-- the same with a *relative* rewind by `k` (documentation of why the unit of `k` matters) -/
def heredocFillBack (body : List UInt8) (k : Nat) : Option RegOfd :=
  (RegOfd.tmpfile.write body).seek (.current (-(k : Int)))

/-- successive `read`s with buffers of the given sizes: everything received, and the final state -/
def RegOfd.reads (o : RegOfd) : List Nat → List UInt8 × RegOfd
  | [] => ([], o)
  | n :: ns =>
    let (bs, o1) := o.read n
    let (rest, o2) := RegOfd.reads o1 ns
    (bs ++ rest, o2)

/-! ## the `read` built-in taking a line from standard input (yash-builtin/src/read/input.rs) -/

/-- outcome of `input::read` -/
inductive ReadLine where
  | eilseq                                              -- `Err(EILSEQ)`: not UTF-8, or input ends inside a character
  | line (value : List UInt8) (newlineFound : Bool) (rest : List UInt8)
  deriving Repr, DecidableEq

/-- length of the UTF-8 sequence announced by a lead byte; 0 = a byte that cannot start a character
    (the second-byte restrictions after E0/ED/F0/F4 are not modelled: the generator never produces them) -/
def utf8SeqLen (b : UInt8) : Nat :=
  if b < 0x80 then 1 else if b < 0xC2 then 0 else if b < 0xE0 then 2 else if b < 0xF0 then 3
  else if b < 0xF5 then 4 else 0

/-- `read_char` byte by byte: `none` = EILSEQ; `some (bytes of the character, rest)`; the caller
    handles end of input before a first byte -/
def readCharBytes (b : UInt8) (rest : List UInt8) : Option (List UInt8 × List UInt8) :=
  let k := utf8SeqLen b
  if k = 0 then none
  else
    let tail := rest.take (k - 1)
    if tail.length = k - 1 ∧ tail.all (fun c => 0x80 ≤ c && c < 0xC0) then some (b :: tail, rest.drop (k - 1))
    else none

/-- `input::read(env, b'\n', is_raw)`: characters up to the newline; unless raw, backslash-newline
    is a line continuation and another backslash quotes the next character (the value keeps only the
    quoted character).  `fuel` ≥ number of input bytes. -/
def readLine (raw : Bool) : Nat → List UInt8 → List UInt8 → ReadLine
  | 0, _, acc => .line acc false []
  | _ + 1, [], acc => .line acc false []
  | fuel + 1, b :: rest, acc =>
    match readCharBytes b rest with
    | none => .eilseq
    | some (ch, rest') =>
      if ch = [10] then .line acc true rest'
      else if ch = [92] ∧ !raw then
        match rest' with
        | [] => .line acc false []
        | b2 :: rest2 =>
          match readCharBytes b2 rest2 with
          | none => .eilseq
          | some (ch2, rest3) =>
            if ch2 = [10] then readLine raw fuel rest3 acc       -- line continuation
            else readLine raw fuel rest3 (acc ++ ch2)
      else readLine raw fuel rest' (acc ++ ch)

/-! ## short reads: `read(2)` on a pipe may return fewer bytes than asked for -/

/-- Collecting `need` more bytes with `read(2)` calls that ask for everything still missing but may be
    cut short: `shorts` lists, call by call, how many bytes the pipe has at that moment (0 counts as
    1: the call blocks until at least one byte is there).  Returns (bytes obtained, input left,
    schedule left).  With `len += count` — the code as it is — the loop simply asks again. -/
def gatherF : Nat → Nat → List UInt8 → List Nat → List UInt8 × List UInt8 × List Nat
  | 0, _, input, sh => ([], input, sh)
  | _ + 1, 0, input, sh => ([], input, sh)
  | fuel + 1, need + 1, input, sh =>
    let c := min (need + 1) (max 1 (sh.headD 1))
    match input with
    | [] => ([], [], sh.tail)                       -- end of input
    | _ :: _ =>
      let (g, r, sh') := gatherF fuel (need + 1 - c) (input.drop c) sh.tail
      (input.take c ++ g, r, sh')

def gather (need : Nat) (input : List UInt8) (sh : List Nat) : List UInt8 × List UInt8 × List Nat :=
  gatherF need need input sh

/-- `read_char` where the first byte is read alone and the rest of the character is requested at
    once, under short reads -/
def readCharChunked (b : UInt8) (rest : List UInt8) (sh : List Nat) : Option (List UInt8 × List UInt8) × List Nat :=
  let k := utf8SeqLen b
  if k = 0 then (none, sh)
  else
    let (tail, rest', sh') := gather (k - 1) rest sh
    if tail.length = k - 1 ∧ tail.all (fun c => 0x80 ≤ c && c < 0xC0) then (some (b :: tail, rest'), sh')
    else (none, sh')

/-- `input::read` over `readCharChunked` -/
def readLineChunked (raw : Bool) : Nat → List UInt8 → List UInt8 → List Nat → ReadLine
  | 0, _, acc, _ => .line acc false []
  | _ + 1, [], acc, _ => .line acc false []
  | fuel + 1, b :: rest, acc, sh =>
    match readCharChunked b rest sh with
    | (none, _) => .eilseq
    | (some (ch, rest'), sh') =>
      if ch = [10] then .line acc true rest'
      else if ch = [92] ∧ !raw then
        match rest' with
        | [] => .line acc false []
        | b2 :: rest2 =>
          match readCharChunked b2 rest2 sh' with
          | (none, _) => .eilseq
          | (some (ch2, rest3), sh'') =>
            if ch2 = [10] then readLineChunked raw fuel rest3 acc sh''
            else readLineChunked raw fuel rest3 (acc ++ ch2) sh''
      else readLineChunked raw fuel rest' (acc ++ ch) sh'

/-- exit status of `read` (read.rs `main`): 3 = read error (EILSEQ, or a NUL in the input),
    0 = a complete line, 1 = end of input before a newline; and the value assigned (IFS empty) -/
def readBuiltin (raw : Bool) (input : List UInt8) : Nat × List UInt8 × List UInt8 :=
  match readLine raw (input.length + 1) input [] with
  | .eilseq => (3, [], [])
  | .line v nl rest => if v.contains 0 then (3, [], rest) else (if nl then 0 else 1, v, rest)

end YashModel.Pipe
