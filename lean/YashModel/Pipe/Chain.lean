/-
  C14 — a genuinely concurrent pipeline of any number of stages: one source, `m` forwarding stages
  (`cat`-like: `loop { read(0, buf) → 0: exit; n: write_all(1, &buf[..n]) }`), one sink that reads to end of
  file, connected by `m + 1` pipes, every process scheduled independently.

  Transcribed from (current /repo / harness):
    yash-env/src/system/virtual/file_body.rs   the pipes are `Fifo`s of Model.lean (`write`, `read`, `readyR`, `readyW`)
    yash-env/src/system/concurrency/rw_all.rs  `write_all` (the `wr` / `wwait` half of a stage), `read_all_to` (the sink)
    yash-env/src/system/concurrency.rs         `yield_for_read` / `yield_for_write` (`rwait` / `wwait`, resumed when
                                               `select` reports the descriptor ready)
    harness `cat` / `ycat` built-ins and the forwarding task of `xfer … mid=M` (the loop quoted above)

  A chain is a recursive structure so that the theorems are inductions over the number of stages: a node holds
  the process's *input* pipe; its output pipe is the input pipe of the rest of the chain.  The source is a
  forwarding stage whose input pipe has no writer: started in `wr` with `hold = payload` it is `write_all(payload)`
  followed by end of file on its input (the writer of Model.lean's `Sys`); started in `rd` with the payload in its
  input it is `cat < file`.  Import-free apart from Model.lean, executable (driver: `chainTransfer`).
-/
import YashModel.Pipe.Model
namespace YashModel.Pipe

variable {α : Type}

/-- where a forwarding stage is: about to `read` (`hold` is empty), suspended in `yield_for_read`, inside
    `write_all(hold)`, suspended in `yield_for_write`, finished (saw `Ok(0)`, both ends closed), or given up
    after EPIPE (both ends closed) -/
inductive FPc where
  | rd | rwait | wr | wwait | closed | failed
  deriving Repr, DecidableEq

inductive Chain (α : Type) where
  /-- the last process: `read_all_to` of Model.lean's reader -/
  | sink (inp : Fifo α) (received : List α) (pc : RPc)
  /-- a forwarding stage: `hold` = `&buffer[..n]` minus what `write_all` has written already -/
  | fwd (inp : Fifo α) (hold : List α) (pc : FPc) (rest : Chain α)
  deriving Repr

/-- the input pipe of the first process of the chain -/
def Chain.inp : Chain α → Fifo α
  | .sink inp _ _ => inp
  | .fwd inp _ _ _ => inp

def Chain.mapInp (f : Fifo α → Fifo α) : Chain α → Chain α
  | .sink inp r pc => .sink (f inp) r pc
  | .fwd inp h pc rest => .fwd (f inp) h pc rest

/-- the first process of the chain has finished (its reading end is closed) -/
def Chain.headDone : Chain α → Bool
  | .sink _ _ pc => pc == .done
  | .fwd _ _ pc _ => pc == .closed || pc == .failed

/-- what the sink has collected -/
def Chain.received : Chain α → List α
  | .sink _ r _ => r
  | .fwd _ _ _ rest => rest.received

/-- every process has finished normally -/
def Chain.allDone : Chain α → Bool
  | .sink _ _ pc => pc == .done
  | .fwd _ _ pc rest => pc == .closed && rest.allDone

/-- number of processes -/
def Chain.procs : Chain α → Nat
  | .sink _ _ _ => 1
  | .fwd _ _ _ rest => rest.procs + 1

/-- every byte of the system, nearest to the sink first: collected, then per stage from the sink backwards
    what is buffered in its input pipe and what it holds -/
def Chain.total : Chain α → List α
  | .sink inp r _ => r ++ inp.content
  | .fwd inp h _ rest => rest.total ++ h ++ inp.content

/-- the sink's step = `Sys.stepR` (buffer of `n` bytes) -/
def sinkStep (inp : Fifo α) (received : List α) (pc : RPc) (n : Nat) : Option (Chain α) :=
  match pc with
  | .run =>
    match inp.read n with
    | (.block, _) => some (.sink inp received .wait)
    | (.data bs, p) =>
      if bs.isEmpty then some (.sink (p.closeFd true false) received .done)
      else some (.sink p (received ++ bs) .run)
  | .wait => if inp.readyR then some (.sink inp received .run) else none
  | .done => none

/-- one step of a forwarding stage whose output pipe is `rest.inp`; `n` = size of its read buffer, `k` = bound
    of one write request (`cat` asks for the whole `hold`; a source may write in pieces) -/
def fwdStep (c : Cfg) (inp : Fifo α) (hold : List α) (pc : FPc) (rest : Chain α) (n k : Nat) : Option (Chain α) :=
  match pc with
  | .rd =>
    match inp.read n with
    | (.block, _) => some (.fwd inp hold .rwait rest)
    | (.data bs, p) =>
      if bs.isEmpty then
        -- `Ok(0)`: the stage exits, both its descriptors are closed
        some (.fwd (p.closeFd true false) hold .closed (rest.mapInp (·.closeFd false true)))
      else some (.fwd p bs .wr rest)
  | .rwait => if inp.readyR then some (.fwd inp hold .rd rest) else none
  | .wr =>
    if hold.isEmpty then some (.fwd inp hold .rd rest)     -- `write_all` returns, back to `read`
    else match rest.inp.write c (hold.take k) with
      | (.epipe, _) =>
        some (.fwd (inp.closeFd true false) hold .failed (rest.mapInp (·.closeFd false true)))
      | (.block, _) => some (.fwd inp hold .wwait rest)
      | (.wrote w, p) =>
        if w = 0 then some (.fwd inp hold .wwait (rest.mapInp fun _ => p))
        else some (.fwd inp (hold.drop w) .wr (rest.mapInp fun _ => p))
  | .wwait => if rest.inp.readyW c then some (.fwd inp hold .wr rest) else none
  | .closed => none
  | .failed => none

/-- process number `i` (0 = the source) takes its next step with read-buffer size `n` and write bound `k` -/
def Chain.step (c : Cfg) : Chain α → Nat → Nat → Nat → Option (Chain α)
  | .sink inp r pc, 0, n, _ => sinkStep inp r pc n
  | .sink _ _ _, _ + 1, _, _ => none
  | .fwd inp h pc rest, 0, n, k => fwdStep c inp h pc rest n k
  | .fwd inp h pc rest, i + 1, n, k => (rest.step c i n k).map fun r => .fwd inp h pc r

/-- `m` idle forwarding stages and the sink, every pipe empty with one reader and one writer -/
def Chain.idle : Nat → Chain α
  | 0 => .sink { content := [], readers := 1, writers := 1 } [] .run
  | m + 1 => .fwd { content := [], readers := 1, writers := 1 } [] .rd (Chain.idle m)

/-- the pipeline `source | cat | … | cat | sink` with `m` forwarding stages; the source holds `pre` (about to
    `write_all` it) and will then read `post` from its input, which has no writer (a file / nothing) -/
def Chain.init (m : Nat) (pre post : List α) : Chain α :=
  .fwd { content := post, readers := 1, writers := 0 } pre .wr (Chain.idle m)

/-! ### the seeded executor the driver runs -/

/-- the first of the processes `j - 1, …, 0` that can step -/
def chainScan (c : Cfg) (s : Chain α) (n k : Nat) : Nat → Option (Chain α)
  | 0 => none
  | j + 1 =>
    match s.step c j n k with
    | some s' => some s'
    | none => chainScan c s n k j

/-- the scheduler's choice: process `i` if it can step, otherwise the first that can (`none`: nobody can) -/
def chainPick (c : Cfg) (s : Chain α) (n k i : Nat) : Option (Chain α) :=
  match s.step c i n k with
  | some s' => some s'
  | none => chainScan c s n k s.procs

/-- runs the chain under the schedule derived from `x` (same generator as `runSchedStop`); read buffers of
    `n` bytes, write requests of at most `k` bytes; stops when no process can step -/
def chainRun (c : Cfg) (n k : Nat) : Nat → Nat → Chain α → Chain α
  | 0, _, s => s
  | fuel + 1, x, s =>
    let x' := (x * 1103515245 + 12345) % 2147483648
    match chainPick c s n k ((x' / 65536) % s.procs) with
    | some s' => chainRun c n k fuel x' s'
    | none => s

/-- `source | m × cat | sink` on `x` under schedule `seed`; read buffers of `rk` bytes (0 = 1024), write requests
    of at most `wk` bytes (0 = everything held); `none` if the run did not end with every process finished -/
def chainTransfer (c : Cfg) (seed m wk rk : Nat) (x : List α) : Option (List α) :=
  let n := if rk = 0 then 1024 else rk
  let k := if wk = 0 then x.length + 1 else wk
  let s := chainRun c n k ((m + 2) * (12 * x.length + 200)) seed (Chain.init m x [])
  if s.allDone then some s.received else none

end YashModel.Pipe
