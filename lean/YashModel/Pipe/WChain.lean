/-
  C14 — the concurrent n-stage chain of Chain.lean with explicit wakers: every process runs inside
  `run_virtual` as in Wake.lean's `WSys` — a process whose descriptor is not ready in `select` parks with its
  waker registered in the pipe's `pending_read_wakers` / `pending_write_wakers`, and the executor polls a parked
  process again only after that waker has fired (or spuriously).  Who fires what (file_body.rs):
    `poll_write` after appending        → the read-waiters of the pipe written to   (the process to the right)
    `poll_read` on every non-`Pending`  → the write-waiters of the pipe read from   (the process to the left)
    `close` when a count reaches zero   → both sets of the pipe closed              (`closeWake`)
  A node carries the `PWake` of its process.  A step returns, besides the new chain, the effect on the waker of
  the process to the *left* of the chain's first process (the writer of its input pipe).  Import-free apart from
  Chain.lean / Wake.lean, executable.
-/
import YashModel.Pipe.Chain
import YashModel.Pipe.Wake
namespace YashModel.Pipe

variable {α : Type}

inductive WChain (α : Type) where
  | sink (inp : Fifo α) (received : List α) (pc : RPc) (wk : PWake)
  | fwd (inp : Fifo α) (hold : List α) (pc : FPc) (wk : PWake) (rest : WChain α)
  deriving Repr

/-- forgetting the wakers -/
def WChain.erase : WChain α → Chain α
  | .sink inp r pc _ => .sink inp r pc
  | .fwd inp h pc _ rest => .fwd inp h pc rest.erase

def WChain.inp : WChain α → Fifo α
  | .sink inp _ _ _ => inp
  | .fwd inp _ _ _ _ => inp

/-- the waker of the chain's first process -/
def WChain.wk : WChain α → PWake
  | .sink _ _ _ wk => wk
  | .fwd _ _ _ wk _ => wk

/-- changes the first input pipe and the waker of the first process (what the process to the left does) -/
def WChain.mapHead (fi : Fifo α → Fifo α) (fw : PWake → PWake) : WChain α → WChain α
  | .sink inp r pc wk => .sink (fi inp) r pc (fw wk)
  | .fwd inp h pc wk rest => .fwd (fi inp) h pc (fw wk) rest

/-- a waiting process is polled: not at all while parked and not woken (unless spuriously); otherwise `select`
    is polled — ready: the task runs again; not ready: parked with the waker registered -/
def pollWaiting (wk : PWake) (spur ready : Bool) : Option (Bool × PWake) :=
  if wk.parked && !(wk.woken || spur) then none
  else if ready then some (true, {}) else some (false, PWake.pollSelect false)

/-- the sink is polled; returns the effect on the waker of the writer of its pipe -/
def wsinkStep (inp : Fifo α) (received : List α) (pc : RPc) (wk : PWake) (n : Nat) (spur : Bool) :
    Option (WChain α × (PWake → PWake)) :=
  match pc with
  | .run =>
    match inp.read n with
    | (.block, _) => some (.sink inp received .wait {}, id)
    | (.data bs, p) =>
      let up : PWake → PWake := if n = 0 then id else PWake.wake
      if bs.isEmpty then some (.sink (p.closeFd true false) received .done {}, fun x => closeWake (p.closeFd true false) (up x))
      else some (.sink p (received ++ bs) .run {}, up)
  | .wait =>
    match pollWaiting wk spur inp.readyR with
    | none => none
    | some (true, wk') => some (.sink inp received .run wk', id)
    | some (false, wk') => some (.sink inp received .wait wk', id)
  | .done => none

/-- a forwarding stage is polled (cf. `fwdStep`) -/
def wfwdStep (c : Cfg) (inp : Fifo α) (hold : List α) (pc : FPc) (wk : PWake) (rest : WChain α) (n k : Nat)
    (spur : Bool) : Option (WChain α × (PWake → PWake)) :=
  match pc with
  | .rd =>
    match inp.read n with
    | (.block, _) => some (.fwd inp hold .rwait {} rest, id)
    | (.data bs, p) =>
      let up : PWake → PWake := if n = 0 then id else PWake.wake
      if bs.isEmpty then
        some (.fwd (p.closeFd true false) hold .closed {}
                (rest.mapHead (·.closeFd false true) (closeWake (rest.inp.closeFd false true))),
              fun x => closeWake (p.closeFd true false) (up x))
      else some (.fwd p bs .wr {} rest, up)
  | .rwait =>
    match pollWaiting wk spur inp.readyR with
    | none => none
    | some (true, wk') => some (.fwd inp hold .rd wk' rest, id)
    | some (false, wk') => some (.fwd inp hold .rwait wk' rest, id)
  | .wr =>
    if hold.isEmpty then some (.fwd inp hold .rd {} rest, id)
    else match rest.inp.write c (hold.take k) with
      | (.epipe, _) =>
        some (.fwd (inp.closeFd true false) hold .failed {}
                (rest.mapHead (·.closeFd false true) (closeWake (rest.inp.closeFd false true))),
              closeWake (inp.closeFd true false))
      | (.block, _) => some (.fwd inp hold .wwait {} rest, id)
      | (.wrote w, p) =>
        if w = 0 then some (.fwd inp hold .wwait {} (rest.mapHead (fun _ => p) PWake.wake), id)
        else some (.fwd inp (hold.drop w) .wr {} (rest.mapHead (fun _ => p) PWake.wake), id)
  | .wwait =>
    match pollWaiting wk spur (rest.inp.readyW c) with
    | none => none
    | some (true, wk') => some (.fwd inp hold .wr wk' rest, id)
    | some (false, wk') => some (.fwd inp hold .wwait wk' rest, id)
  | .closed => none
  | .failed => none

/-- process `i` is polled (`spur`: although its waker has not fired) -/
def WChain.step (c : Cfg) : WChain α → Nat → Nat → Nat → Bool → Option (WChain α × (PWake → PWake))
  | .sink inp r pc wk, 0, n, _, spur => wsinkStep inp r pc wk n spur
  | .sink _ _ _ _, _ + 1, _, _, _ => none
  | .fwd inp h pc wk rest, 0, n, k, spur => wfwdStep c inp h pc wk rest n k spur
  | .fwd inp h pc wk rest, i + 1, n, k, spur =>
    match rest.step c i n k spur with
    | none => none
    | some (rest', up) => some (.fwd inp h pc (if i = 0 then up wk else wk) rest', id)

def WChain.idle : Nat → WChain α
  | 0 => .sink { content := [], readers := 1, writers := 1 } [] .run {}
  | m + 1 => .fwd { content := [], readers := 1, writers := 1 } [] .rd {} (WChain.idle m)

def WChain.init (m : Nat) (pre post : List α) : WChain α :=
  .fwd { content := post, readers := 1, writers := 0 } pre .wr {} (WChain.idle m)

/-- the waker of process `i` (of the last process beyond the end) -/
def WChain.wkAt : WChain α → Nat → PWake
  | .sink _ _ _ wk, _ => wk
  | .fwd _ _ _ wk _, 0 => wk
  | .fwd _ _ _ _ rest, i + 1 => rest.wkAt i

/-- the input pipe of process `i` -/
def WChain.inpAt : WChain α → Nat → Fifo α
  | .sink inp _ _ _, _ => inp
  | .fwd inp _ _ _ _, 0 => inp
  | .fwd _ _ _ _ rest, i + 1 => rest.inpAt i

end YashModel.Pipe
