/-
  C14 ∘ C18 — what `expand_common` does with command-substitution output that is not UTF-8:
  `String::from_utf8(result).unwrap_or_else(|e| String::from_utf8_lossy(&e.into_bytes()).into())`, i.e. valid
  output is taken as it is and anything else goes through `from_utf8_lossy`.  The decoder is C18's model of
  `from_utf8_lossy` (`Input.toChars`: the maximal valid prefix of an ill-formed sequence becomes one U+FFFD and
  decoding resumes at the offending byte; on valid input it is the identity), re-encoded with `utf8` of File.lean.
  `lossyFF` of Flow.lean is its restriction to output whose only invalid bytes are 0xFF.  Executable.
-/
import YashModel.Pipe.File
import YashModel.Input.Model
namespace YashModel.Pipe

/-- `from_utf8_lossy` on bytes, as bytes -/
def lossyGen (bs : List Nat) : List Nat :=
  (utf8 (Input.toChars (bs.map UInt8.ofNat))).map (·.toNat)

end YashModel.Pipe
