/-
  C14 — helper lemmas for liveness: enabledness of the two processes and the progress measure.
-/
import YashModel.Pipe.Lemmas
namespace YashModel.Pipe

variable {α : Type}

theorem readyR_iff (p : Fifo α) : p.readyR = true ↔ (p.writers = 0 ∨ p.content.length ≠ 0) := by
  unfold Fifo.readyR
  cases hc : p.content <;> simp

theorem readyW_iff (c : Cfg) (p : Fifo α) :
    p.readyW c = true ↔ (p.readers = 0 ∨ c.pipeBuf + p.content.length ≤ c.pipeSize ∨ c.pipeBuf = 0) := by
  unfold Fifo.readyW Fifo.room
  simp only [Bool.or_eq_true, beq_iff_eq, decide_eq_true_eq]
  omega

/-- a running writer can always take a step (the step may be "suspend") -/
theorem stepW_run_some (c : Cfg) (s : Sys α) (k : Nat) (h : s.wpc = .run) : ∃ s', s.stepW c k = some s' := by
  unfold Sys.stepW
  rw [h]
  simp only
  split
  · exact ⟨_, rfl⟩
  · split
    · exact ⟨_, rfl⟩
    · exact ⟨_, rfl⟩
    · split <;> exact ⟨_, rfl⟩

/-- a running reader can always take a step -/
theorem stepR_run_some (s : Sys α) (n : Nat) (h : s.rpc = .run) : ∃ s', s.stepR n = some s' := by
  unfold Sys.stepR
  rw [h]
  simp only
  split
  · exact ⟨_, rfl⟩
  · split <;> exact ⟨_, rfl⟩

theorem stepW_wait_some (c : Cfg) (s : Sys α) (k : Nat) (h : s.wpc = .wait) (hr : s.pipe.readyW c = true) :
    ∃ s', s.stepW c k = some s' := by
  unfold Sys.stepW
  rw [h]
  simp [hr]

theorem stepR_wait_some (s : Sys α) (n : Nat) (h : s.rpc = .wait) (hr : s.pipe.readyR = true) :
    ∃ s', s.stepR n = some s' := by
  unfold Sys.stepR
  rw [h]
  simp [hr]

/-- in a state satisfying the invariant that is not final some process can take a step -/
theorem enabled_of_inv (c : Cfg) (hv : c.Valid) (payload : List α) (s : Sys α)
    (hi : Inv c payload s) (hnf : s.final = false) :
    ∃ a s', a.ok = true ∧ s.step c a = some s' := by
  obtain ⟨cons, cap, rd, wr, done_imp, closed_imp, nofail⟩ := hi
  cases hw : s.wpc with
  | run =>
    obtain ⟨s', hs⟩ := stepW_run_some c s 1 hw
    exact ⟨.w 1, s', rfl, hs⟩
  | failed => exact absurd hw nofail
  | wait =>
    cases hrp : s.rpc with
    | run =>
      obtain ⟨s', hs⟩ := stepR_run_some s 1 hrp
      exact ⟨.r 1, s', rfl, hs⟩
    | done =>
      have := (done_imp hrp).1
      simp [hw] at this
    | wait =>
      by_cases hc : s.pipe.content.length = 0
      · have hrw : s.pipe.readyW c = true := by
          rw [readyW_iff]
          have := hv.2
          omega
        obtain ⟨s', hs⟩ := stepW_wait_some c s 1 hw hrw
        exact ⟨.w 1, s', rfl, hs⟩
      · have hrr : s.pipe.readyR = true := by
          rw [readyR_iff]
          exact Or.inr hc
        obtain ⟨s', hs⟩ := stepR_wait_some s 1 hrp hrr
        exact ⟨.r 1, s', rfl, hs⟩
  | closed =>
    cases hrp : s.rpc with
    | run =>
      obtain ⟨s', hs⟩ := stepR_run_some s 1 hrp
      exact ⟨.r 1, s', rfl, hs⟩
    | done => simp [Sys.final, hw, hrp] at hnf
    | wait =>
      have hrr : s.pipe.readyR = true := by
        rw [readyR_iff]
        left
        rw [wr]
        simp [hw]
      obtain ⟨s', hs⟩ := stepR_wait_some s 1 hrp hrr
      exact ⟨.r 1, s', rfl, hs⟩

/-! ### progress measure -/

/-- cost of the writer's control state, given whether its descriptor is ready for writing -/
def wcostOf : WPc → Bool → Nat
  | .run, _ => 3
  | .wait, true => 4
  | .wait, false => 2
  | .closed, _ => 0
  | .failed, _ => 0

/-- cost of the reader's control state, given whether its descriptor is ready for reading -/
def rcostOf : RPc → Bool → Nat
  | .run, _ => 3
  | .wait, true => 4
  | .wait, false => 2
  | .done, _ => 0

/-- every step of either process strictly decreases this number -/
def Sys.measure (c : Cfg) (s : Sys α) : Nat :=
  6 * s.unsent.length + 3 * s.pipe.content.length + wcostOf s.wpc (s.pipe.readyW c) + rcostOf s.rpc s.pipe.readyR

theorem wcostOf_shift (pc : WPc) (b b' : Bool) : wcostOf pc b' ≤ wcostOf pc b + 2 := by
  cases pc <;> cases b <;> cases b' <;> simp [wcostOf]

theorem rcostOf_shift (pc : RPc) (b b' : Bool) : rcostOf pc b' ≤ rcostOf pc b + 2 := by
  cases pc <;> cases b <;> cases b' <;> simp [rcostOf]

theorem wcostOf_le (pc : WPc) (b : Bool) : wcostOf pc b ≤ 4 := by
  cases pc <;> cases b <;> simp [wcostOf]

theorem rcostOf_le (pc : RPc) (b : Bool) : rcostOf pc b ≤ 4 := by
  cases pc <;> cases b <;> simp [rcostOf]

theorem done_not {payload : List α} {c : Cfg} {s : Sys α} (hi : Inv c payload s) (hw : s.wpc ≠ .closed) :
    s.rpc ≠ .done := fun hd => hw (hi.done_imp hd).1

theorem measure_stepW {c : Cfg} (hv : c.Valid) {payload : List α} {s s' : Sys α} {k : Nat} (hk : 1 ≤ k)
    (hi : Inv c payload s) (h : s.stepW c k = some s') : s'.measure c < s.measure c := by
  obtain ⟨hv1, hv2⟩ := hv
  have hi' := hi
  obtain ⟨cons, cap, rd, wr, done_imp, closed_imp, nofail⟩ := hi
  unfold Sys.stepW at h
  split at h
  next hw =>
    split at h
    next he =>
      -- close
      simp only [Option.some.injEq] at h
      subst h
      have he' : s.unsent = [] := by simpa using he
      have := rcostOf_shift s.rpc s.pipe.readyR (s.pipe.closeFd false true).readyR
      unfold Sys.measure
      simp only [hw, wcostOf, Fifo.closeFd] at this ⊢
      omega
    next he =>
      have hne : s.unsent.take k ≠ [] := by
        cases hu : s.unsent with
        | nil => simp [hu] at he
        | cons a t =>
          cases k with
          | zero => omega
          | succ m => simp
      split at h
      next p hwr =>
        have ⟨hr0, _⟩ := write_epipe hwr
        have hrd : s.rpc ≠ .done := done_not hi' (by simp [hw])
        simp [hrd] at rd
        omega
      next p hwr =>
        -- suspend: the descriptor is not ready for writing at this moment
        have ⟨_, hr, hroom, hor⟩ := write_block hwr
        simp only [Option.some.injEq] at h
        subst h
        have hnr : s.pipe.readyW c = false := by
          rw [Bool.eq_false_iff]
          intro hh
          rw [readyW_iff] at hh
          unfold Fifo.room at hroom hor
          have := List.length_take_le k s.unsent
          omega
        unfold Sys.measure
        simp only [hw, hnr, wcostOf]
        omega
      next n p hwr =>
        have ⟨hr, hp, hn, hroom, h1, _⟩ := write_wrote hwr
        have hn1 : 1 ≤ n := h1 hne
        have hlen : n ≤ s.unsent.length := by
          have := List.length_take_le' k s.unsent
          omega
        split at h
        · omega
        · simp only [Option.some.injEq] at h
          subst h
          have hpl : p.content.length = s.pipe.content.length + n := by
            rw [hp]
            rw [List.length_take] at hn
            simp only [List.length_append, List.length_take]
            omega
          have := rcostOf_shift s.rpc s.pipe.readyR p.readyR
          unfold Sys.measure
          simp only [hw, wcostOf, List.length_drop, hpl]
          omega
  next hw =>
    split at h
    next hr =>
      simp only [Option.some.injEq] at h
      subst h
      unfold Sys.measure
      simp only [hw, hr, wcostOf]
      omega
    · simp at h
  next => simp at h
  next => simp at h

theorem measure_stepR {c : Cfg} {payload : List α} {s s' : Sys α} {n : Nat} (hn : 1 ≤ n)
    (hi : Inv c payload s) (h : s.stepR n = some s') : s'.measure c < s.measure c := by
  obtain ⟨cons, cap, rd, wr, done_imp, closed_imp, nofail⟩ := hi
  unfold Sys.stepR at h
  split at h
  next hr =>
    split at h
    next p hrd =>
      have ⟨_, _, hc, hw⟩ := read_block hrd
      simp only [Option.some.injEq] at h
      subst h
      have hnr : s.pipe.readyR = false := by
        rw [Bool.eq_false_iff]
        intro hh
        rw [readyR_iff] at hh
        simp [hc] at hh
        omega
      unfold Sys.measure
      simp only [hr, hnr, rcostOf]
      omega
    next bs p hrd =>
      have ⟨hbs, hp, hw0⟩ := read_data hn hrd
      split at h
      next he =>
        have hbs0 : bs = [] := by simpa using he
        have hc : s.pipe.content = [] := by
          rw [hbs0] at hbs
          cases hcc : s.pipe.content with
          | nil => rfl
          | cons a t =>
            rw [hcc] at hbs
            cases n with
            | zero => omega
            | succ m => simp at hbs
        have hw : s.pipe.writers = 0 := hw0 hc
        have hclosed : s.wpc = .closed := by
          rw [wr] at hw
          split at hw
          next hor =>
            cases hor with
            | inl h1 => exact h1
            | inr h2 => exact absurd h2 nofail
          next => omega
        simp only [Option.some.injEq] at h
        subst h
        have hpl : p.content.length = 0 := by rw [hp]; simp [hc]
        unfold Sys.measure
        simp only [hr, hclosed, hc, Fifo.closeFd, wcostOf, rcostOf, List.length_nil, hpl]
        omega
      next he =>
        have hbl : 1 ≤ bs.length := by
          cases bs with
          | nil => simp at he
          | cons a t => simp
        simp only [Option.some.injEq] at h
        subst h
        have hpl : p.content.length + 1 ≤ s.pipe.content.length := by
          rw [hbs, List.length_take] at hbl
          rw [hp]
          simp only [List.length_drop]
          omega
        have := wcostOf_shift s.wpc (s.pipe.readyW c) (p.readyW c)
        unfold Sys.measure
        simp only [hr, rcostOf]
        omega
  next hr =>
    split at h
    next hrr =>
      simp only [Option.some.injEq] at h
      subst h
      unfold Sys.measure
      simp only [hr, hrr, rcostOf]
      omega
    · simp at h
  next => simp at h

end YashModel.Pipe
