/-
  C14 — property theorems (and non-vacuity examples) ONLY.  Helper lemmas: Lemmas.lean, Progress.lean.

  Property text: "Bytes written to a pipeline or produced inside a command substitution reach the
  reader completely, exactly once and in order, for every payload size - including sizes far beyond
  the pipe capacity - and every interleaving of writer and reader; command substitution then removes
  exactly the trailing newlines and nothing else.  Here-document bodies reach the command's standard
  input byte for byte in the same way."

  This is the THEOREM HALF of a partial claim.  The theorems speak about the model of the virtual
  FIFO (`Fifo.write`/`Fifo.read`), of the `write_all`/`read_all` loops and of a scheduler that may
  pick either process at every step, with request and buffer sizes ≥ 1 chosen afresh at every step.
  In the model a suspended process becomes runnable exactly when its descriptor is ready (level
  triggered, atomically).  That the real code *registers a waker* before suspending and that
  `select` *wakes* it when the descriptor becomes ready is runtime behaviour which only the
  correspondence run (harness/src/bin/c14.rs: a lost wake-up shows as `TIMEOUT`) can exhibit.
-/
import YashModel.Pipe.Progress
import YashModel.Pipe.FlowLemmas
import YashModel.Pipe.FdLemmas
import YashModel.Pipe.FileLemmas
import YashModel.Pipe.TwoWritersLemmas
import YashModel.Pipe.WakeLemmas
import YashModel.Pipe.ChainLemmas
import YashModel.Pipe.ChainMeasure
import YashModel.Pipe.OpsLemmas
import YashModel.Pipe.WChainLemmas
import YashModel.Pipe.WChainMeasure
import YashModel.Pipe.StopLemmas
import YashModel.Pipe.ReadCompose
import YashModel.Pipe.TChainLemmas
import YashModel.Pipe.HChainLemmas
import YashModel.Pipe.HChainFin
import YashModel.Pipe.Lossy
namespace YashModel.Pipe

variable {α : Type}

/-- The capacity constants of the code as extracted on this run satisfy the hypothesis of the
    theorems below (`decide` over the generated table of two numbers). -/
theorem real_valid : Cfg.real.Valid := by decide

/-- … and POSIX's lower bound: {PIPE_BUF} is at least `_POSIX_PIPE_BUF` = 512, so every write of at most
    512 bytes is atomic (`write_atomic`), as applications are entitled to assume. -/
theorem real_posix_pipe_buf : posixPipeBuf ≤ Cfg.real.pipeBuf := by decide

/-- The other literals of the code that the model types by hand — descriptor numbers 0/1/2 of
    `move_to_stdin_stdout` / `subshell_body` (Fds.lean), `MIN_INTERNAL_FD` (the `lim` driver), the character
    `expand_common` trims (the `10` of `substValue` / `flowSpec`), the room `read_all_to` offers to each `read`
    (the `1024` of `stepReader`) — are the code's constants as re-extracted on this run (`decide` over the
    generated table): a change of any of them in /repo fails this obligation instead of silently leaving
    the model behind. -/
theorem real_fd_consts :
    Generated.PipeConsts.STDIN = 0 ∧ Generated.PipeConsts.STDOUT = 1 ∧ Generated.PipeConsts.STDERR = 2 ∧
    Generated.PipeConsts.MIN_INTERNAL_FD = 10 ∧ Generated.PipeConsts.SUBST_TRIM_CHAR = 10 ∧
    Generated.PipeConsts.READ_ALL_RESERVE = 1024 := by decide

/-- The standard descriptors that `subshell_body` and `PipeSet::move_to_stdin_stdout` name in their guards,
    `dup2` targets and the `dup(STDOUT, Fd(0))` of the special case, as extracted from the two functions on this
    run, are the literals `1` / `0` that `substChild`, `PipeSet.connectStdout`, `connectStdin` (Fds.lean) and the
    driver's `minUnused 64 0` hard-code (decide over the generated table). -/
theorem real_fd_targets :
    Generated.PipeConsts.SUBST_GUARD_FD = 1 ∧ Generated.PipeConsts.SUBST_DUP2_TARGET = 1 ∧
    Generated.PipeConsts.MOVE_WRITER_GUARD_FD = 1 ∧ Generated.PipeConsts.MOVE_SPECIAL_FD = 1 ∧
    Generated.PipeConsts.MOVE_DUP_SOURCE = 1 ∧ Generated.PipeConsts.MOVE_DUP_MIN = 0 ∧
    Generated.PipeConsts.MOVE_WRITER_TARGET = 1 ∧ Generated.PipeConsts.MOVE_READER_GUARD_FD = 0 ∧
    Generated.PipeConsts.MOVE_READER_TARGET = 0 := by decide

/-- How a here-document reaches the command, as extracted from `here_doc::open_fd` / `fill_content` on this run:
    no `pipe(` call (there is no size threshold: the source carries a `TODO Use a pipe for short content`; bodies
    of every size go to the temporary file), one `open_tmpfile(`, and the rewind is `SeekFrom::Start(0)` — what
    `heredocFill` of File.lean transcribes and `heredoc_delivers_bytes` is about.  A threshold with a pipe, or a
    relative rewind, changes these numbers and breaks this `decide`. -/
theorem real_heredoc_delivery :
    Generated.PipeConsts.HEREDOC_PIPE_CALLS = 0 ∧ Generated.PipeConsts.HEREDOC_TMPFILE_CALLS = 1 ∧
    Generated.PipeConsts.HEREDOC_SEEK_ORIGIN = 0 ∧ Generated.PipeConsts.HEREDOC_SEEK_OFFSET = 0 := by decide

/-- ★ Conservation: in every reachable state — every payload, every capacity with
    `1 ≤ PIPE_BUF ≤ PIPE_SIZE`, every request/buffer size ≥ 1, every interleaving —
    what the reader has received, followed by what is buffered, followed by what the writer has
    still to send, is the payload: complete, exactly once, in order; and the buffer never exceeds
    the capacity. -/
theorem pipe_conservation (c : Cfg) (_hv : c.Valid) (payload : List α) (s : Sys α)
    (hr : Reach c payload s) :
    s.received ++ s.pipe.content ++ s.unsent = payload ∧ s.pipe.content.length ≤ c.pipeSize :=
  ⟨(inv_reach hr).cons, (inv_reach hr).cap⟩

/-- the writer never sees EPIPE: the reader closes only after end of file -/
theorem no_epipe (c : Cfg) (payload : List α) (s : Sys α) (hr : Reach c payload s) : s.wpc ≠ .failed :=
  (inv_reach hr).nofail

/-- ★ No deadlock: in every reachable state that is not final (writer closed, reader at end of
    file) some process can take a step — a suspended process counts only if its descriptor is
    ready (`is_ready_for_writing`: room ≥ PIPE_BUF; `is_ready_for_reading`: data or no writer).
    Uses `PIPE_BUF ≤ PIPE_SIZE` (an empty pipe is ready for writing). -/
theorem pipe_no_deadlock (c : Cfg) (hv : c.Valid) (payload : List α) (s : Sys α)
    (hr : Reach c payload s) (hnf : s.final = false) :
    ∃ a s', a.ok = true ∧ s.step c a = some s' :=
  enabled_of_inv c hv payload s (inv_reach hr) hnf

/-- ★ End of file exactly when done: for a reader that has not finished, a `read` into a buffer of
    `n ≥ 1` bytes returns 0 if and only if the writer has closed and the buffer has drained. -/
theorem eof_iff_done (c : Cfg) (payload : List α) (s : Sys α) (hr : Reach c payload s)
    (n : Nat) (hn : 1 ≤ n) :
    (∃ p, s.pipe.read n = (.data [], p)) ↔ (s.wpc = .closed ∧ s.pipe.content = []) := by
  have hi := inv_reach hr
  obtain ⟨cons, cap, rd, wr, done_imp, closed_imp, nofail⟩ := hi
  constructor
  · rintro ⟨p, hp⟩
    have ⟨hbs, _, hw0⟩ := read_data hn hp
    have hc : s.pipe.content = [] := by
      cases hcc : s.pipe.content with
      | nil => rfl
      | cons a t =>
        rw [hcc] at hbs
        cases n with
        | zero => omega
        | succ m => simp at hbs
    have hw : s.pipe.writers = 0 := hw0 hc
    refine ⟨?_, hc⟩
    rw [wr] at hw
    split at hw
    next hor =>
      cases hor with
      | inl h1 => exact h1
      | inr h2 => exact absurd h2 nofail
    next => omega
  · rintro ⟨hw, hc⟩
    have hw0 : s.pipe.writers = 0 := by rw [wr]; simp [hw]
    refine ⟨{ s.pipe with content := s.pipe.content.drop n }, ?_⟩
    unfold Fifo.read
    have : n ≠ 0 := by omega
    simp [this, hw0, hc]

/-- … and a reader that has seen end of file has received the whole payload (and the writer had
    nothing left, and nothing is buffered) -/
theorem done_complete (c : Cfg) (payload : List α) (s : Sys α) (hr : Reach c payload s)
    (hd : s.rpc = .done) :
    s.received = payload ∧ s.wpc = .closed ∧ s.pipe.content = [] ∧ s.unsent = [] := by
  have hi := inv_reach hr
  have ⟨hw, hc⟩ := hi.done_imp hd
  have hu := hi.closed_imp hw
  have := hi.cons
  rw [hc, hu] at this
  exact ⟨by simpa using this, hw, hc, hu⟩

/-- ☆ Progress: every step of either process strictly decreases `Sys.measure` (uses `1 ≤ PIPE_BUF`:
    a writer that suspends is not ready at that moment, so suspend/resume cannot spin). -/
theorem pipe_progress (c : Cfg) (hv : c.Valid) (payload : List α) (s s' : Sys α) (a : Act)
    (hr : Reach c payload s) (ha : a.ok = true) (hs : s.step c a = some s') :
    s'.measure c < s.measure c := by
  have hi := inv_reach hr
  cases a with
  | w k => exact measure_stepW hv (by simpa [Act.ok] using ha) hi hs
  | r n => exact measure_stepR (by simpa [Act.ok] using ha) hi hs

/-- ☆ Termination: under every scheduler the transfer takes at most `6·|payload| + 6` steps … -/
theorem pipe_terminates (c : Cfg) (hv : c.Valid) (payload : List α) (s : Sys α) (n : Nat)
    (he : Exec c (Sys.init payload) n s) : n ≤ 6 * payload.length + 6 := by
  have key : ∀ (s0 s1 : Sys α) (n : Nat), Reach c payload s0 → Exec c s0 n s1 →
      n + s1.measure c ≤ s0.measure c := by
    intro s0 s1 n hr he
    induction he with
    | refl => omega
    | step a ha hs _ ih =>
      have h1 := pipe_progress c hv payload _ _ a hr ha hs
      have h2 := ih (Reach.step a hr ha hs)
      omega
  have := key _ _ _ Reach.init he
  have hm : (Sys.init payload).measure c = 6 * payload.length + 6 := by
    simp [Sys.measure, Sys.init, wcostOf, rcostOf]
  omega

/-- ☆ … and where it stops (no process can step) both have finished and the reader holds exactly
    the payload. -/
theorem pipe_complete (c : Cfg) (hv : c.Valid) (payload : List α) (s : Sys α)
    (hr : Reach c payload s) (hstop : ∀ a, a.ok = true → s.step c a = none) :
    s.final = true ∧ s.received = payload := by
  have hf : s.final = true := by
    cases hfin : s.final with
    | true => rfl
    | false =>
      obtain ⟨a, s', ha, hs⟩ := pipe_no_deadlock c hv payload s hr hfin
      rw [hstop a ha] at hs
      simp at hs
  refine ⟨hf, ?_⟩
  have hd : s.rpc = .done := by
    simp only [Sys.final, Bool.and_eq_true, beq_iff_eq] at hf
    exact hf.2
  exact (done_complete c payload s hr hd).1

/-- ☆ PIPE_BUF atomicity of `write`: a request of at most PIPE_BUF bytes is written completely or
    not at all (EPIPE / would block); a larger one that does not block writes a non-empty prefix. -/
theorem write_atomic (c : Cfg) (p : Fifo α) (buf : List α) :
    (buf.length ≤ c.pipeBuf →
      (p.write c buf).1 = .epipe ∨ (p.write c buf).1 = .block ∨
        p.write c buf = (.wrote buf.length, { p with content := p.content ++ buf })) ∧
    (∀ n p', p.write c buf = (.wrote n, p') → p'.content = p.content ++ buf.take n ∧ (buf ≠ [] → 1 ≤ n)) := by
  constructor
  · intro hb
    unfold Fifo.write
    split
    · exact Or.inl rfl
    · split
      · split
        · exact Or.inr (Or.inl rfl)
        · rename_i h
          exact absurd (Or.inr hb) h
      · exact Or.inr (Or.inr rfl)
  · intro n p' h
    have ⟨_, hp, _, _, h1, _⟩ := write_wrote h
    exact ⟨by rw [hp], h1⟩

/-- ★ Command substitution removes exactly the trailing newlines: the result followed by some
    number of newlines is the output, and the result does not end with a newline. -/
theorem trim_exact [DecidableEq α] (nl : α) (s : List α) :
    trimEnd nl s ++ List.replicate (s.length - (trimEnd nl s).length) nl = s ∧
      (trimEnd nl s).getLast? ≠ some nl := by
  obtain ⟨k, hk⟩ := dropWhile_eq_append_replicate nl s.reverse
  have hs : s = trimEnd nl s ++ List.replicate k nl := by
    have := congrArg List.reverse hk
    simpa [trimEnd] using this
  constructor
  · have hl : s.length = (trimEnd nl s).length + k := by
      have := congrArg List.length hs
      simpa using this
    have : s.length - (trimEnd nl s).length = k := by omega
    rw [this]
    exact hs.symm
  · unfold trimEnd
    rw [List.getLast?_reverse]
    exact dropWhile_head nl s.reverse

/-- ☆ … and nothing else: the result is the *only* list with that property. -/
theorem trim_unique [DecidableEq α] (nl : α) (s t : List α) (k : Nat)
    (h : t ++ List.replicate k nl = s) (hl : t.getLast? ≠ some nl) : t = trimEnd nl s := by
  subst h
  unfold trimEnd
  rw [List.reverse_append, List.reverse_replicate, dropWhile_replicate_append]
  have : t.reverse.dropWhile (· = nl) = t.reverse := by
    cases hr : t.reverse with
    | nil => rfl
    | cons a r =>
      have ha : a ≠ nl := by
        intro he
        apply hl
        rw [← List.head?_reverse, hr, he]
        rfl
      simp [ha]
  rw [this, List.reverse_reverse]

/-- ☆ the scan from the end (the code) agrees with the recursion from the front (the Spec) -/
theorem trim_eq_spec [DecidableEq α] (nl : α) (s : List α) : trimEnd nl s = specTrim nl s := by
  suffices h : ∃ k, specTrim nl s ++ List.replicate k nl = s ∧ (specTrim nl s).getLast? ≠ some nl by
    obtain ⟨k, h1, h2⟩ := h
    exact (trim_unique nl s _ k h1 h2).symm
  induction s with
  | nil => exact ⟨0, by simp [specTrim]⟩
  | cons a t ih =>
    obtain ⟨k, h1, h2⟩ := ih
    by_cases hc : (specTrim nl t).isEmpty = true ∧ a = nl
    · obtain ⟨he, ha⟩ := hc
      have he' : specTrim nl t = [] := by simpa using he
      refine ⟨k + 1, ?_, ?_⟩
      · rw [he'] at h1
        simp only [specTrim, he, ha, Bool.true_and, decide_true, if_true]
        simp only [List.nil_append] at h1 ⊢
        rw [List.replicate_succ, h1]
      · simp [specTrim, he, ha]
    · refine ⟨k, ?_, ?_⟩
      · have : specTrim nl (a :: t) = a :: specTrim nl t := by
          simp only [specTrim]
          split
          next hh =>
            simp only [Bool.and_eq_true, decide_eq_true_eq] at hh
            exact absurd hh hc
          next => rfl
        rw [this, List.cons_append, h1]
      · have : specTrim nl (a :: t) = a :: specTrim nl t := by
          simp only [specTrim]
          split
          next hh =>
            simp only [Bool.and_eq_true, decide_eq_true_eq] at hh
            exact absurd hh hc
          next => rfl
        rw [this]
        cases hst : specTrim nl t with
        | nil =>
          simp only [List.getLast?_singleton, ne_eq, Option.some.injEq]
          intro ha
          exact hc ⟨by simp [hst], ha⟩
        | cons b r =>
          rw [hst] at h2
          simpa [List.getLast?_cons_cons] using h2

/-- ☆ n-stage composition: if every stage forwards its input unchanged (which `pipe_complete`
    gives for each pipe under every scheduler) the pipeline is the identity. -/
theorem stages_identity (f : List α → List α) (hf : ∀ x, f x = x) (k : Nat) (x : List α) :
    stages f k x = x := by
  induction k generalizing x with
  | zero => rfl
  | succ m ih => simp [stages, hf, ih]

/-! ### end to end: what the driver computes is what the property says -/

/-- ★ The function the model driver runs for one pipe — the seeded scheduler `runSchedStop` started in
    `Sys.init x` with the fuel the driver gives it — returns exactly the payload: for every payload,
    every valid capacity, every schedule seed, every writer piece size and every reader buffer size.
    (Chain: the scheduler only takes `Sys.step`s with requests ≥ 1 → `Reach`; every step lowers the
    measure, which starts below the fuel; where neither move is possible no step at all is possible →
    `pipe_no_deadlock` says the state is final → the invariant gives `received = payload`.) -/
theorem transfer_delivers (c : Cfg) (hv : c.Valid) (seed wk rk : Nat) (x : List α) :
    transfer c seed wk rk x = some x :=
  transfer_eq c hv seed wk rk x

/-- nested command substitution: trimming what an inner `$( )` produced (re-terminated by `echo`'s
    newline) gives the same value as the inner substitution — nothing more is lost on the way out -/
theorem nested_subst_same [DecidableEq α] (nl : α) (s : List α) :
    trimEnd nl (trimEnd nl s ++ [nl]) = trimEnd nl s := by
  have h := trim_exact nl s
  exact (trim_unique nl (trimEnd nl s ++ [nl]) (trimEnd nl s) 1 (by simp) h.2).symm

/-- ★ End to end for a whole shell-level flow: for every shape made of pipeline stages (`c`, `y`),
    groups (`g`), command substitutions (`s`) and here-documents with expansion (`h`) — any number of
    them, nested in any order —, every input and every schedule seed, the Impl model of the flow
    (each pipe a scheduled run of writer ∥ reader, each `$( )` the code's decode-and-trim) yields
    exactly what the Spec of the flow says (pipes are the identity; `$( )` removes exactly the
    trailing newlines, by the recursive `specTrim`). -/
theorem flow_model_eq_spec (c : Cfg) (hv : c.Valid) (shape : List Char)
    (hs : ∀ ch ∈ shape, ch = 'c' ∨ ch = 'y' ∨ ch = 'g' ∨ ch = 's' ∨ ch = 'h') (seed : Nat) (x : List Nat) :
    flowModel c seed shape x = some (flowSpec shape x) := by
  induction shape generalizing seed x with
  | nil => rfl
  | cons ch rest ih =>
    have hrest : ∀ d ∈ rest, d = 'c' ∨ d = 'y' ∨ d = 'g' ∨ d = 's' ∨ d = 'h' :=
      fun d hd => hs d (List.mem_cons_of_mem ch hd)
    have hch := hs ch List.mem_cons_self
    simp only [flowModel, flowSpec, transfer_eq c hv, Option.bind_some, specTransfer, specSubst, substValue,
      trim_eq_spec]
    rcases hch with h | h | h | h | h <;> subst h <;> simp [ih hrest]

/-- ★ What a command substitution hands to the shell, stated exactly, for the character the code trims (extracted
    from `expand_common` on this run, `SUBST_TRIM_CHAR`): for EVERY output `bs` of the child (any length — far
    beyond PIPE_SIZE —, any bytes; `lossyFF` = the lossy decoding, the identity on output without 0xFF bytes), the
    value is the decoded output minus ALL its trailing newlines and nothing else: value ++ k newlines = decoded
    output for some k; the value does not end in a newline; it is the only list with these two properties; and it
    is a prefix of the decoded output (interior newlines, and every other byte, are kept in place). -/
theorem subst_strips_exactly (bs : List Nat) :
    (∃ k, substValue bs ++ List.replicate k Generated.PipeConsts.SUBST_TRIM_CHAR = lossyFF bs) ∧
    (substValue bs).getLast? ≠ some Generated.PipeConsts.SUBST_TRIM_CHAR ∧
    (∀ t k, t ++ List.replicate k Generated.PipeConsts.SUBST_TRIM_CHAR = lossyFF bs →
      t.getLast? ≠ some Generated.PipeConsts.SUBST_TRIM_CHAR → t = substValue bs) ∧
    substValue bs = (lossyFF bs).take (substValue bs).length ∧
    ((∀ b ∈ bs, b ≠ 255) → lossyFF bs = bs) := by
  have e : Generated.PipeConsts.SUBST_TRIM_CHAR = 10 := rfl
  rw [e]
  have h1 := trim_exact (10 : Nat) (lossyFF bs)
  refine ⟨⟨_, h1.1⟩, h1.2, fun t k ht hl => trim_unique 10 (lossyFF bs) t k ht hl, ?_, lossyFF_id bs⟩
  have h2 : (trimEnd 10 (lossyFF bs) ++
      List.replicate ((lossyFF bs).length - (trimEnd 10 (lossyFF bs)).length) 10).take
        (trimEnd 10 (lossyFF bs)).length = trimEnd 10 (lossyFF bs) := by simp
  rw [h1.1] at h2
  exact h2.symm

/-- on a concrete output with interior and trailing newlines and a multi-byte character -/
example : substValue [230, 157, 177, 10, 10, 97, 10, 195, 169, 10, 10, 10] = [230, 157, 177, 10, 10, 97, 10, 195, 169] := by
  decide

/-- ★ Command substitution on output that is not UTF-8, stated for the general decoder (`lossyGen` = C18's model of
    `String::from_utf8_lossy`, which is what `expand_common` falls back to; the driver uses it for the payloads with
    ill-formed sequences of every kind): for EVERY child output the value is the lossily decoded output minus all
    its trailing occurrences of the extracted trim character and nothing else — value ++ k such characters = decoded
    output, the value does not end in one, it is the only such list.  (U+FFFD never ends in a newline byte, so an
    ill-formed tail is kept.) -/
theorem subst_lossy_strips_exactly (bs : List Nat) :
    (∃ k, trimEnd Generated.PipeConsts.SUBST_TRIM_CHAR (lossyGen bs) ++
        List.replicate k Generated.PipeConsts.SUBST_TRIM_CHAR = lossyGen bs) ∧
    (trimEnd Generated.PipeConsts.SUBST_TRIM_CHAR (lossyGen bs)).getLast? ≠ some Generated.PipeConsts.SUBST_TRIM_CHAR ∧
    (∀ t k, t ++ List.replicate k Generated.PipeConsts.SUBST_TRIM_CHAR = lossyGen bs →
      t.getLast? ≠ some Generated.PipeConsts.SUBST_TRIM_CHAR →
      t = trimEnd Generated.PipeConsts.SUBST_TRIM_CHAR (lossyGen bs)) := by
  have h1 := trim_exact Generated.PipeConsts.SUBST_TRIM_CHAR (lossyGen bs)
  exact ⟨⟨_, h1.1⟩, h1.2, fun t k ht hl => trim_unique _ (lossyGen bs) t k ht hl⟩

/-- what the decoder does, class by class (each ill-formed maximal prefix becomes EF BF BD, decoding resumes at the
    offending byte): lone continuation; truncated 3-byte sequence before ASCII; overlong C0 AF (two bytes that cannot
    occur); surrogate ED A0 80; F5; truncated 4-byte sequence at the end; 0xFF as `lossyFF`; valid text untouched -/
example :
    lossyGen [97, 128, 98] = [97, 239, 191, 189, 98] ∧
    lossyGen [230, 157, 97] = [239, 191, 189, 97] ∧
    lossyGen [192, 175] = [239, 191, 189, 239, 191, 189] ∧
    lossyGen [237, 160, 128] = [239, 191, 189, 239, 191, 189, 239, 191, 189] ∧
    lossyGen [245, 10] = [239, 191, 189, 10] ∧
    lossyGen [240, 159, 152] = [239, 191, 189] ∧
    lossyGen [97, 255, 0, 10] = lossyFF [97, 255, 0, 10] ∧
    lossyGen [230, 157, 177, 10, 195, 169] = [230, 157, 177, 10, 195, 169] := by
  decide

/-! ### the Spec's POSIX laws are met by the model operations (Spec column characterised) -/

/-- the model's `write` obeys the POSIX write law of the Spec (`specWriteOk`, incl. the `_POSIX_PIPE_BUF`
    atomicity bound) in every state within capacity, for every request -/
theorem write_meets_spec (c : Cfg) (hp : posixPipeBuf ≤ c.pipeBuf) (p : Fifo α) (buf : List α)
    (hcap : p.content.length ≤ c.pipeSize) :
    specWriteOk c p buf.length (p.write c buf).1 (p.write c buf).2 buf = true := by
  unfold Fifo.write Fifo.room
  by_cases hr : p.readers = 0
  · simp [hr, specWriteOk]
  · simp only [hr, if_false]
    by_cases h1 : c.pipeSize - p.content.length < buf.length
    · simp only [h1, if_true]
      by_cases h2 : c.pipeSize - p.content.length = 0 ∨ buf.length ≤ c.pipeBuf
      · simp only [h2, if_true, specWriteOk]
        have hor : buf.length ≤ c.pipeBuf ∨ buf.length ≤ posixPipeBuf ↔ buf.length ≤ c.pipeBuf := by
          constructor
          · rintro (h | h) <;> omega
          · exact Or.inl
        simp only [hor]
        by_cases h3 : buf.length ≤ c.pipeBuf
        · simp [h3, hr, h1]
        · simp only [h3, if_false]
          have : c.pipeSize - p.content.length = 0 := by
            rcases h2 with h | h
            · exact h
            · exact absurd h h3
          simp [hr, this]
      · simp only [h2, if_false, specWriteOk]
        have h3 : ¬ buf.length ≤ c.pipeBuf := fun h => h2 (Or.inr h)
        have h4 : ¬ buf.length ≤ posixPipeBuf := by omega
        have h5 : c.pipeSize - p.content.length ≠ 0 := fun h => h2 (Or.inl h)
        simp only [h3, h4, or_self, if_false]
        simp [hr, List.length_take]
        omega
    · simp only [h1, if_false, specWriteOk]
      simp [hr]
      omega

/-- the model's `read` obeys the POSIX read law of the Spec (`specReadOk`) in every state, for every size -/
theorem read_meets_spec (p : Fifo α) (n : Nat) :
    specReadOk p n (match (p.read n).1 with | .block => true | .data _ => false)
      (match (p.read n).1 with | .block => 0 | .data bs => bs.length) = true := by
  unfold Fifo.read specReadOk
  by_cases hn : n = 0
  · simp [hn]
  · simp only [hn, if_false]
    by_cases hb : p.content.length = 0 ∧ 0 < p.writers
    · have hc : p.content = [] := List.eq_nil_of_length_eq_zero hb.1
      simp only [hb, and_self, if_true]
      simp [hc]
      omega
    · simp only [hb, if_false]
      by_cases hc : p.content = []
      · have : ¬ 0 < p.writers := fun h => hb ⟨by simp [hc], h⟩
        simp [hc]
        omega
      · have hl : 0 < p.content.length := List.length_pos_iff.mpr hc
        have : min n p.content.length ≠ 0 := by omega
        simp [List.length_take, this]

/-! ### a consumer that stops early, EPIPE -/

/-- `write` fails with EPIPE exactly when the pipe has no reader, and then nothing is buffered -/
theorem write_epipe_iff (c : Cfg) (p : Fifo α) (buf : List α) :
    ((p.write c buf).1 = .epipe ↔ p.readers = 0) ∧ (p.readers = 0 → p.write c buf = (.epipe, p)) := by
  unfold Fifo.write
  refine ⟨⟨fun h => ?_, fun h => by simp [h]⟩, fun h => by simp [h]⟩
  by_cases hr : p.readers = 0
  · exact hr
  · simp only [hr, if_false] at h
    split at h
    · split at h <;> simp at h
    · simp at h

/-- ☆ Conservation survives a reader that closes early (`Reach2` = `Reach` plus the step "the
    running reader closes its end"): still `received ++ buffered ++ unsent = payload`, so what the
    reader has taken is a prefix of the payload — nothing lost before the point where it stopped,
    nothing duplicated or reordered — and the capacity bound holds. -/
theorem pipe_conservation_early_close (c : Cfg) (payload : List α) (s : Sys α) (hr : Reach2 c payload s) :
    s.received ++ s.pipe.content ++ s.unsent = payload ∧ s.pipe.content.length ≤ c.pipeSize ∧
      ∃ rest, payload = s.received ++ rest := by
  have h := cons_reach2 hr
  exact ⟨h.1, h.2, s.pipe.content ++ s.unsent, by rw [← h.1, List.append_assoc]⟩

/-- ☆ … and a writer that still has data finds out: with no reader left its next `write` is EPIPE,
    `write_all` gives up (`failed`), and no further byte enters the pipe. -/
theorem early_close_epipe (c : Cfg) (s : Sys α) (k : Nat) (_hk : 1 ≤ k)
    (hr : s.pipe.readers = 0) (hw : s.wpc = .run) (hu : s.unsent ≠ []) :
    ∃ s', s.stepW c k = some s' ∧ s'.wpc = .failed ∧ s'.unsent = s.unsent ∧
      s'.pipe.content = s.pipe.content ∧ s'.received = s.received := by
  have he : s.unsent.isEmpty = false := by cases hs : s.unsent <;> simp_all
  have hwr := (write_epipe_iff c s.pipe (s.unsent.take k)).2 hr
  refine ⟨{ s with pipe := s.pipe.closeFd false true, wpc := .failed }, ?_, rfl, rfl, ?_, rfl⟩
  · unfold Sys.stepW
    rw [hw]
    simp only [he, Bool.false_eq_true, if_false, hwr]
  · simp [Fifo.closeFd]

/-- ★ A reader that stops after K bytes gets exactly the first K bytes.  For the function the driver runs for
    `xfer … stop=K` (`runSchedStop … (some K)` with the driver's fuel: the reader asks for at most what is missing
    to K and closes its end once it has K bytes), for every payload, valid capacity, seed, writer piece size,
    reader buffer size and K: the run ends with both processes finished; the reader holds exactly
    `payload.take K` — the first K bytes in order, all of the payload when K exceeds it; the writer has either
    completed (`closed`, nothing left unsent) or met EPIPE (`failed`), and it has met EPIPE whenever more than
    K + PIPE_SIZE bytes were to be sent; nothing is reordered: received ++ buffered ++ unsent is still the
    payload. -/
theorem stop_delivers_exactly (c : Cfg) (hv : c.Valid) (seed wk rk K : Nat) (x : List α) :
    let s := runSchedStop c x.length wk rk (some K) (12 * x.length + 200) seed (Sys.init x)
    s.rpc = .done ∧ s.received = x.take K ∧ (s.wpc = .closed ∨ s.wpc = .failed) ∧
      (s.wpc = .closed → s.unsent = []) ∧ (K + c.pipeSize < x.length → s.wpc = .failed) ∧
      s.received ++ s.pipe.content ++ s.unsent = x := by
  have hm : (Sys.init x).measure c ≤ 12 * x.length + 200 := by
    have : (Sys.init x).measure c = 6 * x.length + 6 := by simp [Sys.measure, Sys.init, wcostOf, rcostOf]
    omega
  obtain ⟨hi, hw, hr⟩ := runStop_end hv x.length wk rk (12 * x.length + 200) seed (Sys.init x)
    (sinv_init c x K) hm
  simp only
  generalize runSchedStop c x.length wk rk (some K) (12 * x.length + 200) seed (Sys.init x) = s at hi hw hr
  obtain ⟨hd, hwp⟩ := stop_final hv hi hw hr
  have hcons := hi.cons.1
  have hcap := hi.cons.2
  have hrecv : s.received = x.take K := by
    rcases hi.done_imp hd with h | ⟨h1, h2⟩
    · rw [← hcons, List.append_assoc, ← h, List.take_left']
      rfl
    · have hu := hi.closed_imp h1
      rw [h2, hu] at hcons
      simp only [List.append_nil] at hcons
      rw [← hcons, List.take_of_length_le hi.lenK]
  refine ⟨hd, hrecv, hwp, hi.closed_imp, fun hlt => ?_, hcons⟩
  rcases hwp with h | h
  · have hu := hi.closed_imp h
    have hl := congrArg List.length hcons
    simp only [hu, List.length_append, List.length_nil] at hl
    have := hi.lenK
    omega
  · exact h

/-- `stop_delivers_exactly` evaluated (PIPE_SIZE 8, PIPE_BUF 4): 30 bytes, the reader stops after 5 — it holds
    bytes 0…4, the writer (more than 5 + 8 bytes to send) ends with EPIPE -/
example :
    let s := runSchedStop ({ pipeSize := 8, pipeBuf := 4 } : Cfg) 30 0 3 (some 5) (12 * 30 + 200) 7 (Sys.init (List.range 30))
    s.received = [0, 1, 2, 3, 4] ∧ s.wpc = .failed ∧ s.rpc = .done := by
  decide

/-! ### the `read` built-in -/

/-- ★ `IFS= read -r` on a pipe or file holding `utf8 line ++ "\n" ++ rest`, for **every** line of
    characters without a newline (1- to 4-byte characters alike): the value assigned is the line
    byte for byte, the status is 0 (3 = read error if the line contains a NUL), the newline is consumed
    and exactly `rest` is left for the next reader. -/
theorem read_raw_line (cs : List Char) (rest : List UInt8) (h : '\n' ∉ cs) :
    readBuiltin true (utf8 cs ++ 10 :: rest) =
      (if (utf8 cs).contains 0 then 3 else 0, if (utf8 cs).contains 0 then [] else utf8 cs, rest) := by
  unfold readBuiltin
  have hl := utf8_length_ge cs
  rw [readLine_raw_utf8 cs rest [] h _ (by simp only [List.length_append, List.length_cons]; omega)]
  simp only [List.nil_append]
  split <;> simp_all

/-- the ASCII instance of `read_raw_line` stated on bytes (kept from the previous round) -/
theorem read_raw_line_partial (line rest : List UInt8) (h : ∀ b ∈ line, b < 0x80 ∧ b ≠ 10) :
    readBuiltin true (line ++ 10 :: rest) = (if line.contains 0 then 3 else 0, if line.contains 0 then [] else line, rest) := by
  unfold readBuiltin
  rw [readLine_raw_ascii line rest [] h _ (by simp only [List.length_append, List.length_cons]; omega)]
  simp only [List.nil_append]
  split <;> simp_all

/-- ★ The decoded line does not depend on how many bytes each `read(2)` returned: a reader that takes
    the first byte of a character alone and asks for all remaining bytes at once, adding the count
    each call actually returned (`len += count`), produces — for every input, raw or not, and every
    schedule of short reads (`shorts`: how many bytes the pipe holds at each call, any numbers) —
    exactly the result of the byte-by-byte reader.  (The round-3 regression assumed `len = end`,
    i.e. that a request is always filled: that is precisely what fails when a character straddles
    what the writer has supplied so far.) -/
theorem read_line_chunking_irrelevant (raw : Bool) (fuel : Nat) (input acc : List UInt8) (shorts : List Nat) :
    readLineChunked raw fuel input acc shorts = readLine raw fuel input acc :=
  readLineChunked_eq raw fuel input acc shorts

/-- … because collecting `need` bytes by short reads consumes exactly the next `need` bytes -/
theorem short_reads_collect_prefix (need : Nat) (input : List UInt8) (shorts : List Nat) :
    (gather need input shorts).1 = input.take need ∧ (gather need input shorts).2.1 = input.drop need :=
  gatherF_spec need need input shorts (Nat.le_refl _)

/-- ★ C14 ∘ C18: the two transcriptions of `read/input.rs` agree.  On every ASCII input, with or without `-r`,
    C14's reader (`readLine`, File.lean) and C18's reader (`Input.readLine`, Input/Model.lean) find a newline or not
    alike and leave the same bytes on the descriptor; neither reports EILSEQ. -/
theorem read_agrees_with_input_model (raw : Bool) (input : List UInt8) (h : ∀ b ∈ input, b < 0x80) :
    convP (readLine raw (input.length + 1) input []) = convIn (Input.readLine 10 raw input []) :=
  (read_agree_aux raw input h).1 _ _ _ (Nat.le_refl _)

/-- ★ Non-raw `read` behind a pipe takes exactly one logical line (C18's Spec, `Input.firstLogicalLine`: the
    shortest prefix that ends in a newline preceded by an even number of backslashes; with `-r`: the first
    newline): for every ASCII input and every schedule of short reads (`shorts`: a backslash may be the last byte
    of a chunk, a backslash-newline continuation may straddle two chunks), if the reader reports a complete line
    then what it consumed is that first logical line and what it leaves is exactly what follows it; if it reports
    end of input then no prefix of the input is a complete logical line and nothing is left; it never fails. -/
theorem read_takes_one_logical_line (raw : Bool) (input : List UInt8) (shorts : List Nat)
    (h : ∀ b ∈ input, b < 0x80) :
    match readLineChunked raw (input.length + 1) input [] shorts with
    | .line _ true rest => ∃ pre, pre ++ rest = input ∧ Input.firstLogicalLine 10 raw input = some (pre, rest)
    | .line _ false rest => rest = [] ∧ Input.firstLogicalLine 10 raw input = none
    | .eilseq => False := by
  rw [read_line_chunking_irrelevant]
  have ha := read_agrees_with_input_model raw input h
  obtain ⟨g1, g2, g3⟩ := Input.read_logical_line 10 (by decide) raw input
  cases hr : readLine raw (input.length + 1) input [] with
  | eilseq =>
    rw [hr] at ha
    simp only [convP, convIn] at ha
    split at ha <;> simp at ha
    rename_i herr
    -- C18's reader fails only on invalid UTF-8; ASCII input is valid
    have hv := (g3 herr).1
    exact absurd hv (by
      have : Input.validUtf8 [] input = true := by
        clear ha hr g1 g2 g3 herr hv
        induction input with
        | nil => simp [Input.validUtf8]
        | cons b t ih =>
          have hb := h b List.mem_cons_self
          have := ih fun x hx => h x (List.mem_cons_of_mem _ hx)
          have hc := utf8Check_ascii hb
          simp only [List.nil_append] at hc
          simp [Input.validUtf8, hc, this]
      simp [this])
  | line v nl rest =>
    rw [hr] at ha
    simp only [convP, convIn] at ha
    split at ha
    · rename_i hf
      simp only [Option.some.injEq, Prod.mk.injEq] at ha
      obtain ⟨rfl, hrest⟩ := ha
      obtain ⟨pre, e1, e2⟩ := g1 hf
      simp only
      rw [hrest]
      exact ⟨pre, e1, e2⟩
    · rename_i hf
      simp only [Option.some.injEq, Prod.mk.injEq] at ha
      obtain ⟨rfl, hrest⟩ := ha
      obtain ⟨e1, e2⟩ := g2 hf
      simp only
      rw [hrest]
      exact ⟨e2, e1⟩
    · simp at ha

/-- on a concrete input `a\⏎b\\⏎rest`: a continuation line, an escaped backslash before the newline, text after
    it; short reads of 1, 1, 2 bytes -/
example :
    readLineChunked false 20 [97, 92, 10, 98, 92, 92, 10, 114, 101, 115, 116] [] [1, 1, 2] =
      .line [97, 98, 92] true [114, 101, 115, 116] := by
  decide

/-! ### two writers on one pipe -/

/-- ★ Two writers, one reader, one pipe — every pair of payloads, every interleaving of the three
    processes, every accepted-prefix length and read size at every step (so whatever capacity,
    PIPE_BUF atomicity or blocking allow): at every moment the bytes of each writer that the reader
    has received, followed by those still buffered, followed by those still unsent, are that writer's
    payload — complete, once, in that writer's order; and once both writers have nothing left and
    the buffer is empty the reader holds exactly the two payloads, merged. -/
theorem two_writers_conservation (pa pb : List α) (acts : List Act2) :
    let s := (Sys2.init pa pb).run acts
    proj true (s.received ++ s.content) ++ s.unsentA = pa ∧
    proj false (s.received ++ s.content) ++ s.unsentB = pb ∧
    (s.unsentA = [] → s.unsentB = [] → s.content = [] →
      proj true s.received = pa ∧ proj false s.received = pb ∧ s.received.length = pa.length + pb.length) := by
  have h := inv2_run pa pb (Sys2.init pa pb) acts (by simp [Inv2, Sys2.init, proj])
  obtain ⟨ha, hb⟩ := h
  refine ⟨ha, hb, fun ea eb ec => ?_⟩
  rw [ea, ec] at ha
  rw [eb, ec] at hb
  simp only [List.append_nil] at ha hb
  refine ⟨ha, hb, ?_⟩
  have := length_proj ((Sys2.init pa pb).run acts).received
  rw [ha, hb] at this
  omega

/-! ### descriptor choreography: the child really is connected to the pipe, whatever is open -/

/-- ★ Command substitution, child side (`subshell_body`): for every descriptor table of the shell —
    any of 0/1/2 closed, so that the pipe ends may land on them — and whatever unused descriptors
    `pipe()` hands out, after the child's prologue descriptor 1 refers to the writing end of the
    pipe, no other descriptor of the child refers to the writing end, none at all to the reading
    end, and every other descriptor is as it was. -/
theorem cmdsubst_stdout_is_writer (t : Table) (p : Nat) (r w : Fd) (hrw : r ≠ w) (hf : t.Fresh p) :
    ∃ t', substChild (t.pipe p r w) r w = some t' ∧
      t' 1 = some (.pw p) ∧
      (∀ fd, fd ≠ 1 → t' fd ≠ some (.pw p)) ∧ (∀ fd, t' fd ≠ some (.pr p)) ∧
      (∀ fd, fd ≠ 1 → fd ≠ r → fd ≠ w → t' fd = t fd) := by
  unfold Table.Fresh at hf
  unfold substChild Table.pipe Table.dup2 Table.close
  by_cases hw1 : w = 1
  · subst hw1
    refine ⟨_, by rw [if_neg (by simp)], ?_, ?_, ?_, ?_⟩ <;> grind [Table.set]
  · have hwr : w ≠ r := fun h => hrw h.symm
    simp only [ne_eq, hw1, not_false_eq_true, if_true]
    have e : ((t.set r (some (Ent.pr p))).set w (some (Ent.pw p))).set r none w = some (.pw p) := by
      simp [Table.set, hwr]
    rw [e]
    refine ⟨_, rfl, ?_, ?_, ?_, ?_⟩ <;> grind [Table.set]

/-- End to end for the descriptor side: the function the driver runs for a command substitution
    (`substRun`: lowest unused descriptors, as `Process::open_fd` allocates, then the child prologue)
    reports `connected` for every table that has two unused descriptors below 64 — descriptor 1 is the
    writing end and none of the descriptors it inspects is a stray end of the pipe. -/
theorem substRun_connected (t : Table) (p : Nat) (hf : t.Fresh p)
    (h : ∃ a b : Nat, a < b ∧ b < 64 ∧ t a = none ∧ t b = none) : (substRun t p).2 = true := by
  obtain ⟨r, w, e, hrw, _, _⟩ := alloc2_spec t h
  unfold substRun
  rw [e]
  simp only
  obtain ⟨t', ht', h1, hw, hr, _⟩ := cmdsubst_stdout_is_writer t p r w hrw hf
  rw [ht']
  simp only [h1, beq_self_eq_true, Bool.true_and, noStray, List.all_eq_true]
  intro fd _
  have a1 := hr fd
  by_cases e : fd = 1
  · subst e; simp [a1]
  · have a2 := hw fd e
    simp [a1, a2]

/-- … parent side (`expand_common`): after closing the writer the shell holds the reading end at
    `r` and nothing else of the pipe, so end of file arrives when the child's copies are closed. -/
theorem cmdsubst_parent_keeps_reader (t : Table) (p : Nat) (r w : Fd) (hrw : r ≠ w) (hf : t.Fresh p) :
    substParent (t.pipe p r w) w r = some (.pr p) ∧
      (∀ fd, fd ≠ r → substParent (t.pipe p r w) w fd ≠ some (.pr p)) ∧
      (∀ fd, substParent (t.pipe p r w) w fd ≠ some (.pw p)) := by
  unfold Table.Fresh at hf
  unfold substParent Table.pipe Table.close
  refine ⟨?_, ?_, ?_⟩ <;> grind [Table.set]

/-- ★ Pipeline member (`PipeSet::move_to_stdin_stdout`): for every descriptor table in which the
    parent's bookkeeping is accurate (`PInv`: `read_previous` is the only descriptor of the pipe `p`
    from the previous member, `next` the only two of the pipe `q` to the next member), and whatever
    unused descriptor `dup(STDOUT, 0)` hands out in the special case `read_previous == STDOUT`, the
    call succeeds and afterwards: descriptor 0 is the previous pipe's reading end (if there is a
    previous member), descriptor 1 the next pipe's writing end (if there is a next member), no other
    descriptor refers to any end of either pipe, and other files at descriptors ≥ 2 are untouched. -/
theorem pipeline_ends_connected (t : Table) (ps : PipeSet) (p q : Nat) (d : Fd)
    (hi : PInv t ps p q) (hd : ∀ r w, ps.next = some (r, w) → d ≠ r → t d = none) :
    ∃ t', ps.moveToStdinStdout t d = some t' ∧
      (∀ rp, ps.readPrevious = some rp → t' 0 = some (.pr p)) ∧
      (∀ r w, ps.next = some (r, w) → t' 1 = some (.pw q)) ∧
      (∀ fd, (t' fd = some (.pr p) → fd = 0) ∧ t' fd ≠ some (.pw p) ∧
             t' fd ≠ some (.pr q) ∧ (t' fd = some (.pw q) → fd = 1)) ∧
      (∀ fd, 2 ≤ fd → t fd = some .file → t' fd = some .file) := by
  have h := move_post t ps p q d hi hd
  cases hm : ps.moveToStdinStdout t d with
  | none => rw [hm] at h; exact h.elim
  | some t' => rw [hm] at h; exact ⟨t', rfl, h⟩

/-- ☆ … and the parent's bookkeeping *is* accurate: it holds for a fresh `PipeSet`, and `shift`
    (close `read_previous`, close the old writer, open the next pipe on any unused descriptors, or
    none after the last member) re-establishes it for the next member. -/
theorem pipeline_shift_inv (t : Table) (ps : PipeSet) (p q q' : Nat)
    (hi : PInv t ps p q) (hq' : t.Fresh q') (hqq : q ≠ q') :
    PInv (ps.shiftClose t).2 (ps.shiftClose t).1 q q' ∧
    ∀ r' w', r' ≠ w' → (ps.shiftClose t).2 r' = none → (ps.shiftClose t).2 w' = none →
      PInv (ps.shiftOpen t q' r' w').2 (ps.shiftOpen t q' r' w').1 q q' :=
  ⟨shift_close_inv t ps p q q' hi hq' hqq,
   fun r' w' hrw hr hw => shift_open_inv t ps p q q' r' w' hi hq' hqq hrw hr hw⟩

theorem pipeline_init_inv (t : Table) (p q : Nat) (hp : t.Fresh p) (hq : t.Fresh q) (hpq : p ≠ q) :
    PInv t {} p q := pinv_init t p q hp hq hpq

/-! ### here-documents: the body reaches standard input byte for byte -/

/-- ★ Here-document delivery (`here_doc::open_fd` / `fill_content`): for every body, writing its
    bytes to the new temporary file and rewinding to offset 0 leaves a description whose file holds
    exactly `utf8 body` at offset 0; whatever buffer sizes the reader uses, what it has received
    after any number of `read`s is the prefix of `utf8 body` of the total size asked for — the same
    bytes, in order, nothing skipped — and therefore all of `utf8 body` as soon as it has asked for
    at least that many, after which `read` returns 0 bytes. -/
theorem heredoc_delivers_bytes (body : List Char) :
    ∃ o, heredocFill (utf8 body) = some o ∧ o.content = utf8 body ∧ o.offset = 0 ∧
      (∀ ns : List Nat, (o.reads ns).1 = (utf8 body).take ns.sum) ∧
      (∀ ns : List Nat, (utf8 body).length ≤ ns.sum →
        (o.reads ns).1 = utf8 body ∧ ∀ n, ((o.reads ns).2.read n).1 = []) := by
  refine ⟨{ content := utf8 body, offset := 0 }, ?_, rfl, rfl, ?_, ?_⟩
  · simp [heredocFill, RegOfd.seek, RegOfd.write, RegOfd.tmpfile]
  · intro ns
    simpa using (reads_spec { content := utf8 body, offset := 0 } ns).1
  · intro ns hs
    have h := reads_spec { content := utf8 body, offset := 0 } ns
    simp only [List.drop_zero, Nat.zero_add] at h
    refine ⟨by rw [h.1, List.take_of_length_le hs], fun n => ?_⟩
    rw [h.2, List.take_of_length_le hs]
    simp [RegOfd.read]

/-- … in particular a `cat`-like reader (buffers of 1024 bytes, `|body|/1024 + 2` calls, as the driver
    runs it) drains exactly `utf8 body` -/
theorem heredoc_cat_drains (body : List Char) :
    (heredocFill (utf8 body)).map (fun o => (o.reads (List.replicate ((utf8 body).length / 1024 + 2) 1024)).1) =
      some (utf8 body) := by
  obtain ⟨o, ho, _, _, _, hall⟩ := heredoc_delivers_bytes body
  rw [ho]
  simp only [Option.map_some, Option.some.injEq]
  refine (hall _ ?_).1
  rw [sum_replicate_nat]
  have := Nat.div_add_mod (utf8 body).length 1024
  have := Nat.mod_lt (utf8 body).length (by decide : 0 < 1024)
  omega

/-- Why the rewind must be in *bytes*: rewinding (relative to the end of what was written) by the
    number of *characters* makes the reader see `utf8 body` without its first
    `|utf8 body| − |body|` bytes; that is a different byte string whenever the body contains a
    character outside ASCII (`2 ≤ utf8Size`) … -/
theorem heredoc_char_rewind_differs (body : List Char) (h : ∃ c ∈ body, 2 ≤ c.utf8Size) :
    ∃ o, heredocFillBack (utf8 body) body.length = some o ∧
      ∀ ns : List Nat, (utf8 body).length ≤ ns.sum →
        (o.reads ns).1 = (utf8 body).drop ((utf8 body).length - body.length) ∧
        (o.reads ns).1 ≠ utf8 body := by
  have hlt := utf8_length_gt body h
  have hoff : (0 : Int) ≤ ((utf8 body).length : Int) + -(body.length : Int) := by omega
  refine ⟨{ content := utf8 body, offset := (utf8 body).length - body.length }, ?_, ?_⟩
  · simp only [heredocFillBack, RegOfd.seek, RegOfd.write, RegOfd.tmpfile, List.length_nil, Nat.sub_self,
      List.replicate_zero, List.append_nil, List.take_nil, List.nil_append, List.drop_nil, Nat.zero_add, hoff, if_true]
    congr 2
    omega
  · intro ns hs
    have h1 := (reads_spec { content := utf8 body, offset := (utf8 body).length - body.length } ns).1
    simp only at h1
    have hl : ((utf8 body).drop ((utf8 body).length - body.length)).length ≤ ns.sum := by
      simp only [List.length_drop]; omega
    rw [List.take_of_length_le hl] at h1
    refine ⟨h1, fun he => ?_⟩
    have := congrArg List.length (h1.symm.trans he)
    simp only [List.length_drop] at this
    omega

/-- … and the very same byte string when the body is pure ASCII — which is why only bodies with
    multi-byte characters can tell the two apart. -/
theorem heredoc_char_rewind_ascii_same (body : List Char) (h : ∀ c ∈ body, c.utf8Size = 1) :
    heredocFillBack (utf8 body) body.length = heredocFill (utf8 body) := by
  have hl := utf8_length_ascii body h
  simp only [heredocFillBack, heredocFill, RegOfd.seek, RegOfd.write, RegOfd.tmpfile, List.length_nil,
    Nat.sub_self, List.replicate_zero, List.append_nil, List.take_nil, List.nil_append, List.drop_nil, Nat.zero_add, hl]
  have : (0 : Int) ≤ (body.length : Int) + -(body.length : Int) := by omega
  simp only [this, if_true]
  congr 2
  omega

/-! ### the wake-up half: wakers registered, fired and honoured (Wake.lean) -/

/-- ★ The system with explicit wakers refines the system of Model.lean: whatever the executor does — poll a
    process whose waker fired, poll one spuriously, in any order, with any request and buffer size ≥ 1 —
    the data side of every reachable state is a reachable state of writer ∥ reader, so conservation
    (`pipe_conservation`), the capacity bound, `no_epipe`, `eof_iff_done` and `done_complete` hold there too. -/
theorem wake_refines_pipe (c : Cfg) (payload : List α) (s : WSys α) (hr : WReach c payload s) :
    Reach c payload s.base ∧
      s.base.received ++ s.base.pipe.content ++ s.base.unsent = payload :=
  ⟨wreach_base hr, (inv_reach (wreach_base hr)).cons⟩

/-- ★ No lost wake-up: in every reachable state a process that is parked inside `select` and whose waker
    has not fired still has that waker registered in the FIFO's `pending_write_wakers` (writer) /
    `pending_read_wakers` (reader), and its descriptor is indeed not ready.  Contrapositive: as soon as the
    descriptor of a parked process is ready, its waker has fired — by the `wake_all` in the other side's
    `poll_read` / `poll_write` / `close` — and the executor will poll it. -/
theorem no_lost_wakeup (c : Cfg) (payload : List α) (s : WSys α) (hr : WReach c payload s) :
    (s.base.wpc = .wait → s.w.parked = true → s.w.woken = false →
      s.w.reg = true ∧ s.base.pipe.readyW c = false) ∧
    (s.base.rpc = .wait → s.r.parked = true → s.r.woken = false →
      s.r.reg = true ∧ s.base.pipe.readyR = false) :=
  ⟨(winv_reach hr).hw, (winv_reach hr).hr⟩

/-- ★ No deadlock with real wake-ups: in every reachable state that is not final the executor owes some
    process a poll — a *legitimate* one (`spur = false`: the process is running, or has yielded and not yet
    parked, or is parked and its waker has fired) — and that poll is a step.  Readiness alone no longer
    counts: a parked process moves only after a wake-up. -/
theorem wake_no_deadlock (c : Cfg) (hv : c.Valid) (payload : List α) (s : WSys α)
    (hr : WReach c payload s) (hnf : s.base.final = false) :
    ∃ a s', a.ok = true ∧ a.legit = true ∧ s.step c a = some s' := by
  obtain ⟨a, b, ha, hs⟩ := pipe_no_deadlock c hv payload s.base (wreach_base hr) hnf
  cases a with
  | w k =>
    obtain ⟨s', hs'⟩ := wstepW_some_of_base (winv_reach hr) (by simpa [Sys.step] using hs)
    exact ⟨.w k false, s', by simpa [WAct.ok, Act.ok] using ha, rfl, hs'⟩
  | r n =>
    obtain ⟨s', hs'⟩ := wstepR_some_of_base (c := c) (winv_reach hr) (by simpa [Sys.step] using hs)
    exact ⟨.r n false, s', by simpa [WAct.ok, Act.ok] using ha, rfl, hs'⟩

/-- ☆ Progress with real wake-ups: every legitimate poll strictly decreases `WSys.measure` — parking,
    being woken while the descriptor is still not ready (room < PIPE_BUF) and parking again included —
    so wake-ups cannot ping-pong for ever. -/
theorem wake_progress (c : Cfg) (hv : c.Valid) (payload : List α) (s s' : WSys α) (a : WAct)
    (hr : WReach c payload s) (ha : a.ok = true) (hl : a.legit = true) (hs : s.step c a = some s') :
    s'.measure c < s.measure c := by
  have hi := inv_reach (wreach_base hr)
  cases a with
  | w k spur =>
    have : spur = false := by simpa [WAct.legit] using hl
    subst this
    exact wmeasure_stepW hv (by simpa [WAct.ok] using ha) hi hs
  | r n spur =>
    have : spur = false := by simpa [WAct.legit] using hl
    subst this
    exact wmeasure_stepR (by simpa [WAct.ok] using ha) hi hs

/-- The operations with wakers that the driver runs on operation sequences (`sysWriteW`, `pollWriteW`,
    `sysReadW`, `wfClose`) are the operations of Model.lean plus bookkeeping: forgetting the waker sets gives
    exactly `sysWrite` / `pollWrite` / `sysRead` / `closeFd`, for every state, request and waker state — so
    `write_meets_spec`, `read_meets_spec`, `write_atomic`, `write_epipe_iff` speak about what the driver runs. -/
theorem waker_ops_project (c : Cfg) (o : Ofd) (p : Fifo α) (w : Wakers) (buf : List α) (n : Nat) (r wr : Bool) :
    ((o.sysWriteW c p w buf).1, (o.sysWriteW c p w buf).2.1) = o.sysWrite c p buf ∧
    ((o.pollWriteW c p w buf).1, (o.pollWriteW c p w buf).2.1) = o.pollWrite c p buf ∧
    ((o.sysReadW p w n).1, (o.sysReadW p w n).2.1, (o.sysReadW p w n).2.2.1) = o.sysRead p n ∧
    (wfClose p w r wr).1 = p.closeFd r wr :=
  ⟨sysWriteW_proj c o p w buf, pollWriteW_proj c o p w buf, sysReadW_proj o p w n, rfl⟩

/-- ★ End to end for two virtual processes: the function the model driver runs for `xfer mode=proc`
    — a seeded executor that polls a parked process only after its waker has fired, with the fuel the driver
    gives it — ends in the final state with exactly the payload, for every payload, valid capacity, seed,
    writer piece size and reader buffer size. -/
theorem wtransfer_delivers (c : Cfg) (hv : c.Valid) (seed wk rk : Nat) (x : List α) :
    wtransfer c seed wk rk x = some x :=
  wtransfer_eq c hv seed wk rk x

/-- ★ The wake-up law of the operation-sequence machine for ALL histories (until wave 3 evaluated per case only):
    after every operation sequence — any number of open slots on the FIFO, any interleaving of `open`, `fcntl`,
    `close`, `write`, `read` (blocking or not, through the system call or the open file description), `select`,
    `park` (a `select` kept alive while pending, any number of them, in the reader set, the writer set or both)
    and `poll` — no parked `select` whose waker has not fired waits for a descriptor that is ready.  Since the
    driver evaluates `lostWakeup` on `opsFrom {} 0 prefix` after each operation, its Spec column can never say
    `lost-wakeup`: the per-case check is a corollary.  Proof: `OInv` (an unfired parked select is registered in
    the matching waker set of the FIFO and its descriptor is not ready; ids are distinct) is preserved because
    every transition of the FIFO is wake-safe (`Trans`: readiness turns true only together with a `wake_all` of
    the matching set). -/
theorem ops_no_lost_wakeup (ops : List Op) : lostWakeup (opsFrom {} 0 ops) = false :=
  (opsFrom_inv ops {} 0 OInv.init).no_lost

/-- … and every single operation keeps the law from any state that satisfies the invariant -/
theorem op_keeps_wake_invariant (st : OpState) (i : Nat) (op : Op) (hi : OInv st) :
    OInv (opStep st i op).2.1 ∧ lostWakeup (opStep st i op).2.1 = false :=
  ⟨opStep_inv st i op hi, (opStep_inv st i op hi).no_lost⟩

/-- the invariant is not vacuous: a reader and a writer slot, a `select` for reading parked on the empty pipe —
    registered and unfired, the pipe not ready for reading; a write of 3 bytes fires it -/
example :
    let st := opsFrom {} 0 [.openFd true false, .openFd false true, .park 0 true false]
    let st' := opsFrom st 3 [.write 1 3]
    st.parked = [(0, 0, true, false)] ∧ st.wk.pendR = [0] ∧ st.wk.fired = [] ∧ st.fifo.readyR = false ∧
      st'.wk.fired = [0] ∧ st'.wk.pendR = [] ∧ st'.fifo.readyR = true := by
  decide

/-! ### non-vacuity and necessity of the hypotheses -/

/-- a concrete reachable non-trivial state with the real capacity: 3000 bytes, the writer asks for
    all of them, the reader takes 700, the writer asks again -/
example : Reach Cfg.real (List.replicate 3000 'x')
    ((Sys.init (List.replicate 3000 'x')).run Cfg.real [.w 3000, .r 700, .w 5000]) :=
  reach_run Reach.init _ (by decide)

/-- the same shape in a small capacity (PIPE_SIZE 8, PIPE_BUF 4), evaluated: a partial write fills
    the pipe, the reader takes 3, the next partial write fills it again; 9 bytes remain unsent -/
example :
    let c : Cfg := { pipeSize := 8, pipeBuf := 4 }
    let s := (Sys.init (List.range 20)).run c [.w 20, .r 3, .w 20]
    c.Valid ∧ s.received = [0, 1, 2] ∧ s.pipe.content = [3, 4, 5, 6, 7, 8, 9, 10] ∧ s.unsent.length = 9 ∧
      s.wpc = .run ∧ s.final = false := by
  decide

/-- `trim_exact` on a concrete string with embedded and trailing newlines -/
example : trimEnd '\n' "a\n\nb\n\n\n".toList = "a\n\nb".toList := by decide

/-- the hypothesis `PIPE_BUF ≤ PIPE_SIZE` is necessary for `pipe_no_deadlock`: with PIPE_BUF = 5 >
    PIPE_SIZE = 2 a 3-byte atomic request never fits, both processes suspend and nobody is ready -/
example :
    let c : Cfg := { pipeSize := 2, pipeBuf := 5 }
    let s := (Sys.init [1, 2, 3]).run c [.w 3, .r 1]
    s.final = false ∧ s.step c (.w 3) = none ∧ s.step c (.r 1) = none := by
  decide

/-- the hypothesis "buffer ≥ 1" is necessary for `eof_iff_done`: a read of 0 bytes returns 0 while
    the writer has not even started -/
example : ∃ p, (Sys.init [1, 2, 3]).pipe.read 0 = (.data [], p) := ⟨_, rfl⟩

/-- the hypothesis `1 ≤ PIPE_BUF` is necessary for `pipe_progress`: with PIPE_BUF = 0 a writer that
    found the pipe full is "ready" at once and can suspend and resume for ever -/
example :
    let c : Cfg := { pipeSize := 1, pipeBuf := 0 }
    let s := (Sys.init [1, 2]).run c [.w 2, .w 2, .w 2]
    (s.run c [.w 2, .w 2]).measure c = s.measure c := by
  decide

/-- the shell with descriptor 1 closed (`exec >&-`): `pipe()` gives the reading end descriptor 1;
    the child ends up with the writing end at 1 and no reading end -/
example :
    let t : Table := fun fd => if fd = 0 ∨ fd = 2 then some .file else none
    (substChild (t.pipe 7 1 3) 1 3).map (fun t' => (t' 0, t' 1, t' 2, t' 3)) =
      some (some .file, some (.pw 7), some .file, none) := by
  decide

/-- the order in `subshell_body` matters: closing the reader *after* `dup2(writer, 1)` in that
    state closes the new standard output (the seeded regression the check must catch) -/
example :
    let t : Table := fun fd => if fd = 0 ∨ fd = 2 then some .file else none
    (((t.pipe 7 1 3).dup2 3 1).map (fun t' => ((t'.close 3).close 1) 1)) = some none := by
  decide

/-- a middle pipeline member whose `read_previous` is descriptor 1 (standard output was closed in
    the parent, so the previous pipe's reader landed there): the special case moves it out of the
    way first; the member ends up with 0 = previous reader, 1 = next writer, nothing else -/
example :
    let t : Table := fun fd => if fd = 0 ∨ fd = 2 then some .file else if fd = 1 then some (.pr 5)
                       else if fd = 3 then some (.pr 6) else if fd = 4 then some (.pw 6) else none
    let ps : PipeSet := { readPrevious := some 1, next := some (3, 4) }
    (ps.moveToStdinStdout t 3).map (fun t' => (t' 0, t' 1, t' 2, t' 3, t' 4)) =
      some (some (.pr 5), some (.pw 6), some .file, none, none) := by
  decide

/-- the body of the seeded regression: `[東京] 😀 ok⏎` is 17 bytes for 10 characters; a character-count
    rewind starts the reader 7 bytes late, at `] 😀 ok⏎` -/
example :
    let body := "[東京] 😀 ok\n".toList
    (utf8 body).length = 17 ∧ body.length = 10 ∧
    ((heredocFill (utf8 body)).map fun o => (o.reads [1024]).1) = some (utf8 body) ∧
    ((heredocFillBack (utf8 body) body.length).map fun o => (o.reads [1024]).1) = some (utf8 "] 😀 ok\n".toList) := by
  decide

example : ∃ c ∈ "[東京] 😀 ok\n".toList, 2 ≤ c.utf8Size := ⟨'東', by decide, by decide⟩

/-- a 3-byte character whose bytes arrive one per `read(2)` (the pipe held only the lead byte and one
    continuation byte when the reader asked): same line as when everything is there -/
example :
    let input := utf8 "a東b\n".toList
    readLineChunked true 10 input [] [1, 1, 1, 1, 1, 1] = readLineChunked true 10 input [] [9, 9, 9] ∧
    readLineChunked true 10 input [] [1, 1, 1, 1, 1, 1] = .line (utf8 "a東b".toList) true [] := by
  decide

/-- `transfer_delivers` at the real capacity (hypothesis met by `real_valid`) and, evaluated, in a small one -/
example : transfer Cfg.real 7 513 3 (List.range 3000) = some (List.range 3000) :=
  transfer_delivers Cfg.real real_valid 7 513 3 _

example : transfer { pipeSize := 8, pipeBuf := 4 } 5 0 3 (List.range 20) = some (List.range 20) := by decide

/-- `flow_model_eq_spec` on `… | cat`, `echo "$( … )"`, `| cat` with two trailing newlines: both sides evaluated -/
example :
    flowModel { pipeSize := 8, pipeBuf := 4 } 3 "csc".toList [97, 10, 98, 10, 10] = some [97, 10, 98, 10] ∧
    flowSpec "csc".toList [97, 10, 98, 10, 10] = [97, 10, 98, 10] := by
  decide

/-- the hypotheses of `write_meets_spec` are met by the real constants and the freshly created pipe -/
example (buf : List Nat) :
    specWriteOk Cfg.real ({ content := [], readers := 1, writers := 1 } : Fifo Nat) buf.length
      (({ content := [], readers := 1, writers := 1 } : Fifo Nat).write Cfg.real buf).1
      (({ content := [], readers := 1, writers := 1 } : Fifo Nat).write Cfg.real buf).2 buf = true :=
  write_meets_spec Cfg.real real_posix_pipe_buf _ buf (by simp)

/-- `substRun_connected` on the `exec >&-` table (descriptor 1 closed, so the reading end lands on 1) -/
example : (substRun (fun fd => if fd = 0 ∨ fd = 2 then some .file else none) 7).2 = true :=
  substRun_connected _ 7 (by intro fd; by_cases h : fd = 0 ∨ fd = 2 <;> simp [h])
    ⟨1, 3, by decide, by decide, by decide, by decide⟩

/-- a reachable state with both kinds of waiting (PIPE_SIZE 8, PIPE_BUF 4): the writer filled the pipe,
    got EAGAIN, polled `select` and is parked with its waker registered; the reader takes 3 bytes — room 3 is
    still below PIPE_BUF — which fires the waker; the writer is polled, finds the descriptor not ready
    and parks again; after 2 more bytes it is woken and runs -/
example :
    let c : Cfg := { pipeSize := 8, pipeBuf := 4 }
    let s1 := (WSys.init (List.range 20)).run c [.w 20 false, .w 20 false, .w 20 false]
    let s2 := s1.run c [.r 3 false]
    let s3 := s2.run c [.w 20 false]
    let s4 := s3.run c [.r 2 false, .w 20 false]
    s1.w = { parked := true, reg := true, woken := false } ∧ s1.step c (.w 20 false) = none ∧
    s2.w = { parked := true, reg := false, woken := true } ∧
    s3.w = { parked := true, reg := true, woken := false } ∧
    s4.base.wpc = .run ∧ s4.w = {} := by
  decide

example : WReach ({ pipeSize := 8, pipeBuf := 4 } : Cfg) (List.range 20)
    ((WSys.init (List.range 20)).run { pipeSize := 8, pipeBuf := 4 } [.w 20 false, .w 20 false, .w 20 false, .r 3 false]) :=
  wreach_run WReach.init _ (by decide)

/-- the hypotheses of `no_lost_wakeup` (first conjunct) are met in a reachable state: after three polls the
    writer waits, is parked and has not been woken — and indeed it is registered and not ready -/
example :
    let c : Cfg := { pipeSize := 8, pipeBuf := 4 }
    let s1 := (WSys.init (List.range 20)).run c [.w 20 false, .w 20 false, .w 20 false]
    WReach c (List.range 20) s1 ∧ s1.base.wpc = .wait ∧ s1.w.parked = true ∧ s1.w.woken = false ∧
      s1.w.reg = true ∧ s1.base.pipe.readyW c = false :=
  ⟨wreach_run WReach.init _ (by decide), by decide⟩

/-- the registration is necessary: the same state with the writer's registration forgotten (what a `select`
    that does not call `register_writer_waker` leaves behind) — the reader drains the pipe, nobody fires
    the writer's waker, the reader parks: nobody is owed a poll although 12 bytes are still unsent -/
example :
    let c : Cfg := { pipeSize := 8, pipeBuf := 4 }
    let s1 := (WSys.init (List.range 20)).run c [.w 20 false, .w 20 false, .w 20 false]
    let bad : WSys Nat := { s1 with w := { s1.w with reg := false } }
    let s2 := bad.run c [.r 8 false, .r 8 false, .r 8 false]
    s2.base.final = false ∧ s2.base.unsent.length = 12 ∧ s2.base.pipe.readyW c = true ∧
      s2.step c (.w 20 false) = none ∧ s2.step c (.r 8 false) = none := by
  decide

/-- `wtransfer_delivers` at the real capacity and, evaluated, in a small one -/
example : wtransfer Cfg.real 7 513 3 (List.range 3000) = some (List.range 3000) :=
  wtransfer_delivers Cfg.real real_valid 7 513 3 _

example : wtransfer { pipeSize := 8, pipeBuf := 4 } 5 0 3 (List.range 20) = some (List.range 20) := by decide

/-! ### a concurrent pipeline of any number of stages (Chain.lean) -/

/-- ★ Conservation for `source | m × cat | sink`, every process scheduled independently: in every reachable
    state — any number `m` of forwarding stages, any interleaving of the `m + 2` processes, any read buffer and
    write request ≥ 1 byte at every step — the bytes the sink holds, followed stage by stage (from the sink
    backwards) by what is buffered in a pipe and what a stage holds between its `read` and its `write_all`, are
    exactly the payload: nothing lost, duplicated or reordered anywhere in the pipeline.  In particular the sink
    always holds a prefix of the payload. -/
theorem chain_conservation (c : Cfg) (m : Nat) (pre post : List α) (s : Chain α)
    (hr : CReach c m pre post s) :
    s.total = pre ++ post ∧ ∃ rest, s.received ++ rest = pre ++ post := by
  have ⟨_, _, ht, _⟩ := hr.inv
  refine ⟨ht, ?_⟩
  rw [← ht]
  have aux : ∀ t : Chain α, ∃ rest, t.received ++ rest = t.total := by
    intro t
    induction t with
    | sink inp r pc => exact ⟨inp.content, by simp [Chain.total, Chain.received]⟩
    | fwd inp hold pc rest ih =>
      obtain ⟨x, hx⟩ := ih
      exact ⟨x ++ hold ++ inp.content, by simp [Chain.total, Chain.received, ← hx]⟩
  exact aux s

/-- ★ No deadlock in a pipeline of any length: every reachable state in which some process has not finished
    has a process that can step — whatever buffer and request sizes it is offered.  (Induction from the sink
    backwards: the rightmost blocked reader waits on an empty pipe whose writer is alive; that writer is running,
    or waits for a pipe that is empty and therefore ready for writing, or is itself a blocked reader further
    left; the source's input has no writer, so the recursion ends.)  Needs `PIPE_BUF ≤ PIPE_SIZE`. -/
theorem chain_no_deadlock (c : Cfg) (hv : c.Valid) (m : Nat) (pre post : List α) (s : Chain α)
    (hr : CReach c m pre post s) (hnf : s.allDone = false) :
    ∃ i, i < m + 2 ∧ ∀ n k, (s.step c i n k).isSome = true := by
  have ⟨hi, hw, _, hp⟩ := hr.inv
  rcases Chain.progress c hv s hi with h | ⟨i, hil, hs⟩ | ⟨_, h, _⟩
  · rw [h] at hnf; exact absurd hnf (by simp)
  · exact ⟨i, by omega, hs⟩
  · omega

/-- ★ No stage ever meets EPIPE and a schedule can only stop in the final state, where the sink holds exactly
    the payload: a reachable state without an enabled step has every process finished normally, every pipe
    drained and `received = payload`. -/
theorem chain_complete (c : Cfg) (hv : c.Valid) (m : Nat) (pre post : List α) (s : Chain α)
    (hr : CReach c m pre post s) (hstuck : ∀ i n k, 1 ≤ n → 1 ≤ k → s.step c i n k = none) :
    s.allDone = true ∧ s.received = pre ++ post := by
  have ⟨hi, _, ht, _⟩ := hr.inv
  have hd : s.allDone = true := by
    cases h : s.allDone with
    | true => rfl
    | false =>
      obtain ⟨i, _, hs⟩ := chain_no_deadlock c hv m pre post s hr h
      have := hs 1 1
      rw [hstuck i 1 1 (Nat.le_refl _) (Nat.le_refl _)] at this
      exact absurd this (by simp)
  exact ⟨hd, by rw [← Chain.allDone_total hi hd, ht]⟩

/-- whenever every process of a reachable state has finished the sink holds exactly the payload -/
theorem chain_done_complete (c : Cfg) (m : Nat) (pre post : List α) (s : Chain α)
    (hr : CReach c m pre post s) (hd : s.allDone = true) : s.received = pre ++ post := by
  have ⟨hi, _, ht, _⟩ := hr.inv
  rw [← Chain.allDone_total hi hd, ht]

/-- In every reachable state of a pipeline of any length no stage has met EPIPE (every reader reads to end of
    file, so a stage's downstream neighbour outlives it). -/
theorem chain_no_epipe (c : Cfg) (m : Nat) (pre post : List α) (s : Chain α)
    (hr : CReach c m pre post s) : s.noFail = true :=
  hr.inv.1.no_fail

/-- Capacity in a pipeline of any length: in every reachable state every pipe between two processes holds at most
    `PIPE_SIZE` bytes (a `write` never appends more than the room it found, whatever the other stages do). -/
theorem chain_capacity (c : Cfg) (m : Nat) (pre post : List α) (s : Chain α)
    (hr : CReach c m pre post s) : s.CapTail c :=
  hr.cap

/-- ★ The two models are one: every reachable state of the writer ∥ reader system of Model.lean (`Reach`, the
    subject of `pipe_conservation` … `pipe_complete`) is, through `Sys.embed` (writer = source whose input has no
    writer, reader = sink, same pipe), a reachable state of the chain with no forwarding stage — one writer step is
    one or two source steps, one reader step is one sink step — with the same received data and the same bytes in
    the same order.  So the chain theorems specialise to the two-process system, and the chain with `m ≥ 1` is
    its generalisation to a pipeline of `m + 2` concurrent processes. -/
theorem chain_generalises_pipe (c : Cfg) (payload : List α) (s : Sys α) (hr : Reach c payload s) :
    CReach c 0 payload [] s.embed ∧ s.embed.received = s.received ∧
      s.embed.total = s.received ++ s.pipe.content ++ s.unsent :=
  ⟨reach_embed hr, rfl, by simp [Sys.embed, Chain.total]⟩

/-- ★ Progress in a pipeline of any length: every step of every process — any of the `m + 2`, any read buffer and
    write request ≥ 1 byte — strictly lowers `Chain.measure` (each byte weighted by how far it is from the sink:
    3 in the last pipe, 4 more in a stage's hand, 3 more in the pipe before it; plus a readiness-dependent cost per
    process, so that suspend / resume cannot alternate for ever).  Uses `1 ≤ PIPE_BUF ≤ PIPE_SIZE`. -/
theorem chain_progress (c : Cfg) (hv : c.Valid) (m : Nat) (pre post : List α) (s s' : Chain α) (i n k : Nat)
    (hr : CReach c m pre post s) (hn : 1 ≤ n) (hk : 1 ≤ k) (hs : s.step c i n k = some s') :
    s'.measure c < s.measure c :=
  (Chain.step_drop hv hn hk hr.inv.1 hs).2.1

/-- ★ Termination under every scheduler: an execution of `source | m × cat | sink` on `pre ++ post` — whatever
    process runs at each step with whatever sizes — has at most
    `(7m + 10)·|post| + (7m + 6)·|pre| + 5m + 9` steps.  With `chain_complete`: every schedule is finite and
    ends with exactly the payload in the sink. -/
theorem chain_terminates (c : Cfg) (hv : c.Valid) (m : Nat) (pre post : List α) (s : Chain α) (n : Nat)
    (he : CExec c (Chain.init m pre post) n s) :
    n ≤ (7 * m + 10) * post.length + (7 * m + 6) * pre.length + 5 * m + 9 := by
  have := CExec.bound hv CReach.init he
  rw [Chain.init_measure] at this
  omega

/-- ★ End to end for a concurrent pipeline: the function the driver runs for `xfer … mid=M` (`chainTransfer`: the
    seeded executor over the `M + 2` processes with the fuel the driver gives it) returns exactly the payload,
    for every payload, valid capacity, number of forwarding stages, seed, write bound and buffer size. -/
theorem chain_transfer_delivers (c : Cfg) (hv : c.Valid) (seed m wk rk : Nat) (x : List α) :
    chainTransfer c seed m wk rk x = some x := by
  have hn1 : 1 ≤ (if rk = 0 then 1024 else rk) := by split <;> omega
  have hk1 : 1 ≤ (if wk = 0 then x.length + 1 else wk) := by split <;> omega
  have hfuel : (Chain.init m x ([] : List α)).measure c ≤ (m + 2) * (12 * x.length + 200) := by
    rw [Chain.init_measure]
    exact chain_fuel_enough m x.length
  have hr := chainRun_reach (c := c) (m := m) (pre := x) (post := []) hn1 hk1
    ((m + 2) * (12 * x.length + 200)) seed _ CReach.init
  have hstop := chainRun_stops hv hn1 hk1 ((m + 2) * (12 * x.length + 200)) seed _
    (CReach.init (c := c) (m := m) (pre := x) (post := [])) hfuel
  unfold chainTransfer
  generalize (if rk = 0 then 1024 else rk) = n at hr hstop
  generalize (if wk = 0 then x.length + 1 else wk) = k at hr hstop
  simp only
  generalize chainRun c n k ((m + 2) * (12 * x.length + 200)) seed (Chain.init m x []) = t at hr hstop
  have hd : t.allDone = true := by
    cases h : t.allDone with
    | true => rfl
    | false =>
      obtain ⟨i, hi, hs⟩ := chain_no_deadlock c hv m x [] t hr h
      have := hs n k
      rw [hstop i hi] at this
      exact absurd this (by simp)
  rw [if_pos hd, chain_done_complete c m x [] t hr hd]
  simp

/-! ### stages that transform and that write before reading (TChain.lean) -/

/-- ★ Conservation generalised: `source | stage₁ | … | stageₘ | sink` where stage `i` first writes a preamble `preᵢ`
    (a stage that writes before it reads) and then emits `gᵢ b` for every byte `b` it reads (`[b]` = `cat`, `[b, b]`
    doubles, `[]` drops, any per-byte filter).  In every reachable state — any stages, any interleaving, any sizes
    ≥ 1 — pushing what is in flight through the remaining stages (`TChain.push`: held bytes as they are, bytes
    still in a stage's input pipe through its `g`) gives exactly `stagesFun st x`, i.e. stage `i`'s output is
    `preᵢ ++ (its input).flatMap gᵢ`, composed along the pipeline: nothing lost, duplicated, reordered or
    transformed twice anywhere. -/
theorem tchain_conservation (c : Cfg) (st : List ((α → List α) × List α)) (x : List α) (s : TChain α)
    (hr : TReach c st x s) : s.push [] = stagesFun st x :=
  hr.inv.2.2

/-- ★ No deadlock with such stages: every reachable state with an unfinished process has a process that can step,
    whatever sizes it is offered (a stage that expands its input fills the next pipe and waits; the argument from
    the sink backwards is unchanged).  Needs `PIPE_BUF ≤ PIPE_SIZE`. -/
theorem tchain_no_deadlock (c : Cfg) (hv : c.Valid) (st : List ((α → List α) × List α)) (x : List α)
    (s : TChain α) (hr : TReach c st x s) (hnf : s.allDone = false) :
    ∃ i, i < s.procs ∧ ∀ n k, (s.step c i n k).isSome = true := by
  have ⟨hi, hw, _⟩ := hr.inv
  rcases TChain.progress c hv s hi with h | h | ⟨_, h, _⟩
  · rw [h] at hnf; exact absurd hnf (by simp)
  · exact h
  · omega

/-- ★ … and a schedule can only stop with every process finished and the sink holding exactly what the pipeline
    computes: `received = stagesFun st x`. -/
theorem tchain_complete (c : Cfg) (hv : c.Valid) (st : List ((α → List α) × List α)) (x : List α)
    (s : TChain α) (hr : TReach c st x s) (hstuck : ∀ i n k, 1 ≤ n → 1 ≤ k → s.step c i n k = none) :
    s.allDone = true ∧ s.received = stagesFun st x := by
  have ⟨hi, _, hp⟩ := hr.inv
  have hd : s.allDone = true := by
    cases h : s.allDone with
    | true => rfl
    | false =>
      obtain ⟨i, _, hs⟩ := tchain_no_deadlock c hv st x s hr h
      have := hs 1 1
      rw [hstuck i 1 1 (Nat.le_refl _) (Nat.le_refl _)] at this
      exact absurd this (by simp)
  exact ⟨hd, by rw [← TChain.allDone_push hi hd, hp]⟩

/-- a doubling stage with a preamble, then a stage that drops the even bytes: evaluated, and a few steps of the
    concurrent system on it (PIPE_SIZE 8, PIPE_BUF 4) keep the pushed-through result -/
example :
    let st : List ((Nat → List Nat) × List Nat) := [(fun b => [b, b], [100]), (fun b => if b % 2 = 0 then [] else [b], [])]
    let c : Cfg := { pipeSize := 8, pipeBuf := 4 }
    let s := [(0, 3, 20), (1, 3, 20), (1, 3, 20), (1, 3, 20), (2, 3, 20), (2, 3, 20)].foldl
      (fun s (a : Nat × Nat × Nat) => (s.step c a.1 a.2.1 a.2.2).getD s) (TChain.init st [1, 2, 3])
    stagesFun st [1, 2, 3] = [1, 1, 3, 3] ∧ s.push [] = [1, 1, 3, 3] ∧ s.allDone = false := by
  decide

/-! ### head-like stages: a stage in the middle that reads only a prefix and exits (HChain.lean) -/

/-- ★ Conservation in prefix form.  Every stage has an allowance `mᵢ` (how many bytes it reads before it exits,
    `head -c`; larger than anything that can arrive for a stage that reads to end of file), a per-byte function `gᵢ`
    and a preamble.  In every reachable state — any stages, any interleaving, any sizes, upstream stages running,
    blocked or already dead of EPIPE — what is in flight, pushed through the remaining stages with every stage
    taking only what is left of its allowance (`HChain.push`), is exactly `stagesFunH st x`: stage `i`'s output is
    `preᵢ ++ (the first mᵢ bytes of its input).flatMap gᵢ`.  Nothing reordered, nothing duplicated, and the bytes
    beyond a stage's allowance never reach anything downstream. -/
theorem hchain_conservation (c : Cfg) (st : List ((α → List α) × Nat × List α)) (x : List α) (s : HChain α)
    (hr : HReach c st x s) : s.push [] = stagesFunH st x :=
  hr.inv.2

/-- … and once nothing in flight can reach the sink any more (`settled`: below some stage that has used up its
    allowance, or below an input that is drained, everything is empty) the sink holds exactly that. -/
theorem hchain_settled_complete (c : Cfg) (st : List ((α → List α) × Nat × List α)) (x : List α) (s : HChain α)
    (hr : HReach c st x s) (hs : s.settled = true) : s.received = stagesFunH st x := by
  rw [← hr.inv.2, (HChain.settled_push s).2 hs]

/-- ★ No deadlock with head-like stages: every reachable state in which some process has not exited (normally,
    after its allowance, or after EPIPE) has a process that can step whatever sizes it is offered: upstream of a
    stage that has exited, a writer's next `write` is EPIPE (a step), a writer waiting for room is ready because
    the pipe has no reader; downstream the argument from the sink backwards is unchanged. -/
theorem hchain_no_deadlock (c : Cfg) (hv : c.Valid) (st : List ((α → List α) × Nat × List α)) (x : List α)
    (s : HChain α) (hr : HReach c st x s) (hnf : s.allDone = false) :
    ∃ i, i < s.procs ∧ ∀ n k, (s.step c i n k).isSome = true := by
  have ⟨hi, hw⟩ := hr.cnt
  rcases HChain.progress c hv s hi with h | h | ⟨_, h, _⟩
  · rw [h] at hnf; exact absurd hnf (by simp)
  · exact h
  · omega

/-- ★ Where a schedule stops, with head-like stages anywhere: a reachable state (read buffers ≥ 1 byte) in which
    no process can step has every process exited — normally, after its allowance, or of EPIPE — and the sink holds
    exactly `stagesFunH st x`: downstream of a head-like stage `gᵢ` of the consumed PREFIX (then end of file),
    upstream nothing that matters (`HChain.Fin`: an exited stage holds nothing and has used up its allowance or
    drained its input; a stage dies of EPIPE only below a stage that exited early; `allDone_settled`). -/
theorem hchain_complete (c : Cfg) (hv : c.Valid) (st : List ((α → List α) × Nat × List α)) (x : List α)
    (s : HChain α) (hr : HReach1 c st x s) (hstuck : ∀ i n k, s.step c i n k = none) :
    s.allDone = true ∧ s.received = stagesFunH st x := by
  have hd : s.allDone = true := by
    cases h : s.allDone with
    | true => rfl
    | false =>
      obtain ⟨i, _, hs⟩ := hchain_no_deadlock c hv st x s hr.reach h
      have := hs 1 1
      rw [hstuck i 1 1] at this
      exact absurd this (by simp)
  exact ⟨hd, hchain_settled_complete c st x s hr.reach (HChain.allDone_settled hr.fin hd).1⟩

/-- … and for what the driver runs: whenever `hchainTransfer` ends with every process exited, the sink holds exactly
    the pipeline's function of the payload (for `cat` stages and one head-like stage: the first `hk` bytes). -/
theorem hchain_transfer_done (c : Cfg) (seed m hs hk wk rk : Nat) (x : List α)
    (hd : (hchainTransfer c seed m hs hk wk rk x).allDone = true) :
    (hchainTransfer c seed m hs hk wk rk x).received =
      stagesFunH ((List.range m).map fun i => (fun b => [b], if i + 1 = hs then hk else x.length + 1, [])) x := by
  have hn1 : 1 ≤ (if rk = 0 then 1024 else rk) := by split <;> omega
  have hr := hchainRun_reach1 (c := c) (x := x)
    (st := (List.range m).map fun i => ((fun b => [b] : α → List α), if i + 1 = hs then hk else x.length + 1, ([] : List α)))
    hn1 (if wk = 0 then x.length + 1 else wk) ((m + 2) * (12 * x.length + 200)) seed _ HReach1.init
  exact hchain_settled_complete c _ x _ hr.reach (HChain.allDone_settled hr.fin hd).1

/-- What the driver computes for `xfer … mid=M hs=J hk=K` (`hchainTransfer`: the seeded executor over the M + 2
    processes, forwarder J stopping after K bytes) is a reachable state, so conservation in prefix form holds of
    it, and whenever it is settled the sink holds exactly the pipeline's function of the payload. -/
theorem hchain_transfer_conserves (c : Cfg) (seed m hs hk wk rk : Nat) (x : List α) :
    let st : List ((α → List α) × Nat × List α) :=
      (List.range m).map fun i => (fun b => [b], if i + 1 = hs then hk else x.length + 1, [])
    let s := hchainTransfer c seed m hs hk wk rk x
    s.push [] = stagesFunH st x ∧ (s.settled = true → s.received = stagesFunH st x) := by
  intro st s
  have hr : HReach c st x s := hchainRun_reach _ _ _ _ _ HReach.init
  exact ⟨hchain_conservation c st x s hr, hchain_settled_complete c st x s hr⟩

/- `cat | head -c 3 | doubling` on 12 bytes through 4-byte pipes under a round-robin schedule: the head-like stage
    exits, its upstream `cat` and the source die of EPIPE, the doubler and the sink finish — every process has
    exited, the state is settled, the sink holds the first 3 bytes doubled -/
set_option maxRecDepth 20000 in
example :
    let st : List ((Nat → List Nat) × Nat × List Nat) :=
      [(fun b => [b], 1000, []), (fun b => [b], 3, []), (fun b => [b, b], 1000, [])]
    let c : Cfg := { pipeSize := 4, pipeBuf := 2 }
    let sched : List Nat := (List.range 16).flatMap fun _ => [0, 1, 2, 3, 4]
    let s := sched.foldl (fun s i => (s.step c i 3 20).getD s) (HChain.init st (List.range 12))
    stagesFunH st (List.range 12) = [0, 0, 1, 1, 2, 2] ∧ s.allDone = true ∧ s.settled = true ∧
      s.received = [0, 0, 1, 1, 2, 2] := by
  decide

/-! ### the n-stage chain with explicit wakers (WChain.lean) -/

/-- ★ Refinement, n stages: the data side of every reachable state of the chain with wakers (any interleaving, any
    sizes ≥ 1, spurious polls included) is a reachable state of the waker-free chain — so `chain_conservation`,
    `chain_capacity`, `chain_no_epipe`, `chain_done_complete` hold of the system with wakers. -/
theorem wchain_refines_chain (c : Cfg) (m : Nat) (pre post : List α) (s : WChain α)
    (hr : WCReach c m pre post s) : CReach c m pre post s.erase :=
  hr.erase

/-- ★ No lost wake-up, for every stage of a pipeline of any length: in every reachable state only a waiting
    process is parked, and a parked process whose waker has not fired still has it registered in the waker set of
    the pipe it waits for, and that pipe is really not ready for it (`WChain.NL`, node by node).  So whenever a
    peer makes the pipe ready — a write, a read that returns, a close that leaves no reader or no writer — the
    blocked stage's waker has fired. -/
theorem wchain_no_lost_wakeup (c : Cfg) (m : Nat) (pre post : List α) (s : WChain α)
    (hr : WCReach c m pre post s) : s.NL c :=
  hr.nl

/-- ★ No deadlock with wakers, n stages: every reachable state in which some process has not finished has a
    process that the executor may *legitimately* poll (running, or waiting and not parked, or parked and woken)
    and whose poll is a step, whatever sizes it is offered.  Readiness alone does not enable a parked process;
    the invariant guarantees that a parked process whose descriptor is ready has been woken. -/
theorem wchain_no_deadlock (c : Cfg) (hv : c.Valid) (m : Nat) (pre post : List α) (s : WChain α)
    (hr : WCReach c m pre post s) (hnf : s.erase.allDone = false) :
    ∃ i, i < m + 2 ∧ ∀ n k, (s.step c i n k false).isSome = true := by
  obtain ⟨i, hi, hs⟩ := chain_no_deadlock c hv m pre post s.erase hr.erase hnf
  exact ⟨i, hi, WChain.legit_of_enabled hr.nl hs⟩

/-- ★ Progress with wakers, n stages: every *legitimate* poll of every process (running, waiting and not parked, or
    parked and woken) lowers `WChain.wmeasure` = 6 · the chain's measure + a cost per waker state (parked and not
    woken 0, not parked 1, parked and woken 2).  A poll that only parks the process lowers its own cost; a poll
    that moves data lowers the chain's measure by ≥ 1 (×6) while waking at most the two neighbours (+2 each).  So
    "woken — still not ready — parks again" cannot go on for ever, and with `wchain_no_deadlock`: every schedule of
    legitimate polls is finite and ends with all processes finished and the payload in the sink. -/
theorem wchain_progress (c : Cfg) (hv : c.Valid) (m : Nat) (pre post : List α) (s s' : WChain α)
    (i n k : Nat) (up : PWake → PWake) (hr : WCReach c m pre post s) (hn : 1 ≤ n) (hk : 1 ≤ k)
    (hs : s.step c i n k false = some (s', up)) : s'.wmeasure c < s.wmeasure c :=
  WChain.legit_progress hv hn hk hr.nl hr.erase.inv.1 hs

/-- the hypotheses are met and the invariant bites: (PIPE_SIZE 8, PIPE_BUF 4, one `cat`) the sink and `cat` are
    polled on empty pipes and park; the source's write fires `cat`'s waker — `cat` is parked *and woken*, the sink
    parked and not woken, its pipe not ready -/
example :
    let c : Cfg := { pipeSize := 8, pipeBuf := 4 }
    let s0 : WChain Nat := WChain.init 1 (List.range 20) []
    let s := [(2, 3, 20), (2, 3, 20), (1, 3, 20), (1, 3, 20), (0, 3, 20)].foldl
      (fun s (a : Nat × Nat × Nat) => ((s.step c a.1 a.2.1 a.2.2 false).map (·.1)).getD s) s0
    (s.wkAt 1).parked = true ∧ (s.wkAt 1).woken = true ∧ (s.wkAt 2).parked = true ∧ (s.wkAt 2).woken = false ∧
      (s.wkAt 2).reg = true ∧ (s.inpAt 2).readyR = false ∧ (s.inpAt 1).readyR = true := by
  decide

/-- the two-process chain is the writer ∥ reader system of Model.lean seen from outside: same pipe operations,
    and its first reachable states evaluated (PIPE_SIZE 8, PIPE_BUF 4, one `cat` in the middle): the source's
    partial write fills pipe 1, `cat` takes 5 bytes and writes them on, the sink takes 2 -/
example :
    let c : Cfg := { pipeSize := 8, pipeBuf := 4 }
    let s0 : Chain Nat := Chain.init 1 (List.range 20) []
    let s := [(0, 1, 20), (1, 5, 20), (1, 5, 20), (2, 2, 20)].foldl
      (fun s (a : Nat × Nat × Nat) => (s.step c a.1 a.2.1 a.2.2).getD s) s0
    s.received = [0, 1] ∧ s.total = List.range 20 ∧ s.allDone = false := by
  decide

/-- `chain_generalises_pipe` on a concrete reachable state of the two-process system (3000 bytes at the real
    capacity: a partial write, a read of 700, another write) -/
example : CReach Cfg.real 0 (List.replicate 3000 'x') []
    ((Sys.init (List.replicate 3000 'x')).run Cfg.real [.w 3000, .r 700, .w 5000]).embed :=
  (chain_generalises_pipe _ _ _ (reach_run Reach.init _ (by decide))).1

/-- hypotheses of `chain_no_deadlock` met at the real capacity by a reachable non-final state (3000 bytes, two
    forwarding stages) -/
example : ∃ s : Chain Nat, CReach Cfg.real 2 (List.range 3000) [] s ∧ s.allDone = false :=
  ⟨_, CReach.init, by simp [Chain.init, Chain.allDone]⟩

/-- `PIPE_BUF ≤ PIPE_SIZE` is necessary for `chain_no_deadlock` too (PIPE_BUF 5 > PIPE_SIZE 2): the source
    waits for room for an atomic 3-byte write that an empty pipe of 2 bytes never has, `cat` and the sink wait
    for data -/
example :
    let c : Cfg := { pipeSize := 2, pipeBuf := 5 }
    let s0 : Chain Nat := Chain.init 1 [1, 2, 3] []
    let s := [(0, 1, 3), (1, 1, 3), (2, 1, 3), (0, 1, 3), (1, 1, 3), (2, 1, 3)].foldl
      (fun s (a : Nat × Nat × Nat) => (s.step c a.1 a.2.1 a.2.2).getD s) s0
    s.allDone = false ∧ s.step c 0 1 3 = none ∧ s.step c 1 1 3 = none ∧ s.step c 2 1 3 = none := by
  decide

/-- `chain_terminates` is not vacuous: a 3-step execution of a 3-process chain (PIPE_SIZE 8, PIPE_BUF 4) -/
example : ∃ s, CExec ({ pipeSize := 8, pipeBuf := 4 } : Cfg) (Chain.init 1 (List.range 20) []) 3 s :=
  ⟨_, .step 0 1 20 (by decide) (by decide) rfl
        (.step 1 5 20 (by decide) (by decide) rfl
          (.step 1 5 20 (by decide) (by decide) rfl (.refl _)))⟩

/-- `chain_transfer_delivers` at the real capacity -/
example : chainTransfer Cfg.real 7 3 513 3 (List.range 3000) = some (List.range 3000) :=
  chain_transfer_delivers Cfg.real real_valid 7 3 513 3 _

/-- the executor, evaluated: three forwarding stages (a 5-stage pipeline), 40 bytes through 8-byte pipes,
    read buffers of 3 bytes -/
example : chainTransfer { pipeSize := 8, pipeBuf := 4 } 5 3 0 3 (List.range 40) = some (List.range 40) := by
  decide

end YashModel.Pipe
