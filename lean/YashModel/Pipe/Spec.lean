/-
  C14 — Spec: what POSIX says about a pipe and about command substitution, stated as simply as
  possible (no buffer, no loops, no scheduler).

  * A pipe is a byte stream: what the reader has received is always a prefix of what the writers
    have been told was written, in the same order, nothing twice; at end of file (which exists only
    once no writer is left) it is all of it.
  * `write` of at most PIPE_BUF bytes is all-or-nothing; a larger write may be partial but then
    writes a non-empty prefix; never more than the capacity is buffered; EPIPE iff no reader.
  * `read` blocks iff nothing is buffered and a writer exists; returns 0 iff nothing is buffered and
    no writer exists (or 0 bytes were asked for).
  * Command substitution: the output with *all* trailing newlines removed, nothing else.
-/
import YashModel.Pipe.Model
namespace YashModel.Pipe

variable {α : Type}

/-- trailing-newline removal as a recursion from the front: a newline is dropped exactly when
    everything after it has been dropped -/
def specTrim [DecidableEq α] (nl : α) : List α → List α
  | [] => []
  | c :: rest =>
    let r := specTrim nl rest
    if r.isEmpty && c = nl then [] else c :: r

/-- what a transfer `producer | consumer` must deliver -/
def specTransfer (payload : List α) : List α := payload

/-- what `$(producer)` must yield -/
def specSubst [DecidableEq α] (nl : α) (payload : List α) : List α := specTrim nl payload

/-- `_POSIX_PIPE_BUF` (<limits.h>): the minimum acceptable value of {PIPE_BUF}; POSIX guarantees that
    a write of at most this many bytes to a pipe is atomic on every conforming system -/
def posixPipeBuf : Nat := 512

/-- POSIX `write` on a pipe, as a check of one observed outcome against the state before it -/
def specWriteOk (c : Cfg) (p : Fifo α) (len : Nat) (res : WRes) (p' : Fifo α) (buf : List α) : Bool :=
  let room := c.pipeSize - p.content.length
  match res with
  | .epipe => p.readers == 0 && p'.content.length == p.content.length
  | .block => p.readers != 0 && p'.content.length == p.content.length &&
      (if len ≤ c.pipeBuf ∨ len ≤ posixPipeBuf then decide (room < len) else room == 0)
  | .wrote n =>
      p.readers != 0 && decide (n ≤ len) && decide (p'.content.length ≤ c.pipeSize) &&
      p'.content.length == p.content.length + n &&
      -- atomic requests are complete; larger ones make progress
      (if len ≤ c.pipeBuf ∨ len ≤ posixPipeBuf then n == len else (decide (1 ≤ n) && n == min room len)) &&
      p'.content.length == (p.content ++ buf.take n).length

/-- POSIX `read` on a pipe, as a check of one observed outcome -/
def specReadOk (p : Fifo α) (n : Nat) (blocked : Bool) (got : Nat) : Bool :=
  if n = 0 then !blocked && got == 0
  else if blocked then p.content.isEmpty && p.writers != 0
  else if got == 0 then p.content.isEmpty && p.writers == 0
  else got == min n p.content.length

end YashModel.Pipe
