/-
  C14 — helper definitions and lemmas for the descriptor choreography (Fds.lean).
-/
import YashModel.Pipe.Fds
namespace YashModel.Pipe

/-- no descriptor of `t` refers to an end of pipe `p` (what `pipe()` guarantees for a new pipe) -/
def Table.Fresh (t : Table) (p : Nat) : Prop := ∀ fd, t fd ≠ some (.pr p) ∧ t fd ≠ some (.pw p)

/-- what the parent of a pipeline knows between two `shift`s: `p` is the pipe to the previous
    member (only its reading end is still open, at `read_previous`), `q` the pipe to the next member
    (both ends open, at `next`), and no other descriptor refers to either pipe -/
structure PInv (t : Table) (ps : PipeSet) (p q : Nat) : Prop where
  pq : p ≠ q
  prev : ∀ rp, ps.readPrevious = some rp → t rp = some (.pr p)
  prev_only : ∀ fd, (t fd = some (.pr p) → ps.readPrevious = some fd) ∧ t fd ≠ some (.pw p)
  next : ∀ r w, ps.next = some (r, w) → t r = some (.pr q) ∧ t w = some (.pw q)
  next_only : ∀ fd, (t fd = some (.pr q) → ps.next.map Prod.fst = some fd) ∧
                    (t fd = some (.pw q) → ps.next.map Prod.snd = some fd)

theorem set_eq (t : Table) (fd : Fd) (v : Option Ent) : t.set fd v fd = v := by simp [Table.set]
theorem set_ne (t : Table) (fd x : Fd) (v : Option Ent) (h : x ≠ fd) : t.set fd v x = t x := by
  simp [Table.set, h]

/-- what `pipeline_ends_connected` says about the result -/
def MovePost (t : Table) (ps : PipeSet) (p q : Nat) : Option Table → Prop
  | none => False
  | some t' =>
      (∀ rp, ps.readPrevious = some rp → t' 0 = some (.pr p)) ∧
      (∀ r w, ps.next = some (r, w) → t' 1 = some (.pw q)) ∧
      (∀ fd, (t' fd = some (.pr p) → fd = 0) ∧ t' fd ≠ some (.pw p) ∧
             t' fd ≠ some (.pr q) ∧ (t' fd = some (.pw q) → fd = 1)) ∧
      (∀ fd, 2 ≤ fd → t fd = some .file → t' fd = some .file)

theorem move_post (t : Table) (ps : PipeSet) (p q : Nat) (d : Fd)
    (hi : PInv t ps p q) (hd : ∀ r w, ps.next = some (r, w) → d ≠ r → t d = none) :
    MovePost t ps p q (ps.moveToStdinStdout t d) := by
  obtain ⟨pq, prev, prev_only, next, next_only⟩ := hi
  obtain ⟨rp, nx⟩ := ps
  simp only at prev prev_only next next_only hd
  cases nx with
  | none =>
    cases rp with
    | none =>
      simp only [PipeSet.moveToStdinStdout, PipeSet.connectStdout, connectStdin, MovePost]
      refine ⟨?_, ?_, ?_, ?_⟩ <;> grind [Table.set]
    | some a =>
      have hap := prev a rfl
      by_cases ha : a = 0
      · subst ha
        simp only [PipeSet.moveToStdinStdout, PipeSet.connectStdout, connectStdin, MovePost, if_true]
        refine ⟨?_, ?_, ?_, ?_⟩ <;> grind [Table.set]
      · simp only [PipeSet.moveToStdinStdout, PipeSet.connectStdout, connectStdin, MovePost, ha, if_false,
          Table.dup2, hap, Table.close]
        refine ⟨?_, ?_, ?_, ?_⟩ <;> grind [Table.set]
  | some rw =>
    obtain ⟨r, w⟩ := rw
    have ⟨hr, hw⟩ := next r w rfl
    have hrw : r ≠ w := by grind
    have hwr : w ≠ r := fun h => hrw h.symm
    have hd' := hd r w rfl
    by_cases hw1 : w = 1
    · subst hw1
      cases rp with
      | none =>
        simp only [PipeSet.moveToStdinStdout, PipeSet.connectStdout, connectStdin, MovePost, if_true, Table.close]
        refine ⟨?_, ?_, ?_, ?_⟩ <;> grind [Table.set]
      | some a =>
        have hap := prev a rfl
        have har : a ≠ r := by grind
        by_cases ha : a = 0
        · subst ha
          simp only [PipeSet.moveToStdinStdout, PipeSet.connectStdout, connectStdin, MovePost, if_true, Table.close]
          refine ⟨?_, ?_, ?_, ?_⟩ <;> grind [Table.set]
        · have e : t.set r none a = some (.pr p) := by simp [Table.set, har, hap]
          simp only [PipeSet.moveToStdinStdout, PipeSet.connectStdout, connectStdin, MovePost, if_true, Table.close,
            ha, if_false, Table.dup2, e]
          refine ⟨?_, ?_, ?_, ?_⟩ <;> grind [Table.set]
    · have ew : t.set r none w = some (.pw q) := by simp [Table.set, hwr, hw]
      cases rp with
      | none =>
        simp only [PipeSet.moveToStdinStdout, PipeSet.connectStdout, connectStdin, MovePost, hw1, if_false,
          reduceCtorEq, Table.close, Table.dup2, ew]
        refine ⟨?_, ?_, ?_, ?_⟩ <;> grind [Table.set]
      | some a =>
        have hap := prev a rfl
        have har : a ≠ r := by grind
        have haw : a ≠ w := by grind
        by_cases ha1 : a = 1
        · subst ha1
          have e1 : t.set r none 1 = some (.pr p) := by simp [Table.set, har, hap]
          have hdw : d ≠ w := by grind
          have hd1 : d ≠ 1 := by grind
          have e2 : (t.set r none).set d (some (.pr p)) w = some (.pw q) := by
            simp [Table.set, Ne.symm hdw, hwr, hw]
          by_cases hd0 : d = 0
          · subst hd0
            simp only [PipeSet.moveToStdinStdout, PipeSet.connectStdout, connectStdin, MovePost, hw1, if_false,
              if_true, Table.close, Table.dup2, Table.dupTo, e1, e2]
            refine ⟨?_, ?_, ?_, ?_⟩ <;> grind [Table.set]
          · have e3 : (((t.set r none).set d (some (.pr p))).set 1 (some (.pw q))).set w none d = some (.pr p) := by
              simp [Table.set, hdw, hd1]
            simp only [PipeSet.moveToStdinStdout, PipeSet.connectStdout, connectStdin, MovePost, hw1, if_false,
              if_true, Table.close, Table.dup2, Table.dupTo, e1, e2, hd0, e3]
            refine ⟨?_, ?_, ?_, ?_⟩ <;> grind [Table.set]
        · by_cases ha : a = 0
          · subst ha
            simp only [PipeSet.moveToStdinStdout, PipeSet.connectStdout, connectStdin, MovePost, hw1, if_false,
              if_true, Table.close, Table.dup2, ew, Option.some.injEq, ha1]
            refine ⟨?_, ?_, ?_, ?_⟩ <;> grind [Table.set]
          · have e4 : ((t.set r none).set 1 (some (.pw q))).set w none a = some (.pr p) := by
              simp [Table.set, haw, ha1, har, hap]
            simp only [PipeSet.moveToStdinStdout, PipeSet.connectStdout, connectStdin, MovePost, hw1, if_false,
              Table.close, Table.dup2, ew, Option.some.injEq, ha1, ha, e4]
            refine ⟨?_, ?_, ?_, ?_⟩ <;> grind [Table.set]

theorem pinv_init (t : Table) (p q : Nat) (hp : t.Fresh p) (hq : t.Fresh q) (hpq : p ≠ q) :
    PInv t {} p q := by
  unfold Table.Fresh at hp hq
  refine ⟨hpq, ?_, ?_, ?_, ?_⟩ <;> grind

theorem shift_open_inv (t : Table) (ps : PipeSet) (p q q' : Nat) (r' w' : Fd)
    (hi : PInv t ps p q) (hq' : t.Fresh q') (hqq : q ≠ q') (hrw : r' ≠ w')
    (hr : (ps.shiftClose t).2 r' = none) (hw : (ps.shiftClose t).2 w' = none) :
    PInv (ps.shiftOpen t q' r' w').2 (ps.shiftOpen t q' r' w').1 q q' := by
  obtain ⟨pq, prev, prev_only, next, next_only⟩ := hi
  obtain ⟨rp, nx⟩ := ps
  unfold Table.Fresh at hq'
  simp only at prev prev_only next next_only
  cases rp <;> cases nx <;>
    simp only [PipeSet.shiftOpen, PipeSet.shiftClose, Table.pipe, Table.close] at hr hw ⊢ <;>
    refine ⟨hqq, ?_, ?_, ?_, ?_⟩ <;> grind [Table.set]

theorem shift_close_inv (t : Table) (ps : PipeSet) (p q q' : Nat)
    (hi : PInv t ps p q) (hq' : t.Fresh q') (hqq : q ≠ q') :
    PInv (ps.shiftClose t).2 (ps.shiftClose t).1 q q' := by
  obtain ⟨pq, prev, prev_only, next, next_only⟩ := hi
  obtain ⟨rp, nx⟩ := ps
  unfold Table.Fresh at hq'
  simp only at prev prev_only next next_only
  cases rp <;> cases nx <;>
    simp only [PipeSet.shiftClose, Table.close] <;>
    refine ⟨hqq, ?_, ?_, ?_, ?_⟩ <;> grind [Table.set]

/-! ### lowest-unused allocation (what the driver and `Process::open_fd` do) -/

theorem minUnused_spec (t : Table) (fuel lo : Nat) (h : ∃ fd : Nat, lo ≤ fd ∧ fd < lo + fuel ∧ t fd = none) :
    ∃ r : Nat, t.minUnused fuel lo = r ∧ t r = none ∧ lo ≤ r ∧ r < lo + fuel := by
  induction fuel generalizing lo with
  | zero => obtain ⟨fd, h1, h2, _⟩ := h; omega
  | succ f ih =>
    unfold Table.minUnused
    by_cases hm : (t lo).isNone = true
    · rw [if_pos hm]
      exact ⟨lo, rfl, by simpa using hm, Nat.le_refl _, by omega⟩
    · rw [if_neg hm]
      obtain ⟨fd, h1, h2, h3⟩ := h
      have hne : fd ≠ lo := fun e => by subst e; simp [h3] at hm
      obtain ⟨r, e, h4, h5, h6⟩ := ih (lo + 1) ⟨fd, by omega, by omega, h3⟩
      exact ⟨r, e, h4, by omega, by omega⟩

theorem alloc2_spec (t : Table) (h : ∃ a b : Nat, a < b ∧ b < 64 ∧ t a = none ∧ t b = none) :
    ∃ r w : Nat, alloc2 t = (r, w) ∧ r ≠ w ∧ t r = none ∧ t w = none := by
  obtain ⟨a, b, hab, hb, ha0, hb0⟩ := h
  unfold alloc2
  simp only
  obtain ⟨r, er, h1, _, _⟩ := minUnused_spec t 64 0 ⟨a, by omega, by omega, ha0⟩
  rw [er]
  have h2 : ∃ fd : Nat, 0 ≤ fd ∧ fd < 0 + 64 ∧ (t.set r (some Ent.file)) fd = none := by
    by_cases e : r = a
    · refine ⟨b, by omega, by omega, ?_⟩
      have : b ≠ r := by omega
      simp [Table.set, hb0, this]
    · refine ⟨a, by omega, by omega, ?_⟩
      have : a ≠ r := fun x => e x.symm
      simp [Table.set, ha0, this]
  obtain ⟨w, ew, h3, _, _⟩ := minUnused_spec (t.set r (some Ent.file)) 64 0 h2
  rw [ew]
  have hwr : w ≠ r := by
    intro e
    subst e
    simp [Table.set] at h3
  exact ⟨r, w, rfl, fun e => hwr e.symm, h1, by simpa [Table.set, hwr] using h3⟩

end YashModel.Pipe
