/-
  C14 — Impl model of the descriptor choreography that connects a child process to its pipe(s).

  Transcribed from (current /repo):
    yash-semantics/src/expansion/initial/command_subst.rs   `expand` (pipe), `subshell_body` (child),
                                                            `expand_common` (parent closes the writer)
    yash-semantics/src/command/pipeline.rs                  `PipeSet::{shift, move_to_stdin_stdout}`
    yash-env/src/system/virtual.rs                          `pipe`, `close`, `dup`, `dup2` on `Process::fds`

  The descriptor table of a process is a finite map `Fd → entry`; an entry says what the descriptor
  refers to: some file that is not one of the pipes under consideration, or the reading / writing end
  of pipe number `p`.  A table is a function so that the theorems quantify over *every* table (any
  descriptors open or closed, incl. 0/1/2).  `pipe()` and `dup(_, min)` allocate "some unused
  descriptor": in the theorems any unused descriptor, in the executable driver the lowest one (as
  `Process::open_fd_ge` does).  Import-free, executable.
-/
namespace YashModel.Pipe

abbrev Fd := Nat

/-- what a descriptor refers to -/
inductive Ent where
  | file            -- anything that is not an end of a pipe under consideration
  | pr (p : Nat)    -- reading end of pipe `p`
  | pw (p : Nat)    -- writing end of pipe `p`
  deriving DecidableEq, Repr

/-- `Process::fds` -/
abbrev Table := Fd → Option Ent

def Table.set (t : Table) (fd : Fd) (v : Option Ent) : Table := fun x => if x = fd then v else t x

/-- `Close::close` (never fails in the virtual system; closing a closed descriptor is a no-op) -/
def Table.close (t : Table) (fd : Fd) : Table := t.set fd none

/-- `Dup::dup2(from, to)`; `none` = EBADF (source not open) -/
def Table.dup2 (t : Table) (src dst : Fd) : Option Table :=
  match t src with
  | none => none
  | some e => some (t.set dst (some e))

/-- `Dup::dup(from, to_min, _)` where the allocator hands out the unused descriptor `d` -/
def Table.dupTo (t : Table) (src d : Fd) : Option Table :=
  match t src with
  | none => none
  | some e => some (t.set d (some e))

/-- `Pipe::pipe()` where the allocator hands out `r` and `w` for pipe number `p` -/
def Table.pipe (t : Table) (p : Nat) (r w : Fd) : Table := (t.set r (some (.pr p))).set w (some (.pw p))

/-- lowest unused descriptor ≥ `min` among the next `fuel` (`min_unused_fd`) -/
def Table.minUnused (t : Table) : Nat → Fd → Fd
  | 0, min => min
  | fuel + 1, min => if (t min).isNone then min else Table.minUnused t fuel (min + 1)

/-! ## command substitution -/

/-- `subshell_body`, "Arrange the file descriptors":
    `close(reader); if writer != STDOUT { dup2(writer, STDOUT)?; close(writer) }` -/
def substChild (t : Table) (reader writer : Fd) : Option Table :=
  let t1 := t.close reader
  if writer ≠ 1 then (t1.dup2 writer 1).map (·.close writer) else some t1

/-- `expand_common`: the parent closes the writer (and reads from `reader`) -/
def substParent (t : Table) (writer : Fd) : Table := t.close writer

/-! ## pipelines -/

/-- `PipeSet` -/
structure PipeSet where
  readPrevious : Option Fd := none
  next : Option (Fd × Fd) := none
  deriving Repr, DecidableEq

/-- `PipeSet::shift`, the closing half (what happens before a new pipe is opened) -/
def PipeSet.shiftClose (ps : PipeSet) (t : Table) : PipeSet × Table :=
  let t1 := match ps.readPrevious with
    | some fd => t.close fd
    | none => t
  match ps.next with
  | some (reader, writer) => ({ readPrevious := some reader, next := none }, t1.close writer)
  | none => ({ readPrevious := none, next := none }, t1)

/-- `PipeSet::shift` with `has_next`: the new pipe `p` gets the descriptors `r`, `w` -/
def PipeSet.shiftOpen (ps : PipeSet) (t : Table) (p : Nat) (r w : Fd) : PipeSet × Table :=
  let (ps1, t1) := ps.shiftClose t
  ({ ps1 with next := some (r, w) }, t1.pipe p r w)

/-- `PipeSet::move_to_stdin_stdout`, first block (`if let Some((reader, writer)) = self.next`):
    returns the table and the (possibly moved) `read_previous`; `none` = an error return.
    `d` is the descriptor the allocator hands out for `dup(STDOUT, Fd(0))` in the table at that moment
    (used only in the special case `read_previous == Some(STDOUT)`). -/
def PipeSet.connectStdout (ps : PipeSet) (t : Table) (d : Fd) : Option (Table × Option Fd) :=
  match ps.next with
  | none => some (t, ps.readPrevious)
  | some (reader, writer) =>
    if writer = 1 then some (t.close reader, ps.readPrevious)
    else if ps.readPrevious = some 1 then
      match (t.close reader).dupTo 1 d with
      | none => none
      | some t2 =>
        match t2.dup2 writer 1 with
        | none => none
        | some t3 => some (t3.close writer, some d)
    else
      match (t.close reader).dup2 writer 1 with
      | none => none
      | some t3 => some (t3.close writer, ps.readPrevious)

/-- `PipeSet::move_to_stdin_stdout`, second block (`if let Some(reader) = self.read_previous`) -/
def connectStdin (t : Table) (rp : Option Fd) : Option Table :=
  match rp with
  | none => some t
  | some reader =>
    if reader = 0 then some t
    else match t.dup2 reader 0 with
      | none => none
      | some t' => some (t'.close reader)

/-- `PipeSet::move_to_stdin_stdout` in the child -/
def PipeSet.moveToStdinStdout (ps : PipeSet) (t : Table) (d : Fd) : Option Table :=
  match ps.connectStdout t d with
  | none => none
  | some (t1, rp) => connectStdin t1 rp

/-! ## what the driver runs for a command substitution -/

/-- `pipe()`: the two lowest unused descriptors -/
def alloc2 (t : Table) : Fd × Fd :=
  let r := t.minUnused 64 0
  (r, (t.set r (some .file)).minUnused 64 0)

/-- no descriptor other than the expected ones refers to pipe `p` -/
def noStray (t : Table) (p : Nat) (rAt wAt : Option Nat) : Bool :=
  (List.range 40).all fun fd =>
    (t fd != some (.pr p) || rAt == some fd) && (t fd != some (.pw p) || wAt == some fd)

/-- the child of a command substitution started from table `t` (pipe number `p`):
    its table and whether it is connected as the property needs -/
def substRun (t : Table) (p : Nat) : Table × Bool :=
  let (r, w) := alloc2 t
  match substChild (t.pipe p r w) r w with
  | none => (t, false)
  | some c => (c, c 1 == some (.pw p) && noStray c p none (some 1))

end YashModel.Pipe
