/-
  C14 — the operation-sequence machine of the model driver (moved here from Main.lean in wave 3 so that
  theorems can be stated about it): `OpState` (the FIFO, the open slots, the FIFO's waker sets and the parked
  `select` calls), `opStep` (one operation: result text, new state, Spec verdict) and the Spec of the wake-up
  half evaluated after every operation (`lostWakeup`).  Import-free apart from Model / Spec / Wake, executable.
-/
import YashModel.Pipe.Model
import YashModel.Pipe.Spec
import YashModel.Pipe.Wake
namespace YashModel.Pipe

abbrev Byte := Nat

def cfg : Cfg := Cfg.real

def hashBytes (bs : List Byte) : Nat := bs.foldl (fun h b => (h * 31 + b + 1) % 1000003) 7

/-- data of the write operation at position `i` of an operation sequence -/
def opData (i n : Nat) : List Byte := (List.range n).map fun j => (i * 7 + j * 13 + 1) % 251

inductive Op where
  | openFd (r w : Bool)
  | dwrite (k n : Nat)
  | dread (k n : Nat)
  | selBad
  | setNb (k : Nat) (b : Bool)
  | close (k : Nat)
  | write (k n : Nat)
  | read (k n : Nat)
  | sel
  | park (k : Nat) (r w : Bool)
  | poll (j : Nat)

structure OpState where
  fifo : Fifo Byte := {}
  slots : List (Option Ofd) := []
  accepted : List Byte := []
  delivered : List Byte := []
  /-- the FIFO's waker sets and the wakers that have fired -/
  wk : Wakers := {}
  /-- `select` calls that returned `Pending` and are kept alive: (waker id, slot, in reader set, in writer set) -/
  parked : List (Nat × Nat × Bool × Bool) := []
  nextId : Nat := 0

def slotGet (st : OpState) (k : Nat) : Option Ofd := (st.slots.getD k none)

def showErr : Errno → String
  | .EBADF => "EBADF" | .EAGAIN => "EAGAIN" | .EPIPE => "EPIPE" | .ENXIO => "ENXIO"

def idList (l : List Nat) : String :=
  if l.isEmpty then "-" else ",".intercalate (l.map toString)

/-- runs one operation: (result text, new state, spec verdict for this step) -/
def opStep (st : OpState) (i : Nat) : Op → String × OpState × Option String
  | .openFd r w =>
    match st.fifo.openNonblock r w with
    | none => ("ENXIO", st, if st.fifo.readers == 0 then none else some "enxio-with-readers")
    | some f =>
      (s!"fd{st.slots.length}",
        { st with fifo := f, slots := st.slots ++ [some { readable := r, writable := w, nonblocking := true }] }, none)
  | .setNb k b =>
    match slotGet st k with
    | none => ("nofd", st, none)
    | some o => ("ok", { st with slots := st.slots.set k (some { o with nonblocking := b }) }, none)
  | .close k =>
    match slotGet st k with
    | none => ("nofd", st, none)
    | some o =>
      -- the harness drops the `select` futures parked on this slot before it closes the descriptor
      let gone := (st.parked.filter fun e => e.2.1 == k).map (·.1)
      let wk0 : Wakers := { pendR := st.wk.pendR.filter (!gone.contains ·), pendW := st.wk.pendW.filter (!gone.contains ·),
                            fired := st.wk.fired.filter (!gone.contains ·) }
      let (f, wk') := wfClose st.fifo wk0 o.readable o.writable
      ("ok", { st with fifo := f, wk := wk', parked := st.parked.filter (fun e => e.2.1 != k), slots := st.slots.set k none }, none)
  | .write k n =>
    match slotGet st k with
    | none => ("nofd", st, none)
    | some o =>
      let buf := opData i n
      let (res, f, wk') := o.sysWriteW cfg st.fifo st.wk buf
      let written := f.content.length - st.fifo.content.length
      let txt := match res with
        | .ok m => s!"ok {m}"
        | .pending => "pend"
        | .err e => showErr e
      -- Spec: the system call as a whole (non-blocking descriptors: exactly one `poll_write`)
      let verdict :=
        if n = 0 then (if res == .ok 0 then none else some "empty-write")
        else if !o.writable then (if res == .err .EBADF then none else some "write-on-reader")
        else if o.nonblocking then
          let wres := match res with
            | .ok m => WRes.wrote m
            | .err .EPIPE => WRes.epipe
            | _ => WRes.block
          if specWriteOk cfg st.fifo n wres f buf then none else some "write-law"
        else
          -- blocking descriptor: everything is written unless the pipe filled up (then pending, full)
          match res with
          | .ok m => if m == n then none else some "blocking-write-short"
          | .pending => if f.content.length == cfg.pipeSize || (n ≤ cfg.pipeBuf && written == 0) then none
                        else some "blocking-write-pending-with-room"
          | .err .EPIPE => if st.fifo.readers == 0 then none else some "epipe-with-readers"
          | .err _ => some "blocking-write-error"
      (txt, { st with fifo := f, wk := wk', accepted := st.accepted ++ buf.take written }, verdict)
  | .read k n =>
    match slotGet st k with
    | none => ("nofd", st, none)
    | some o =>
      let (res, bs, f, wk') := o.sysReadW st.fifo st.wk n
      let txt := match res with
        | .ok m => s!"ok {m}:{hashBytes bs}"
        | .pending => "pend"
        | .err e => showErr e
      let verdict :=
        if !o.readable then (if res == .err .EBADF then none else some "read-on-writer")
        else
          let blocked := match res with | .ok _ => false | _ => true
          if specReadOk st.fifo n blocked bs.length then none else some "read-law"
      (txt, { st with fifo := f, wk := wk', delivered := st.delivered ++ bs }, verdict)
  | .dwrite k n =>
    -- `OpenFileDescription::write`: one `poll_write`; `Pending` → EAGAIN
    match slotGet st k with
    | none => ("nofd", st, none)
    | some o =>
      let buf := opData i n
      let (res, f, wk') := o.pollWriteW cfg st.fifo st.wk buf
      let written := f.content.length - st.fifo.content.length
      let txt := match res with
        | .ok m => s!"ok {m}"
        | .pending => "EAGAIN"
        | .err e => showErr e
      let verdict :=
        if !o.writable then (if res == .err .EBADF then none else some "write-on-reader")
        else
          let wres := match res with
            | .ok m => WRes.wrote m
            | .err .EPIPE => WRes.epipe
            | _ => WRes.block
          if specWriteOk cfg st.fifo n wres f buf then none else some "write-law"
      (txt, { st with fifo := f, wk := wk', accepted := st.accepted ++ buf.take written }, verdict)
  | .dread k n =>
    match slotGet st k with
    | none => ("nofd", st, none)
    | some o =>
      let (res, bs, f, wk') := o.sysReadW st.fifo st.wk n
      let txt := match res with
        | .ok m => s!"ok {m}:{hashBytes bs}"
        | .pending => "EAGAIN"
        | .err e => showErr e
      let verdict :=
        if !o.readable then (if res == .err .EBADF then none else some "read-on-writer")
        else
          let blocked := match res with | .ok _ => false | _ => true
          if specReadOk st.fifo n blocked bs.length then none else some "read-law"
      (txt, { st with fifo := f, wk := wk', delivered := st.delivered ++ bs }, verdict)
  | .park k r w =>
    -- `select` without timeout on slot `k`, polled once with a fresh waker and kept alive if pending
    match slotGet st k with
    | none => ("nofd", st, none)
    | some o =>
      let id := st.nextId
      match wfSelect cfg o st.fifo st.wk r w id with
      | (some (rr, rw), _) => (s!"sel R={if rr then toString k else "-"} W={if rw then toString k else "-"}", st, none)
      | (none, wk') => (s!"parked {id}", { st with wk := wk', parked := st.parked ++ [(id, k, r, w)], nextId := id + 1 }, none)
  | .poll j =>
    -- the parked `select` number `j` is polled again (its wake flag is reset first)
    match st.parked.find? (·.1 == j) with
    | none => ("nopark", st, none)
    | some (_, k, r, w) =>
      match slotGet st k with
      | none => ("nopark", st, none)
      | some o =>
        let wk0 : Wakers := { st.wk with fired := st.wk.fired.filter (· != j) }
        match wfSelect cfg o st.fifo wk0 r w j with
        | (some (rr, rw), _) =>
          -- completed: the future (and its waker cell) is dropped, registrations left behind are dead
          (s!"sel R={if rr then toString k else "-"} W={if rw then toString k else "-"}",
            { st with wk := { wk0 with pendR := wk0.pendR.filter (· != j), pendW := wk0.pendW.filter (· != j) },
                      parked := st.parked.filter (·.1 != j) }, none)
        | (none, wk') => (s!"parked {j}", { st with wk := wk' }, none)
  | .selBad => ("sel EBADF", st, none)
  | .sel =>
    let idx := List.range st.slots.length
    let rs := idx.filter fun k => match slotGet st k with
      | some o => !o.readable || st.fifo.readyR
      | none => false
    let ws := idx.filter fun k => match slotGet st k with
      | some o => !o.writable || st.fifo.readyW cfg
      | none => false
    (s!"sel R={idList rs} W={idList ws}", st, none)

/-- Spec of the wake-up half, evaluated on the model's state after every operation: a parked `select`
    whose waker has not fired waits for descriptors that are really not ready -/
def lostWakeup (st : OpState) : Bool :=
  st.parked.any fun (id, k, r, w) =>
    !st.wk.fired.contains id &&
      match slotGet st k with
      | none => false
      | some o => (r && (!o.readable || st.fifo.readyR)) || (w && (!o.writable || st.fifo.readyW cfg))
/-- the state after an operation sequence (operation number `i` of the sequence runs with index `i`) -/
def opsFrom (st : OpState) (i : Nat) : List Op → OpState
  | [] => st
  | op :: rest => opsFrom (opStep st i op).2.1 (i + 1) rest

end YashModel.Pipe
