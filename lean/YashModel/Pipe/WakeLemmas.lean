/-
  C14 — helper lemmas for the wake-up model (Wake.lean): the "no lost wake-up" invariant, the projection
  onto the writer ∥ reader system of Model.lean, enabledness of a legitimate poll, the progress measure.
-/
import YashModel.Pipe.FlowLemmas
import YashModel.Pipe.Wake
namespace YashModel.Pipe

variable {α : Type}

/-- reachable states of the two processes under an executor that may poll either process at every step,
    also spuriously -/
inductive WReach (c : Cfg) (payload : List α) : WSys α → Prop
  | init : WReach c payload (WSys.init payload)
  | step {s s' : WSys α} (a : WAct) :
      WReach c payload s → a.ok = true → s.step c a = some s' → WReach c payload s'

/-- no lost wake-up: a process that is parked in `select` and whose waker has not fired still has its
    waker registered in the FIFO's set, and its descriptor is not ready -/
structure WInv (c : Cfg) (s : WSys α) : Prop where
  hw : s.base.wpc = .wait → s.w.parked = true → s.w.woken = false →
        s.w.reg = true ∧ s.base.pipe.readyW c = false
  hr : s.base.rpc = .wait → s.r.parked = true → s.r.woken = false →
        s.r.reg = true ∧ s.base.pipe.readyR = false

theorem wake_unwoken {x : PWake} (h1 : x.wake.parked = true) (h2 : x.wake.woken = false) :
    x.parked = true ∧ x.woken = false ∧ x.reg = false := by
  by_cases h : x.reg = true
  · simp [PWake.wake, h] at h2
  · simp only [PWake.wake, h] at h1 h2
    simp_all

theorem closeWake_unwoken {p : Fifo α} {x : PWake} (h1 : (closeWake p x).parked = true)
    (h2 : (closeWake p x).woken = false) :
    x.parked = true ∧ x.woken = false ∧ (x.reg = false ∨ (closeWake p x = x ∧ p.readers ≠ 0 ∧ p.writers ≠ 0)) := by
  by_cases h : p.readers = 0 ∨ p.writers = 0
  · simp only [closeWake, h, if_true] at h1 h2
    have := wake_unwoken h1 h2
    exact ⟨this.1, this.2.1, Or.inl this.2.2⟩
  · simp only [closeWake, h, if_false] at h1 h2 ⊢
    refine ⟨h1, h2, Or.inr ⟨trivial, ?_, ?_⟩⟩ <;> omega

/-! ### facts about one base step -/

theorem stepW_rpc {c : Cfg} {s b : Sys α} {k : Nat} (h : s.stepW c k = some b) : b.rpc = s.rpc := by
  unfold Sys.stepW at h
  split at h
  · split at h
    · simp only [Option.some.injEq] at h; subst h; rfl
    · split at h
      · simp only [Option.some.injEq] at h; subst h; rfl
      · simp only [Option.some.injEq] at h; subst h; rfl
      · split at h <;> (simp only [Option.some.injEq] at h; subst h; rfl)
  · split at h
    · simp only [Option.some.injEq] at h; subst h; rfl
    · simp at h
  · simp at h
  · simp at h

theorem stepR_wpc {s b : Sys α} {n : Nat} (h : s.stepR n = some b) : b.wpc = s.wpc := by
  unfold Sys.stepR at h
  split at h
  · split at h
    · simp only [Option.some.injEq] at h; subst h; rfl
    · split at h <;> (simp only [Option.some.injEq] at h; subst h; rfl)
  · split at h
    · simp only [Option.some.injEq] at h; subst h; rfl
    · simp at h
  · simp at h


theorem readyR_closeW {p : Fifo α} (h : p.readyR = false) (hw : (p.closeFd false true).writers ≠ 0) :
    (p.closeFd false true).readyR = false := by
  unfold Fifo.readyR Fifo.closeFd at *
  simp only [Bool.or_eq_false_iff, beq_eq_false_iff_ne] at h ⊢
  simp only [] at hw
  exact ⟨hw, h.2⟩

theorem readyW_closeR {c : Cfg} {p : Fifo α} (h : p.readyW c = false) (hr : (p.closeFd true false).readers ≠ 0) :
    (p.closeFd true false).readyW c = false := by
  unfold Fifo.readyW Fifo.closeFd Fifo.room at *
  simp only [Bool.or_eq_false_iff, beq_eq_false_iff_ne] at h ⊢
  simp only [] at hr
  exact ⟨hr, h.2⟩

theorem write_fst_epipe {c : Cfg} {p : Fifo α} {buf : List α} (h : (p.write c buf).1 = .epipe) :
    p.write c buf = (.epipe, p) := by
  have e : p.write c buf = (.epipe, (p.write c buf).2) := by rw [← h]
  rw [e, (write_epipe e).2]

theorem write_fst_block {c : Cfg} {p : Fifo α} {buf : List α} (h : (p.write c buf).1 = .block) :
    p.write c buf = (.block, p) := by
  have e : p.write c buf = (.block, (p.write c buf).2) := by rw [← h]
  rw [e, (write_block e).1]

/-! ### the invariant is preserved by every poll (legitimate or spurious) -/

theorem winv_stepW {c : Cfg} {s s' : WSys α} {k : Nat} {spur : Bool}
    (hi : WInv c s) (h : s.stepW c k spur = some s') : WInv c s' := by
  obtain ⟨hw, hr⟩ := hi
  unfold WSys.stepW at h
  split at h
  next hwpc =>
    split at h
    · simp at h
    next b hb =>
      have hrpc := stepW_rpc hb
      split at h
      next he =>
        simp only [Option.some.injEq] at h; subst h
        refine ⟨by simp, ?_⟩
        intro h1 h2 h3
        simp only at h1 h2 h3 ⊢
        obtain ⟨p1, p2, p3⟩ := closeWake_unwoken h2 h3
        have hh := hr (hrpc ▸ h1) p1 p2
        rcases p3 with p3 | ⟨e, _, hw0⟩
        · simp [p3] at hh
        · rw [e]; refine ⟨hh.1, ?_⟩
          simp only [Sys.stepW, hwpc, he, if_true, Option.some.injEq] at hb
          subst hb
          exact readyR_closeW hh.2 hw0
      next he =>
        split at h
        next hres =>
          -- EPIPE, then close
          simp only [Option.some.injEq] at h; subst h
          refine ⟨by simp, ?_⟩
          intro h1 h2 h3
          simp only at h1 h2 h3 ⊢
          obtain ⟨p1, p2, p3⟩ := closeWake_unwoken h2 h3
          have hh := hr (hrpc ▸ h1) p1 p2
          rcases p3 with p3 | ⟨e, _, hw0⟩
          · simp [p3] at hh
          · rw [e]; refine ⟨hh.1, ?_⟩
            have hwr := write_fst_epipe hres
            simp only [Sys.stepW, hwpc, he, hwr, Bool.false_eq_true, if_false, Option.some.injEq] at hb
            subst hb
            exact readyR_closeW hh.2 hw0
        next hres =>
          -- EAGAIN: registered in `state.writes`, `select` not yet polled
          simp only [Option.some.injEq] at h; subst h
          refine ⟨by simp, ?_⟩
          intro h1 h2 h3
          simp only at h1 h2 h3 ⊢
          have hh := hr (hrpc ▸ h1) h2 h3
          refine ⟨hh.1, ?_⟩
          have hwr := write_fst_block hres
          simp only [Sys.stepW, hwpc, he, hwr, Bool.false_eq_true, if_false, Option.some.injEq] at hb
          subst hb
          exact hh.2
        next n hres =>
          simp only [Option.some.injEq] at h; subst h
          refine ⟨by simp, ?_⟩
          intro h1 h2 h3
          simp only at h1 h2 h3 ⊢
          obtain ⟨p1, p2, p3⟩ := wake_unwoken h2 h3
          have hh := hr (hrpc ▸ h1) p1 p2
          simp [p3] at hh
  next hwpc =>
    split at h
    · simp at h
    · split at h
      next hrdy =>
        cases hb : s.base.stepW c k with
        | none => simp [hb] at h
        | some b =>
          simp only [hb, Option.map_some, Option.some.injEq] at h; subst h
          have hrpc := stepW_rpc hb
          simp only [Sys.stepW, hwpc, hrdy, if_true, Option.some.injEq] at hb
          subst hb
          refine ⟨by simp, ?_⟩
          intro h1 h2 h3
          exact hr h1 h2 h3
      next hrdy =>
        simp only [Option.some.injEq] at h; subst h
        refine ⟨?_, hr⟩
        intro _ _ _
        simp only [PWake.pollSelect]
        simp [hrdy]
  next => simp at h
  next => simp at h

theorem read_fst_block {p : Fifo α} {n : Nat} (h : (p.read n).1 = .block) : p.read n = (.block, p) := by
  have e : p.read n = (.block, (p.read n).2) := by rw [← h]
  rw [e, (read_block e).1]

theorem winv_stepR {c : Cfg} {s s' : WSys α} {n : Nat} {spur : Bool} (hn : 1 ≤ n)
    (hi : WInv c s) (h : s.stepR n spur = some s') : WInv c s' := by
  obtain ⟨hw, hr⟩ := hi
  have hn0 : n ≠ 0 := by omega
  unfold WSys.stepR at h
  split at h
  next hrpc =>
    split at h
    · simp at h
    next b hb =>
      have hwpc := stepR_wpc hb
      split at h
      next hres =>
        simp only [Option.some.injEq] at h; subst h
        refine ⟨?_, by simp⟩
        intro h1 h2 h3
        simp only at h1 h2 h3 ⊢
        have hh := hw (hwpc ▸ h1) h2 h3
        refine ⟨hh.1, ?_⟩
        have hrd := read_fst_block hres
        simp only [Sys.stepR, hrpc, hrd, Option.some.injEq] at hb
        subst hb
        exact hh.2
      next bs hres =>
        simp only [hn0, if_false] at h
        split at h
        · simp only [Option.some.injEq] at h; subst h
          refine ⟨?_, by simp⟩
          intro h1 h2 h3
          simp only at h1 h2 h3 ⊢
          obtain ⟨p1, p2, _⟩ := closeWake_unwoken h2 h3
          obtain ⟨q1, q2, q3⟩ := wake_unwoken p1 p2
          have hh := hw (hwpc ▸ h1) q1 q2
          simp [q3] at hh
        · simp only [Option.some.injEq] at h; subst h
          refine ⟨?_, by simp⟩
          intro h1 h2 h3
          simp only at h1 h2 h3 ⊢
          obtain ⟨q1, q2, q3⟩ := wake_unwoken h2 h3
          have hh := hw (hwpc ▸ h1) q1 q2
          simp [q3] at hh
  next hrpc =>
    split at h
    · simp at h
    · split at h
      next hrdy =>
        cases hb : s.base.stepR n with
        | none => simp [hb] at h
        | some b =>
          simp only [hb, Option.map_some, Option.some.injEq] at h; subst h
          simp only [Sys.stepR, hrpc, hrdy, if_true, Option.some.injEq] at hb
          subst hb
          refine ⟨?_, by simp⟩
          intro h1 h2 h3
          exact hw h1 h2 h3
      next hrdy =>
        simp only [Option.some.injEq] at h; subst h
        refine ⟨hw, ?_⟩
        intro _ _ _
        simp only [PWake.pollSelect]
        simp [hrdy]
  next => simp at h

theorem winv_init (c : Cfg) (payload : List α) : WInv c (WSys.init payload) :=
  ⟨by simp [WSys.init], by simp [WSys.init]⟩

theorem winv_reach {c : Cfg} {payload : List α} {s : WSys α} (h : WReach c payload s) : WInv c s := by
  induction h with
  | init => exact winv_init c payload
  | step a _ ha hs ih =>
    cases a with
    | w k spur => exact winv_stepW ih hs
    | r n spur => exact winv_stepR (by simpa [WAct.ok] using ha) ih hs

/-! ### projection onto the writer ∥ reader system of Model.lean -/

theorem wstepW_base {c : Cfg} {s s' : WSys α} {k : Nat} {spur : Bool} (h : s.stepW c k spur = some s') :
    s'.base = s.base ∨ s.base.stepW c k = some s'.base := by
  unfold WSys.stepW at h
  split at h
  · split at h
    · simp at h
    next b hb =>
      right
      split at h
      · simp only [Option.some.injEq] at h; subst h; exact hb
      · split at h <;> (simp only [Option.some.injEq] at h; subst h; exact hb)
  · split at h
    · simp at h
    · split at h
      · cases hb : s.base.stepW c k with
        | none => simp [hb] at h
        | some b => simp only [hb, Option.map_some, Option.some.injEq] at h; subst h; exact Or.inr rfl
      · simp only [Option.some.injEq] at h; subst h; exact Or.inl rfl
  · simp at h
  · simp at h

theorem wstepR_base {s s' : WSys α} {n : Nat} {spur : Bool} (h : s.stepR n spur = some s') :
    s'.base = s.base ∨ s.base.stepR n = some s'.base := by
  unfold WSys.stepR at h
  split at h
  · split at h
    · simp at h
    next b hb =>
      right
      split at h
      · simp only [Option.some.injEq] at h; subst h; exact hb
      · simp only at h
        split at h <;> (simp only [Option.some.injEq] at h; subst h; exact hb)
  · split at h
    · simp at h
    · split at h
      · cases hb : s.base.stepR n with
        | none => simp [hb] at h
        | some b => simp only [hb, Option.map_some, Option.some.injEq] at h; subst h; exact Or.inr rfl
      · simp only [Option.some.injEq] at h; subst h; exact Or.inl rfl
  · simp at h

theorem wreach_base {c : Cfg} {payload : List α} {s : WSys α} (h : WReach c payload s) :
    Reach c payload s.base := by
  induction h with
  | init => exact Reach.init
  | step a _ ha hs ih =>
    cases a with
    | w k spur =>
      rcases wstepW_base hs with e | e
      · rw [e]; exact ih
      · exact Reach.step (.w k) ih (by simpa [WAct.ok, Act.ok] using ha) e
    | r n spur =>
      rcases wstepR_base hs with e | e
      · rw [e]; exact ih
      · exact Reach.step (.r n) ih (by simpa [WAct.ok, Act.ok] using ha) e

/-- every state produced by `WSys.run` is reachable -/
theorem wreach_run {c : Cfg} {payload : List α} {s : WSys α} (hr : WReach c payload s) (acts : List WAct)
    (hok : ∀ a ∈ acts, a.ok = true) : WReach c payload (s.run c acts) := by
  induction acts generalizing s with
  | nil => exact hr
  | cons a t ih =>
    have hok' : ∀ b ∈ t, b.ok = true := fun b hb => hok b (List.mem_cons_of_mem a hb)
    simp only [WSys.run]
    cases hs : s.step c a with
    | none => simpa using ih hr hok'
    | some s' => simpa using ih (WReach.step a hr (hok a List.mem_cons_self) hs) hok'

/-! ### a legitimate poll is possible whenever the base system can move -/

theorem wstepW_some_of_base {c : Cfg} {s : WSys α} {k : Nat} {b : Sys α} (hi : WInv c s)
    (hb : s.base.stepW c k = some b) : ∃ s', s.stepW c k false = some s' := by
  cases hwpc : s.base.wpc with
  | run =>
    unfold WSys.stepW
    simp only [hwpc, hb]
    split
    · exact ⟨_, rfl⟩
    · split <;> exact ⟨_, rfl⟩
  | wait =>
    have hrdy : s.base.pipe.readyW c = true := by
      cases hh : s.base.pipe.readyW c with
      | true => rfl
      | false => simp [Sys.stepW, hwpc, hh] at hb
    unfold WSys.stepW
    simp only [hwpc, Bool.or_false]
    split
    next hg =>
      simp only [Bool.and_eq_true, Bool.not_eq_true'] at hg
      have := (hi.hw hwpc hg.1 hg.2).2
      simp [hrdy] at this
    next => simp [hb]
  | closed => simp [Sys.stepW, hwpc] at hb
  | failed => simp [Sys.stepW, hwpc] at hb

theorem wstepR_some_of_base {c : Cfg} {s : WSys α} {n : Nat} {b : Sys α} (hi : WInv c s)
    (hb : s.base.stepR n = some b) : ∃ s', s.stepR n false = some s' := by
  cases hrpc : s.base.rpc with
  | run =>
    unfold WSys.stepR
    simp only [hrpc, hb]
    split
    · exact ⟨_, rfl⟩
    · split <;> exact ⟨_, rfl⟩
  | wait =>
    have hrdy : s.base.pipe.readyR = true := by
      cases hh : s.base.pipe.readyR with
      | true => rfl
      | false => simp [Sys.stepR, hrpc, hh] at hb
    unfold WSys.stepR
    simp only [hrpc, Bool.or_false]
    split
    next hg =>
      simp only [Bool.and_eq_true, Bool.not_eq_true'] at hg
      have := (hi.hr hrpc hg.1 hg.2).2
      simp [hrdy] at this
    next => simp [hb]
  | done => simp [Sys.stepR, hrpc] at hb

/-! ### progress measure -/

def pcostW (pc : WPc) (x : PWake) : Nat :=
  if pc = .wait then (if x.parked then (if x.woken then 1 else 0) else 2) else 0

def pcostR (pc : RPc) (x : PWake) : Nat :=
  if pc = .wait then (if x.parked then (if x.woken then 1 else 0) else 2) else 0

/-- every legitimate poll strictly decreases this number -/
def WSys.measure (c : Cfg) (s : WSys α) : Nat :=
  6 * s.base.measure c + pcostW s.base.wpc s.w + pcostR s.base.rpc s.r

theorem pcostR_wake (pc : RPc) (x : PWake) : pcostR pc x.wake ≤ pcostR pc x + 1 := by
  unfold pcostR PWake.wake
  cases x with
  | mk p r w => cases p <;> cases r <;> cases w <;> cases pc <;> simp

theorem pcostW_wake (pc : WPc) (x : PWake) : pcostW pc x.wake ≤ pcostW pc x + 1 := by
  unfold pcostW PWake.wake
  cases x with
  | mk p r w => cases p <;> cases r <;> cases w <;> cases pc <;> simp

theorem pcostR_closeWake (pc : RPc) (p : Fifo α) (x : PWake) : pcostR pc (closeWake p x) ≤ pcostR pc x + 1 := by
  unfold closeWake
  split
  · exact pcostR_wake pc x
  · omega

theorem pcostW_closeWake (pc : WPc) (p : Fifo α) (x : PWake) : pcostW pc (closeWake p x) ≤ pcostW pc x + 1 := by
  unfold closeWake
  split
  · exact pcostW_wake pc x
  · omega

theorem pcostW_le (pc : WPc) (x : PWake) : pcostW pc x ≤ 2 := by
  unfold pcostW; split <;> (try split) <;> (try split) <;> omega

theorem pcostR_le (pc : RPc) (x : PWake) : pcostR pc x ≤ 2 := by
  unfold pcostR; split <;> (try split) <;> (try split) <;> omega

theorem wmeasure_stepW {c : Cfg} (hv : c.Valid) {payload : List α} {s s' : WSys α} {k : Nat} (hk : 1 ≤ k)
    (hi : Inv c payload s.base) (h : s.stepW c k false = some s') : s'.measure c < s.measure c := by
  unfold WSys.stepW at h
  split at h
  next hwpc =>
    split at h
    · simp at h
    next b hb =>
      have hm := measure_stepW hv hk hi hb
      have hrpc := stepW_rpc hb
      have h0 : pcostW s.base.wpc s.w = 0 := by simp [pcostW, hwpc]
      have hle := pcostW_le b.wpc {}
      split at h
      · simp only [Option.some.injEq] at h; subst h
        have := pcostR_closeWake s.base.rpc b.pipe s.r
        simp only [WSys.measure, hrpc]
        omega
      · split at h <;> (simp only [Option.some.injEq] at h; subst h)
        · have := pcostR_closeWake s.base.rpc b.pipe s.r
          simp only [WSys.measure, hrpc]
          omega
        · simp only [WSys.measure, hrpc]
          omega
        · have := pcostR_wake s.base.rpc s.r
          simp only [WSys.measure, hrpc]
          omega
  next hwpc =>
    split at h
    · simp at h
    next hg =>
      split at h
      next hrdy =>
        cases hb : s.base.stepW c k with
        | none => simp [hb] at h
        | some b =>
          simp only [hb, Option.map_some, Option.some.injEq] at h; subst h
          have hm := measure_stepW hv hk hi hb
          have hrpc := stepW_rpc hb
          have hle := pcostW_le b.wpc {}
          simp only [WSys.measure, hrpc]
          omega
      next hrdy =>
        simp only [Option.some.injEq] at h; subst h
        simp only [Bool.or_false, Bool.and_eq_true, Bool.not_eq_true', not_and, Bool.not_eq_false] at hg
        simp only [WSys.measure, pcostW, hwpc, PWake.pollSelect, if_true]
        by_cases hp : s.w.parked = true
        · simp [hp, hg hp]
        · simp [hp]
  next => simp at h
  next => simp at h

theorem wmeasure_stepR {c : Cfg} {payload : List α} {s s' : WSys α} {n : Nat} (hn : 1 ≤ n)
    (hi : Inv c payload s.base) (h : s.stepR n false = some s') : s'.measure c < s.measure c := by
  have hn0 : n ≠ 0 := by omega
  unfold WSys.stepR at h
  split at h
  next hrpc =>
    split at h
    · simp at h
    next b hb =>
      have hm := measure_stepR (c := c) hn hi hb
      have hwpc := stepR_wpc hb
      have h0 : pcostR s.base.rpc s.r = 0 := by simp [pcostR, hrpc]
      have hle := pcostR_le b.rpc {}
      split at h
      · simp only [Option.some.injEq] at h; subst h
        simp only [WSys.measure, hwpc]
        omega
      · simp only [hn0, if_false] at h
        split at h <;> (simp only [Option.some.injEq] at h; subst h)
        · have h1 := pcostW_closeWake s.base.wpc b.pipe s.w.wake
          have h2 := pcostW_wake s.base.wpc s.w
          simp only [WSys.measure, hwpc]
          omega
        · have h2 := pcostW_wake s.base.wpc s.w
          simp only [WSys.measure, hwpc]
          omega
  next hrpc =>
    split at h
    · simp at h
    next hg =>
      split at h
      next hrdy =>
        cases hb : s.base.stepR n with
        | none => simp [hb] at h
        | some b =>
          simp only [hb, Option.map_some, Option.some.injEq] at h; subst h
          have hm := measure_stepR (c := c) hn hi hb
          have hwpc := stepR_wpc hb
          have hle := pcostR_le b.rpc {}
          simp only [WSys.measure, hwpc]
          omega
      next hrdy =>
        simp only [Option.some.injEq] at h; subst h
        simp only [Bool.or_false, Bool.and_eq_true, Bool.not_eq_true', not_and, Bool.not_eq_false] at hg
        simp only [WSys.measure, pcostR, hrpc, PWake.pollSelect, if_true]
        by_cases hp : s.r.parked = true
        · simp [hp, hg hp]
        · simp [hp]
  next => simp at h

/-! ### the driver's executor (`runWSched`) -/

/-- a reachable state in which the executor owes nobody a poll is final and complete -/
theorem wstuck_is_complete (c : Cfg) (hv : c.Valid) (payload : List α) (s : WSys α) (total wk rk : Nat)
    (hr : WReach c payload s) (hw : wStepWriter c total wk s = none) (hrd : wStepReader c rk s = none) :
    s.base.final = true ∧ s.base.received = payload := by
  have hb := wreach_base hr
  have hi := inv_reach hb
  have hwi := winv_reach hr
  have hf : s.base.final = true := by
    cases hfin : s.base.final with
    | true => rfl
    | false =>
      obtain ⟨a, b, ha, hs⟩ := enabled_of_inv c hv payload s.base hi hfin
      cases a with
      | w k =>
        cases hk : s.base.stepW c (wReq total wk s.base) with
        | none =>
          have := stepW_none_indep c s.base _ k hk
          simp [Sys.step, this] at hs
        | some b' =>
          obtain ⟨s', hs'⟩ := wstepW_some_of_base hwi hk
          simp [wStepWriter, WSys.step, hs'] at hw
      | r n =>
        cases hk : s.base.stepR (if rk = 0 then 1024 else rk) with
        | none =>
          have := stepR_none_indep s.base _ n hk
          simp [Sys.step, this] at hs
        | some b' =>
          obtain ⟨s', hs'⟩ := wstepR_some_of_base hwi hk
          simp [wStepReader, WSys.step, hs'] at hrd
  refine ⟨hf, ?_⟩
  have hd : s.base.rpc = .done := by
    simp only [Sys.final, Bool.and_eq_true, beq_iff_eq] at hf
    exact hf.2
  have ⟨hwc, hc⟩ := hi.done_imp hd
  have hu := hi.closed_imp hwc
  have := hi.cons
  rw [hc, hu] at this
  simpa using this

theorem runWSched_complete (c : Cfg) (hv : c.Valid) (payload : List α) (total wk rk : Nat) :
    ∀ (fuel x : Nat) (s : WSys α), WReach c payload s → s.measure c < fuel →
      (runWSched c total wk rk fuel x s).base.final = true ∧
      (runWSched c total wk rk fuel x s).base.received = payload := by
  intro fuel
  induction fuel with
  | zero => intro x s _ h; omega
  | succ f ih =>
    intro x s hr hm
    have hi := inv_reach (wreach_base hr)
    have stepW_ok : ∀ s', wStepWriter c total wk s = some s' → WReach c payload s' ∧ s'.measure c < f := by
      intro s' hs
      have hk := wReq_pos total wk s.base
      have ha : (WAct.w (wReq total wk s.base) false).ok = true := by simpa [WAct.ok] using hk
      have h1 := wmeasure_stepW hv hk hi (by simpa [wStepWriter, WSys.step] using hs)
      exact ⟨WReach.step _ hr ha hs, by omega⟩
    have stepR_ok : ∀ s', wStepReader c rk s = some s' → WReach c payload s' ∧ s'.measure c < f := by
      intro s' hs
      have hn : 1 ≤ (if rk = 0 then 1024 else rk) := by split <;> omega
      have ha : (WAct.r (if rk = 0 then 1024 else rk) false).ok = true := by simpa [WAct.ok] using hn
      have h1 := wmeasure_stepR (c := c) hn hi (by simpa [wStepReader, WSys.step] using hs)
      exact ⟨WReach.step _ hr ha hs, by omega⟩
    simp only [runWSched]
    split
    · cases hw : wStepWriter c total wk s with
      | some s' => exact ih _ s' (stepW_ok s' hw).1 (stepW_ok s' hw).2
      | none =>
        cases hrd : wStepReader c rk s with
        | some s' => exact ih _ s' (stepR_ok s' hrd).1 (stepR_ok s' hrd).2
        | none => exact wstuck_is_complete c hv payload s total wk rk hr hw hrd
    · cases hrd : wStepReader c rk s with
      | some s' => exact ih _ s' (stepR_ok s' hrd).1 (stepR_ok s' hrd).2
      | none =>
        cases hw : wStepWriter c total wk s with
        | some s' => exact ih _ s' (stepW_ok s' hw).1 (stepW_ok s' hw).2
        | none => exact wstuck_is_complete c hv payload s total wk rk hr hw hrd

theorem wtransfer_eq (c : Cfg) (hv : c.Valid) (seed wk rk : Nat) (x : List α) : wtransfer c seed wk rk x = some x := by
  have hm : (WSys.init x).measure c < 40 * x.length + 200 := by
    simp [WSys.measure, WSys.init, Sys.measure, Sys.init, wcostOf, rcostOf, pcostW, pcostR]; omega
  have h := runWSched_complete c hv x x.length wk rk (40 * x.length + 200) seed (WSys.init x) WReach.init hm
  unfold wtransfer
  simp only [h.1, if_true, h.2]

/-! ### the operations with wakers project onto the operations of Model.lean -/

theorem wfWrite_proj (c : Cfg) (p : Fifo α) (w : Wakers) (buf : List α) (id : Option Nat) :
    ((wfWrite c p w buf id).1, (wfWrite c p w buf id).2.1) = p.write c buf := by
  unfold wfWrite
  split <;> simp_all

theorem wfRead_proj (p : Fifo α) (w : Wakers) (n : Nat) (id : Option Nat) :
    ((wfRead p w n id).1, (wfRead p w n id).2.1) = p.read n := by
  unfold wfRead
  split <;> simp_all

theorem pollWriteW_proj (c : Cfg) (o : Ofd) (p : Fifo α) (w : Wakers) (buf : List α) :
    ((o.pollWriteW c p w buf).1, (o.pollWriteW c p w buf).2.1) = o.pollWrite c p buf := by
  have h := wfWrite_proj c p w buf none
  unfold Ofd.pollWriteW Ofd.pollWrite
  split
  · rfl
  · split
    all_goals (rename_i heq; rw [heq] at h; simp only at h; rw [← h])

theorem pollWriteFullW_proj (c : Cfg) (o : Ofd) (fuel : Nat) (p : Fifo α) (w : Wakers) (rem : List α) (bw : Nat) :
    ((o.pollWriteFullW c fuel p w rem bw).1, (o.pollWriteFullW c fuel p w rem bw).2.1) =
      o.pollWriteFull c fuel p rem bw := by
  induction fuel generalizing p w rem bw with
  | zero => rfl
  | succ f ih =>
    unfold Ofd.pollWriteFullW Ofd.pollWriteFull
    split
    · rfl
    · have h := pollWriteW_proj c o p w rem
      rw [← h]
      split
      · rename_i n p' w' heq
        simp only [heq]
        split
        · rfl
        · exact ih p' w' _ _
      · rename_i e p' w' heq
        simp only [heq]
      · rename_i p' w' heq
        simp only [heq]

theorem sysWriteW_proj (c : Cfg) (o : Ofd) (p : Fifo α) (w : Wakers) (buf : List α) :
    ((o.sysWriteW c p w buf).1, (o.sysWriteW c p w buf).2.1) = o.sysWrite c p buf :=
  pollWriteFullW_proj c o _ p w buf 0

theorem sysReadW_proj (o : Ofd) (p : Fifo α) (w : Wakers) (n : Nat) :
    ((o.sysReadW p w n).1, (o.sysReadW p w n).2.1, (o.sysReadW p w n).2.2.1) = o.sysRead p n := by
  have h := wfRead_proj p w n none
  unfold Ofd.sysReadW Ofd.sysRead
  split
  · rfl
  · split
    all_goals (rename_i heq; rw [heq] at h; simp only at h; rw [← h])

end YashModel.Pipe
