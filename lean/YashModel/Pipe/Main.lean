/-
  Driver for C14.  stdin: one case per line, stdout: `<model observation>\t<spec>`.

  Three kinds of cases (see harness/src/bin/c14.rs):
    * `op;op;…`       operation sequence on one FIFO (open/close/read/write/select through the system calls)
    * `xfer k=v …`    `write_all ∥ read` of a payload through one pipe under a seeded scheduler
    * `sh k=v …`      a shell-level data flow (pipeline stages, command substitutions, here-documents)
-/
import YashModel.Common.Proto
import YashModel.Pipe.Model
import YashModel.Pipe.Spec
import YashModel.Pipe.Flow
import YashModel.Pipe.Fds
import YashModel.Pipe.File
import YashModel.Pipe.Wake
import YashModel.Pipe.Chain
import YashModel.Pipe.Ops
import YashModel.Pipe.Lossy
import YashModel.Pipe.HChain
open YashModel YashModel.Pipe YashModel.Proto


def alpha (base i : Nat) (m : Nat) : Byte := base + (i * m + i / 26) % 26

/-- payload of `n` bytes: pattern `pat` (period `per` for pattern 4), the last `nl` bytes newlines -/
def payload (n pat per nl : Nat) : List Byte :=
  (List.range n).map fun i =>
    if n ≤ i + nl then 10
    else match pat with
      | 1 => if i % 7 = 3 then 10 else alpha 97 i 7
      | 2 => if i % 61 = 0 then 10 else alpha 65 i 11
      | 3 => (i * 37 + 13) % 256
      | 4 => alpha 97 (i % (if per = 0 then 1 else per)) 7
      | 6 => if i % 17 = 5 then 255 else if i % 23 = 11 then 0 else alpha 97 i 7
      | 5 => if n = i + nl + 1 ∨ i % 5 = 2 then 32 else if i % 11 = 7 then 9 else if i % 13 = 5 then 10
             else alpha 97 i 7
      | 7 =>
        let body := n - nl
        if body - body % 3 ≤ i then 122
        else if (i / 3) % 10 = 9 then [10, 195, 169].getD (i % 3) 0
        else [230, 157, 177].getD (i % 3) 0
      | 8 =>
        -- wave 3, third pass: ill-formed UTF-8 of every kind, every 31 bytes (so that the sequences straddle the
        -- PIPE_BUF / PIPE_SIZE boundaries): lone continuation, truncated 3- and 4-byte sequences, an overlong
        -- form, a surrogate, a byte that cannot occur, and a well-formed 3-byte character
        let j := i % 31
        if j = 5 then 128 else if j = 9 then 230 else if j = 10 then 157
        else if j = 15 then 192 else if j = 16 then 175
        else if j = 20 then 237 else if j = 21 then 160 else if j = 22 then 128
        else if j = 25 then 245
        else if j = 27 then 240 else if j = 28 then 159 else if j = 29 then 152
        else if j = 0 ∧ 0 < i then 230 else if j = 1 ∧ 1 < i then 157 else if j = 2 ∧ 2 < i then 177
        else alpha 97 i 7
      | _ => alpha 97 i 7

def kv (ws : List String) (k : String) : Option String :=
  (ws.find? fun w => w.startsWith (k ++ "=")).map fun w => (w.drop (k.length + 1)).toString

def kvNat (ws : List String) (k : String) : Nat := ((kv ws k).bind (·.toNat?)).getD 0

/-! ### operation sequences -/


def parseOp (t : String) : Option Op :=
  match words t with
  | ["or"] => some (.openFd true false)
  | ["ow"] => some (.openFd false true)
  | ["orw"] => some (.openFd true true)
  | ["owa"] => some (.openFd false true)
  | ["dw", k, n] => do pure (.dwrite (← k.toNat?) (← n.toNat?))
  | ["dr", k, n] => do pure (.dread (← k.toNat?) (← n.toNat?))
  | ["selbad", _] => some .selBad
  | ["nb", k, b] => do pure (.setNb (← k.toNat?) ((← b.toNat?) != 0))
  | ["c", k] => do pure (.close (← k.toNat?))
  | ["w", k, n] => do pure (.write (← k.toNat?) (← n.toNat?))
  | ["r", k, n] => do pure (.read (← k.toNat?) (← n.toNat?))
  | ["sel"] => some .sel
  | ["park", "r", k] => do pure (.park (← k.toNat?) true false)
  | ["park", "w", k] => do pure (.park (← k.toNat?) false true)
  | ["park", "b", k] => do pure (.park (← k.toNat?) true true)
  | ["poll", j] => do pure (.poll (← j.toNat?))
  | _ => none


def runOps (line : String) : String :=
  let parts := (splitTrim line ";").filter (· ≠ "")
  match parts.mapM parseOp with
  | none => "bad-case\t-"
  | some ops =>
    let rec go (st : OpState) (ops : List Op) (i : Nat) (obs : List String) (verdict : Option String)
        : List String × Option String :=
      match ops with
      | [] => (obs.reverse, verdict)
      | op :: rest =>
        let (txt, st', v) := opStep st i op
        -- stream law: delivered ++ buffered = accepted (complete, once, in order), capacity respected
        let v2 : Option String :=
          if st'.delivered ++ st'.fifo.content != st'.accepted then some "stream"
          else if st'.fifo.content.length > cfg.pipeSize then some "capacity"
          else if lostWakeup st' then some "lost-wakeup"
          else v
        let verdict' := match verdict with
          | some x => some x
          | none => v2.map fun x => s!"FAIL:{x}@{i}"
        let woken := (st'.parked.map (·.1)).filter (st'.wk.fired.contains ·)
        let o := s!"{txt} len={st'.fifo.content.length} sum={hashBytes st'.fifo.content} r={st'.fifo.readers} w={st'.fifo.writers} wk={idList woken}"
        go st' rest (i + 1) (o :: obs) verdict'
    let (obs, verdict) := go {} ops 0 [] none
    " | ".intercalate obs ++ "\t" ++ verdict.getD "ok"

/-! ### transfers under a seeded scheduler -/

def showW : WPc → String
  | .run => "run" | .wait => "wait" | .closed => "closed" | .failed => "failed"
def showR : RPc → String
  | .run => "run" | .wait => "wait" | .done => "done"

def runXfer (ws : List String) : String :=
  if kv ws "mode" == some "rderr" then
    -- `read_all` on the writing end of a fresh pipe: the first `read` fails, nothing was read
    let o : Ofd := { readable := false, writable := true, nonblocking := true }
    let (res, bs, _) := o.sysRead ({ content := [], readers := 1, writers := 1 } : Fifo Byte) 1024
    let txt := match res with
      | .err e => s!"rderr={showErr e} len={bs.length}"
      | _ => s!"rderr=none len={bs.length}"
    txt ++ "\t=rderr=EBADF len=0"
  else if kv ws "mode" == some "proc" then
    -- writer and reader are two virtual processes inside `run_virtual`: explicit wakers (Wake.lean); the
    -- model executor polls a parked process only after its waker fired, so a lost wake-up would be `stuck`
    let p := payload (kvNat ws "n") (kvNat ws "pat") (kvNat ws "per") (kvNat ws "nl")
    let want := specTransfer p
    (match wtransfer cfg (kvNat ws "seed") (kvNat ws "wk") (kvNat ws "rk") p with
      | some x => s!"recv={x.length}:{hashBytes x} w=closed r=done"
      | none => "stuck") ++ "\t" ++ s!"=recv={want.length}:{hashBytes want} w=closed r=done"
  else if kvNat ws "mid" != 0 && kvNat ws "hs" != 0 then
    -- a pipeline whose forwarder number `hs` is head-like: it stops after `hk` bytes (HChain.lean)
    let p := payload (kvNat ws "n") (kvNat ws "pat") (kvNat ws "per") (kvNat ws "nl")
    let hk := kvNat ws "hk"
    let s := hchainTransfer cfg (kvNat ws "seed") (kvNat ws "mid") (kvNat ws "hs") hk (kvNat ws "wk") (kvNat ws "rk") p
    let want := (specTransfer p).take hk
    let stx := s.statuses
    let obs := s!"recv={s.received.length}:{hashBytes s.received} w={stx.headD "?"} f={",".intercalate ((stx.drop 1).dropLast)} r={stx.getLastD "?"}"
    -- Spec: the first `hk` bytes arrive; the head-like stage and everything after it exit normally; everything
    -- before it exits normally when the payload fits the allowance, dies of EPIPE when it is far larger
    let up := if p.length ≤ hk then "closed" else "failed"
    let fs := (List.range (kvNat ws "mid")).map fun i => if i + 1 < kvNat ws "hs" then up else "closed"
    obs ++ "\t" ++ s!"=recv={want.length}:{hashBytes want} w={up} f={",".intercalate fs} r=done"
  else if kvNat ws "mid" != 0 then
    -- a concurrent pipeline `writer | mid × forwarder | reader`: every process scheduled on its own (Chain.lean)
    let p := payload (kvNat ws "n") (kvNat ws "pat") (kvNat ws "per") (kvNat ws "nl")
    let want := specTransfer p
    (match chainTransfer cfg (kvNat ws "seed") (kvNat ws "mid") (kvNat ws "wk") (kvNat ws "rk") p with
      | some x => s!"recv={x.length}:{hashBytes x} w=closed f=closed r=done"
      | none => "stuck") ++ "\t" ++ s!"=recv={want.length}:{hashBytes want} w=closed f=closed r=done"
  else
  let n := kvNat ws "n"
  let p := payload n (kvNat ws "pat") (kvNat ws "per") (kvNat ws "nl")
  let wk := kvNat ws "wk"
  let rk := kvNat ws "rk"
  let stop := (kv ws "stop").bind (·.toNat?)
  let s := runSchedStop cfg n wk rk stop (12 * n + 200) (kvNat ws "seed") (Sys.init p)
  -- the reader stopped early iff it closed before end of file
  let early := match stop with
    | some k => decide (k < n)
    | none => false
  let rTxt := if early && s.rpc == .done then "stopped" else showR s.rpc
  let obs := s!"recv={s.received.length}:{hashBytes s.received} w={showW s.wpc} r={rTxt}"
  let finished := s.rpc == .done && (s.wpc == .closed || s.wpc == .failed)
  let obs := if finished then obs else "stuck " ++ obs
  let want := match stop with
    | some k => (specTransfer p).take k
    | none => specTransfer p
  -- Spec: a prefix arrives; a writer that cannot finish (more than K + capacity to send) gets EPIPE
  let wWant := match stop with
    | some k => if k + cfg.pipeSize < n then "failed" else showW s.wpc
    | none => "closed"
  obs ++ "\t" ++ s!"=recv={want.length}:{hashBytes want} w={wWant} r={if early then "stopped" else "done"}"

/-! ### shell-level data flows -/

def showFlow (x : List Byte) : String :=
  let tail := x.drop (x.length - 4)
  s!"len={x.length} sum={hashBytes x} tail={bytesToHex (tail.map UInt8.ofNat)}"

def emitsNewline (src : String) : Bool := src == "var" || src == "dbl" || src == "here"

def runSh (ws : List String) : String :=
  let n := kvNat ws "n"
  let p := payload n (kvNat ws "pat") (kvNat ws "per") (kvNat ws "nl")
  let src := (kv ws "src").getD "file"
  let shape := ((kv ws "shape").getD "-").toList.filter (· ≠ '-')
  let kind := (kv ws "kind").getD "out"
  let isVar := kind == "var" || kind == "bq"
  -- `st=N`: the flow inside `$( )` ends with a command of exit status N, which becomes `$?`
  let stTxt := match kv ws "st" with
    | some n => s!" st={n}"
    | none =>
      -- `! pipeline`: success becomes 1 (neg=1), failure becomes 0 (neg=2: `! { flow; st 5; }`); neg=3: `set -n`,
      -- nothing is executed, status 0
      match kvNat ws "neg" with
      | 0 => ""
      | 1 => " st=1"
      | _ => " st=0"
  let seed := kvNat ws "seed"
  let emitted := if emitsNewline src then p ++ [10] else p
  -- the decoder of `expand_common`: general `from_utf8_lossy` (Lossy.lean) for the payloads with arbitrary
  -- ill-formed sequences (pat=8, shapes without inner `$( )`), its 0xFF restriction otherwise
  let dec : List Byte → List Byte := if kvNat ws "pat" == 8 then lossyGen else lossyFF
  let model := do
    let x ← flowModel cfg seed shape emitted
    if isVar then pure (trimEnd 10 (dec (← transfer cfg (lcg (seed + 1)) 0 0 x))) else pure x
  let spec :=
    let x := flowSpec shape emitted
    if isVar then specSubst 10 (dec (specTransfer x)) else x
  let noexec := kvNat ws "neg" == 3
  let model := if noexec then some [] else model
  let spec := if noexec then [] else spec
  (match model with
    | some x => showFlow x ++ stTxt
    | none => "stuck") ++ "\t=" ++ showFlow spec ++ stTxt

/-! ### descriptor choreography (`fd` cases) -/

/-- descriptor table of the shell after the prologue: 0 all open, 1 `exec <&-`, 2 `exec >&-`,
    3 both, 4 `exec 2>&-` -/
def initTable (pro : Nat) : Table := fun fd =>
  let closed : List Nat := match pro with
    | 1 => [0] | 2 => [1] | 3 => [0, 1] | 4 => [2] | _ => []
  if fd < 3 && !closed.contains fd then some .file else none

/-- `fdsnap`: open descriptors 0..39, pipes numbered in order of first appearance -/
def snapshot (t : Table) : String :=
  let rec go (fds : List Nat) (seen : List Nat) (acc : List String) : List String :=
    match fds with
    | [] => acc.reverse
    | fd :: rest =>
      match t fd with
      | none => go rest seen acc
      | some .file => go rest seen (s!"{fd}:f" :: acc)
      | some (.pr p) =>
        let seen' := if seen.contains p then seen else seen ++ [p]
        go rest seen' (s!"{fd}:r{(seen'.idxOf p) + 1}" :: acc)
      | some (.pw p) =>
        let seen' := if seen.contains p then seen else seen ++ [p]
        go rest seen' (s!"{fd}:w{(seen'.idxOf p) + 1}" :: acc)
  let l := go (List.range 40) [] []
  if l.isEmpty then "-" else ",".intercalate l

/-- the members of a `k`-stage pipeline started from table `t` (pipes numbered from `p0`):
    each member's table and whether it is connected -/
def pipeRun (t : Table) (k p0 : Nat) : List (Table × Bool) :=
  let rec go (i fuel : Nat) (ps : PipeSet) (t : Table) (acc : List (Table × Bool)) : List (Table × Bool) :=
    match fuel with
    | 0 => acc.reverse
    | fuel + 1 =>
      let hasNext := i + 1 < k
      let (ps', t') :=
        if hasNext then
          let (r, w) := alloc2 (ps.shiftClose t).2
          ps.shiftOpen t (p0 + i) r w
        else ps.shiftClose t
      let d := match ps'.next with
        | some (reader, _) => (t'.close reader).minUnused 64 0
        | none => 0
      let member := match ps'.moveToStdinStdout t' d with
        | none => (t', false)
        | some c =>
          let inOk := i == 0 || (c 0 == some (.pr (p0 + i - 1)) && noStray c (p0 + i - 1) (some 0) none)
          let outOk := !hasNext || (c 1 == some (.pw (p0 + i)) && noStray c (p0 + i) none (some 1))
          (c, inOk && outOk)
      go (i + 1) fuel ps' t' (member :: acc)
  go 0 k {} t []

def runFd (ws : List String) : String :=
  let n := kvNat ws "n"
  let p := payload n (kvNat ws "pat") 0 (kvNat ws "nl")
  let form := (kv ws "form").getD "subst"
  let t0 := initTable (kvNat ws "pro")
  let tr (x : List Byte) : Option (List Byte) := transfer cfg 17 0 0 x
  -- (snapshots by key, all children connected, value if connected)
  let (snaps, ok, value) : List (Nat × Table) × Bool × Option (List Byte) :=
    match form with
    | "subst" =>
      let (c, ok) := substRun t0 1
      ([(0, c)], ok, (tr p).map (trimEnd 10))
    | "nest" =>
      let (c0, ok0) := substRun t0 1
      let (c1, ok1) := substRun c0 2
      ([(0, c0), (1, c1)], ok0 && ok1,
        do let inner ← tr p
           let outer ← tr (trimEnd 10 inner ++ [10])
           pure (trimEnd 10 outer))
    | "pipe2" | "pipe3" | "pipe4" =>
      let k := if form == "pipe2" then 2 else if form == "pipe3" then 3 else 4
      let ms := pipeRun t0 k 1
      ((List.range ms.length).zip (ms.map (·.1)), ms.all (·.2), stages (fun x => (tr x).getD []) (k - 1) p)
    | "substpipe" =>
      let (c, ok) := substRun t0 1
      let ms := pipeRun c 2 2
      ((List.range ms.length).zip (ms.map (·.1)) ++ [(9, c)], ok && ms.all (·.2),
        do let a ← tr p
           let b ← tr a
           pure (trimEnd 10 b))
    | "pipesubst" =>
      let ms := pipeRun t0 2 1
      let m1 := (ms.getD 1 (t0, false)).1
      let (c, ok) := substRun m1 3
      ((List.range ms.length).zip (ms.map (·.1)) ++ [(2, c)], ok && ms.all (·.2),
        do let a ← tr p
           let b ← tr a
           pure (trimEnd 10 b ++ [10]))
    | _ => ([], false, none)
  let snapTxt := " ".intercalate (snaps.map fun (k, t) => s!"{k}={snapshot t}")
  -- a child that is not connected to its pipe delivers nothing
  let value := if ok then value else some []
  let obs := match value with
    | some x => s!"{snapTxt} {showFlow x}"
    | none => "stuck"
  obs ++ "\t" ++ (if ok then "ok" else "FAIL:child-not-connected")

/-! ### here-documents (`hd` cases) -/

def asciiTab : List Char := "abcdefghijklmnopqrstuvwxyzABC 0123456789.,:;+=_/[]".toList

/-- character `i` of a generated text of class `cls` (0 ASCII, 1/2/3 = 2/3/4-byte characters, 4 mixed) -/
def hdChar (cls i : Nat) : Char :=
  let c := if cls = 4 then i % 4 else cls
  match c with
  | 1 => Char.ofNat (0xC0 + (i * 5) % 0x80)
  | 2 => Char.ofNat (0x6771 + (i * 3) % 200)
  | 3 => Char.ofNat (0x1F600 + i % 60)
  | 5 => if i % 5 = 3 then '\\' else asciiTab.getD ((i * 7 + i / 13) % 50) 'a'
  | _ => asciiTab.getD ((i * 7 + i / 13) % 50) 'a'

/-- here-document body of `n` characters in lines of `ll` characters (the last one a newline) -/
def hdBody (n cls ll : Nat) : List Char :=
  (List.range n).map fun i => if i + 1 = n ∨ i % ll = ll - 1 then '\n' else hdChar cls i

def hdValue (vn cls : Nat) : List Char := (List.range vn).map fun i => hdChar cls (i + 1000)

def hashU8 (bs : List UInt8) : Nat := bs.foldl (fun h b => (h * 31 + b.toNat + 1) % 1000003) 7

def showBytes (x : List UInt8) : String :=
  s!"len={x.length} sum={hashU8 x} head={bytesToHex (x.take 8)} tail={bytesToHex (x.drop (x.length - 8))}"

def firstLine (b : List UInt8) : List UInt8 :=
  match b.span (· != 10) with
  | (l, []) => l
  | (l, _ :: _) => l ++ [10]

/-- `while IFS= read l; do echo "$l"; done`: every complete logical line, backslashes processed -/
def nonRawLoop : Nat → List UInt8 → List UInt8
  | 0, _ => []
  | fuel + 1, input =>
    match readBuiltin false input with
    | (0, v, rest) => v ++ [10] ++ nonRawLoop fuel rest
    | _ => []

/-- what the reader writes to /out, given the bytes it found on its standard input -/
def readerOut (rd : String) (k : Nat) (b : List UInt8) : List UInt8 :=
  match rd with
  | "nr" => nonRawLoop (b.length + 1) b
  | "mix" => if b.isEmpty then [10] else b
  | "stop" => if b.isEmpty then [10] else firstLine b
  | "head" => b.take k
  | _ => b

def runHd (ws : List String) : String :=
  let n := kvNat ws "n"
  let cls := kvNat ws "cls"
  let ll := max 1 (kvNat ws "ll")
  let quoted := kvNat ws "q" != 0
  let exp := if n = 0 then 0 else kvNat ws "exp"
  let rd := (kv ws "rd").getD "cat"
  let k := kvNat ws "k"
  let body := hdBody n cls ll
  let value := hdValue (kvNat ws "vn") cls
  let lit1 := body.take (n / 2)
  let lit2 := body.drop (n / 2)
  -- the expanded body: what `fill_content` is given
  let expanded : List Char :=
    match exp, quoted with
    | 0, _ => body
    | 1, true => lit1 ++ "${v}".toList ++ lit2
    | _, true => lit1 ++ "$(hgen)".toList ++ lit2
    | _, false => lit1 ++ value ++ lit2
  let bytes := utf8 expanded
  let bytes2 := utf8 (hdBody (n * 3 / 4 + 5) ((cls + 1) % 5) ll)
  let multi := kvNat ws "multi" != 0
  -- Impl model: temporary file, write, rewind, then the reader's `read` calls
  let chunks (len : Nat) : List Nat :=
    match rd with
    | "cat" => List.replicate (len / 1024 + 2) 1024
    | "head" => [k]
    | "stop" => List.replicate (firstLine bytes).length 1
    | _ => List.replicate (len + 1) 1
  let model : Option (List UInt8) := do
    let o ← heredocFill bytes
    let got := (o.reads (chunks bytes.length)).1
    let out := readerOut rd k got
    if multi then
      let o2 ← heredocFill bytes2
      pure (out ++ (o2.reads (List.replicate (bytes2.length / 1024 + 2) 1024)).1)
    else pure out
  let spec := readerOut rd k bytes ++ (if multi then bytes2 else [])
  (match model with
    | some x => showBytes x
    | none => "seek-error") ++ "\t=" ++ showBytes spec

/-! ### lowered descriptor limit (`lim` cases): EMFILE from `pipe()` / `open_tmpfile()` -/

/-- `pipe()` under the soft limit `lim` (`Process::open_fd`: a descriptor must be below the limit;
    when the second allocation fails the first descriptor is closed again) -/
def alloc2Lim (t : Table) (lim : Nat) : Option (Fd × Fd) :=
  let (r, w) := alloc2 t
  if r < lim && w < lim then some (r, w) else none

/-- a `k`-stage pipeline under the limit: `none` = `shift` failed at some member (exit status 126) -/
def pipeRunLim (t : Table) (k lim : Nat) : Option Unit :=
  let rec go (i fuel : Nat) (ps : PipeSet) (t : Table) : Option Unit :=
    match fuel with
    | 0 => some ()
    | fuel + 1 =>
      if i + 1 < k then
        match alloc2Lim (ps.shiftClose t).2 lim with
        | none => none
        | some (r, w) =>
          let (ps', t') := ps.shiftOpen t (i + 1) r w
          go (i + 1) fuel ps' t'
      else some ()
  go 0 k {} t

def runLim (ws : List String) : String :=
  let n := kvNat ws "n"
  let p := payload n (kvNat ws "pat") 0 (kvNat ws "nl")
  let form := (kv ws "form").getD "subst"
  let lim := kvNat ws "lim"
  -- descriptor 3 is the consumer's file (`exec 3>/out` before the prologue)
  let t0 : Table := (initTable (kvNat ws "pro")).set 3 (some .file)
  let tr (x : List Byte) : List Byte := (transfer cfg 23 0 0 x).getD []
  let (st, value) : Nat × List Byte :=
    match form with
    | "subst" =>
      match alloc2Lim t0 lim with
      | none => (2, [])                       -- CommandSubstError: the shell exits with 2
      | some _ => (0, substValue (tr p))
    | "nest" =>
      match alloc2Lim t0 lim with
      | none => (2, [])
      | some (r, w) =>
        match substChild (t0.pipe 1 r w) r w with
        | none => (2, [])
        | some c =>
          match alloc2Lim c lim with
          | none => (2, [])                   -- the child exits with 2 before `echo` runs
          | some _ => (0, substValue (tr (substValue (tr p) ++ [10])))
    | "pipe2" | "pipe3" | "pipe4" =>
      let k := if form == "pipe2" then 2 else if form == "pipe3" then 3 else 4
      match pipeRunLim t0 k lim with
      | none => (126, [])                     -- "cannot connect pipes": Interrupt(NOEXEC)
      | some _ => (0, stages tr (k - 1) p)
    | "here" =>
      -- a built-in's redirection first saves the target (if open) at a descriptor ≥ 10, then
      -- `here_doc::open_fd` needs a descriptor for the temporary file
      let t1 := if (t0 0).isSome then
          let s := t0.minUnused 64 10
          if s < lim then some (t0.set s (some .file)) else none
        else some t0
      match t1 with
      | none => (2, [])
      | some t1 => if t1.minUnused 64 0 < lim then (0, p ++ [10]) else (2, [])
    | _ => (99, [])
  s!"st={st} {showFlow value}\t-"

/-! ### the `read` built-in on a pipe (`rd` cases) -/

/-- one line of `n` ASCII letters; `bad` = 1: byte 0xFF in the middle, 2: no newline but a lone lead
    byte E6 at the end, 3: a NUL in the middle, 4: a backslash in the middle, 5: no newline at all -/
def rdPayload (n bad : Nat) : List UInt8 :=
  let body : List UInt8 := (List.range n).map fun i =>
    if i = n / 2 ∧ bad = 1 then 255 else if i = n / 2 ∧ bad = 3 then 0 else if i = n / 2 ∧ bad = 4 then 92
    else UInt8.ofNat (alpha 97 i 7)
  if bad = 2 then body ++ [0xE6] else if bad = 5 then body else if bad = 6 then body ++ [92] else body ++ [10]

def runRd (ws : List String) : String :=
  let p := rdPayload (kvNat ws "n") (kvNat ws "bad")
  let raw := kvNat ws "raw" != 0
  -- the bytes reach the built-in through a pipe (as `Nat` bytes in the transfer model)
  let viaPipe := ((transfer cfg 29 0 0 (p.map (·.toNat))).getD []).map UInt8.ofNat
  let (st, v, _) := readBuiltin raw viaPipe
  let out := (toString st).toUTF8.toList ++ [58] ++ v ++ [10]
  let (st', v', _) := readBuiltin raw p
  showBytes out ++ "\t=" ++ showBytes ((toString st').toUTF8.toList ++ [58] ++ v' ++ [10])

/-! ### `read` on a pipe whose data arrives in pieces that cut multi-byte characters (`rp` cases) -/

def rpFiller (k salt : Nat) : List UInt8 := (List.range k).map fun i => UInt8.ofNat (alpha 97 (i + salt) 7)

def rpChar (cs : Nat) : List UInt8 :=
  match cs with
  | 2 => utf8 [Char.ofNat 0xE9]
  | 3 => utf8 [Char.ofNat 0x6771]
  | 5 => [92, 10]
  | 6 => [92, 92]
  | 7 => [92, 120]
  | _ => utf8 [Char.ofNat 0x1F600]

def runRp (ws : List String) : String :=
  let b := kvNat ws "b"
  let d := kvNat ws "d"
  let m := rpChar (kvNat ws "cs")
  let raw := kvNat ws "raw" != 0
  let l1 := rpFiller (b - d) 0 ++ m ++ m ++ m ++ rpFiller 5 3
  let l2 := "two".toUTF8.toList ++ m
  let rest := "rest".toUTF8.toList ++ m ++ [10] ++ "tail".toUTF8.toList
  let data := l1 ++ [10] ++ l2 ++ [10] ++ rest
  -- the writer's pieces are write requests of the transfer model: first piece, then `piece` bytes each
  let first := kvNat ws "first"
  let piece := kvNat ws "piece"
  let head := (transfer cfg 31 0 0 ((data.take first).map (·.toNat))).getD []
  let tailPart := (transfer cfg 37 piece 1 ((data.drop first).map (·.toNat))).getD []
  let stream := (head ++ tailPart).map UInt8.ofNat
  let render (input : List UInt8) : List UInt8 :=
    let (s1, a, r1) := readBuiltin raw input
    let (s2, bv, r2) := readBuiltin raw r1
    (toString s1).toUTF8.toList ++ [58] ++ a ++ [10] ++ (toString s2).toUTF8.toList ++ [58] ++ bv ++ [10] ++ r2
  showBytes (render stream) ++ "\t=" ++ showBytes (render data)

/-! ### two writers on one pipe (`tw` cases) -/

/-- both writers' bytes arrive complete, each in its own order (the interleaving is not predicted) -/
def runTw (ws : List String) : String :=
  let n := kvNat ws "n"
  let m := ((kv ws "m").bind (·.toNat?)).getD n
  let obs := s!"len={n + m} A=ok a=ok atomic=ok"
  obs ++ "\t=" ++ obs

/-! ### a blocking `write` that is resumed (`bwr` cases): `poll_write_full` keeps `bytes_written` across polls -/

def runBwr (ws : List String) : String :=
  let n := kvNat ws "n"
  let pre := min (kvNat ws "pre") cfg.pipeSize
  let k := kvNat ws "k"
  let act := (kv ws "act").getD "close"
  let wr : Ofd := { readable := false, writable := true, nonblocking := false }
  let rd : Ofd := { readable := true, writable := false, nonblocking := false }
  let p0 : Fifo Byte := { content := [], readers := 1, writers := 1 }
  let p0' := (wr.sysWrite cfg p0 (opData 0 pre)).2
  let data := opData 1 n
  let (r1, p1) := wr.sysWrite cfg p0' data
  let showRes (r : Res) : String := match r with
    | .ok m => s!"ok {m}"
    | .pending => "pend"
    | .err e => showErr e
  (match r1 with
    | .pending =>
      -- the future holds `bytes_written`; the second poll continues the loop of `poll_write_full` from there
      let bw := p1.content.length - p0'.content.length
      if act == "close" then
        let p2 := p1.closeFd true false
        let (r2, _) := wr.pollWriteFull cfg (n + 1) p2 (data.drop bw) bw
        s!"p1=pend p2={showRes r2} left=closed"
      else
        let (rr, _, p2) := rd.sysRead p1 k
        let rdTxt := match rr with
          | .ok m => toString m
          | .pending => "pend"
          | .err e => showErr e
        let (r2, p3) := wr.pollWriteFull cfg (n + 1) p2 (data.drop bw) bw
        s!"p1=pend rd={rdTxt} p2={showRes r2} left={p3.content.length}:{hashBytes p3.content}"
    | _ => s!"p1={showRes r1} p2=- left={p1.content.length}:{hashBytes p1.content}") ++ "\t-"

def runLine (line0 : String) : String :=
  -- a two-writer case that hit the known deadlock carries a marker for check.py; it is not part of the case
  let line := (line0.splitOn "; !kf-").headD line0
  match words line with
  | "xfer" :: ws => runXfer ws
  | "sh" :: ws => runSh ws
  | "fd" :: ws => runFd ws
  | "hd" :: ws => runHd ws
  | "lim" :: ws => runLim ws
  | "rd" :: ws => runRd ws
  | "rp" :: ws => runRp ws
  | "tw" :: ws => runTw ws
  | "bwr" :: ws => runBwr ws
  | _ => runOps line

def main : IO Unit := mainLoop runLine
