/-
  C14 — two writers on one pipe (one pipeline stage `{ w1 & w2; wait; } | reader`).

  Both writers append to the same FIFO (`FileBody::poll_write` appends a prefix of the request at the
  end of `content`), the reader pops from the front.  Bytes are tagged with their writer so that each
  writer's subsequence can be stated.  The step relation allows *any* prefix length at every step —
  whatever capacity, PIPE_BUF rule or blocking decides, it only removes some of these steps — and any
  interleaving.  Import-free, executable.
-/
namespace YashModel.Pipe

variable {α : Type}

/-- state: what each writer has still to send, the buffer (bytes tagged `true` = first writer), and
    what the reader has received (tagged the same way) -/
structure Sys2 (α : Type) where
  unsentA : List α
  unsentB : List α
  content : List (Bool × α)
  received : List (Bool × α)
  deriving Repr

def Sys2.init (pa pb : List α) : Sys2 α := { unsentA := pa, unsentB := pb, content := [], received := [] }

inductive Act2 where
  | wa (n : Nat)   -- the first writer's `write` accepts the first `n` bytes of its rest
  | wb (n : Nat)   -- the second writer's
  | r (n : Nat)    -- the reader's `read` takes up to `n` bytes
  deriving Repr, DecidableEq

def Sys2.step (s : Sys2 α) : Act2 → Sys2 α
  | .wa n => { s with content := s.content ++ (s.unsentA.take n).map (fun x => (true, x)), unsentA := s.unsentA.drop n }
  | .wb n => { s with content := s.content ++ (s.unsentB.take n).map (fun x => (false, x)), unsentB := s.unsentB.drop n }
  | .r n => { s with received := s.received ++ s.content.take n, content := s.content.drop n }

def Sys2.run (s : Sys2 α) : List Act2 → Sys2 α
  | [] => s
  | a :: as => Sys2.run (s.step a) as

/-- the bytes of one writer, in the order in which they stand in a tagged list -/
def proj (t : Bool) (l : List (Bool × α)) : List α := (l.filter (fun x => x.1 == t)).map (·.2)

end YashModel.Pipe
