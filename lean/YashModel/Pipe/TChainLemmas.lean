/-
  C14 — lemmas about the transforming chain (TChain.lean): invariant, conservation as "`push` is constant",
  progress.  (Property theorems are in Theorems.lean.)
-/
import YashModel.Pipe.TChain
import YashModel.Pipe.ChainLemmas
set_option linter.unusedSimpArgs false
namespace YashModel.Pipe

variable {α : Type}

inductive TReach (c : Cfg) (st : List ((α → List α) × List α)) (x : List α) : TChain α → Prop
  | init : TReach c st x (TChain.init st x)
  | step {s s' : TChain α} (i n k : Nat) :
      TReach c st x s → 1 ≤ n → 1 ≤ k → s.step c i n k = some s' → TReach c st x s'

theorem TChain.mapInp_inp (s : TChain α) (f : Fifo α → Fifo α) : (s.mapInp f).inp = f s.inp := by
  cases s <;> rfl

theorem TChain.mapInp_received (s : TChain α) (f : Fifo α → Fifo α) : (s.mapInp f).received = s.received := by
  cases s <;> rfl

/-- appending `w` to the first input pipe is pushing `w` first -/
theorem TChain.mapInp_push (s : TChain α) (f : Fifo α → Fifo α) (w y : List α)
    (h : (f s.inp).content = s.inp.content ++ w) : (s.mapInp f).push y = s.push (w ++ y) := by
  cases s with
  | sink inp r pc =>
    simp only [TChain.inp] at h
    simp [TChain.mapInp, TChain.push, h]
  | fwd g inp hold pc rest =>
    simp only [TChain.inp] at h
    simp [TChain.mapInp, TChain.push, h]

theorem TChain.mapInp_push_same (s : TChain α) (f : Fifo α → Fifo α) (y : List α)
    (h : (f s.inp).content = s.inp.content) : (s.mapInp f).push y = s.push y := by
  have := TChain.mapInp_push s f [] y (by simpa using h)
  simpa using this

def TChain.Inv : TChain α → Prop
  | .sink inp _ pc =>
      inp.readers = (if pc = .done then 0 else 1) ∧ (pc = .done → inp.content = [] ∧ inp.writers = 0)
  | .fwd _ inp hold pc rest =>
      inp.readers = (if pc = .closed then 0 else 1) ∧
      rest.inp.writers = (if pc = .closed then 0 else 1) ∧
      pc ≠ .failed ∧
      (pc = .closed → hold = [] ∧ inp.content = [] ∧ inp.writers = 0) ∧
      (pc = .rd ∨ pc = .rwait → hold = []) ∧
      rest.Inv

theorem TChain.Inv.head_done {s : TChain α} (hi : s.Inv) (h : s.headDone = true) :
    s.inp.content = [] ∧ s.inp.writers = 0 ∧ s.inp.readers = 0 := by
  cases s with
  | sink inp r pc =>
    simp only [TChain.headDone, beq_iff_eq] at h
    simp only [TChain.Inv] at hi
    simp_all [TChain.inp]
  | fwd g inp hold pc rest =>
    simp only [TChain.headDone, Bool.or_eq_true, beq_iff_eq] at h
    simp only [TChain.Inv] at hi
    obtain ⟨h1, _, h3, h4, _, _⟩ := hi
    rcases h with h | h
    · simp_all [TChain.inp]
    · exact absurd h h3

theorem TChain.Inv.head_live {s : TChain α} (hi : s.Inv) (h : s.headDone = false) : s.inp.readers = 1 := by
  cases s with
  | sink inp r pc =>
    simp only [TChain.headDone, beq_eq_false_iff_ne, ne_eq] at h
    simp only [TChain.Inv] at hi
    simp_all [TChain.inp]
  | fwd g inp hold pc rest =>
    simp only [TChain.headDone, Bool.or_eq_false_iff, beq_eq_false_iff_ne, ne_eq] at h
    simp only [TChain.Inv] at hi
    simp_all [TChain.inp]

theorem TChain.Inv.mapInp {s : TChain α} (hi : s.Inv) (f : Fifo α → Fifo α)
    (hr : (f s.inp).readers = s.inp.readers)
    (hd : s.headDone = true → (f s.inp).content = [] ∧ (f s.inp).writers = 0) : (s.mapInp f).Inv := by
  cases s with
  | sink inp r pc =>
    simp only [TChain.Inv, TChain.mapInp, TChain.inp, TChain.headDone, beq_iff_eq] at *
    exact ⟨by rw [hr]; exact hi.1, hd⟩
  | fwd g inp hold pc rest =>
    simp only [TChain.Inv, TChain.mapInp, TChain.inp, TChain.headDone, Bool.or_eq_true, beq_iff_eq] at *
    obtain ⟨h1, h2, h3, h4, h5, h6⟩ := hi
    refine ⟨by rw [hr]; exact h1, h2, h3, fun hc => ?_, h5, h6⟩
    exact ⟨(h4 hc).1, hd (Or.inl hc)⟩

theorem tsinkStep_inv {inp : Fifo α} {r : List α} {pc : RPc} {n : Nat} {s' : TChain α} (hn : 1 ≤ n)
    (hi : (TChain.sink inp r pc).Inv) (h : tsinkStep inp r pc n = some s') :
    s'.Inv ∧ s'.inp.writers = inp.writers ∧ ∀ y, s'.push y = r ++ inp.content ++ y := by
  simp only [TChain.Inv] at hi
  obtain ⟨h1, h2⟩ := hi
  unfold tsinkStep at h
  split at h
  next =>
    split at h
    next p hrd =>
      simp only [Option.some.injEq] at h
      subst h
      simp [TChain.Inv, TChain.inp, TChain.push, h1]
    next bs p hrd =>
      have ⟨hbs, hp, hw0⟩ := read_data hn hrd
      split at h
      next he =>
        have hbs0 : bs = [] := by simpa using he
        have hc : inp.content = [] := take_nil_of_pos hn (by rw [← hbs, hbs0])
        simp only [Option.some.injEq] at h
        subst h
        subst hp
        simp_all [TChain.Inv, TChain.inp, TChain.push, Fifo.closeFd]
      next he =>
        simp only [Option.some.injEq] at h
        subst h
        subst hp
        subst hbs
        refine ⟨by simp_all [TChain.Inv], by simp [TChain.inp], fun y => ?_⟩
        simp only [TChain.push, List.append_assoc]
        rw [← List.append_assoc (List.take n inp.content), List.take_append_drop]
  next =>
    split at h
    · simp only [Option.some.injEq] at h
      subst h
      simp_all [TChain.Inv, TChain.inp, TChain.push]
    · simp at h
  next => simp at h

theorem tfwdStep_inv {c : Cfg} {g : α → List α} {inp : Fifo α} {hold : List α} {pc : FPc} {rest : TChain α}
    {n k : Nat} {s' : TChain α} (hn : 1 ≤ n) (hi : (TChain.fwd g inp hold pc rest).Inv)
    (h : tfwdStep c g inp hold pc rest n k = some s') :
    s'.Inv ∧ s'.inp.writers = inp.writers ∧
      (∀ y, s'.push y = rest.push (hold ++ (inp.content ++ y).flatMap g)) ∧ s'.received = rest.received := by
  simp only [TChain.Inv] at hi
  obtain ⟨h1, h2, h3, h4, h5, h6⟩ := hi
  unfold tfwdStep at h
  split at h
  next =>
    have hh : hold = [] := h5 (Or.inl rfl)
    split at h
    next p hrd =>
      simp only [Option.some.injEq] at h
      subst h
      simp_all [TChain.Inv, TChain.inp, TChain.push, TChain.received]
    next bs p hrd =>
      have ⟨hbs, hp, hw0⟩ := read_data hn hrd
      split at h
      next he =>
        have hbs0 : bs = [] := by simpa using he
        have hc : inp.content = [] := take_nil_of_pos hn (by rw [← hbs, hbs0])
        simp only [Option.some.injEq] at h
        subst h
        subst hp
        have hri : (rest.mapInp (·.closeFd false true)).Inv := by
          refine h6.mapInp _ (by simp [Fifo.closeFd]) (fun hd => ?_)
          have := h6.head_done hd
          simp [Fifo.closeFd, this.1, this.2.1]
        refine ⟨?_, ?_, fun y => ?_, ?_⟩
        · simp only [TChain.Inv]
          refine ⟨by simp_all [Fifo.closeFd], by simp_all [TChain.mapInp_inp, Fifo.closeFd], by simp, ?_, by simp, hri⟩
          intro _
          simp_all [Fifo.closeFd]
        · simp [TChain.inp, Fifo.closeFd]
        · simp only [TChain.push, Fifo.closeFd, hc, hh, List.drop_nil, List.nil_append]
          exact TChain.mapInp_push_same rest _ _ (by simp [Fifo.closeFd])
        · simp [TChain.received, TChain.mapInp_received]
      next he =>
        simp only [Option.some.injEq] at h
        subst h
        subst hp
        subst hbs
        refine ⟨?_, ?_, fun y => ?_, ?_⟩
        · simp only [TChain.Inv]
          simp_all
        · simp [TChain.inp]
        · simp only [TChain.push, hh, List.nil_append, ← List.flatMap_append]
          rw [← List.append_assoc, List.take_append_drop]
        · simp [TChain.received]
  next =>
    split at h
    · simp only [Option.some.injEq] at h
      subst h
      simp_all [TChain.Inv, TChain.inp, TChain.push, TChain.received]
    · simp at h
  next =>
    split at h
    next he =>
      simp only [Option.some.injEq] at h
      subst h
      simp_all [TChain.Inv, TChain.inp, TChain.push, TChain.received]
    next he =>
      have hlive : rest.headDone = false := by
        cases hd : rest.headDone with
        | false => rfl
        | true =>
          have := (h6.head_done hd).2.1
          simp [this] at h2
      have hrd1 := h6.head_live hlive
      split at h
      next p hwr =>
        have ⟨hr0, _⟩ := write_epipe hwr
        omega
      next p hwr =>
        simp only [Option.some.injEq] at h
        subst h
        simp_all [TChain.Inv, TChain.inp, TChain.push, TChain.received]
      next w p hwr =>
        have ⟨hr, hp, hw, hroom, _, _⟩ := write_wrote hwr
        have hri : (rest.mapInp fun _ => p).Inv := by
          refine h6.mapInp _ (by simp [hp]) (fun hd => ?_)
          rw [hlive] at hd
          exact absurd hd (by simp)
        have hpush : ∀ z, (rest.mapInp fun _ => p).push (hold.drop w ++ z) = rest.push (hold ++ z) := by
          intro z
          rw [TChain.mapInp_push rest _ ((hold.take k).take w) _ (by simp [hp])]
          rw [← List.append_assoc, take_take_drop hold k w hw]
        split at h
        next hw0 =>
          subst hw0
          simp only [Option.some.injEq] at h
          subst h
          refine ⟨?_, ?_, fun y => ?_, ?_⟩
          · simp only [TChain.Inv]
            refine ⟨by simpa using h1, by rw [TChain.mapInp_inp, hp]; simpa using h2, by simp, by simp, by simp, hri⟩
          · simp [TChain.inp]
          · simp only [TChain.push]
            have := hpush ((inp.content ++ y).flatMap g)
            simpa using this
          · simp [TChain.received, TChain.mapInp_received]
        next hw0 =>
          simp only [Option.some.injEq] at h
          subst h
          refine ⟨?_, ?_, fun y => ?_, ?_⟩
          · simp only [TChain.Inv]
            refine ⟨by simpa using h1, by rw [TChain.mapInp_inp, hp]; simpa using h2, by simp, by simp, by simp, hri⟩
          · simp [TChain.inp]
          · simp only [TChain.push]
            exact hpush _
          · simp [TChain.received, TChain.mapInp_received]
  next =>
    split at h
    · simp only [Option.some.injEq] at h
      subst h
      simp_all [TChain.Inv, TChain.inp, TChain.push, TChain.received]
    · simp at h
  next => simp at h
  next => simp at h

/-- ★ every step keeps the invariant, the writer count of the first pipe and the result of pushing anything -/
theorem TChain.step_inv {c : Cfg} {s s' : TChain α} {i n k : Nat} (hn : 1 ≤ n) (hi : s.Inv)
    (h : s.step c i n k = some s') :
    s'.Inv ∧ s'.inp.writers = s.inp.writers ∧ ∀ y, s'.push y = s.push y := by
  induction s generalizing i s' with
  | sink inp r pc =>
    cases i with
    | zero =>
      simp only [TChain.step] at h
      have ⟨a, b, d⟩ := tsinkStep_inv hn hi h
      exact ⟨a, b, fun y => by rw [d y]; rfl⟩
    | succ j => simp [TChain.step] at h
  | fwd g inp hold pc rest ih =>
    cases i with
    | zero =>
      simp only [TChain.step] at h
      have ⟨a, b, d, _⟩ := tfwdStep_inv hn hi h
      exact ⟨a, b, fun y => by rw [d y]; rfl⟩
    | succ j =>
      simp only [TChain.step, Option.map_eq_some_iff] at h
      obtain ⟨r', hr', rfl⟩ := h
      simp only [TChain.Inv] at hi
      obtain ⟨h1, h2, h3, h4, h5, h6⟩ := hi
      have ⟨a, b, d⟩ := ih h6 hr'
      refine ⟨?_, rfl, fun y => ?_⟩
      · simp only [TChain.Inv]
        exact ⟨h1, by rw [b]; exact h2, h3, h4, h5, a⟩
      · simp only [TChain.push]
        exact d _

theorem TChain.stages_inp (st : List ((α → List α) × List α)) :
    (TChain.stages st).inp = { content := [], readers := 1, writers := 1 } := by
  cases st with
  | nil => rfl
  | cons a t => obtain ⟨g, pre⟩ := a; rfl

theorem TChain.stages_inv (st : List ((α → List α) × List α)) : (TChain.stages st).Inv := by
  induction st with
  | nil => simp [TChain.stages, TChain.Inv]
  | cons a t ih =>
    obtain ⟨g, pre⟩ := a
    simp only [TChain.stages, TChain.Inv]
    exact ⟨by simp, by simp [TChain.stages_inp], by simp, by simp, by simp, ih⟩

theorem TChain.stages_push (st : List ((α → List α) × List α)) (y : List α) :
    (TChain.stages st).push y = stagesFun st y := by
  induction st generalizing y with
  | nil => simp [TChain.stages, TChain.push, stagesFun]
  | cons a t ih =>
    obtain ⟨g, pre⟩ := a
    simp [TChain.stages, TChain.push, stagesFun, ih]

theorem TReach.inv {c : Cfg} {st : List ((α → List α) × List α)} {x : List α} {s : TChain α}
    (hr : TReach c st x s) : s.Inv ∧ s.inp.writers = 0 ∧ s.push [] = stagesFun st x := by
  induction hr with
  | init =>
    refine ⟨?_, rfl, ?_⟩
    · simp only [TChain.init, TChain.Inv]
      exact ⟨by simp, by simp [TChain.stages_inp], by simp, by simp, by simp, TChain.stages_inv st⟩
    · simp [TChain.init, TChain.push, TChain.stages_push]
  | step i n k _ hn _ hs ih =>
    obtain ⟨a, b, d⟩ := ih
    have ⟨a', b', d'⟩ := TChain.step_inv hn a hs
    exact ⟨a', by rw [b', b], by rw [d' [], d]⟩

theorem TChain.allDone_headDone {s : TChain α} (h : s.allDone = true) : s.headDone = true := by
  cases s with
  | sink inp r pc => simpa [TChain.allDone, TChain.headDone] using h
  | fwd g inp hold pc rest =>
    simp only [TChain.allDone, Bool.and_eq_true, beq_iff_eq] at h
    simp [TChain.headDone, h.1]

theorem TChain.progress (c : Cfg) (hv : c.Valid) (s : TChain α) (hi : s.Inv) :
    s.allDone = true ∨ (∃ i, i < s.procs ∧ ∀ n k, (s.step c i n k).isSome = true) ∨
      (s.inp.content = [] ∧ 0 < s.inp.writers ∧ s.headDone = false) := by
  induction s with
  | sink inp r pc =>
    cases pc with
    | run =>
      refine Or.inr (Or.inl ⟨0, by simp [TChain.procs], fun n k => ?_⟩)
      simp only [TChain.step, tsinkStep]
      split
      · rfl
      · split <;> rfl
    | wait =>
      by_cases hr : inp.readyR = true
      · refine Or.inr (Or.inl ⟨0, by simp [TChain.procs], fun n k => ?_⟩)
        simp [TChain.step, tsinkStep, hr]
      · refine Or.inr (Or.inr ?_)
        simp only [Fifo.readyR, Bool.or_eq_true, beq_iff_eq, Bool.not_eq_true', List.isEmpty_eq_false_iff,
          not_or] at hr
        refine ⟨by simpa [TChain.inp] using hr.2, by simp only [TChain.inp]; omega, by simp [TChain.headDone]⟩
    | done => exact Or.inl (by simp [TChain.allDone])
  | fwd g inp hold pc rest ih =>
    simp only [TChain.Inv] at hi
    obtain ⟨h1, h2, h3, h4, h5, h6⟩ := hi
    rcases ih h6 with hd | ⟨i, hil, hs⟩ | ⟨he, hw, hl⟩
    · have := (h6.head_done (TChain.allDone_headDone hd)).2.1
      rw [this] at h2
      have hpc : pc = .closed := by
        by_cases e : pc = .closed
        · exact e
        · simp [e] at h2
      exact Or.inl (by simp [TChain.allDone, hpc, hd])
    · refine Or.inr (Or.inl ⟨i + 1, by simp [TChain.procs, hil], fun n k => ?_⟩)
      simp only [TChain.step, Option.isSome_map]
      exact hs n k
    · have hpc : pc ≠ .closed := by
        intro e
        simp [e] at h2
        omega
      cases pc with
      | rd =>
        refine Or.inr (Or.inl ⟨0, by simp [TChain.procs], fun n k => ?_⟩)
        simp only [TChain.step, tfwdStep]
        split
        · rfl
        · split <;> rfl
      | rwait =>
        by_cases hr : inp.readyR = true
        · refine Or.inr (Or.inl ⟨0, by simp [TChain.procs], fun n k => ?_⟩)
          simp [TChain.step, tfwdStep, hr]
        · refine Or.inr (Or.inr ?_)
          simp only [Fifo.readyR, Bool.or_eq_true, beq_iff_eq, Bool.not_eq_true', List.isEmpty_eq_false_iff,
            not_or] at hr
          refine ⟨by simpa [TChain.inp] using hr.2, by simp only [TChain.inp]; omega, by simp [TChain.headDone]⟩
      | wr =>
        refine Or.inr (Or.inl ⟨0, by simp [TChain.procs], fun n k => ?_⟩)
        simp only [TChain.step, tfwdStep]
        split
        · rfl
        · split
          · rfl
          · rfl
          · split <;> rfl
      | wwait =>
        refine Or.inr (Or.inl ⟨0, by simp [TChain.procs], fun n k => ?_⟩)
        have hrw : rest.inp.readyW c = true := by
          simp only [Fifo.readyW, Fifo.room, he, List.length_nil, Nat.sub_zero, Bool.or_eq_true, beq_iff_eq,
            decide_eq_true_eq]
          exact Or.inr hv.2
        simp [TChain.step, tfwdStep, hrw]
      | closed => exact absurd rfl hpc
      | failed => exact absurd rfl h3

theorem TChain.allDone_push {s : TChain α} (hi : s.Inv) (h : s.allDone = true) : s.push [] = s.received := by
  induction s with
  | sink inp r pc =>
    simp only [TChain.allDone, beq_iff_eq] at h
    simp only [TChain.Inv] at hi
    simp [TChain.push, TChain.received, (hi.2 h).1]
  | fwd g inp hold pc rest ih =>
    simp only [TChain.allDone, Bool.and_eq_true, beq_iff_eq] at h
    simp only [TChain.Inv] at hi
    obtain ⟨_, _, _, h4, _, h6⟩ := hi
    have ⟨a, b, _⟩ := h4 h.1
    simp [TChain.push, TChain.received, a, b, ih h6 h.2]

end YashModel.Pipe
