/-
  C14 — the concurrent n-stage chain of Chain.lean generalised to stages that TRANSFORM and that WRITE BEFORE
  READING: stage `i` emits `g i b` for every byte `b` it reads (`[b]` = `cat`; `[b, b]` doubles; `[]` drops the byte;
  any per-byte filter such as `tr` / `sed y` / a doubling `awk`) after a preamble `pre i` that it writes before its
  first `read`.  Same pipes, same `read` / `write_all` loops, same scheduler as Chain.lean; `Chain` is the instance
  `g = fun b => [b]`, no preamble.  Import-free apart from Chain.lean, executable.
  Not covered here: a stage whose output depends on more than the current byte (state), and a stage that stops
  reading before end of file (the two-process case of that is `stop_delivers_exactly`).
-/
import YashModel.Pipe.Chain
namespace YashModel.Pipe

variable {α : Type}

inductive TChain (α : Type) where
  /-- the last process: `read_all_to` of Model.lean's reader -/
  | sink (inp : Fifo α) (received : List α) (pc : RPc)
  /-- a forwarding stage: `hold` = `&buffer[..n]` minus what `write_all` has written already -/
  | fwd (g : α → List α) (inp : Fifo α) (hold : List α) (pc : FPc) (rest : TChain α)

/-- the input pipe of the first process of the chain -/
def TChain.inp : TChain α → Fifo α
  | .sink inp _ _ => inp
  | .fwd _ inp _ _ _ => inp

def TChain.mapInp (f : Fifo α → Fifo α) : TChain α → TChain α
  | .sink inp r pc => .sink (f inp) r pc
  | .fwd g inp h pc rest => .fwd g (f inp) h pc rest

/-- the first process of the chain has finished (its reading end is closed) -/
def TChain.headDone : TChain α → Bool
  | .sink _ _ pc => pc == .done
  | .fwd _ _ _ pc _ => pc == .closed || pc == .failed

/-- what the sink has collected -/
def TChain.received : TChain α → List α
  | .sink _ r _ => r
  | .fwd _ _ _ _ rest => rest.received

/-- every process has finished normally -/
def TChain.allDone : TChain α → Bool
  | .sink _ _ pc => pc == .done
  | .fwd _ _ _ pc rest => pc == .closed && rest.allDone

/-- number of processes -/
def TChain.procs : TChain α → Nat
  | .sink _ _ _ => 1
  | .fwd _ _ _ _ rest => rest.procs + 1

/-- what the sink will hold once `x` more bytes have entered the first input pipe and everything has been pushed
    through every stage: a stage turns what it reads into `flatMap g` of it, after what it already holds -/
def TChain.push (x : List α) : TChain α → List α
  | .sink inp r _ => r ++ inp.content ++ x
  | .fwd g inp h _ rest => rest.push (h ++ (inp.content ++ x).flatMap g)

/-- the sink's step = `Sys.stepR` (buffer of `n` bytes) -/
def tsinkStep (inp : Fifo α) (received : List α) (pc : RPc) (n : Nat) : Option (TChain α) :=
  match pc with
  | .run =>
    match inp.read n with
    | (.block, _) => some (.sink inp received .wait)
    | (.data bs, p) =>
      if bs.isEmpty then some (.sink (p.closeFd true false) received .done)
      else some (.sink p (received ++ bs) .run)
  | .wait => if inp.readyR then some (.sink inp received .run) else none
  | .done => none

/-- one step of a forwarding stage whose output pipe is `rest.inp`; `n` = size of its read buffer, `k` = bound
    of one write request (`cat` asks for the whole `hold`; a source may write in pieces) -/
def tfwdStep (c : Cfg) (g : α → List α) (inp : Fifo α) (hold : List α) (pc : FPc) (rest : TChain α) (n k : Nat) : Option (TChain α) :=
  match pc with
  | .rd =>
    match inp.read n with
    | (.block, _) => some (.fwd g inp hold .rwait rest)
    | (.data bs, p) =>
      if bs.isEmpty then
        -- `Ok(0)`: the stage exits, both its descriptors are closed
        some (.fwd g (p.closeFd true false) hold .closed (rest.mapInp (·.closeFd false true)))
      else some (.fwd g p (bs.flatMap g) .wr rest)
  | .rwait => if inp.readyR then some (.fwd g inp hold .rd rest) else none
  | .wr =>
    if hold.isEmpty then some (.fwd g inp hold .rd rest)     -- `write_all` returns, back to `read`
    else match rest.inp.write c (hold.take k) with
      | (.epipe, _) =>
        some (.fwd g (inp.closeFd true false) hold .failed (rest.mapInp (·.closeFd false true)))
      | (.block, _) => some (.fwd g inp hold .wwait rest)
      | (.wrote w, p) =>
        if w = 0 then some (.fwd g inp hold .wwait (rest.mapInp fun _ => p))
        else some (.fwd g inp (hold.drop w) .wr (rest.mapInp fun _ => p))
  | .wwait => if rest.inp.readyW c then some (.fwd g inp hold .wr rest) else none
  | .closed => none
  | .failed => none

/-- process number `i` (0 = the source) takes its next step with read-buffer size `n` and write bound `k` -/
def TChain.step (c : Cfg) : TChain α → Nat → Nat → Nat → Option (TChain α)
  | .sink inp r pc, 0, n, _ => tsinkStep inp r pc n
  | .sink _ _ _, _ + 1, _, _ => none
  | .fwd g inp h pc rest, 0, n, k => tfwdStep c g inp h pc rest n k
  | .fwd g inp h pc rest, i + 1, n, k => (rest.step c i n k).map fun r => .fwd g inp h pc r

/-- the stages after the source, each with its per-byte function and its preamble, then the sink; every pipe
    empty with one reader and one writer -/
def TChain.stages : List ((α → List α) × List α) → TChain α
  | [] => .sink { content := [], readers := 1, writers := 1 } [] .run
  | (g, pre) :: rest => .fwd g { content := [], readers := 1, writers := 1 } pre .wr (TChain.stages rest)

/-- `source | stage₁ | … | stageₘ | sink`: the source writes `x`, then meets end of file on its input -/
def TChain.init (st : List ((α → List α) × List α)) (x : List α) : TChain α :=
  .fwd (fun b => [b]) { content := [], readers := 1, writers := 0 } x .wr (TChain.stages st)

/-- what the pipeline computes: every stage writes its preamble, then `flatMap g` of its input -/
def stagesFun : List ((α → List α) × List α) → List α → List α
  | [], x => x
  | (g, pre) :: rest, x => stagesFun rest (pre ++ x.flatMap g)

end YashModel.Pipe
