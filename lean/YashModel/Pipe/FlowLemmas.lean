/-
  C14 — helper lemmas connecting the driver's scheduler (`Flow.lean`) to the step relation.
-/
import YashModel.Pipe.Progress
import YashModel.Pipe.Flow
namespace YashModel.Pipe

variable {α : Type}

theorem wReq_pos (total wk : Nat) (s : Sys α) : 1 ≤ wReq total wk s := by
  unfold wReq
  split
  · omega
  · rename_i h
    have := Nat.mod_lt (total - s.unsent.length) (Nat.pos_of_ne_zero h)
    omega

/-- whether the writer can move does not depend on the size of its request -/
theorem stepW_none_indep (c : Cfg) (s : Sys α) (k k' : Nat) (h : s.stepW c k = none) : s.stepW c k' = none := by
  cases hw : s.wpc with
  | run =>
    obtain ⟨s', hs⟩ := stepW_run_some c s k hw
    rw [hs] at h
    simp at h
  | wait =>
    unfold Sys.stepW at h ⊢
    rw [hw] at h ⊢
    simpa using h
  | closed => unfold Sys.stepW; rw [hw]
  | failed => unfold Sys.stepW; rw [hw]

/-- whether the reader can move does not depend on the size of its buffer -/
theorem stepR_none_indep (s : Sys α) (n n' : Nat) (h : s.stepR n = none) : s.stepR n' = none := by
  cases hr : s.rpc with
  | run =>
    obtain ⟨s', hs⟩ := stepR_run_some s n hr
    rw [hs] at h
    simp at h
  | wait =>
    unfold Sys.stepR at h ⊢
    rw [hr] at h ⊢
    simpa using h
  | done => unfold Sys.stepR; rw [hr]

/-- a reachable state in which neither of the scheduler's two moves is possible is final and complete -/
theorem stuck_is_complete (c : Cfg) (hv : c.Valid) (payload : List α) (s : Sys α) (total wk rk : Nat)
    (hr : Reach c payload s) (hw : stepWriter c total wk s = none) (hrd : stepReader c rk none s = none) :
    s.final = true ∧ s.received = payload := by
  have hi := inv_reach hr
  have hf : s.final = true := by
    cases hfin : s.final with
    | true => rfl
    | false =>
      obtain ⟨a, s', ha, hs⟩ := enabled_of_inv c hv payload s hi hfin
      cases a with
      | w k =>
        have := stepW_none_indep c s _ k (by simpa [stepWriter, Sys.step] using hw)
        simp [Sys.step, this] at hs
      | r n =>
        have := stepR_none_indep s _ n (by simpa [stepReader, Sys.step] using hrd)
        simp [Sys.step, this] at hs
  refine ⟨hf, ?_⟩
  have hd : s.rpc = .done := by
    simp only [Sys.final, Bool.and_eq_true, beq_iff_eq] at hf
    exact hf.2
  have ⟨hwc, hc⟩ := hi.done_imp hd
  have hu := hi.closed_imp hwc
  have := hi.cons
  rw [hc, hu] at this
  simpa using this

theorem runSched_complete (c : Cfg) (hv : c.Valid) (payload : List α) (total wk rk : Nat) :
    ∀ (fuel x : Nat) (s : Sys α), Reach c payload s → s.measure c < fuel →
      (runSchedStop c total wk rk none fuel x s).final = true ∧
      (runSchedStop c total wk rk none fuel x s).received = payload := by
  intro fuel
  induction fuel with
  | zero => intro x s _ h; omega
  | succ f ih =>
    intro x s hr hm
    have stepW_ok : ∀ s', stepWriter c total wk s = some s' → Reach c payload s' ∧ s'.measure c < f := by
      intro s' hs
      have ha : (Act.w (wReq total wk s)).ok = true := by simpa [Act.ok] using wReq_pos total wk s
      have h1 := measure_stepW hv (wReq_pos total wk s) (inv_reach hr) (by simpa [stepWriter, Sys.step] using hs)
      exact ⟨Reach.step _ hr ha hs, by omega⟩
    have stepR_ok : ∀ s', stepReader c rk none s = some s' → Reach c payload s' ∧ s'.measure c < f := by
      intro s' hs
      have hn : 1 ≤ (if rk = 0 then 1024 else rk) := by split <;> omega
      have ha : (Act.r (if rk = 0 then 1024 else rk)).ok = true := by simpa [Act.ok] using hn
      have h1 := measure_stepR (c := c) hn (inv_reach hr) (by simpa [stepReader, Sys.step] using hs)
      exact ⟨Reach.step _ hr ha (by simpa [stepReader] using hs), by omega⟩
    simp only [runSchedStop]
    split
    · cases hw : stepWriter c total wk s with
      | some s' => exact ih _ s' (stepW_ok s' hw).1 (stepW_ok s' hw).2
      | none =>
        cases hrd : stepReader c rk none s with
        | some s' => exact ih _ s' (stepR_ok s' hrd).1 (stepR_ok s' hrd).2
        | none => exact stuck_is_complete c hv payload s total wk rk hr hw hrd
    · cases hrd : stepReader c rk none s with
      | some s' => exact ih _ s' (stepR_ok s' hrd).1 (stepR_ok s' hrd).2
      | none =>
        cases hw : stepWriter c total wk s with
        | some s' => exact ih _ s' (stepW_ok s' hw).1 (stepW_ok s' hw).2
        | none => exact stuck_is_complete c hv payload s total wk rk hr hw hrd

theorem transfer_eq (c : Cfg) (hv : c.Valid) (seed wk rk : Nat) (x : List α) : transfer c seed wk rk x = some x := by
  have hm : (Sys.init x).measure c < 12 * x.length + 200 := by
    simp [Sys.measure, Sys.init, wcostOf, rcostOf]; omega
  have h := runSched_complete c hv x x.length wk rk (12 * x.length + 200) seed (Sys.init x) Reach.init hm
  unfold transfer
  simp only [h.1, if_true, h.2]

/-- the lossy decoding is the identity on output without 0xFF bytes -/
theorem lossyFF_id (bs : List Nat) (h : ∀ b ∈ bs, b ≠ 255) : lossyFF bs = bs := by
  induction bs with
  | nil => rfl
  | cons a t ih =>
    have ha : a ≠ 255 := h a List.mem_cons_self
    have := ih fun b hb => h b (List.mem_cons_of_mem _ hb)
    simp only [lossyFF, List.flatMap_cons, ha, if_false] at this ⊢
    simpa using this

end YashModel.Pipe
