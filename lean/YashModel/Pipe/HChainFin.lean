import YashModel.Pipe.HChainLemmas
set_option linter.unusedSimpArgs false
namespace YashModel.Pipe
variable {α : Type}

/-- the first process has exited because of its allowance or of EPIPE (not at end of file) -/
def HChain.headGone : HChain α → Bool
  | .sink _ _ _ => false
  | .fwd _ m _ _ pc _ => (pc == .closed && m == 0) || pc == .failed

/-- what an exited stage leaves behind -/
def HChain.Fin : HChain α → Prop
  | .sink inp _ pc => pc = .done → inp.content = [] ∧ inp.writers = 0
  | .fwd _ m inp hold pc rest =>
      (pc = .closed → hold = [] ∧ (m = 0 ∨ (inp.content = [] ∧ inp.writers = 0))) ∧
      (pc = .failed → rest.headGone = true) ∧ rest.Fin

theorem HChain.Fin.mapInp {s : HChain α} (h : s.Fin) (f : Fifo α → Fifo α)
    (hd : s.headDone = true → (f s.inp).content = s.inp.content ∧ (s.inp.writers = 0 → (f s.inp).writers = 0)) :
    (s.mapInp f).Fin := by
  cases s with
  | sink inp r pc =>
    simp only [HChain.Fin, HChain.mapInp, HChain.inp, HChain.headDone, beq_iff_eq] at *
    intro hp
    obtain ⟨a, b⟩ := hd hp
    exact ⟨by rw [a]; exact (h hp).1, b (h hp).2⟩
  | fwd g m inp hold pc rest =>
    simp only [HChain.Fin, HChain.mapInp, HChain.inp, HChain.headDone, Bool.or_eq_true, beq_iff_eq] at *
    refine ⟨fun hp => ?_, h.2⟩
    obtain ⟨a, b⟩ := hd (Or.inl hp)
    obtain ⟨c1, c2⟩ := h.1 hp
    refine ⟨c1, ?_⟩
    rcases c2 with c2 | c2
    · exact Or.inl c2
    · exact Or.inr ⟨by rw [a]; exact c2.1, b c2.2⟩

theorem HChain.mapInp_headGone (s : HChain α) (f : Fifo α → Fifo α) : (s.mapInp f).headGone = s.headGone := by
  cases s <;> rfl

theorem HChain.mapInp_headDone (s : HChain α) (f : Fifo α → Fifo α) : (s.mapInp f).headDone = s.headDone := by
  cases s <;> rfl

/-- a process that has exited does not step; a step further down leaves the first process as it is -/
theorem HChain.step_headGone {c : Cfg} {s s' : HChain α} {i n k : Nat} (hg : s.headGone = true)
    (h : s.step c i n k = some s') : s'.headGone = true := by
  cases s with
  | sink inp r pc => simp [HChain.headGone] at hg
  | fwd g m inp hold pc rest =>
    cases i with
    | zero =>
      simp only [HChain.headGone, Bool.or_eq_true, Bool.and_eq_true, beq_iff_eq] at hg
      rcases hg with ⟨hp, _⟩ | hp <;> (subst hp; simp [HChain.step, hfwdStep] at h)
    | succ j =>
      simp only [HChain.step, Option.map_eq_some_iff] at h
      obtain ⟨r', _, rfl⟩ := h
      exact hg

theorem HChain.closeW_fin {rest : HChain α} (h : rest.Fin) : (rest.mapInp (·.closeFd false true)).Fin :=
  h.mapInp _ fun _ => ⟨by simp [Fifo.closeFd], fun hw => by simp [Fifo.closeFd, hw]⟩

theorem HChain.step_fin {c : Cfg} {s s' : HChain α} {i n k : Nat} (hn : 1 ≤ n) (hc : s.Cnt) (ho : s.HoldOK)
    (hf : s.Fin) (h : s.step c i n k = some s') : s'.Fin := by
  induction s generalizing i s' with
  | sink inp r pc =>
    cases i with
    | zero =>
      simp only [HChain.step] at h
      unfold hsinkStep at h
      split at h
      · split at h
        next p hrd => simp only [Option.some.injEq] at h; subst h; simp [HChain.Fin]
        next bs p hrd =>
          have ⟨hbs, hp, hw0⟩ := read_data hn hrd
          split at h
          next he =>
            have hbs0 : bs = [] := by simpa using he
            have hcc : inp.content = [] := take_nil_of_pos hn (by rw [← hbs, hbs0])
            simp only [Option.some.injEq] at h; subst h
            simp [HChain.Fin, Fifo.closeFd, hp, hcc, hw0 hcc]
          next he => simp only [Option.some.injEq] at h; subst h; simp [HChain.Fin]
      · split at h
        · simp only [Option.some.injEq] at h; subst h; simp [HChain.Fin]
        · simp at h
      · simp at h
    | succ j => simp [HChain.step] at h
  | fwd g m inp hold pc rest ih =>
    simp only [HChain.Cnt] at hc
    obtain ⟨c1, c2, c3⟩ := hc
    obtain ⟨o1, o2⟩ := ho
    simp only [HChain.Fin] at hf
    obtain ⟨f1, f2, f3⟩ := hf
    cases i with
    | zero =>
      simp only [HChain.step] at h
      unfold hfwdStep at h
      split at h
      · -- rd
        have hh : hold = [] := o1 (Or.inl rfl)
        split at h
        next hm0 =>
          simp only [Option.some.injEq] at h; subst h
          exact ⟨fun _ => ⟨hh, Or.inl hm0⟩, by simp, HChain.closeW_fin f3⟩
        next hm0 =>
          have hn' : 1 ≤ min n m := by omega
          split at h
          next p hrd => simp only [Option.some.injEq] at h; subst h; exact ⟨by simp, by simp, f3⟩
          next bs p hrd =>
            have ⟨hbs, hp, hw0⟩ := read_data hn' hrd
            split at h
            next he =>
              have hbs0 : bs = [] := by simpa using he
              have hcc : inp.content = [] := take_nil_of_pos hn' (by rw [← hbs, hbs0])
              simp only [Option.some.injEq] at h; subst h
              exact ⟨fun _ => ⟨hh, Or.inr (by simp [Fifo.closeFd, hp, hcc, hw0 hcc])⟩, by simp, HChain.closeW_fin f3⟩
            next he => simp only [Option.some.injEq] at h; subst h; exact ⟨by simp, by simp, f3⟩
      · split at h
        · simp only [Option.some.injEq] at h; subst h; exact ⟨by simp, by simp, f3⟩
        · simp at h
      · -- wr
        split at h
        · simp only [Option.some.injEq] at h; subst h; exact ⟨by simp, by simp, f3⟩
        · split at h
          next p hwr =>
            have ⟨hr0, _⟩ := write_epipe hwr
            have hdone : rest.headDone = true := by
              have := c3.head
              rw [hr0] at this
              by_cases e : rest.headDone = true
              · exact e
              · simp [e] at this
            have hgone : rest.headGone = true := by
              simp only [reduceCtorEq, or_self, if_false] at c2
              cases rest with
              | sink ri rr rpc =>
                simp only [HChain.headDone, beq_iff_eq] at hdone
                have := (f3 hdone).2
                simp only [HChain.inp] at c2
                omega
              | fwd g2 m2 ri rh rpc rrest =>
                simp only [HChain.headDone, Bool.or_eq_true, beq_iff_eq] at hdone
                simp only [HChain.inp] at c2
                rcases hdone with hp | hp
                · rcases (f3.1 hp).2 with hm | ⟨_, hw⟩
                  · simp [HChain.headGone, hp, hm]
                  · omega
                · simp [HChain.headGone, hp]
            simp only [Option.some.injEq] at h; subst h
            exact ⟨by simp, fun _ => by rw [HChain.mapInp_headGone]; exact hgone, HChain.closeW_fin f3⟩
          next p hwr => simp only [Option.some.injEq] at h; subst h; exact ⟨by simp, by simp, f3⟩
          next w p hwr =>
            have ⟨hr, hp, _, _, _, _⟩ := write_wrote hwr
            have hlive : rest.headDone = false := by
              have := c3.head
              cases e : rest.headDone with
              | false => rfl
              | true => rw [e] at this; simp at this; omega
            have hfin : (rest.mapInp fun _ => p).Fin := f3.mapInp _ fun hd => by rw [hlive] at hd; simp at hd
            split at h <;> (simp only [Option.some.injEq] at h; subst h; exact ⟨by simp, by simp, hfin⟩)
      · split at h
        · simp only [Option.some.injEq] at h; subst h; exact ⟨by simp, by simp, f3⟩
        · simp at h
      · simp at h
      · simp at h
    | succ j =>
      simp only [HChain.step, Option.map_eq_some_iff] at h
      obtain ⟨r', hr', rfl⟩ := h
      exact ⟨f1, fun hp => HChain.step_headGone (f2 hp) hr', ih c3 o2 f3 hr'⟩

/-- ★ a state in which every process has exited is settled -/
theorem HChain.allDone_settled {s : HChain α} (hf : s.Fin) (hd : s.allDone = true) :
    s.settled = true ∧ (s.headGone = true → s.absorbing = true) := by
  induction s with
  | sink inp r pc =>
    simp only [HChain.allDone, beq_iff_eq] at hd
    exact ⟨by simp [HChain.settled, (hf hd).1], by simp [HChain.headGone]⟩
  | fwd g m inp hold pc rest ih =>
    simp only [HChain.Fin] at hf
    obtain ⟨f1, f2, f3⟩ := hf
    simp only [HChain.allDone, Bool.and_eq_true, Bool.or_eq_true, beq_iff_eq] at hd
    obtain ⟨hp, hr⟩ := hd
    obtain ⟨is, ia⟩ := ih f3 hr
    rcases hp with hp | hp
    · obtain ⟨hh, hm⟩ := f1 hp
      refine ⟨?_, fun hg => ?_⟩
      · rcases hm with hm | hm
        · simp [HChain.settled, hh, hm, is]
        · simp [HChain.settled, hh, hm.1, is]
      · have hm0 : m = 0 := by simpa [HChain.headGone, hp] using hg
        simp [HChain.absorbing, hh, hm0, is]
    · have := ia (f2 hp)
      exact ⟨by simp [HChain.settled, this], fun _ => by simp [HChain.absorbing, this]⟩

/-- reachable states when every read buffer has at least one byte -/
inductive HReach1 (c : Cfg) (st : List ((α → List α) × Nat × List α)) (x : List α) : HChain α → Prop
  | init : HReach1 c st x (HChain.init st x)
  | step {s s' : HChain α} (i n k : Nat) :
      HReach1 c st x s → 1 ≤ n → s.step c i n k = some s' → HReach1 c st x s'

theorem HReach1.reach {c : Cfg} {st : List ((α → List α) × Nat × List α)} {x : List α} {s : HChain α}
    (h : HReach1 c st x s) : HReach c st x s := by
  induction h with
  | init => exact HReach.init
  | step i n k _ _ hs ih => exact HReach.step i n k ih hs

theorem HChain.stages_fin (st : List ((α → List α) × Nat × List α)) : (HChain.stages st).Fin := by
  induction st with
  | nil => simp [HChain.stages, HChain.Fin]
  | cons a t ih => obtain ⟨g, m, pre⟩ := a; exact ⟨by simp, by simp, ih⟩

theorem HReach1.fin {c : Cfg} {st : List ((α → List α) × Nat × List α)} {x : List α} {s : HChain α}
    (h : HReach1 c st x s) : s.Fin := by
  induction h with
  | init => exact ⟨by simp, by simp, HChain.stages_fin st⟩
  | step i n k hr hn hs ih => exact HChain.step_fin hn hr.reach.cnt.1 hr.reach.inv.1 ih hs

theorem hchainRun_reach1 {c : Cfg} {st : List ((α → List α) × Nat × List α)} {x : List α} {n : Nat} (hn : 1 ≤ n)
    (k fuel y : Nat) (s : HChain α) (hr : HReach1 c st x s) : HReach1 c st x (hchainRun c n k fuel y s) := by
  induction fuel generalizing y s with
  | zero => exact hr
  | succ fuel ih =>
    unfold hchainRun
    simp only
    split
    next s' hs =>
      split at hs
      next s1 h1 =>
        simp only [Option.some.injEq] at hs
        subst hs
        exact ih _ _ (HReach1.step _ n k hr hn h1)
      next =>
        obtain ⟨j, hj⟩ := hchainScan_step hs
        exact ih _ _ (HReach1.step j n k hr hn hj)
    next => exact hr

end YashModel.Pipe
