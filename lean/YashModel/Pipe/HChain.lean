/-
  C14 — the transforming chain of TChain.lean with HEAD-LIKE stages: a stage may stop reading after `rem` bytes
  (`head -c K`): it then exits and closes both its descriptors; its downstream sees end of file after `g` of the
  prefix it consumed, its upstream meets EPIPE on its next `write` (`failed`, both ends closed — which in turn is
  EPIPE for the stage before it).  Same pipes, loops and scheduler as Chain.lean / TChain.lean; `TChain` is the
  instance in which every allowance exceeds what can arrive.  Import-free apart from Chain.lean, executable.
-/
import YashModel.Pipe.TChain
namespace YashModel.Pipe

variable {α : Type}

inductive HChain (α : Type) where
  /-- the last process: `read_all_to` of Model.lean's reader -/
  | sink (inp : Fifo α) (received : List α) (pc : RPc)
  /-- a forwarding stage: `hold` = `&buffer[..n]` minus what `write_all` has written already -/
  -- `rem` = how many more bytes the stage will read before it exits (`head -c`)
  | fwd (g : α → List α) (rem : Nat) (inp : Fifo α) (hold : List α) (pc : FPc) (rest : HChain α)

/-- the input pipe of the first process of the chain -/
def HChain.inp : HChain α → Fifo α
  | .sink inp _ _ => inp
  | .fwd _ _ inp _ _ _ => inp

def HChain.mapInp (f : Fifo α → Fifo α) : HChain α → HChain α
  | .sink inp r pc => .sink (f inp) r pc
  | .fwd g m inp h pc rest => .fwd g m (f inp) h pc rest

/-- the first process of the chain has finished (its reading end is closed) -/
def HChain.headDone : HChain α → Bool
  | .sink _ _ pc => pc == .done
  | .fwd _ _ _ _ pc _ => pc == .closed || pc == .failed

/-- what the sink has collected -/
def HChain.received : HChain α → List α
  | .sink _ r _ => r
  | .fwd _ _ _ _ _ rest => rest.received

/-- every process has finished normally -/
def HChain.allDone : HChain α → Bool
  | .sink _ _ pc => pc == .done
  | .fwd _ _ _ _ pc rest => (pc == .closed || pc == .failed) && rest.allDone

/-- number of processes -/
def HChain.procs : HChain α → Nat
  | .sink _ _ _ => 1
  | .fwd _ _ _ _ _ rest => rest.procs + 1

/-- what the sink will hold once `x` more bytes have entered the first input pipe and everything has been pushed
    through every stage: a stage turns what it reads into `flatMap g` of it, after what it already holds -/
def HChain.push (x : List α) : HChain α → List α
  | .sink inp r _ => r ++ inp.content ++ x
  | .fwd g m inp h _ rest => rest.push (h ++ ((inp.content ++ x).take m).flatMap g)

/-- the sink's step = `Sys.stepR` (buffer of `n` bytes) -/
def hsinkStep (inp : Fifo α) (received : List α) (pc : RPc) (n : Nat) : Option (HChain α) :=
  match pc with
  | .run =>
    match inp.read n with
    | (.block, _) => some (.sink inp received .wait)
    | (.data bs, p) =>
      if bs.isEmpty then some (.sink (p.closeFd true false) received .done)
      else some (.sink p (received ++ bs) .run)
  | .wait => if inp.readyR then some (.sink inp received .run) else none
  | .done => none

/-- one step of a forwarding stage whose output pipe is `rest.inp`; `n` = size of its read buffer, `k` = bound
    of one write request (`cat` asks for the whole `hold`; a source may write in pieces) -/
def hfwdStep (c : Cfg) (g : α → List α) (m : Nat) (inp : Fifo α) (hold : List α) (pc : FPc) (rest : HChain α) (n k : Nat) : Option (HChain α) :=
  match pc with
  | .rd =>
    if m = 0 then
      -- the stage has read all it wanted (`head -c`): it exits, both its descriptors are closed; whatever is
      -- still in its input pipe is never read, and its upstream will meet EPIPE
      some (.fwd g m (inp.closeFd true false) hold .closed (rest.mapInp (·.closeFd false true)))
    else match inp.read (min n m) with
    | (.block, _) => some (.fwd g m inp hold .rwait rest)
    | (.data bs, p) =>
      if bs.isEmpty then
        -- `Ok(0)`: the stage exits, both its descriptors are closed
        some (.fwd g m (p.closeFd true false) hold .closed (rest.mapInp (·.closeFd false true)))
      else some (.fwd g (m - bs.length) p (bs.flatMap g) .wr rest)
  | .rwait => if inp.readyR then some (.fwd g m inp hold .rd rest) else none
  | .wr =>
    if hold.isEmpty then some (.fwd g m inp hold .rd rest)     -- `write_all` returns, back to `read`
    else match rest.inp.write c (hold.take k) with
      | (.epipe, _) =>
        some (.fwd g m (inp.closeFd true false) hold .failed (rest.mapInp (·.closeFd false true)))
      | (.block, _) => some (.fwd g m inp hold .wwait rest)
      | (.wrote w, p) =>
        if w = 0 then some (.fwd g m inp hold .wwait (rest.mapInp fun _ => p))
        else some (.fwd g m inp (hold.drop w) .wr (rest.mapInp fun _ => p))
  | .wwait => if rest.inp.readyW c then some (.fwd g m inp hold .wr rest) else none
  | .closed => none
  | .failed => none

/-- process number `i` (0 = the source) takes its next step with read-buffer size `n` and write bound `k` -/
def HChain.step (c : Cfg) : HChain α → Nat → Nat → Nat → Option (HChain α)
  | .sink inp r pc, 0, n, _ => hsinkStep inp r pc n
  | .sink _ _ _, _ + 1, _, _ => none
  | .fwd g m inp h pc rest, 0, n, k => hfwdStep c g m inp h pc rest n k
  | .fwd g m inp h pc rest, i + 1, n, k => (rest.step c i n k).map fun r => .fwd g m inp h pc r

/-- the stages after the source: per-byte function, how many bytes the stage reads before it exits, preamble -/
def HChain.stages : List ((α → List α) × Nat × List α) → HChain α
  | [] => .sink { content := [], readers := 1, writers := 1 } [] .run
  | (g, m, pre) :: rest => .fwd g m { content := [], readers := 1, writers := 1 } pre .wr (HChain.stages rest)

def HChain.init (st : List ((α → List α) × Nat × List α)) (x : List α) : HChain α :=
  .fwd (fun b => [b]) 0 { content := [], readers := 1, writers := 0 } x .wr (HChain.stages st)

/-- what the pipeline computes: every stage writes its preamble, then `flatMap g` of the PREFIX of its input that
    it consumes -/
def stagesFunH : List ((α → List α) × Nat × List α) → List α → List α
  | [], x => x
  | (g, m, pre) :: rest, x => stagesFunH rest (pre ++ (x.take m).flatMap g)

/-! ### the seeded executor the driver runs (`xfer … mid=M hs=J hk=K`) -/

def hchainScan (c : Cfg) (s : HChain α) (n k : Nat) : Nat → Option (HChain α)
  | 0 => none
  | j + 1 =>
    match s.step c j n k with
    | some s' => some s'
    | none => hchainScan c s n k j

def hchainRun (c : Cfg) (n k : Nat) : Nat → Nat → HChain α → HChain α
  | 0, _, s => s
  | fuel + 1, x, s =>
    let x' := (x * 1103515245 + 12345) % 2147483648
    match (match s.step c ((x' / 65536) % s.procs) n k with
            | some s' => some s'
            | none => hchainScan c s n k s.procs) with
    | some s' => hchainRun c n k fuel x' s'
    | none => s

/-- how each process ended, source first -/
def HChain.statuses : HChain α → List String
  | .sink _ _ pc => [match pc with | .done => "done" | .run => "run" | .wait => "wait"]
  | .fwd _ _ _ _ pc rest =>
    (match pc with
      | .closed => "closed" | .failed => "failed" | .rd => "rd" | .rwait => "rwait" | .wr => "wr"
      | .wwait => "wwait") :: rest.statuses

/-- `source | m × cat | sink` where forwarder number `hs` (1-based) stops after `hk` bytes -/
def hchainTransfer (c : Cfg) (seed m hs hk wk rk : Nat) (x : List α) : HChain α :=
  let n := if rk = 0 then 1024 else rk
  let k := if wk = 0 then x.length + 1 else wk
  let st : List ((α → List α) × Nat × List α) :=
    (List.range m).map fun i => (fun b => [b], if i + 1 = hs then hk else x.length + 1, [])
  hchainRun c n k ((m + 2) * (12 * x.length + 200)) seed (HChain.init st x)

end YashModel.Pipe
