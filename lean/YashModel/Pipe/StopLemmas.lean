/-
  C14 — a reader that stops after exactly K bytes (`xfer … stop=K`, `stepReader … (some K)` of Flow.lean): the
  invariant of the driver's run, the measure under early close, and where the run ends.
  (Property theorems are in Theorems.lean.)
-/
import YashModel.Pipe.Progress
import YashModel.Pipe.FlowLemmas
set_option linter.unusedSimpArgs false
namespace YashModel.Pipe

variable {α : Type}

/-- what holds along a run in which the reader takes at most `K` bytes and then closes its end -/
structure SInv (c : Cfg) (payload : List α) (K : Nat) (s : Sys α) : Prop where
  cons : ConsInv c payload s
  rd : s.pipe.readers = if s.rpc = .done then 0 else 1
  wr : s.pipe.writers = if s.wpc = .closed ∨ s.wpc = .failed then 0 else 1
  closed_imp : s.wpc = .closed → s.unsent = []
  lenK : s.received.length ≤ K
  done_imp : s.rpc = .done → s.received.length = K ∨ (s.wpc = .closed ∧ s.pipe.content = [])
  failed_imp : s.wpc = .failed → s.rpc = .done

theorem sinv_init (c : Cfg) (payload : List α) (K : Nat) : SInv c payload K (Sys.init payload) := by
  refine ⟨⟨by simp [Sys.init], by simp [Sys.init]⟩, ?_, ?_, ?_, ?_, ?_, ?_⟩ <;> simp [Sys.init]

/-- a step of the writer: invariant kept, measure lowered (EPIPE included: the writer gives up) -/
theorem stop_stepW {c : Cfg} (hv : c.Valid) {payload : List α} {K : Nat} {s s' : Sys α} {k : Nat} (hk : 1 ≤ k)
    (hi : SInv c payload K s) (h : s.stepW c k = some s') :
    SInv c payload K s' ∧ s'.measure c < s.measure c := by
  obtain ⟨hv1, hv2⟩ := hv
  have hcons' := cons_stepW hi.cons h
  obtain ⟨cons, rd, wr, closed_imp, lenK, done_imp, failed_imp⟩ := hi
  unfold Sys.stepW at h
  split at h
  next hw =>
    split at h
    next he =>
      simp only [Option.some.injEq] at h
      subst h
      have he' : s.unsent = [] := by simpa using he
      have := rcostOf_shift s.rpc s.pipe.readyR (s.pipe.closeFd false true).readyR
      refine ⟨⟨hcons', ?_, ?_, ?_, ?_, ?_, ?_⟩, ?_⟩
      · simpa [Fifo.closeFd] using rd
      · simp [Fifo.closeFd, wr, hw]
      · intro _; exact he'
      · exact lenK
      · intro hd
        rcases done_imp hd with h1 | ⟨h1, _⟩
        · exact Or.inl h1
        · rw [hw] at h1; exact absurd h1 (by simp)
      · simp
      · unfold Sys.measure
        simp only [hw, wcostOf, Fifo.closeFd] at this ⊢
        omega
    next he =>
      have hne : s.unsent.take k ≠ [] := by
        cases hu : s.unsent with
        | nil => simp [hu] at he
        | cons a t =>
          cases k with
          | zero => omega
          | succ m => simp
      split at h
      next p hwr =>
        -- EPIPE: no reader is left, the writer gives up
        have ⟨hr0, _⟩ := write_epipe hwr
        have hdone : s.rpc = .done := by
          by_cases e : s.rpc = .done
          · exact e
          · simp [e] at rd; omega
        simp only [Option.some.injEq] at h
        subst h
        refine ⟨⟨hcons', ?_, ?_, ?_, ?_, ?_, ?_⟩, ?_⟩
        · simpa [Fifo.closeFd] using rd
        · simp [Fifo.closeFd, wr, hw]
        · simp
        · exact lenK
        · intro hd
          rcases done_imp hd with h1 | ⟨h1, _⟩
          · exact Or.inl h1
          · rw [hw] at h1; exact absurd h1 (by simp)
        · intro _; exact hdone
        · unfold Sys.measure
          simp only [hw, hdone, wcostOf, rcostOf, Fifo.closeFd]
          omega
      next p hwr =>
        have ⟨_, hr, hroom, hor⟩ := write_block hwr
        simp only [Option.some.injEq] at h
        subst h
        have hnr : s.pipe.readyW c = false := by
          rw [Bool.eq_false_iff]
          intro hh
          rw [readyW_iff] at hh
          unfold Fifo.room at hroom hor
          have := List.length_take_le k s.unsent
          omega
        refine ⟨⟨hcons', rd, ?_, ?_, lenK, ?_, ?_⟩, ?_⟩
        · simpa [hw] using wr
        · simp
        · intro hd
          rcases done_imp hd with h1 | ⟨h1, _⟩
          · exact Or.inl h1
          · rw [hw] at h1; exact absurd h1 (by simp)
        · simp
        · unfold Sys.measure
          simp only [hw, hnr, wcostOf]
          omega
      next n p hwr =>
        have ⟨hr, hp, hn, hroom, h1, _⟩ := write_wrote hwr
        have hn1 : 1 ≤ n := h1 hne
        have hlen : n ≤ s.unsent.length := by
          have := List.length_take_le' k s.unsent
          omega
        split at h
        · omega
        · simp only [Option.some.injEq] at h
          subst h
          have hpl : p.content.length = s.pipe.content.length + n := by
            rw [hp]
            rw [List.length_take] at hn
            simp only [List.length_append, List.length_take]
            omega
          have := rcostOf_shift s.rpc s.pipe.readyR p.readyR
          refine ⟨⟨hcons', ?_, ?_, ?_, lenK, ?_, ?_⟩, ?_⟩
          · simpa [hp] using rd
          · simpa [hp, hw] using wr
          · simp [hw]
          · intro hd
            rcases done_imp hd with h1 | ⟨h1, _⟩
            · exact Or.inl h1
            · rw [hw] at h1; exact absurd h1 (by simp)
          · simp [hw]
          · unfold Sys.measure
            simp only [hw, wcostOf, List.length_drop, hpl]
            omega
  next hw =>
    split at h
    next hr =>
      simp only [Option.some.injEq] at h
      subst h
      refine ⟨⟨hcons', rd, ?_, ?_, lenK, ?_, ?_⟩, ?_⟩
      · simpa [hw] using wr
      · simp
      · intro hd
        rcases done_imp hd with h1 | ⟨h1, _⟩
        · exact Or.inl h1
        · rw [hw] at h1; exact absurd h1 (by simp)
      · simp
      · unfold Sys.measure
        simp only [hw, hr, wcostOf]
        omega
    · simp at h
  next => simp at h
  next => simp at h

/-- a step of the stopping reader: invariant kept, measure lowered -/
theorem stop_stepR {c : Cfg} {payload : List α} {K rk : Nat} {s s' : Sys α}
    (hi : SInv c payload K s) (h : stepReader c rk (some K) s = some s') :
    SInv c payload K s' ∧ s'.measure c < s.measure c := by
  obtain ⟨cons, rd, wr, closed_imp, lenK, done_imp, failed_imp⟩ := hi
  unfold stepReader at h
  simp only at h
  split at h
  next hc =>
    -- the reader has its K bytes: it closes its end
    simp only [Bool.and_eq_true, beq_iff_eq, decide_eq_true_eq] at hc
    obtain ⟨hrun, hK⟩ := hc
    unfold Sys.stepRClose at h
    rw [hrun] at h
    simp only [Option.some.injEq] at h
    subst h
    have := wcostOf_shift s.wpc (s.pipe.readyW c) ((s.pipe.closeFd true false).readyW c)
    refine ⟨⟨cons, ?_, ?_, closed_imp, lenK, ?_, ?_⟩, ?_⟩
    · simp [Fifo.closeFd, rd, hrun]
    · simpa [Fifo.closeFd] using wr
    · intro _; exact Or.inl (by show s.received.length = K; omega)
    · intro _; rfl
    · unfold Sys.measure
      simp only [hrun, rcostOf, Fifo.closeFd] at this ⊢
      omega
  next hc =>
    simp only [Sys.step] at h
    generalize hn : min (if rk = 0 then 1024 else rk) (K - s.received.length) = n at h
    have hstep := h
    unfold Sys.stepR at h
    split at h
    next hr =>
      have hlt : s.received.length < K := by
        simp only [hr, beq_self_eq_true, Bool.true_and, decide_eq_true_eq] at hc
        omega
      have hn1 : 1 ≤ n := by
        rw [← hn]
        have : 1 ≤ (if rk = 0 then 1024 else rk) := by split <;> omega
        omega
      have hnK : n ≤ K - s.received.length := by rw [← hn]; exact Nat.min_le_right _ _
      have hcons' : ConsInv c payload s' := cons_stepR hn1 cons hstep
      split at h
      next p hrd =>
        have ⟨_, _, hcc, hw⟩ := read_block hrd
        simp only [Option.some.injEq] at h
        subst h
        have hnr : s.pipe.readyR = false := by
          rw [Bool.eq_false_iff]
          intro hh
          rw [readyR_iff] at hh
          simp [hcc] at hh
          omega
        refine ⟨⟨hcons', ?_, wr, closed_imp, lenK, by simp, ?_⟩, ?_⟩
        · simpa [hr] using rd
        · intro hf; have := failed_imp hf; rw [hr] at this; exact absurd this (by simp)
        · unfold Sys.measure
          simp only [hr, hnr, rcostOf]
          omega
      next bs p hrd =>
        have ⟨hbs, hp, hw0⟩ := read_data hn1 hrd
        split at h
        next he =>
          have hbs0 : bs = [] := by simpa using he
          have hcc : s.pipe.content = [] := by
            rw [hbs0] at hbs
            cases hcc : s.pipe.content with
            | nil => rfl
            | cons a t =>
              rw [hcc] at hbs
              cases n with
              | zero => omega
              | succ m => simp at hbs
          have hw : s.pipe.writers = 0 := hw0 hcc
          have hclosed : s.wpc = .closed := by
            rw [wr] at hw
            split at hw
            next hor =>
              cases hor with
              | inl h1 => exact h1
              | inr h2 => have := failed_imp h2; rw [hr] at this; exact absurd this (by simp)
            next => omega
          simp only [Option.some.injEq] at h
          subst h
          have hpl : p.content = [] := by rw [hp]; simp [hcc]
          refine ⟨⟨hcons', ?_, ?_, closed_imp, lenK, ?_, ?_⟩, ?_⟩
          · simp [Fifo.closeFd, hp, rd, hr]
          · simpa [Fifo.closeFd, hp] using wr
          · intro _; exact Or.inr ⟨hclosed, by simp [Fifo.closeFd, hpl]⟩
          · intro _; rfl
          · unfold Sys.measure
            simp only [hr, hclosed, hcc, Fifo.closeFd, wcostOf, rcostOf, List.length_nil, hpl]
            omega
        next he =>
          have hbl : 1 ≤ bs.length := by
            cases bs with
            | nil => simp at he
            | cons a t => simp
          simp only [Option.some.injEq] at h
          subst h
          have hbn : bs.length ≤ n := by rw [hbs]; exact List.length_take_le _ _
          have hpl : p.content.length + 1 ≤ s.pipe.content.length := by
            rw [hbs, List.length_take] at hbl
            rw [hp]
            simp only [List.length_drop]
            omega
          have := wcostOf_shift s.wpc (s.pipe.readyW c) (p.readyW c)
          refine ⟨⟨hcons', ?_, ?_, closed_imp, ?_, by simp [hr], ?_⟩, ?_⟩
          · simpa [hp, hr] using rd
          · simpa [hp] using wr
          · simp only [List.length_append]; omega
          · intro hf; have := failed_imp hf; rw [hr] at this; exact absurd this (by simp)
          · unfold Sys.measure
            simp only [hr, rcostOf]
            omega
    next hr =>
      split at h
      next hrr =>
        simp only [Option.some.injEq] at h
        subst h
        refine ⟨⟨cons, ?_, wr, closed_imp, lenK, by simp, ?_⟩, ?_⟩
        · simpa [hr] using rd
        · intro hf; have := failed_imp hf; rw [hr] at this; exact absurd this (by simp)
        · unfold Sys.measure
          simp only [hr, hrr, rcostOf]
          omega
      next => simp at h
    next => simp at h

/-- the driver's run with `stop = some K` keeps the invariant, and with enough fuel it ends where neither process
    can step -/
theorem runStop_end {c : Cfg} (hv : c.Valid) {payload : List α} {K : Nat} (total wk rk : Nat)
    (fuel x : Nat) (s : Sys α) (hi : SInv c payload K s) (hf : s.measure c ≤ fuel) :
    let t := runSchedStop c total wk rk (some K) fuel x s
    SInv c payload K t ∧ stepWriter c total wk t = none ∧ stepReader c rk (some K) t = none := by
  induction fuel generalizing x s with
  | zero =>
    simp only [runSchedStop]
    refine ⟨hi, ?_, ?_⟩
    · cases hs : stepWriter c total wk s with
      | none => rfl
      | some s' =>
        have := (stop_stepW hv (wReq_pos total wk s) hi (by simpa [stepWriter, Sys.step] using hs)).2
        omega
    · cases hs : stepReader c rk (some K) s with
      | none => rfl
      | some s' =>
        have := (stop_stepR hi hs).2
        omega
  | succ fuel ih =>
    have hW : ∀ s', stepWriter c total wk s = some s' → SInv c payload K s' ∧ s'.measure c ≤ fuel := by
      intro s' hs
      have := stop_stepW hv (wReq_pos total wk s) hi (by simpa [stepWriter, Sys.step] using hs)
      exact ⟨this.1, by omega⟩
    have hR : ∀ s', stepReader c rk (some K) s = some s' → SInv c payload K s' ∧ s'.measure c ≤ fuel := by
      intro s' hs
      have := stop_stepR hi hs
      exact ⟨this.1, by omega⟩
    unfold runSchedStop
    simp only
    split
    · split
      next s' hs => exact ih _ s' (hW s' hs).1 (hW s' hs).2
      next hs =>
        split
        next s' hs2 => exact ih _ s' (hR s' hs2).1 (hR s' hs2).2
        next hs2 => exact ⟨hi, hs, hs2⟩
    · split
      next s' hs => exact ih _ s' (hR s' hs).1 (hR s' hs).2
      next hs =>
        split
        next s' hs2 => exact ih _ s' (hW s' hs2).1 (hW s' hs2).2
        next hs2 => exact ⟨hi, hs2, hs⟩

/-- where neither process can step both have finished -/
theorem stop_final {c : Cfg} (hv : c.Valid) {payload : List α} {K total wk rk : Nat} {s : Sys α}
    (hi : SInv c payload K s) (hw : stepWriter c total wk s = none) (hr : stepReader c rk (some K) s = none) :
    s.rpc = .done ∧ (s.wpc = .closed ∨ s.wpc = .failed) := by
  have hwsome : s.wpc = .run → False := by
    intro e
    obtain ⟨s', hs⟩ := stepW_run_some c s (wReq total wk s) e
    simp [stepWriter, Sys.step, hs] at hw
  have hrd : s.rpc = .done := by
    cases hrp : s.rpc with
    | done => rfl
    | run =>
      exfalso
      unfold stepReader at hr
      simp only at hr
      split at hr
      · simp [Sys.stepRClose, hrp] at hr
      · obtain ⟨s', hs⟩ := stepR_run_some s (min (if rk = 0 then 1024 else rk) (K - s.received.length)) hrp
        simp [Sys.step, hs] at hr
    | wait =>
      exfalso
      have hnr : s.pipe.readyR = false := by
        by_cases e : s.pipe.readyR = true
        · obtain ⟨s', hs⟩ := stepR_wait_some s (min (if rk = 0 then 1024 else rk) (K - s.received.length)) hrp e
          unfold stepReader at hr
          simp [hrp, Sys.step, hs] at hr
        · simpa using e
      rw [Bool.eq_false_iff, Ne, readyR_iff] at hnr
      have hwne : s.pipe.writers ≠ 0 := by omega
      have hc0 : s.pipe.content.length = 0 := by omega
      have hwr := hi.wr
      cases hwp : s.wpc with
      | run => exact hwsome hwp
      | wait =>
        have hrw : s.pipe.readyW c = true := by
          rw [readyW_iff]
          have := hv.2
          omega
        obtain ⟨s', hs⟩ := stepW_wait_some c s (wReq total wk s) hwp hrw
        simp [stepWriter, Sys.step, hs] at hw
      | closed => simp [hwp] at hwr; omega
      | failed => simp [hwp] at hwr; omega
  refine ⟨hrd, ?_⟩
  cases hwp : s.wpc with
  | run => exact (hwsome hwp).elim
  | wait =>
    have hrw : s.pipe.readyW c = true := by
      rw [readyW_iff]
      left
      have := hi.rd
      simpa [hrd] using this
    obtain ⟨s', hs⟩ := stepW_wait_some c s (wReq total wk s) hwp hrw
    simp [stepWriter, Sys.step, hs] at hw
  | closed => exact Or.inl rfl
  | failed => exact Or.inr rfl

end YashModel.Pipe
