/-
  C14 — termination of the concurrent n-stage chain (Chain.lean): a position-weighted byte count plus
  readiness-dependent process costs that every step of every process strictly lowers.
  (Property theorems are in Theorems.lean.)
-/
import YashModel.Pipe.ChainLemmas
import YashModel.Pipe.Progress
set_option linter.unusedSimpArgs false
namespace YashModel.Pipe

variable {α : Type}

/-- cost of a forwarding stage's control state, given whether its input is ready for reading and its output
    ready for writing -/
def fcost : FPc → Bool → Bool → Nat
  | .rd, _, _ => 5
  | .rwait, true, _ => 6
  | .rwait, false, _ => 4
  | .wr, _, _ => 6
  | .wwait, _, true => 7
  | .wwait, _, false => 5
  | .closed, _, _ => 0
  | .failed, _, _ => 0

theorem fcost_shiftR (pc : FPc) (a a' b : Bool) : fcost pc a' b ≤ fcost pc a b + 2 := by
  cases pc <;> cases a <;> cases a' <;> cases b <;> simp [fcost]

theorem fcost_shiftW (pc : FPc) (a b b' : Bool) : fcost pc a b' ≤ fcost pc a b + 2 := by
  cases pc <;> cases a <;> cases b <;> cases b' <;> simp [fcost]

/-- weight of one byte in the input pipe of the first process of the chain: 3 in front of the sink, 7 more per
    forwarding stage (4 to reach `hold`, 3 to reach the next pipe) -/
def Chain.wt : Chain α → Nat
  | .sink _ _ _ => 3
  | .fwd _ _ _ rest => rest.wt + 7

/-- everything but the bytes of the first input pipe -/
def Chain.cost (c : Cfg) : Chain α → Nat
  | .sink inp _ pc => rcostOf pc inp.readyR
  | .fwd inp hold pc rest =>
      fcost pc inp.readyR (rest.inp.readyW c) + (rest.wt + 3) * hold.length +
        rest.wt * rest.inp.content.length + rest.cost c

/-- every step of every process strictly lowers this number -/
def Chain.measure (c : Cfg) (s : Chain α) : Nat := s.wt * s.inp.content.length + s.cost c

@[simp] theorem Chain.inp_sink (inp : Fifo α) (r : List α) (pc : RPc) : (Chain.sink inp r pc).inp = inp := rfl
@[simp] theorem Chain.inp_fwd (inp : Fifo α) (h : List α) (pc : FPc) (rest : Chain α) :
    (Chain.fwd inp h pc rest).inp = inp := rfl
theorem Chain.wt_sink (inp : Fifo α) (r : List α) (pc : RPc) : (Chain.sink inp r pc).wt = 3 := rfl
theorem Chain.wt_fwd (inp : Fifo α) (h : List α) (pc : FPc) (rest : Chain α) :
    (Chain.fwd inp h pc rest).wt = rest.wt + 7 := rfl
theorem Chain.cost_sink (c : Cfg) (inp : Fifo α) (r : List α) (pc : RPc) :
    (Chain.sink inp r pc).cost c = rcostOf pc inp.readyR := rfl
theorem Chain.cost_fwd (c : Cfg) (inp : Fifo α) (h : List α) (pc : FPc) (rest : Chain α) :
    (Chain.fwd inp h pc rest).cost c = fcost pc inp.readyR (rest.inp.readyW c) + (rest.wt + 3) * h.length +
        rest.wt * rest.inp.content.length + rest.cost c := rfl

theorem Chain.mapInp_wt (s : Chain α) (f : Fifo α → Fifo α) : (s.mapInp f).wt = s.wt := by
  cases s <;> rfl

/-- changing the first input pipe changes the cost by at most the readiness shift of the first process -/
theorem Chain.mapInp_cost (c : Cfg) (s : Chain α) (f : Fifo α → Fifo α) :
    (s.mapInp f).cost c ≤ s.cost c + 2 := by
  cases s with
  | sink inp r pc =>
    have := rcostOf_shift pc inp.readyR (f inp).readyR
    simpa [Chain.mapInp, Chain.cost] using this
  | fwd inp hold pc rest =>
    have := fcost_shiftR pc inp.readyR (f inp).readyR (rest.inp.readyW c)
    simp only [Chain.mapInp, Chain.cost]
    omega

/-- what a step guarantees to the process on its left: the measure drops, and by at least 3 when the first
    input pipe's readiness for writing may have changed -/
def Drop (c : Cfg) (s s' : Chain α) : Prop :=
  s'.wt = s.wt ∧ s'.measure c + 1 ≤ s.measure c ∧
    (s'.inp.readyW c = s.inp.readyW c ∨ s'.measure c + 3 ≤ s.measure c)

theorem take_ne_nil {l : List α} {k : Nat} (hk : 1 ≤ k) (h : l ≠ []) : l.take k ≠ [] := by
  cases l with
  | nil => exact absurd rfl h
  | cons a t =>
    cases k with
    | zero => omega
    | succ m => simp

theorem sinkStep_drop {c : Cfg} {inp : Fifo α} {r : List α} {pc : RPc} {n : Nat} {s' : Chain α} (hn : 1 ≤ n)
    (h : sinkStep inp r pc n = some s') : Drop c (.sink inp r pc) s' := by
  unfold sinkStep at h
  split at h
  next =>
    split at h
    next p hrd =>
      have ⟨_, _, hc, hw⟩ := read_block hrd
      simp only [Option.some.injEq] at h
      subst h
      have hnr : inp.readyR = false := by
        rw [Bool.eq_false_iff]
        intro hh
        rw [readyR_iff] at hh
        simp [hc] at hh
        omega
      refine ⟨rfl, ?_, Or.inl rfl⟩
      simp [Chain.measure, Chain.cost_sink, Chain.cost_fwd, Chain.inp_sink, Chain.inp_fwd, Chain.wt_sink, Chain.wt_fwd, hnr, rcostOf]
    next bs p hrd =>
      have ⟨hbs, hp, hw0⟩ := read_data hn hrd
      split at h
      next he =>
        have hbs0 : bs = [] := by simpa using he
        have hc : inp.content = [] := take_nil_of_pos hn (by rw [← hbs, hbs0])
        simp only [Option.some.injEq] at h
        subst h
        subst hp
        refine ⟨rfl, ?_, Or.inr ?_⟩ <;>
          simp [Chain.measure, Chain.cost_sink, Chain.cost_fwd, Chain.inp_sink, Chain.inp_fwd, Chain.wt_sink, Chain.wt_fwd, rcostOf, Fifo.closeFd, hc]
      next he =>
        have hbl : 1 ≤ bs.length := by
          cases bs with
          | nil => simp at he
          | cons a t => simp
        simp only [Option.some.injEq] at h
        subst h
        have hpl : p.content.length + 1 ≤ inp.content.length := by
          rw [hbs, List.length_take] at hbl
          rw [hp]
          simp only [List.length_drop]
          omega
        refine ⟨rfl, ?_, Or.inr ?_⟩ <;>
          (simp only [Chain.measure, Chain.cost_sink, Chain.cost_fwd, Chain.inp_sink, Chain.inp_fwd, Chain.wt_sink, Chain.wt_fwd, rcostOf]; omega)
  next =>
    split at h
    next hrr =>
      simp only [Option.some.injEq] at h
      subst h
      refine ⟨rfl, ?_, Or.inl rfl⟩
      simp [Chain.measure, Chain.cost_sink, Chain.cost_fwd, Chain.inp_sink, Chain.inp_fwd, Chain.wt_sink, Chain.wt_fwd, hrr, rcostOf]
    next => simp at h
  next => simp at h

theorem fwdStep_drop {c : Cfg} (hv : c.Valid) {inp : Fifo α} {hold : List α} {pc : FPc} {rest : Chain α}
    {n k : Nat} {s' : Chain α} (hn : 1 ≤ n) (hk : 1 ≤ k) (hi : (Chain.fwd inp hold pc rest).Inv)
    (h : fwdStep c inp hold pc rest n k = some s') : Drop c (.fwd inp hold pc rest) s' := by
  obtain ⟨hv1, hv2⟩ := hv
  simp only [Chain.Inv] at hi
  obtain ⟨h1, h2, h3, h4, h5, h6⟩ := hi
  unfold fwdStep at h
  split at h
  next =>
    -- rd
    have hh : hold = [] := h5 (Or.inl rfl)
    split at h
    next p hrd =>
      have ⟨_, _, hc, hw⟩ := read_block hrd
      simp only [Option.some.injEq] at h
      subst h
      have hnr : inp.readyR = false := by
        rw [Bool.eq_false_iff]
        intro hh
        rw [readyR_iff] at hh
        simp [hc] at hh
        omega
      refine ⟨rfl, ?_, Or.inl rfl⟩
      simp only [Chain.measure, Chain.cost_sink, Chain.cost_fwd, Chain.inp_sink, Chain.inp_fwd, Chain.wt_sink, Chain.wt_fwd, hnr, fcost]
      omega
    next bs p hrd =>
      have ⟨hbs, hp, hw0⟩ := read_data hn hrd
      split at h
      next he =>
        have hbs0 : bs = [] := by simpa using he
        have hc : inp.content = [] := take_nil_of_pos hn (by rw [← hbs, hbs0])
        simp only [Option.some.injEq] at h
        subst h
        subst hp
        have hcost := Chain.mapInp_cost c rest (·.closeFd false true)
        have hwt := Chain.mapInp_wt rest (·.closeFd false true)
        have hinp : (rest.mapInp (·.closeFd false true)).inp.content = rest.inp.content := by
          rw [Chain.mapInp_inp]; rfl
        generalize rest.mapInp (·.closeFd false true) = r' at hcost hwt hinp ⊢
        refine ⟨by simp [Chain.wt_fwd, hwt], ?_, Or.inr ?_⟩ <;>
          (simp only [Chain.measure, Chain.cost_fwd, Chain.inp_fwd, Chain.wt_fwd, hwt, hinp, Fifo.closeFd, fcost,
             hc, hh, List.length_nil, List.drop_nil, Nat.mul_zero]
           omega)
      next he =>
        have hbl : 1 ≤ bs.length := by
          cases bs with
          | nil => simp at he
          | cons a t => simp
        simp only [Option.some.injEq] at h
        subst h
        have hpl : inp.content.length = p.content.length + bs.length := by
          rw [hbs, hp]
          simp only [List.length_drop, List.length_take]
          omega
        refine ⟨rfl, ?_, Or.inr ?_⟩ <;>
          (simp only [Chain.measure, Chain.cost_sink, Chain.cost_fwd, Chain.inp_sink, Chain.inp_fwd, Chain.wt_sink, Chain.wt_fwd, fcost, hh, hpl, List.length_nil,
            Nat.mul_zero, Nat.mul_add, Nat.add_mul]; omega)
  next =>
    -- rwait
    split at h
    next hrr =>
      simp only [Option.some.injEq] at h
      subst h
      refine ⟨rfl, ?_, Or.inl rfl⟩
      simp only [Chain.measure, Chain.cost_sink, Chain.cost_fwd, Chain.inp_sink, Chain.inp_fwd, Chain.wt_sink, Chain.wt_fwd, hrr, fcost]
      omega
    next => simp at h
  next =>
    -- wr
    split at h
    next he =>
      simp only [Option.some.injEq] at h
      subst h
      refine ⟨rfl, ?_, Or.inl rfl⟩
      simp only [Chain.measure, Chain.cost_sink, Chain.cost_fwd, Chain.inp_sink, Chain.inp_fwd, Chain.wt_sink, Chain.wt_fwd, fcost]
      omega
    next he =>
      have hne : hold ≠ [] := by simpa using he
      have hne' : hold.take k ≠ [] := take_ne_nil hk hne
      have hlive : rest.headDone = false := by
        cases hd : rest.headDone with
        | false => rfl
        | true =>
          have := (h6.head_done hd).2.1
          simp [this] at h2
      have hrd1 := h6.head_live hlive
      split at h
      next p hwr =>
        have ⟨hr0, _⟩ := write_epipe hwr
        omega
      next p hwr =>
        have ⟨_, hr, hroom, hor⟩ := write_block hwr
        simp only [Option.some.injEq] at h
        subst h
        have hnr : rest.inp.readyW c = false := by
          rw [Bool.eq_false_iff]
          intro hh
          rw [readyW_iff] at hh
          unfold Fifo.room at hroom hor
          have := List.length_take_le k hold
          omega
        refine ⟨rfl, ?_, Or.inl rfl⟩
        simp only [Chain.measure, Chain.cost_sink, Chain.cost_fwd, Chain.inp_sink, Chain.inp_fwd, Chain.wt_sink, Chain.wt_fwd, hnr, fcost]
        omega
      next w p hwr =>
        have ⟨hr, hp, hw, hroom, hw1, _⟩ := write_wrote hwr
        have hw1 : 1 ≤ w := hw1 hne'
        have hlen : w ≤ hold.length := by
          have := List.length_take_le' k hold
          omega
        have hcost := Chain.mapInp_cost c rest (fun _ => p)
        have hwt := Chain.mapInp_wt rest (fun _ => p)
        have hinp := Chain.mapInp_inp rest (fun _ => p)
        have hpl : p.content.length = rest.inp.content.length + w := by
          rw [hp]
          rw [List.length_take] at hw
          simp only [List.length_append, List.length_take]
          omega
        have hhl : hold.length = (hold.drop w).length + w := by
          simp only [List.length_drop]
          omega
        split at h
        next hw0 => omega
        next hw0 =>
          simp only [Option.some.injEq] at h
          subst h
          refine ⟨by simp [Chain.wt_fwd, hwt], ?_, Or.inl rfl⟩
          simp only [Chain.measure, Chain.cost_sink, Chain.cost_fwd, Chain.inp_sink, Chain.inp_fwd, Chain.wt_sink, Chain.wt_fwd, fcost, hwt, hinp, hpl]
          rw [hhl]
          simp only [Nat.mul_add, Nat.add_mul]
          omega
  next =>
    -- wwait
    split at h
    next hrr =>
      simp only [Option.some.injEq] at h
      subst h
      refine ⟨rfl, ?_, Or.inl rfl⟩
      simp only [Chain.measure, Chain.cost_sink, Chain.cost_fwd, Chain.inp_sink, Chain.inp_fwd, Chain.wt_sink, Chain.wt_fwd, hrr, fcost]
      omega
    next => simp at h
  next => simp at h
  next => simp at h

/-- ★ every step of every process of a chain that satisfies the invariant strictly lowers the measure -/
theorem Chain.step_drop {c : Cfg} (hv : c.Valid) {s s' : Chain α} {i n k : Nat} (hn : 1 ≤ n) (hk : 1 ≤ k)
    (hi : s.Inv) (h : s.step c i n k = some s') : Drop c s s' := by
  induction s generalizing i s' with
  | sink inp r pc =>
    cases i with
    | zero => exact sinkStep_drop hn (by simpa [Chain.step] using h)
    | succ j => simp [Chain.step] at h
  | fwd inp hold pc rest ih =>
    cases i with
    | zero => exact fwdStep_drop hv hn hk hi (by simpa [Chain.step] using h)
    | succ j =>
      simp only [Chain.step, Option.map_eq_some_iff] at h
      obtain ⟨r', hr', rfl⟩ := h
      simp only [Chain.Inv] at hi
      obtain ⟨hwt, hm, hor⟩ := ih hi.2.2.2.2.2 hr'
      have hsh := fcost_shiftW pc inp.readyR (rest.inp.readyW c) (r'.inp.readyW c)
      refine ⟨by simp [Chain.wt_fwd, hwt], ?_, Or.inl rfl⟩
      simp only [Chain.measure, Chain.cost_sink, Chain.cost_fwd, Chain.inp_sink, Chain.inp_fwd, Chain.wt_sink, Chain.wt_fwd, hwt] at hm hor ⊢
      rcases hor with hsame | h3
      · rw [hsame]
        omega
      · omega

theorem Chain.idle_wt (m : Nat) : (Chain.idle m : Chain α).wt = 7 * m + 3 := by
  induction m with
  | zero => rfl
  | succ m ih => simp only [Chain.idle, Chain.wt, ih]; omega

theorem Chain.idle_cost (c : Cfg) (m : Nat) : (Chain.idle m : Chain α).cost c = 5 * m + 3 := by
  induction m with
  | zero => simp [Chain.idle, Chain.cost, rcostOf]
  | succ m ih => simp only [Chain.idle, Chain.cost, fcost, ih, Chain.idle_inp, List.length_nil, Nat.mul_zero]; omega

/-- the measure of the initial state -/
theorem Chain.init_measure (c : Cfg) (m : Nat) (pre post : List α) :
    (Chain.init m pre post).measure c =
      (7 * m + 10) * post.length + (7 * m + 6) * pre.length + 5 * m + 9 := by
  simp only [Chain.init, Chain.measure, Chain.cost_fwd, Chain.wt_fwd, Chain.inp_fwd, fcost, Chain.idle_wt,
    Chain.idle_cost, Chain.idle_inp, List.length_nil, Nat.mul_zero]
  rw [show 7 * m + 3 + 7 = 7 * m + 10 by omega, show 7 * m + 3 + 3 = 7 * m + 6 by omega]
  omega

/-- executions of the chain: `n` steps, any process and any sizes ≥ 1 at each -/
inductive CExec (c : Cfg) : Chain α → Nat → Chain α → Prop
  | refl (s : Chain α) : CExec c s 0 s
  | step {s s' s'' : Chain α} {n : Nat} (i nn k : Nat) :
      1 ≤ nn → 1 ≤ k → s.step c i nn k = some s' → CExec c s' n s'' → CExec c s (n + 1) s''

theorem CExec.bound {c : Cfg} (hv : c.Valid) {m : Nat} {pre post : List α} {s0 s1 : Chain α} {n : Nat}
    (hr : CReach c m pre post s0) (he : CExec c s0 n s1) : n + s1.measure c ≤ s0.measure c := by
  induction he with
  | refl => omega
  | step i nn k hn hk hs _ ih =>
    have h1 := (Chain.step_drop hv hn hk hr.inv.1 hs).2.1
    have h2 := ih (CReach.step i nn k hr hn hk hs)
    omega

/-- the driver's executor with fuel ≥ the measure stops only where no process can step -/
theorem chainRun_stops {c : Cfg} (hv : c.Valid) {m : Nat} {pre post : List α} {n k : Nat} (hn : 1 ≤ n) (hk : 1 ≤ k)
    (fuel x : Nat) (s : Chain α) (hr : CReach c m pre post s) (hf : s.measure c ≤ fuel) :
    ∀ j, j < m + 2 → (chainRun c n k fuel x s).step c j n k = none := by
  induction fuel generalizing x s with
  | zero =>
    intro j _
    simp only [chainRun]
    cases hs : s.step c j n k with
    | none => rfl
    | some s' =>
      have := (Chain.step_drop hv hn hk hr.inv.1 hs).2.1
      omega
  | succ fuel ih =>
    unfold chainRun
    simp only
    split
    next s' hs =>
      obtain ⟨i, hi⟩ := chainPick_step hs
      have := (Chain.step_drop hv hn hk hr.inv.1 hi).2.1
      exact ih _ _ (CReach.step i n k hr hn hk hi) (by omega)
    next hs =>
      intro j hj
      exact chainPick_none hs j (by rw [hr.inv.2.2.2]; exact hj)

theorem chain_fuel_enough (m L : Nat) :
    (7 * m + 10) * 0 + (7 * m + 6) * L + 5 * m + 9 ≤ (m + 2) * (12 * L + 200) := by
  have e1 : (7 * m + 6) * L = 7 * (m * L) + 6 * L := by rw [Nat.add_mul, Nat.mul_assoc]
  have e2 : (m + 2) * (12 * L + 200) = 12 * (m * L) + m * 200 + (2 * (12 * L) + 2 * 200) := by
    rw [Nat.add_mul, Nat.mul_add, Nat.mul_add, Nat.mul_left_comm m 12 L]
  rw [e1, e2]
  omega

end YashModel.Pipe
