/-
  C14 — helper lemmas for File.lean (regular-file reads, UTF-8 length).
-/
import YashModel.Pipe.File
namespace YashModel.Pipe

theorem take_add_min {α : Type} (l : List α) (n s : Nat) :
    l.take n ++ (l.drop (min n l.length)).take s = l.take (n + s) := by
  by_cases h : n ≤ l.length
  · rw [Nat.min_eq_left h, List.take_add]
  · have h' : l.length ≤ n := by omega
    rw [Nat.min_eq_right h', List.drop_length, List.take_nil, List.append_nil,
      List.take_of_length_le h', List.take_of_length_le (by omega)]

theorem reads_spec (o : RegOfd) (ns : List Nat) :
    (o.reads ns).1 = (o.content.drop o.offset).take ns.sum ∧
    (o.reads ns).2 = { o with offset := o.offset + ((o.content.drop o.offset).take ns.sum).length } := by
  induction ns generalizing o with
  | nil => simp [RegOfd.reads]
  | cons n ns ih =>
    have h := ih (o.read n).2
    simp only [RegOfd.reads, List.sum_cons]
    rw [h.1, h.2]
    simp only [RegOfd.read, List.length_take, List.length_drop, ← List.drop_drop]
    have key := take_add_min (o.content.drop o.offset) n ns.sum
    simp only [List.length_drop] at key
    constructor
    · exact key
    · congr 1
      have := congrArg List.length key
      simp only [List.length_append, List.length_take, List.length_drop] at this
      omega

theorem utf8_length_ge (cs : List Char) : cs.length ≤ (utf8 cs).length := by
  induction cs with
  | nil => simp [utf8]
  | cons c t ih =>
    have := Char.utf8Size_pos c
    simp only [utf8, List.flatMap_cons, List.length_append, String.length_utf8EncodeChar, List.length_cons] at ih ⊢
    omega

theorem utf8_length_gt (cs : List Char) (h : ∃ c ∈ cs, 2 ≤ c.utf8Size) : cs.length < (utf8 cs).length := by
  induction cs with
  | nil => simp at h
  | cons c t ih =>
    simp only [utf8, List.flatMap_cons, List.length_append, String.length_utf8EncodeChar, List.length_cons]
    obtain ⟨x, hx, h2⟩ := h
    cases hx with
    | head =>
      have := utf8_length_ge t
      simp only [utf8] at this
      omega
    | tail _ hm =>
      have := ih ⟨x, hm, h2⟩
      have := Char.utf8Size_pos c
      simp only [utf8] at *
      omega

theorem utf8_length_ascii (cs : List Char) (h : ∀ c ∈ cs, c.utf8Size = 1) : (utf8 cs).length = cs.length := by
  induction cs with
  | nil => simp [utf8]
  | cons c t ih =>
    have h1 := h c List.mem_cons_self
    have := ih (fun x hx => h x (List.mem_cons_of_mem c hx))
    simp only [utf8, List.flatMap_cons, List.length_append, String.length_utf8EncodeChar, List.length_cons] at this ⊢
    omega

theorem readCharBytes_ascii (b : UInt8) (rest : List UInt8) (h : b < 0x80) :
    readCharBytes b rest = some ([b], rest) := by
  simp [readCharBytes, utf8SeqLen, h]

theorem readLine_raw_ascii (line rest acc : List UInt8) (h : ∀ b ∈ line, b < 0x80 ∧ b ≠ 10)
    (fuel : Nat) (hf : line.length < fuel) :
    readLine true fuel (line ++ 10 :: rest) acc = .line (acc ++ line) true rest := by
  induction line generalizing fuel acc with
  | nil =>
    cases fuel with
    | zero => simp at hf
    | succ f =>
      simp [readLine, readCharBytes_ascii 10 rest (by decide)]
  | cons b t ih =>
    cases fuel with
    | zero => simp at hf
    | succ f =>
      have hb := h b List.mem_cons_self
      have ht : ∀ x ∈ t, x < 0x80 ∧ x ≠ 10 := fun x hx => h x (List.mem_cons_of_mem b hx)
      have hlen : t.length < f := by simp at hf; omega
      simp only [List.cons_append, readLine, readCharBytes_ascii b _ hb.1]
      have h1 : ([b] = [10]) = False := by simp [hb.2]
      simp only [h1, if_false, Bool.not_true, Bool.false_eq_true, and_false]
      rw [ih (acc ++ [b]) ht f hlen]
      simp

end YashModel.Pipe
